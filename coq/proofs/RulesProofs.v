(* RulesProofs.v — C12: the constraint the writer emits means, to protovalidate,
   exactly what the j5s declaration says; for all values.
   Three layers: (1) boolean decision procedures for the declarative spec
   (model/RulesSpec.v) with their reflection lemmas; (2) the validator model on
   the writer's output equals the decision procedure (for evaluable
   declarations) and is an error otherwise; (3) the statements. *)
From Coq Require Import String List NArith ZArith Bool Lia ZifyN ZifyNat ZifyBool.
From J5V.lib Require Import Outcome.
From J5V.model Require Import RulesDecl RulesWrite RulesSpec Validate RulesSpecDec Id62.
From J5V.gen Require Id62Gen.
From J5V.proofs Require Id62Proofs.
Import ListNotations.
Local Open Scope Z_scope.

(* ---------------------------------------------------------------- strings *)
Lemma str_eqb_eq a b : str_eqb a b = true <-> a = b.
Proof.
  revert b. induction a as [|x r IH]; intros [|y s]; cbn; split; intro H; try congruence.
  - apply andb_true_iff in H as [Hx Hr]. apply N.eqb_eq in Hx. apply IH in Hr. congruence.
  - inversion H; subst. rewrite N.eqb_refl. cbn. apply IH. reflexivity.
Qed.
Lemma str_eqb_refl a : str_eqb a a = true.
Proof. apply str_eqb_eq. reflexivity. Qed.
Lemma str_eqb_sym a b : str_eqb a b = str_eqb b a.
Proof.
  destruct (str_eqb a b) eqn:E.
  - apply str_eqb_eq in E. subst. symmetry. apply str_eqb_refl.
  - destruct (str_eqb b a) eqn:E2; [|reflexivity].
    apply str_eqb_eq in E2. subst. rewrite str_eqb_refl in E. discriminate.
Qed.

Lemma has_prefix_app p x : has_prefix p (p ++ x) = true.
Proof. induction p as [|c r IH]; cbn; [reflexivity|]. rewrite N.eqb_refl. exact IH. Qed.

Lemma with_prefix_idem env n : with_prefix env (with_prefix env n) = with_prefix env n.
Proof.
  unfold with_prefix. destruct (has_prefix (ee_prefix env) n) eqn:E.
  - rewrite E. reflexivity.
  - rewrite has_prefix_app. reflexivity.
Qed.

Lemma mem_str_In s l : mem_str s l = true <-> In s l.
Proof.
  unfold mem_str. rewrite existsb_exists. split.
  - intros [x [Hin Hx]]. apply str_eqb_eq in Hx. subst. exact Hin.
  - intro H. exists s. split; [exact H|apply str_eqb_refl].
Qed.
Lemma memZ_In z l : memZ z l = true <-> In z l.
Proof.
  unfold memZ. rewrite existsb_exists. split.
  - intros [x [Hin Hx]]. apply Z.eqb_eq in Hx. subst. exact Hin.
  - intro H. exists z. split; [exact H|apply Z.eqb_refl].
Qed.

(* ---------------------------------------------------------------- integers *)
Lemma cast_id k z : bound_ok k z = true -> cast k z = z.
Proof.
  destruct k; cbn [bound_ok cast]; intro H;
    apply andb_true_iff in H as [H1 H2]; apply Z.leb_le in H1; apply Z.ltb_lt in H2.
  - unfold wrap_signed.
    change (2 ^ 32) with 4294967296 in *. change (2 ^ (32 - 1)) with 2147483648 in *.
    change (2 ^ 31) with 2147483648 in *.
    destruct (Z_lt_dec z 0) as [Hn|Hp].
    + assert (E : z mod 4294967296 = z + 4294967296).
      { symmetry. apply (Z.mod_unique z 4294967296 (-1)); lia. }
      rewrite E. destruct (Z.ltb_spec (z + 4294967296) 2147483648); lia.
    + rewrite Z.mod_small by lia. destruct (Z.ltb_spec z 2147483648); lia.
  - reflexivity.
  - apply Z.mod_small. lia.
  - apply Z.mod_small. change (2 ^ 64) with 18446744073709551616.
    change (2 ^ 63) with 9223372036854775808 in H2. lia.
Qed.

(* integer rules the compiler accepts: bounds representable in the format,
   minimum <= maximum (checkIntegerBounds) *)
Definition int_adm (k : ikind) (r : int_rules) : bool :=
  opt_bound_ok k (ir_min r) && opt_bound_ok k (ir_max r) &&
  match ir_min r, ir_max r with Some a, Some b => a <=? b | _, _ => true end.

(* what a successful write_int_rules tells *)
Lemma write_int_ok k r c :
  write_int_rules k r = Ok c ->
  int_adm k r = true /\
  c = CInt k
        (match ir_max r with None => NoUb | Some m => if is_true (ir_xmax r) then Lt (cast k m) else Lte (cast k m) end)
        (match ir_min r with None => NoLb | Some m => if is_true (ir_xmin r) then Gt (cast k m) else Gte (cast k m) end).
Proof.
  intro Hw. unfold write_int_rules in Hw. unfold int_adm.
  destruct r as [mn mx xmn xmx]. cbn [ir_min ir_max ir_xmin ir_xmax] in *.
  assert (Hw2 : (if negb (opt_bound_ok k mn) then Err "minimum out of range"
                 else if negb (opt_bound_ok k mx) then Err "maximum out of range"
                 else if match mn, mx with Some a, Some b => b <? a | _, _ => false end
                 then Err "minimum is greater than maximum"
                 else Ok (CInt k
                   (match mx with None => NoUb | Some m => if is_true xmx then Lt (cast k m) else Lte (cast k m) end)
                   (match mn with None => NoLb | Some m => if is_true xmn then Gt (cast k m) else Gte (cast k m) end))) = Ok c).
  { destruct xmn as [[|]|], mn, xmx as [[|]|], mx; try discriminate; exact Hw. }
  clear Hw.
  destruct (opt_bound_ok k mn); cbn [negb] in Hw2; [|discriminate].
  destruct (opt_bound_ok k mx); cbn [negb] in Hw2; [|discriminate].
  destruct (match mn, mx with Some a, Some b => b <? a | _, _ => false end) eqn:E; [discriminate|].
  split; [|congruence].
  cbn [andb]. destruct mn as [a|], mx as [b|]; try reflexivity.
  apply Z.ltb_ge in E. apply Z.leb_le. exact E.
Qed.


(* ================================================================ layer 1 *)
(* boolean decision procedures for model/RulesSpec.v, each with its reflection lemma *)

(* ---------------------------------------------------------------- bounds *)

Lemma is_true_flag o : is_true o = true <-> flag_set o.
Proof. unfold flag_set. destruct o as [[|]|]; cbn; split; intro H; congruence. Qed.

Lemma int_rule_ok_spec r z : int_rule_ok r z = true <-> int_sem r z.
Proof.
  unfold int_rule_ok, int_sem. destruct r as [mn mx xmn xmx]; cbn [ir_min ir_max ir_xmin ir_xmax].
  rewrite andb_true_iff.
  assert (Hlo : forall (mn : option Z) (xmn : option bool) (lt le : Z -> Z -> bool) (Plt Ple : Z -> Z -> Prop),
             (forall a b, lt a b = true <-> Plt a b) -> (forall a b, le a b = true <-> Ple a b) ->
             (match mn with None => true | Some m => if is_true xmn then lt m z else le m z end = true <->
              forall m, mn = Some m -> (flag_set xmn -> Plt m z) /\ (~ flag_set xmn -> Ple m z))).
  { clear. intros mn xmn lt le Plt Ple Hlt Hle. destruct mn as [a|].
    - destruct (is_true xmn) eqn:E.
      + apply is_true_flag in E. rewrite Hlt. split.
        * intros H m Hm. inversion Hm; subst. split; [auto|tauto].
        * intros H. apply (H a eq_refl). exact E.
      + assert (Hn : ~ flag_set xmn) by (intro Hf; apply is_true_flag in Hf; congruence).
        rewrite Hle. split.
        * intros H m Hm. inversion Hm; subst. split; [tauto|auto].
        * intros H. apply (H a eq_refl). exact Hn.
    - split; [intros _ m Hm; discriminate|reflexivity]. }
  rewrite (Hlo mn xmn Z.ltb Z.leb Z.lt Z.le Z.ltb_lt Z.leb_le).
  rewrite (Hlo mx xmx (fun m z => Z.ltb z m) (fun m z => Z.leb z m) (fun m z => z < m) (fun m z => z <= m)
             (fun a b => Z.ltb_lt b a) (fun a b => Z.leb_le b a)).
  reflexivity.
Qed.

Lemma int_sem_b rm defined k r c z :
  write_int_rules k r = Ok c ->
  eval_scalar rm defined c (VInt z) = int_rule_ok r z.
Proof.
  intro Hw. apply write_int_ok in Hw as [Hadm Hc]. subst c.
  destruct r as [mn mx xmn xmx]. cbn [ir_min ir_max ir_xmin ir_xmax] in *.
  unfold int_adm in Hadm. cbn [ir_min ir_max] in Hadm.
  apply andb_true_iff in Hadm as [Hadm Hord]. apply andb_true_iff in Hadm as [Hrmn Hrmx].
  cbn [eval_scalar]. unfold int_rule_ok. cbn [ir_min ir_max ir_xmin ir_xmax].
  destruct mn as [a|], mx as [b|]; cbn [opt_bound_ok] in *;
    try rewrite (cast_id k a Hrmn); try rewrite (cast_id k b Hrmx);
    destruct (is_true xmn), (is_true xmx); cbn [int_ok];
    try (apply Z.leb_le in Hord);
    repeat match goal with
           | |- context [?x <=? ?y] => destruct (Z.leb_spec x y)
           | |- context [?x <? ?y] => destruct (Z.ltb_spec x y)
           end; cbn; try reflexivity; try lia.
Qed.

(* ---------------------------------------------------------------- lengths, counts *)

Lemma within_spec lo hi n : within_b lo hi n = true <-> within lo hi n.
Proof.
  unfold within_b, within, opt_leN, opt_geN. rewrite andb_true_iff.
  destruct lo as [a|], hi as [b|]; rewrite ?N.leb_le; split.
  all: try (intros [H1 H2]; split; intros m Hm; inversion Hm; subst; assumption).
  all: try (intros [H1 H2]; split; try reflexivity; first [apply H1|apply H2]; reflexivity).
  all: try (intros _; split; intros m Hm; discriminate).
Qed.

(* the validator's string length: the number of code points *)
Lemma rune_count_enc1 c : filter (fun b => negb (is_cont b)) (utf8_enc1 c) = [hd 0%N (utf8_enc1 c)].
Proof.
  unfold utf8_enc1.
  assert (Hc : forall x, is_cont (128 + x mod 64) = true).
  { intro x. unfold is_cont. pose proof (N.mod_upper_bound x 64 ltac:(discriminate)).
    apply andb_true_iff. split; [apply N.leb_le|apply N.ltb_lt]; lia. }
  assert (Hf : forall k q, (192 <= k)%N -> is_cont (k + q) = false).
  { intros k q Hk. unfold is_cont. apply andb_false_iff. right. apply N.ltb_ge. lia. }
  destruct (N.ltb_spec c 128) as [H1|H1].
  - cbn [filter hd]. unfold is_cont. destruct (N.leb_spec 128 c); [lia|]. reflexivity.
  - destruct (N.ltb_spec c 2048) as [H2|H2].
    + cbn [filter hd]. rewrite Hc, Hf by lia. reflexivity.
    + destruct (N.ltb_spec c 65536) as [H3|H3]; cbn [filter hd]; rewrite !Hc, Hf by lia; reflexivity.
Qed.

Lemma cel_size_len s : cel_size s = len s.
Proof.
  unfold cel_size, rune_count, utf8_enc, len. f_equal.
  induction s as [|c r IH]; [reflexivity|].
  cbn [flat_map]. rewrite filter_app, app_length, IH, rune_count_enc1. reflexivity.
Qed.

(* ---------------------------------------------------------------- uuid, id62 *)
Lemma is_hex_spec c : is_hex c = true <-> hex_digit c.
Proof.
  unfold is_hex, hex_digit. rewrite !orb_true_iff, !andb_true_iff, !N.leb_le. tauto.
Qed.

Lemma take_hex_spec n : forall s r,
  take_hex n s = Some r <-> exists a, s = a ++ r /\ length a = n /\ Forall hex_digit a.
Proof.
  induction n as [|n IH]; intros s r; cbn [take_hex].
  - split.
    + intro H. inversion H; subst. exists []. split; [reflexivity|]. split; [reflexivity|constructor].
    + intros [a [Hs [Hl _]]]. destruct a; [|discriminate]. subst. reflexivity.
  - destruct s as [|c t].
    + split; [discriminate|]. intros [a [Hs [Hl _]]]. destruct a; discriminate.
    + destruct (is_hex c) eqn:E.
      * rewrite IH. split.
        -- intros [a [Hs [Hl Hf]]]. exists (c :: a). subst. split; [reflexivity|]. split; [reflexivity|].
           constructor; [apply is_hex_spec; exact E|exact Hf].
        -- intros [a [Hs [Hl Hf]]]. destruct a as [|c' a]; [discriminate|].
           inversion Hs; subst. inversion Hf; subst. exists a. split; [reflexivity|].
           split; [cbn in Hl; congruence|assumption].
      * split; [discriminate|]. intros [a [Hs [Hl Hf]]]. destruct a as [|c' a]; [discriminate|].
        inversion Hs; subst. inversion Hf as [|? ? Hc _]; subst. apply is_hex_spec in Hc. congruence.
Qed.

Lemma take_dash_spec s r : take_dash s = Some r <-> s = 45%N :: r.
Proof.
  unfold take_dash. destruct s as [|c t]; [split; discriminate|].
  destruct (N.eqb_spec c 45).
  - subst. split; intro H; inversion H; reflexivity.
  - split; [discriminate|]. intro H; inversion H; congruence.
Qed.

Lemma uuid_regex_spec s : uuid_regex s = true <-> uuid_text s.
Proof.
  unfold uuid_regex, uuid_text. split.
  - destruct (take_hex 8 s) as [s1|] eqn:E1; cbn [obnd]; [|discriminate].
    destruct (take_dash s1) as [s2|] eqn:D1; cbn [obnd]; [|discriminate].
    destruct (take_hex 4 s2) as [s3|] eqn:E2; cbn [obnd]; [|discriminate].
    destruct (take_dash s3) as [s4|] eqn:D2; cbn [obnd]; [|discriminate].
    destruct (take_hex 4 s4) as [s5|] eqn:E3; cbn [obnd]; [|discriminate].
    destruct (take_dash s5) as [s6|] eqn:D3; cbn [obnd]; [|discriminate].
    destruct (take_hex 4 s6) as [s7|] eqn:E4; cbn [obnd]; [|discriminate].
    destruct (take_dash s7) as [s8|] eqn:D4; cbn [obnd]; [|discriminate].
    destruct (take_hex 12 s8) as [[|? ?]|] eqn:E5; try discriminate. intros _.
    apply take_hex_spec in E1 as [a [Ha [La Fa]]]. apply take_dash_spec in D1.
    apply take_hex_spec in E2 as [b [Hb [Lb Fb]]]. apply take_dash_spec in D2.
    apply take_hex_spec in E3 as [c [Hc [Lc Fc]]]. apply take_dash_spec in D3.
    apply take_hex_spec in E4 as [d [Hd [Ld Fd]]]. apply take_dash_spec in D4.
    apply take_hex_spec in E5 as [e [He [Le Fe]]].
    exists a, b, c, d, e. subst. rewrite app_nil_r. repeat split; try assumption.
    repeat (apply Forall_app; split); assumption.
  - intros [a [b [c [d [e [Hs [La [Lb [Lc [Ld [Le Hf]]]]]]]]]]].
    apply Forall_app in Hf as [Fa Hf]. apply Forall_app in Hf as [Fb Hf].
    apply Forall_app in Hf as [Fc Hf]. apply Forall_app in Hf as [Fd Fe].
    subst s.
    assert (H1 : forall n x rest, length x = n -> Forall hex_digit x -> take_hex n (x ++ rest) = Some rest).
    { intros n x rest Hl Hx. apply take_hex_spec. exists x. auto. }
    rewrite (H1 8%nat a _ La Fa). cbn [obnd app take_dash N.eqb Pos.eqb].
    rewrite (H1 4%nat b _ Lb Fb). cbn [obnd app take_dash N.eqb Pos.eqb].
    rewrite (H1 4%nat c _ Lc Fc). cbn [obnd app take_dash N.eqb Pos.eqb].
    rewrite (H1 4%nat d _ Ld Fd). cbn [obnd app take_dash N.eqb Pos.eqb].
    rewrite <- (app_nil_r e). rewrite (H1 12%nat e [] Le Fe). reflexivity.
Qed.

Lemma uuid_regex_nil : uuid_regex [] = false.
Proof. reflexivity. Qed.


Lemma alnum_b_spec c : alnum_b c = true <-> alnum c.
Proof. unfold alnum_b, alnum. rewrite !orb_true_iff, !andb_true_iff, !N.leb_le. tauto. Qed.

Lemma forallb_Forall {A} (f : A -> bool) (P : A -> Prop) (l : list A) :
  (forall x, f x = true <-> P x) -> (forallb f l = true <-> Forall P l).
Proof.
  intro H. induction l as [|x r IH]; cbn [forallb].
  - split; [constructor|reflexivity].
  - rewrite andb_true_iff, IH, H. split.
    + intros [H1 H2]. constructor; assumption.
    + intro H0. inversion H0; auto.
Qed.

Lemma id62_ok_spec s : id62_ok s = true <-> id62_text s.
Proof.
  unfold id62_ok, id62_text. rewrite andb_true_iff, Nat.eqb_eq.
  rewrite (forallb_Forall alnum_b alnum s alnum_b_spec). reflexivity.
Qed.

(* the class-count matcher of C20 decides the published id62 pattern as the spec reads it *)
Lemma class_count_id62 s : re_class_count Id62Gen.pattern_string s = id62_ok s.
Proof.
  unfold re_class_count. rewrite Id62Proofs.pattern_parsed. unfold matches, id62_ok. cbn [fst snd].
  f_equal.
  - destruct (Nat.eqb_spec (length s) 22) as [E|E].
    + rewrite E. reflexivity.
    + apply N.eqb_neq. lia.
  - induction s as [|c r IH]; [reflexivity|]. cbn [forallb]. rewrite IH. f_equal.
    unfold in_class, Id62Proofs.id62_class, alnum_b. cbn [existsb fst snd].
    rewrite orb_false_r. rewrite orb_assoc. reflexivity.
Qed.

(* ---------------------------------------------------------------- uniqueness *)

Lemma value_eqb_sym a b : value_eqb a b = value_eqb b a.
Proof.
  destruct a, b; cbn; try reflexivity.
  - apply Z.eqb_sym.
  - apply str_eqb_sym.
  - apply str_eqb_sym.
  - destruct b0, b; reflexivity.
  - apply Z.eqb_sym.
  - unfold f_eq. rewrite (N.eqb_sym bits bits0), (andb_comm (negb (f_nan bits))), (andb_comm (f_abs bits =? 0)%N). reflexivity.
  - apply N.eqb_sym.
Qed.

Lemma unique_scan_spec vs : forall seen,
  unique_scan seen vs =
  forallb (fun v => negb (existsb (value_eqb v) seen)) vs && distinct vs.
Proof.
  induction vs as [|v r IH]; intro seen; cbn [unique_scan forallb distinct]; [reflexivity|].
  destruct (existsb (value_eqb v) seen) eqn:E; cbn [negb andb]; [reflexivity|].
  rewrite IH. cbn [existsb].
  assert (H : forallb (fun v0 => negb (value_eqb v0 v || existsb (value_eqb v0) seen)) r =
              negb (existsb (value_eqb v) r) && forallb (fun v0 => negb (existsb (value_eqb v0) seen)) r).
  { clear. induction r as [|w r IH]; cbn [forallb existsb]; [reflexivity|].
    rewrite IH. rewrite (value_eqb_sym w v).
    destruct (value_eqb v w), (existsb (value_eqb w) seen), (existsb (value_eqb v) r); reflexivity. }
  rewrite H.
  destruct (existsb (value_eqb v) r), (forallb (fun v0 => negb (existsb (value_eqb v0) seen)) r), (distinct r); reflexivity.
Qed.

Lemma unique_scan_distinct vs : unique_scan [] vs = distinct vs.
Proof.
  rewrite unique_scan_spec.
  replace (forallb (fun v => negb (existsb (value_eqb v) [])) vs) with true; [reflexivity|].
  symmetry. apply forallb_forall. intros; reflexivity.
Qed.


(* ---------------------------------------------------------------- uniqueness *)

Lemma f_nan_spec x : f_nan x = true <-> float_nan x.
Proof. unfold f_nan, float_nan, f_abs. apply N.ltb_lt. Qed.

Lemma f_eq_spec x y : f_eq x y = true <-> same_number x y.
Proof.
  unfold f_eq, same_number, float_zero, f_abs.
  rewrite !andb_true_iff, orb_true_iff, andb_true_iff, !negb_true_iff, !N.eqb_eq.
  rewrite <- !not_true_iff_false, !f_nan_spec. unfold f_abs. tauto.
Qed.

Lemma value_eqb_spec a b : value_eqb a b = true <-> same_item a b.
Proof.
  destruct a, b; cbn [value_eqb same_item]; try (split; [discriminate|intro H; discriminate H]).
  - rewrite Z.eqb_eq. split; intro H; [subst|inversion H]; reflexivity.
  - rewrite str_eqb_eq. split; intro H; [subst|inversion H]; reflexivity.
  - rewrite str_eqb_eq. split; intro H; [subst|inversion H]; reflexivity.
  - destruct b0, b; cbn; split; intro H; try reflexivity; try discriminate; inversion H.
  - rewrite Z.eqb_eq. split; intro H; [subst|inversion H]; reflexivity.
  - apply f_eq_spec.
  - rewrite N.eqb_eq. split; intro H; [subst|inversion H]; reflexivity.
Qed.

Lemma all_different_cons v r :
  all_different (v :: r) <-> (forall b, In b r -> ~ same_item v b) /\ all_different r.
Proof.
  unfold all_different. split.
  - intro H. split.
    + intros b Hin. apply In_nth_error in Hin as [j Hj].
      apply (H O (S j) v b); [lia|reflexivity|exact Hj].
    + intros i j a b Hij Ha Hb. apply (H (S i) (S j) a b); [lia|exact Ha|exact Hb].
  - intros [H1 H2] i j a b Hij Ha Hb. destruct j as [|j]; [lia|]. cbn in Hb.
    destruct i as [|i]; cbn in Ha.
    + inversion Ha; subst. apply H1. eapply nth_error_In; eauto.
    + apply (H2 i j a b); [lia|exact Ha|exact Hb].
Qed.

Lemma distinct_spec vs : distinct vs = true <-> all_different vs.
Proof.
  induction vs as [|v r IH]; cbn [distinct].
  - split; [|reflexivity]. intros _ i j a b _ Ha. destruct i; discriminate.
  - rewrite all_different_cons, andb_true_iff, IH, negb_true_iff.
    rewrite <- not_true_iff_false, existsb_exists. split.
    + intros [H1 H2]. split; [|exact H2]. intros b Hin Hs. apply H1. exists b. split; [exact Hin|].
      apply value_eqb_spec. exact Hs.
    + intros [H1 H2]. split; [|exact H2]. intros [b [Hin Hb]]. apply (H1 b Hin). apply value_eqb_spec. exact Hb.
Qed.

(* without floats, "all different" is NoDup *)
Lemma all_different_NoDup vs :
  existsb is_float_value vs = false -> (all_different vs <-> NoDup vs).
Proof.
  induction vs as [|v r IH]; intro Hf.
  - split; [constructor|]. intros _ i j a b _ Ha. destruct i; discriminate.
  - cbn [existsb] in Hf. apply orb_false_iff in Hf as [Hv Hr].
    rewrite all_different_cons, (IH Hr). split.
    + intros [H1 H2]. constructor; [|exact H2]. intro Hin. apply (H1 v Hin).
      destruct v; try reflexivity. discriminate.
    + intro H. inversion H as [|? ? Hnin Hnd]; subst. split; [|exact Hnd].
      intros b Hin Hs. apply Hnin.
      assert (v = b) by (destruct v, b; try exact Hs; try discriminate). subst. exact Hin.
Qed.


(* ---------------------------------------------------------------- enums: deciding the spec *)
(* full name of the option with number n (n >= 1) *)



(* ---------------------------------------------------------------- enums *)
(* full names of the enum's values that a rule can name: the explicit zero option, the options *)
Definition zero_full (env : enum_env) : list str :=
  match ee_zero env with Some z => [with_prefix env z] | None => [] end.
Definition fulls (env : enum_env) : list str := zero_full env ++ map (with_prefix env) (ee_options env).

Fixpoint nodup_str (l : list str) : bool :=
  match l with
  | [] => true
  | x :: r => negb (mem_str x r) && nodup_str r
  end.
Lemma nodup_str_NoDup l : nodup_str l = true -> NoDup l.
Proof.
  induction l as [|x r IH]; cbn; intro H; [constructor|].
  apply andb_true_iff in H as [H1 H2]. constructor; [|apply IH; exact H2].
  intro Hin. apply mem_str_In in Hin. rewrite Hin in H1. discriminate.
Qed.

(* the enum's value names are pairwise different (protobuf requires it) *)
Definition wf_env (env : enum_env) : bool := nodup_str (fulls env).

Lemma wf_env_parts env :
  wf_env env = true ->
  NoDup (map (with_prefix env) (ee_options env)) /\
  (forall z, ee_zero env = Some z -> ~ In (with_prefix env z) (map (with_prefix env) (ee_options env))).
Proof.
  intro H. apply nodup_str_NoDup in H. unfold fulls, zero_full in H.
  destruct (ee_zero env) as [z0|].
  - cbn [app] in H. inversion H as [|? ? Hn Hd]; subst. split; [exact Hd|].
    intros z Hz. inversion Hz; subst. exact Hn.
  - split; [exact H|]. intros z Hz. discriminate.
Qed.

Lemma lookup_from_some env opts : forall i nm z,
  lookup_from env opts i nm = Some z ->
  exists k o, nth_error opts k = Some o /\ z = i + Z.of_nat k /\ with_prefix env o = nm.
Proof.
  induction opts as [|o r IH]; intros i nm z H; cbn in H; [discriminate|].
  destruct (lookup_from env r (i + 1) nm) as [n|] eqn:E.
  - inversion H; subst. apply IH in E as [k [o' [Hn [Hz Hp]]]].
    exists (S k), o'. repeat split; [exact Hn|lia|exact Hp].
  - destruct (str_eqb (with_prefix env o) nm) eqn:E2; [|discriminate].
    inversion H; subst. apply str_eqb_eq in E2.
    exists O, o. repeat split; [lia|exact E2].
Qed.

Lemma lookup_from_none env opts : forall i nm,
  lookup_from env opts i nm = None -> ~ In nm (map (with_prefix env) opts).
Proof.
  induction opts as [|o r IH]; intros i nm H; cbn in *; [tauto|].
  destruct (lookup_from env r (i + 1) nm) eqn:E; [discriminate|].
  destruct (str_eqb (with_prefix env o) nm) eqn:E2; [discriminate|].
  intros [Heq|Hin].
  - subst. rewrite str_eqb_refl in E2. discriminate.
  - eapply IH; eauto.
Qed.

Lemma lookup_from_nth env opts : forall i k o,
  NoDup (map (with_prefix env) opts) -> nth_error opts k = Some o ->
  lookup_from env opts i (with_prefix env o) = Some (i + Z.of_nat k).
Proof.
  induction opts as [|o' r IH]; intros i k o Hnd Hn; [destruct k; discriminate|].
  cbn [map] in Hnd. inversion Hnd as [|? ? Hnotin Hnd']; subst.
  destruct k as [|k]; cbn in Hn.
  - inversion Hn; subst. cbn [lookup_from].
    destruct (lookup_from env r (i + 1) (with_prefix env o)) eqn:E.
    + apply lookup_from_some in E as [k' [o'' [Hn' [_ Hp]]]].
      exfalso. apply Hnotin. rewrite <- Hp. apply in_map. eapply nth_error_In; eauto.
    + rewrite str_eqb_refl. f_equal. lia.
  - cbn [lookup_from]. rewrite (IH (i + 1) k o Hnd' Hn). f_equal. lia.
Qed.

Lemma option_name_spec env n nm :
  option_name env n = Some nm <->
  (exists o, 1 <= n /\ nth_error (ee_options env) (Z.to_nat (n - 1)) = Some o /\ nm = with_prefix env o)
  \/ (n = 0 /\ exists z, ee_zero env = Some z /\ nm = with_prefix env z).
Proof.
  unfold option_name. destruct (Z.eqb_spec n 0) as [E0|E0].
  - subst n. split.
    + destruct (ee_zero env) as [z|]; [|discriminate]. intro H; inversion H; subst. right.
      split; [reflexivity|]. exists z. split; reflexivity.
    + intros [[o [H1 _]]|[_ [z [Hz Hnm]]]]; [lia|]. rewrite Hz. congruence.
  - split.
    + destruct ((1 <=? n) && (n <=? Z.of_nat (length (ee_options env)))) eqn:E; [|discriminate].
      apply andb_true_iff in E as [E1 E2]. apply Z.leb_le in E1.
      destruct (nth_error (ee_options env) (Z.to_nat (n - 1))) as [o|] eqn:En; [|discriminate].
      intro H; inversion H; subst. left. exists o. auto.
    + intros [[o [H1 [Hn Hnm]]]|[Hz _]]; [|contradiction].
      assert (Hlt : (Z.to_nat (n - 1) < length (ee_options env))%nat).
      { apply nth_error_Some. congruence. }
      destruct (Z.leb_spec 1 n); [|lia]. destruct (Z.leb_spec n (Z.of_nat (length (ee_options env)))); [|lia].
      cbn. rewrite Hn. subst. reflexivity.
Qed.

Lemma map_values_forall2 env names : forall zs,
  map_values env names = Ok zs -> Forall2 (fun nm z => map_value env nm = Some z) names zs.
Proof.
  induction names as [|nm r IH]; intros zs H; cbn in H.
  - inversion H. constructor.
  - destruct (map_value env nm) as [z|] eqn:E; [|discriminate].
    destruct (map_values env r) as [zr| | |] eqn:Er; cbn in H; try discriminate.
    inversion H; subst. constructor; [exact E|apply IH; reflexivity].
Qed.

Lemma Forall2_in_r {A B} (R : A -> B -> Prop) l l' y :
  Forall2 R l l' -> In y l' -> exists x, In x l /\ R x y.
Proof.
  induction 1 as [|a b r r' Hab Hr IH]; intro Hin; [destruct Hin|].
  destruct Hin as [Heq|Hin].
  - subst. exists a. split; [left; reflexivity|exact Hab].
  - destruct (IH Hin) as [x [Hx HR]]. exists x. split; [right; exact Hx|exact HR].
Qed.
Lemma Forall2_in_l {A B} (R : A -> B -> Prop) l l' x :
  Forall2 R l l' -> In x l -> exists y, In y l' /\ R x y.
Proof.
  induction 1 as [|a b r r' Hab Hr IH]; intro Hin; [destruct Hin|].
  destruct Hin as [Heq|Hin].
  - subst. exists b. split; [left; reflexivity|exact Hab].
  - destruct (IH Hin) as [y [Hy HR]]. exists y. split; [right; exact Hy|exact HR].
Qed.

(* the number a name is mapped to is the number of the option of that full name ... *)
Lemma map_value_name env name z :
  map_value env name = Some z -> option_name env z = Some (with_prefix env name).
Proof.
  unfold map_value. intro H.
  destruct (lookup_from env (ee_options env) 1 (with_prefix env name)) as [n|] eqn:E.
  - inversion H; subst n. apply lookup_from_some in E as [k [o [Hk [Hz Hp]]]].
    apply option_name_spec. left. exists o. split; [lia|]. split; [|congruence].
    replace (Z.to_nat (z - 1)) with k by lia. exact Hk.
  - destruct (ee_zero env) as [zn|] eqn:Ez; [|discriminate].
    destruct (str_eqb (with_prefix env zn) (with_prefix env name)) eqn:Es; [|discriminate].
    inversion H; subst z. apply str_eqb_eq in Es.
    apply option_name_spec. right. split; [reflexivity|]. exists zn. split; [exact Ez|congruence].
Qed.

(* ... and, the value names being pairwise different, conversely *)
Lemma name_map_value env name n :
  wf_env env = true ->
  option_name env n = Some (with_prefix env name) -> map_value env name = Some n.
Proof.
  intros Hwf H. apply wf_env_parts in Hwf as [Hnd Hz]. unfold map_value.
  apply option_name_spec in H as [[o [H1 [Hn Hnm]]]|[H0 [z [Hzn Hnm]]]].
  - rewrite Hnm. rewrite (lookup_from_nth env (ee_options env) 1 (Z.to_nat (n - 1)) o Hnd Hn).
    f_equal. lia.
  - subst n. destruct (lookup_from env (ee_options env) 1 (with_prefix env name)) as [m|] eqn:E.
    + exfalso. apply lookup_from_some in E as [k [o [Hk [_ Hp]]]].
      apply (Hz z Hzn). rewrite <- Hnm, <- Hp. apply in_map. eapply nth_error_In; eauto.
    + rewrite Hzn, Hnm, str_eqb_refl. reflexivity.
Qed.

(* a number is among the mapped ones iff its option name is among the listed names *)
Lemma mapped_mem env names zs n :
  wf_env env = true -> map_values env names = Ok zs ->
  memZ n zs = match option_name env n with
              | Some nm => mem_str nm (names_full env names)
              | None => false
              end.
Proof.
  intros Hwf Hm. apply map_values_forall2 in Hm.
  destruct (option_name env n) as [nm|] eqn:Eo.
  - apply eq_true_iff_eq. rewrite memZ_In, mem_str_In. unfold names_full. rewrite in_map_iff. split.
    + intro Hin. destruct (Forall2_in_r _ _ _ _ Hm Hin) as [name [Hname Hv]].
      exists name. split; [|exact Hname]. apply map_value_name in Hv. congruence.
    + intros [name [Hp Hname]]. destruct (Forall2_in_l _ _ _ _ Hm Hname) as [z [Hz Hv]].
      rewrite <- Hp in Eo. rewrite (name_map_value env name n Hwf Eo) in Hv. inversion Hv; subst. exact Hz.
  - destruct (memZ n zs) eqn:E; [|reflexivity]. exfalso.
    apply memZ_In in E. destruct (Forall2_in_r _ _ _ _ Hm E) as [name [_ Hv]].
    apply map_value_name in Hv. congruence.
Qed.

Lemma option_name_defined env n nm :
  option_name env n = Some nm -> memZ n (defined_numbers env) = true.
Proof.
  intro H. apply memZ_In. unfold defined_numbers.
  apply option_name_spec in H as [[o [H1 [Hn _]]]|[H0 _]]; [|left; auto].
  right. assert (Hlt : (Z.to_nat (n - 1) < length (ee_options env))%nat) by (apply nth_error_Some; congruence).
  apply in_map_iff. exists (Z.to_nat n). split; [lia|]. apply in_seq. lia.
Qed.


Lemma and_iff2 (A B C D : Prop) : (A <-> B) -> (C <-> D) -> (A /\ C <-> B /\ D).
Proof. tauto. Qed.

Lemma has_prefix_spec p s : has_prefix p s = true <-> exists rest, s = p ++ rest.
Proof.
  revert s. induction p as [|x r IH]; intro s; cbn [has_prefix].
  - split; [intros _; exists s; reflexivity|reflexivity].
  - destruct s as [|y t].
    + split; [discriminate|]. intros [rest H]. discriminate.
    + rewrite andb_true_iff, N.eqb_eq, IH. split.
      * intros [Hx [rest Hr]]. subst. exists rest. reflexivity.
      * intros [rest H]. inversion H; subst. split; [reflexivity|]. exists rest. reflexivity.
Qed.

Lemma full_name_spec env x f : full_name env x f <-> f = with_prefix env x.
Proof.
  unfold full_name, with_prefix. destruct (has_prefix (ee_prefix env) x) eqn:E.
  - apply has_prefix_spec in E. split.
    + intros [[_ H]|[Hn _]]; [exact H|contradiction].
    + intro H. left. auto.
  - assert (Hn : ~ exists rest, x = ee_prefix env ++ rest).
    { intro H. apply has_prefix_spec in H. congruence. }
    split.
    + intros [[Hp _]|[_ H]]; [contradiction|exact H].
    + intro H. right. auto.
Qed.

Lemma names_value_spec env name n :
  names_value env name n <-> option_name env n = Some (with_prefix env name).
Proof.
  rewrite option_name_spec. unfold names_value. split.
  - intros [[i [o [f [Hn [Hi [Ho Hf]]]]]]|[H0 [z [f [Hz [Ho Hf]]]]]].
    + apply full_name_spec in Ho, Hf. subst. left.
      exists o. split; [lia|]. split; [|congruence].
      replace (Z.to_nat (Z.of_nat (S i) - 1)) with i by lia. exact Hn.
    + apply full_name_spec in Ho, Hf. subst. right. split; [reflexivity|]. exists z. split; [exact Hz|congruence].
  - intros [[o [H1 [Hn Hf]]]|[H0 [z [Hz Hf]]]].
    + left. exists (Z.to_nat (n - 1)), o, (with_prefix env o).
      split; [exact Hn|]. split; [lia|]. split; apply full_name_spec; [reflexivity|symmetry; exact Hf].
    + right. split; [exact H0|]. exists z, (with_prefix env z).
      split; [exact Hz|]. split; apply full_name_spec; [reflexivity|symmetry; exact Hf].
Qed.

Lemma defined_value_spec env n : memZ n (defined_numbers env) = true <-> defined_value env n.
Proof.
  rewrite memZ_In. unfold defined_numbers, defined_value. cbn [In]. split.
  - intros [H|H]; [left; auto|]. right.
    apply in_map_iff in H as [k [Hk Hin]]. apply in_seq in Hin.
    destruct (nth_error (ee_options env) (k - 1)) as [o|] eqn:E.
    + exists (k - 1)%nat, o. split; [exact E|lia].
    + apply nth_error_None in E. lia.
  - intros [H|[i [o [Hn Hi]]]]; [left; auto|]. right.
    apply in_map_iff. exists (S i). split; [auto|]. apply in_seq.
    assert (i < length (ee_options env))%nat by (apply nth_error_Some; congruence). lia.
Qed.

Lemma enum_ok_spec env r n : enum_ok env r n = true <-> enum_sem env r n.
Proof.
  unfold enum_ok, enum_sem. rewrite andb_true_iff, defined_value_spec.
  apply and_iff_compat_l. destruct r as [r|]; [|tauto].
  unfold enum_rule_ok. rewrite andb_true_iff. apply and_iff2.
  - destruct (er_in r) as [|i0 ir] eqn:Ein.
    + split; [intros _ H; congruence|reflexivity].
    + rewrite <- Ein. split.
      * intros H _. destruct (option_name env n) as [nm|] eqn:Eo; [|discriminate].
        apply mem_str_In in H. unfold names_full in H. apply in_map_iff in H as [name [Hn Hin]].
        exists name. split; [exact Hin|]. apply names_value_spec. congruence.
      * intro H. destruct H as [name [Hin Hv]]; [rewrite Ein; discriminate|].
        apply names_value_spec in Hv. rewrite Hv. apply mem_str_In. unfold names_full.
        apply in_map. exact Hin.
  - destruct (option_name env n) as [nm|] eqn:Eo.
    + rewrite negb_true_iff, <- not_true_iff_false, mem_str_In. unfold names_full. split.
      * intros H name Hin Hv. apply names_value_spec in Hv. apply H. apply in_map_iff.
        exists name. split; [congruence|exact Hin].
      * intros H Hin. apply in_map_iff in Hin as [name [Hn Hin]]. apply (H name Hin).
        apply names_value_spec. congruence.
    + split; [|reflexivity]. intros _ name _ Hv. apply names_value_spec in Hv. congruence.
Qed.

(* ---------------------------------------------------------------- one value against its type *)
Section Decide.
(* the engine's matcher decides the declared meaning of patterns *)
Variable re_match : str -> str -> bool.
Variable pat_sem : str -> str -> Prop.
Hypothesis re_dec : forall p s, re_match p s = true <-> pat_sem p s.
Local Notation str_rule_ok := (RulesSpecDec.str_rule_ok re_match).
Local Notation key_ok := (RulesSpecDec.key_ok re_match).
Local Notation ty_ok := (RulesSpecDec.ty_ok re_match).
Local Notation rule_semb := (RulesSpecDec.rule_semb re_match).
Local Notation rule_objb := (RulesSpecDec.rule_objb re_match).


Lemma str_rule_ok_spec r s : str_rule_ok r s = true <-> str_sem pat_sem r s.
Proof.
  unfold str_rule_ok, str_sem. rewrite andb_true_iff, within_spec. apply and_iff_compat_l.
  destruct (sr_pat r) as [p|]; split; intro H.
  - intros p' Hp. inversion Hp; subst. apply re_dec. exact H.
  - apply re_dec. apply H. reflexivity.
  - intros p' Hp. discriminate.
  - reflexivity.
Qed.



Lemma key_ok_spec f s : key_ok f s = true <-> key_sem pat_sem f s.
Proof.
  destruct f; cbn [key_ok key_sem]; [tauto|apply re_dec|apply uuid_regex_spec|apply id62_ok_spec].
Qed.


Lemma ty_ok_spec env t v : ty_ok env t v = true <-> ty_sem pat_sem env t v.
Proof.
  destruct t as [k r l|sf r l|r|r l|r l|f e l|f64 fr l|r l|r l|tr l|od ts l|rn fl orl|rn orr l], v; cbn [ty_ok ty_sem];
    try tauto;
    try (destruct r as [r|]); try (destruct f as [f|]); try tauto;
    first [ apply int_rule_ok_spec | apply str_rule_ok_spec | apply within_spec | apply enum_ok_spec
          | apply key_ok_spec | (destruct r as [c|]; [rewrite eqb_true_iff; tauto|tauto]) | (destruct r; tauto) ].
Qed.

(* ---------------------------------------------------------------- presence *)
Lemma is_zero_spec v : is_zero v = true <-> default_value v.
Proof.
  destruct v; cbn [is_zero default_value].
  - apply Z.eqb_eq.
  - destruct s; split; congruence.
  - destruct b; split; congruence.
  - destruct b; cbn; split; congruence.
  - apply Z.eqb_eq.
  - apply N.eqb_eq.
  - split; [discriminate|tauto].
Qed.

Lemma is_msg_ty_spec t : is_msg_ty t = true <-> message_typed t.
Proof. destruct t; cbn; split; intro H; try discriminate; try tauto; try reflexivity. Qed.

Lemma is_primary_ty_spec t : is_primary_ty t = true <-> primary_key t.
Proof.
  destruct t as [k r l|sf r l|r|r l|r l|f e l|f64 fr l|r l|r l|tr l|od ts l|rn fl orl|rn orr l]; cbn; try (split; [discriminate|tauto]).
  destruct e as [[ty tn]|]; cbn; [|split; [discriminate|tauto]].
  destruct ty as [[[|]|p n]|]; split; intro H; try discriminate; try reflexivity; inversion H.
Qed.

Lemma must_b_spec d : must_b d = true <-> must_be_set d.
Proof.
  unfold must_b, must_be_set. rewrite orb_true_iff. apply or_iff_compat_l.
  destruct (p_ty d); [apply is_primary_ty_spec| |]; split; [discriminate|tauto|discriminate|tauto].
Qed.

Lemma nonempty_spec {A} (l : list A) : nonempty l = true <-> l <> [].
Proof. destruct l; cbn; split; congruence. Qed.

(* ---------------------------------------------------------------- a property *)

Lemma if_must d (b : bool) (P : Prop) :
  (b = true <-> P) -> ((if must_b d then b else true) = true <-> (must_be_set d -> P)).
Proof.
  intro H. destruct (must_b d) eqn:E.
  - apply must_b_spec in E. rewrite H. tauto.
  - assert (~ must_be_set d) by (intro Hm; apply must_b_spec in Hm; congruence). tauto.
Qed.

Lemma opt_rule {A} (r : option A) (f : A -> bool) (P : A -> Prop) :
  (forall a, f a = true <-> P a) ->
  (match r with Some a => f a | None => true end = true <-> forall a, r = Some a -> P a).
Proof.
  intro H. destruct r as [a|]; split; intro H0.
  - intros a' Ha. inversion Ha; subst. apply H. exact H0.
  - apply H. apply H0. reflexivity.
  - intros a Ha. discriminate.
  - reflexivity.
Qed.

Lemma arr_rule_ok_spec r vs : arr_rule_ok r vs = true <-> arr_sem r vs.
Proof.
  unfold arr_rule_ok, arr_sem. rewrite andb_true_iff, within_spec. apply and_iff_compat_l.
  destruct (is_true (ar_uniq r)) eqn:E.
  - apply is_true_flag in E. rewrite distinct_spec. tauto.
  - assert (~ flag_set (ar_uniq r)) by (intro Hf; apply is_true_flag in Hf; congruence). tauto.
Qed.

Theorem rule_semb_spec env d fv : rule_semb env d fv = true <-> rule_sem pat_sem env d fv.
Proof.
  unfold rule_semb, rule_sem. destruct (p_ty d) as [t|r sf t|r t], fv as [|v|vs|kvs]; try tauto.
  - rewrite negb_true_iff, <- not_true_iff_false, must_b_spec. tauto.
  - rewrite andb_true_iff, ty_ok_spec. apply and_iff2; [|tauto].
    apply if_must. rewrite !orb_true_iff, negb_true_iff, <- not_true_iff_false, is_zero_spec, is_msg_ty_spec.
    unfold own_presence. tauto.
  - rewrite !andb_true_iff, <- and_assoc.
    rewrite (forallb_Forall (ty_ok env t) (ty_sem pat_sem env t) vs (ty_ok_spec env t)).
    rewrite (if_must d (nonempty vs) (vs <> []) (nonempty_spec vs)).
    rewrite (opt_rule r (fun r => arr_rule_ok r vs) (fun r => arr_sem r vs) (fun a => arr_rule_ok_spec a vs)).
    tauto.
  - rewrite !andb_true_iff, <- and_assoc.
    rewrite (forallb_Forall (fun kv => ty_ok env t (snd kv)) (fun kv => ty_sem pat_sem env t (snd kv)) kvs
               (fun kv => ty_ok_spec env t (snd kv))).
    rewrite (if_must d (nonempty kvs) (kvs <> []) (nonempty_spec kvs)).
    rewrite (opt_rule r (fun r => within_b (mr_min r) (mr_max r) (count kvs)) (fun r => map_sem r kvs)
               (fun a => within_spec (mr_min a) (mr_max a) (count kvs))).
    tauto.
Qed.


Lemma rule_objb_spec env ds : forall fvs, rule_objb env ds fvs = true <-> rule_obj pat_sem env ds fvs.
Proof.
  unfold rule_obj. induction ds as [|d r IH]; intros [|v s]; cbn [rule_objb].
  - split; [constructor|reflexivity].
  - split; [discriminate|intro H; inversion H].
  - split; [discriminate|intro H; inversion H].
  - rewrite andb_true_iff, rule_semb_spec, IH. split.
    + intros [H1 H2]. constructor; assumption.
    + intro H. inversion H; auto.
Qed.

End Decide.

(* ================================================================ layer 2 *)
(* the validator model on what the writer emits *)
Definition elem_ty (t : pty) : fty := match t with PSingle t | PArray _ _ t | PMap _ t => t end.

(* the enum's value names are pairwise different (protobuf requires it): wf_env, above *)

(* entity.primaryKey only on a singular key property: "It is only valid in the
   keys object of an entity" (schema.proto); inside an array or a map it has no
   declared meaning *)
Definition key_placement_ok (d : prop) : bool :=
  match p_ty d with
  | PSingle _ => true
  | PArray _ _ t | PMap _ t => negb (is_primary_ty t)
  end.

Definition unique_on_messages (d : prop) : bool :=
  match p_ty d with
  | PArray (Some r) _ t => is_true (ar_uniq r) && is_msg_ty t
  | _ => false
  end.

(* ---- the two-valued core of the validator model, and where the errors are ---- *)
Section Core.
Variable re_ok : str -> bool.
Variable re_match : str -> str -> bool.

Definition eval_tyc_b (defined : list Z) (t : tyc) (fv : fvalue) : bool :=
  match t, fv with
  | CRep mn mx uq items, FMany vs =>
      opt_leN mn (N.of_nat (length vs)) && opt_geN mx (N.of_nat (length vs))
      && (if is_true uq then unique_scan [] vs else true)
      && match items with
         | Some it => forallb (eval_scalar re_match defined it) vs
         | None => true
         end
  | CMap mn mx values, FMap kvs =>
      opt_leN mn (N.of_nat (length kvs)) && opt_geN mx (N.of_nat (length kvs))
      && match values with
         | Some vt => forallb (fun kv => eval_scalar re_match defined vt (snd kv)) kvs
         | None => true
         end
  | _, FOne v => eval_scalar re_match defined t v
  | _, _ => true
  end.

Definition validate_b (defined : list Z) (o : fout) (fv0 : fvalue) : bool :=
  match fo_val o with
  | None => true
  | Some c =>
      let fv := got o fv0 in
      let has := populated o fv in
      if c_req c && negb has then false
      else if has_presence o && negb has then true
      else match c_ty c with
           | Some t => eval_tyc_b defined t fv
           | None => true
           end
  end.

(* repeated.unique on a non-empty list of messages *)
Definition runtime_fails (o : fout) (fv : fvalue) : bool :=
  match fo_val o, fv with
  | Some c, FMany vs =>
      match c_ty c with
      | Some (CRep _ _ uq _) => is_true uq && existsb is_msg_value vs
      | _ => false
      end
  | _, _ => false
  end.

Lemma eval_tyc_split defined t fv :
  eval_tyc re_match defined t fv =
  match t, fv with
  | CRep _ _ uq _, FMany vs =>
      if is_true uq && existsb is_msg_value vs then VError ERuntime else of_bool (eval_tyc_b defined t fv)
  | _, _ => of_bool (eval_tyc_b defined t fv)
  end.
Proof. destruct t, fv; reflexivity. Qed.

(* the validator model = compile error | runtime error | the two-valued core *)
Lemma validate_sem_split defined o fv :
  validate_sem re_ok re_match defined o fv =
  if negb (field_compiles re_ok o) then VError ECompile
  else if runtime_fails o fv then VError ERuntime
  else of_bool (validate_b defined o fv).
Proof.
  unfold validate_sem, validate_b, runtime_fails.
  destruct (field_compiles re_ok o); cbn [negb]; [|reflexivity].
  destruct (fo_val o) as [c|]; [|destruct fv; reflexivity].
  destruct fv as [|v|vs|kvs].
  - unfold got, populated. destruct (has_presence o) eqn:Ep.
    + cbn [negb andb]. rewrite ?andb_true_r. destruct (c_req c); reflexivity.
    + cbn [andb].
      destruct (c_req c && negb (negb (is_zero (zero_value (fo_kind o))))); [reflexivity|].
      destruct (c_ty c) as [t|]; [|reflexivity]. rewrite eval_tyc_split. destruct t; reflexivity.
  - cbn [got]. destruct (c_req c && negb (populated o (FOne v))); [reflexivity|].
    destruct (has_presence o && negb (populated o (FOne v))); [reflexivity|].
    destruct (c_ty c) as [t|]; [|reflexivity]. rewrite eval_tyc_split. destruct t; reflexivity.
  - cbn [got]. destruct vs as [|v0 vr].
    + cbn [populated negb existsb]. rewrite !andb_true_r.
      assert (Hrf : match c_ty c with Some (CRep _ _ uq _) => is_true uq && false | _ => false end = false).
      { destruct (c_ty c) as [[]|]; try reflexivity. apply andb_false_r. }
      rewrite Hrf. destruct (c_req c); [reflexivity|]. destruct (has_presence o); [reflexivity|].
      destruct (c_ty c) as [t|]; [|reflexivity]. rewrite eval_tyc_split.
      destruct t; try reflexivity. cbn [existsb]. rewrite andb_false_r. reflexivity.
    + cbn [populated negb]. rewrite !andb_false_r.
      destruct (c_ty c) as [t|]; [|reflexivity]. rewrite eval_tyc_split. destruct t; reflexivity.
  - cbn [got]. destruct (c_req c && negb (populated o (FMap kvs))); [reflexivity|].
    destruct (has_presence o && negb (populated o (FMap kvs))); [reflexivity|].
    destruct (c_ty c) as [t|]; [|reflexivity]. rewrite eval_tyc_split. destruct t; reflexivity.
Qed.

End Core.

Definition is_absent (fv : fvalue) : bool := match fv with FAbsent => true | _ => false end.

Section C12.
Variable re_ok : str -> bool.
Variable re_match : str -> str -> bool.
Variable pat_sem : str -> str -> Prop.
Hypothesis re_dec : forall p s, re_match p s = true <-> pat_sem p s.
(* the one pattern the compiler itself introduces: the regular expression engine
   compiles the published id62 pattern and decides it as the spec reads key:id62 *)
Hypothesis re_id62_ok : re_ok Id62Gen.pattern_string = true.
Hypothesis re_id62 : forall s, re_match Id62Gen.pattern_string s = id62_ok s.

(* every pattern the declaration carries compiles *)
Definition fty_patterns_ok (t : fty) : bool :=
  match t with
  | TStr _ (Some r) _ => match sr_pat r with Some p => re_ok p | None => true end
  | TKey (Some (KCustom p)) _ _ => re_ok p
  | _ => true
  end.

(* the validator can evaluate what the declaration compiles to *)
Definition evaluable (d : prop) : bool :=
  fty_patterns_ok (elem_ty (p_ty d)) && negb (unique_on_messages d).

Definition item_ok (defined : list Z) (w : fieldw) (v : value) : bool :=
  match fw_val w with
  | Some c => match c_ty c with
              | Some tc => eval_scalar re_match defined tc v
              | None => true
              end
  | None => true
  end.

Lemma obind_ok {A B} (o : outcome A) (f : A -> outcome B) b :
  obind o f = Ok b -> exists a, o = Ok a /\ f a = Ok b.
Proof. destruct o; cbn; intro H; try discriminate. eauto. Qed.

Lemma scalar_sem env t w v :
  wf_env env = true -> write_field env t = Ok w -> value_typed t v = true ->
  item_ok (defined_numbers env) w v = ty_ok re_match env t v.
Proof.
  intros Hwf Hw Hty. unfold item_ok.
  destruct t as [k r l|sf r l|r|r l|r l|f e l|f64 fr l|r l|r l|tr l|od ts l|rn fl orl|rn orr l]; cbn [write_field] in Hw.
  - (* integer *)
    apply obind_ok in Hw as [vo [Hv Hw]]. inversion Hw; subst w; clear Hw. cbn [fw_val].
    destruct v; try discriminate. destruct r as [r|].
    + apply obind_ok in Hv as [c [Hc Hv]]. inversion Hv; subst vo. cbn [only_ty c_ty].
      cbn [ty_ok]. eapply int_sem_b; eauto.
    + inversion Hv; subst. reflexivity.
  - (* string *)
    inversion Hw; subst w; clear Hw. cbn [fw_val]. destruct v; try discriminate.
    destruct r as [r|]; [|reflexivity]. cbn [only_ty c_ty eval_scalar ty_ok].
    unfold str_ok, str_rule_ok, within_b. rewrite cel_size_len, andb_true_r. reflexivity.
  - (* bytes *)
    inversion Hw; subst w; clear Hw. cbn [fw_val]. destruct v; try discriminate.
    destruct r as [r|]; [|reflexivity]. cbn [only_ty c_ty eval_scalar ty_ok]. reflexivity.
  - (* bool *)
    inversion Hw; subst w; clear Hw. cbn [fw_val]. destruct v; try discriminate.
    destruct r as [[c|]|]; reflexivity.
  - (* enum *)
    apply obind_ok in Hw as [io [Hio Hw]]. inversion Hw; subst w; clear Hw.
    cbn [fw_val only_ty c_ty]. destruct v; try discriminate. cbn [eval_scalar ty_ok]. unfold enum_ok.
    destruct r as [r|].
    + apply obind_ok in Hio as [zi [Hzi Hio]]. apply obind_ok in Hio as [zn [Hzn Hio]].
      inversion Hio; subst io; clear Hio. cbn [fst snd].
      unfold enum_rule_ok.
      rewrite (mapped_mem env (er_notin r) zn n Hwf Hzn).
      destruct (er_in r) as [|i0 ir] eqn:Ein.
      * cbn in Hzi. inversion Hzi; subst zi.
        destruct (memZ n (defined_numbers env)), (option_name env n); cbn; reflexivity.
      * assert (Hne : zi <> []).
        { apply map_values_forall2 in Hzi. inversion Hzi; subst. discriminate. }
        rewrite <- Ein in *.
        replace (match zi with [] => true | _ :: _ => memZ n zi end) with (memZ n zi)
          by (destruct zi; [congruence|reflexivity]).
        rewrite (mapped_mem env (er_in r) zi n Hwf Hzi).
        destruct (memZ n (defined_numbers env)), (option_name env n); cbn; reflexivity.
    + inversion Hio; subst io. cbn [fst snd]. cbn. rewrite andb_true_r. rewrite andb_true_r. reflexivity.
  - (* key *)
    apply obind_ok in Hw as [lst [Hl Hw]]. inversion Hw; subst w; clear Hw. cbn [fw_val].
    destruct v; try discriminate. destruct f as [[|p| |]|]; cbn [only_ty c_ty eval_scalar ty_ok key_ok]; unfold str_ok; cbn [opt_leN opt_geN andb].
    + reflexivity.
    + rewrite andb_true_r. reflexivity.
    + destruct s as [|c0 s0]; [reflexivity|]. rewrite andb_true_r. reflexivity.
    + rewrite andb_true_r. apply re_id62.
    + reflexivity.
  - destruct fr; [discriminate|]. inversion Hw; subst w. destruct v; reflexivity.
  - inversion Hw; subst w. destruct v; reflexivity.
  - inversion Hw; subst w. destruct v; reflexivity.
  - inversion Hw; subst w. destruct tr, v; reflexivity.
  - inversion Hw; subst w. destruct v; reflexivity.
  - inversion Hw; subst w. destruct orl, v; reflexivity.
  - inversion Hw; subst w. destruct orr, v; reflexivity.
Qed.

(* the patterns of the emitted constraint are those of the declaration (and the id62 pattern) *)
Lemma write_field_compiles env t w :
  write_field env t = Ok w ->
  match fw_val w with
  | Some c => match c_ty c with Some tc => tyc_compiles re_ok tc | None => true end
  | None => true
  end = fty_patterns_ok t.
Proof.
  intro Hw.
  destruct t as [k r l|sf r l|r|r l|r l|f e l|f64 fr l|r l|r l|tr l|od ts l|rn fl orl|rn orr l]; cbn [write_field] in Hw; try (destruct fr; [discriminate Hw|]);
    try (apply obind_ok in Hw as [x [Hx Hw]]);
    inversion Hw; subst w; cbn [fw_val fty_patterns_ok]; try reflexivity.
  - destruct r as [r|].
    + apply obind_ok in Hx as [c [Hc Hx]]. inversion Hx; subst x. cbn.
      apply write_int_ok in Hc as [_ Hc]. subst c. reflexivity.
    + inversion Hx; subst. reflexivity.
  - destruct r as [r|]; [|reflexivity]. cbn. destruct (sr_pat r); reflexivity.
  - destruct r; reflexivity.
  - destruct r; reflexivity.
  - destruct f as [[|p| |]|]; cbn; try reflexivity. exact re_id62_ok.
  - destruct tr; reflexivity.
  - destruct orl; reflexivity.
  - destruct orr; reflexivity.
Qed.

Lemma write_field_primary env t w :
  write_field env t = Ok w ->
  match fw_key w with Some k => kx_primary k | None => false end = is_primary_ty t.
Proof.
  intro Hw.
  destruct t as [k r l|sf r l|r|r l|r l|f e l|f64 fr l|r l|r l|tr l|od ts l|rn fl orl|rn orr l]; cbn [write_field] in Hw; try (destruct fr; [discriminate Hw|]);
    try (apply obind_ok in Hw as [x [Hx Hw]]);
    inversion Hw; subst w; cbn [fw_key is_primary_ty]; try reflexivity.
  destruct e as [[ty tn]|]; [|reflexivity]. cbn. destruct ty as [[[|]|]|]; reflexivity.
Qed.

Lemma write_field_msg env t w :
  write_field env t = Ok w -> is_msg_kind (fw_kind w) = is_msg_ty t.
Proof.
  intro Hw.
  destruct t as [k r l|sf r l|r|r l|r l|f e l|f64 fr l|r l|r l|tr l|od ts l|rn fl orl|rn orr l]; cbn [write_field] in Hw; try (destruct fr; [discriminate Hw|]);
    try (apply obind_ok in Hw as [x [Hx Hw]]);
    inversion Hw; subst w; cbn [fw_kind is_msg_ty]; try reflexivity.
  - destruct k; reflexivity.
  - destruct f64; reflexivity.
Qed.

Lemma forallb_true {A} (l : list A) : forallb (fun _ => true) l = true.
Proof. induction l; cbn; auto. Qed.

(* a constraint without a type accepts every value *)
Lemma forallb_empty defined (l : list value) : forallb (eval_scalar re_match defined CEmpty) l = true.
Proof. induction l as [|v r IH]; [reflexivity|]. cbn [forallb]. rewrite IH. destruct v; reflexivity. Qed.
Lemma forallb_empty_snd defined (l : list (str * value)) :
  forallb (fun kv => eval_scalar re_match defined CEmpty (snd kv)) l = true.
Proof. induction l as [|v r IH]; [reflexivity|]. cbn [forallb]. rewrite IH. destruct (snd v); reflexivity. Qed.

(* buildField never sets required *)
Lemma write_field_noreq env t w c :
  write_field env t = Ok w -> fw_val w = Some c -> c_req c = false.
Proof.
  intros Hwt. revert c.
  destruct t as [k r l|sf r l|r|r l|r l|f e l|f64 fr l|r l|r l|tr l|od ts l|rn fl orl|rn orr l]; cbn [write_field] in Hwt; try (destruct fr; [discriminate Hwt|]);
    try (apply obind_ok in Hwt as [x [Hx Hwt]]);
    try (destruct r; try discriminate);
    inversion Hwt; subst w; cbn [fw_val]; intros c Ev; try discriminate;
    try (inversion Ev; reflexivity).
  - apply obind_ok in Hx as [c0 [_ Hx]]. unfold only_ty in Hx.
    assert (Hc : c = C false (Some c0)) by congruence. rewrite Hc. reflexivity.
  - congruence.
  - destruct f as [[| | |]|]; inversion Ev; reflexivity.
  - destruct tr; inversion Ev; reflexivity.
  - destruct orl; inversion Ev; reflexivity.
  - destruct orr; inversion Ev; reflexivity.
Qed.

(* the two-valued core on the writer's output decides the declared rules *)
Theorem c12_core env idx d o fv :
  wf_env env = true ->
  key_placement_ok d = true ->
  write_prop env idx d = Ok o ->
  fvalue_typed d fv = true ->
  validate_b re_match (defined_numbers env) o fv = rule_semb re_match env d fv.
Proof.
  intros Hwf Hkp Hw Hty.
  destruct d as [name req opt ty desc]. cbn [p_name p_req p_opt p_ty p_desc] in *.
  unfold write_prop in Hw. cbn [p_name p_req p_opt p_ty p_desc] in Hw.
  apply obind_ok in Hw as [w [Hwf0 Hw]].
  unfold key_placement_ok in Hkp. cbn [p_ty] in Hkp.
  unfold rule_semb, must_b. cbn [p_req p_opt p_ty].
  destruct ty as [t|r sf t|r t].
  - (* singular *)
    rename Hwf0 into Hwt.
    pose proof (write_field_primary env t w Hwt) as Hprim.
    pose proof (write_field_msg env t w Hwt) as Hmsg.
    rewrite Hprim in Hw. set (required := req || is_primary_ty t) in *.
    destruct (opt && required) eqn:Eor; [destruct required; discriminate|].
    assert (Ho : o = FO name (Strcase.to_snake name) (idx + 1)%N (fw_kind w) false opt (opt || is_msg_kind (fw_kind w))
                       (if required then set_required (fw_val w) else fw_val w)
                       (fw_ext w) (fw_list w) (fw_key w) desc).
    { destruct required; inversion Hw; reflexivity. }
    clear Hw. subst o.
    unfold validate_b, got, populated, has_presence.
    cbn [fo_val fo_pres fo_kind fo_rep fo_opt].
    rewrite Hmsg.
    unfold fvalue_typed in Hty. cbn [p_ty p_opt] in Hty.
    destruct fv as [|v|vs|kvs]; [| |discriminate|discriminate].
    + (* not populated: an optional or message-typed field *)
      rewrite Hty.
      destruct required eqn:Er.
      * unfold set_required. destruct (fw_val w); reflexivity.
      * destruct (fw_val w) as [c|] eqn:Ev; [|reflexivity].
        rewrite (write_field_noreq env t w c Hwt Ev). reflexivity.
    + pose proof (scalar_sem env t w v Hwf Hwt Hty) as Hs. unfold item_ok in Hs.
      assert (He : forall tc, eval_scalar re_match (defined_numbers env) tc v
                              = eval_tyc_b re_match (defined_numbers env) tc (FOne v))
        by (intro tc; destruct tc; reflexivity).
      assert (Hs' : match fw_val w with
                    | Some c => match c_ty c with
                                | Some tc => eval_tyc_b re_match (defined_numbers env) tc (FOne v)
                                | None => true
                                end
                    | None => true
                    end = ty_ok re_match env t v).
      { rewrite <- Hs. destruct (fw_val w) as [c|]; [|reflexivity]. destruct (c_ty c); [|reflexivity]. symmetry. apply He. }
      clear Hs He. rename Hs' into Hs.
      destruct required eqn:Er.
      * assert (opt = false) by (destruct opt; [discriminate|reflexivity]). subst opt.
        cbn [orb]. unfold set_required.
        destruct (is_msg_ty t) eqn:Em.
        -- destruct (fw_val w) as [c|]; cbn [c_req c_ty andb negb orb] in *; exact Hs.
        -- cbn [negb andb orb]. destruct (is_zero v); cbn [negb andb].
           ++ destruct (fw_val w); reflexivity.
           ++ destruct (fw_val w) as [c|]; cbn [c_req c_ty andb] in *; exact Hs.
      * cbn [andb]. destruct (fw_val w) as [c|] eqn:Ev; [|exact Hs].
        rewrite (write_field_noreq env t w c Hwt Ev). cbn [andb].
        destruct (opt || is_msg_ty t); cbn [andb negb]; exact Hs.
  - (* array *)
    apply obind_ok in Hwf0 as [wi [Hwt Hwa]]. inversion Hwa; subst w; clear Hwa.
    pose proof (write_field_primary env t wi Hwt) as Hprim.
    cbn [wrap_array fw_key fw_kind fw_val fw_ext fw_list] in Hw.
    rewrite Hprim in Hw. apply negb_true_iff in Hkp. rewrite Hkp, orb_false_r in Hw.
    destruct (opt && req) eqn:Eor; [destruct req; discriminate|].
    unfold fvalue_typed in Hty. cbn [p_ty] in Hty.
    destruct fv as [|v|vs|kvs]; try discriminate.
    assert (Hitems : forallb (item_ok (defined_numbers env) wi) vs = forallb (ty_ok re_match env t) vs).
    { clear - Hty Hwf Hwt re_id62. induction vs as [|v r IH]; [reflexivity|].
      cbn [forallb] in *. apply andb_true_iff in Hty as [H1 H2].
      rewrite (scalar_sem env t wi v Hwf Hwt H1). rewrite IH by exact H2. reflexivity. }
    unfold item_ok in Hitems.
    assert (Ho : fo_val o = (if req then set_required (fw_val (wrap_array r sf wi)) else fw_val (wrap_array r sf wi))
                 /\ fo_pres o = false /\ fo_rep o = true).
    { destruct req; inversion Hw; cbn; auto. }
    destruct Ho as [Hov [Hop Hor]].
    unfold validate_b, got, populated, has_presence.
    rewrite Hov, Hop. rewrite orb_false_r.
    cbn [wrap_array fw_val].
    unfold arr_rule_ok, within_b, count, nonempty.
    destruct (fw_val wi) as [c|] eqn:Ev; cbn [is_some orb].
    + (* items carry a constraint *)
      unfold only_ty.
      destruct req; cbn [set_required c_req c_ty andb negb];
        destruct vs as [|v0 vr]; cbn [negb andb eval_tyc_b length item_tyc];
        destruct r as [r|]; cbn [opt_leN opt_geN andb];
        rewrite ?unique_scan_distinct; try reflexivity;
        destruct (c_ty c); rewrite <- ?Hitems, ?forallb_empty; cbn [forallb];
        rewrite ?forallb_true; cbn [andb]; rewrite ?andb_true_r; reflexivity.
    + destruct r as [r|]; cbn [is_some].
      * unfold only_ty.
        destruct req; cbn [set_required c_req c_ty andb negb];
          destruct vs as [|v0 vr]; cbn [negb andb eval_tyc_b length];
          cbn [opt_leN opt_geN andb];
          rewrite ?unique_scan_distinct; try reflexivity;
          rewrite <- ?Hitems; cbn [forallb];
          rewrite ?forallb_true; cbn [andb]; rewrite ?andb_true_r; reflexivity.
      * destruct req; cbn [set_required c_req c_ty andb negb];
          destruct vs as [|v0 vr]; cbn [negb andb];
          rewrite <- ?Hitems; cbn [forallb]; rewrite ?forallb_true; reflexivity.
  - (* map *)
    apply obind_ok in Hwf0 as [wi [Hwt Hwa]]. inversion Hwa; subst w; clear Hwa.
    cbn [wrap_map fw_key fw_kind fw_val fw_ext fw_list] in Hw.
    rewrite orb_false_r in Hw.
    destruct (opt && req) eqn:Eor; [destruct req; discriminate|].
    unfold fvalue_typed in Hty. cbn [p_ty] in Hty.
    destruct fv as [|v|vs|kvs]; try discriminate.
    assert (Hitems : forallb (fun kv => item_ok (defined_numbers env) wi (snd kv)) kvs
                     = forallb (fun kv => ty_ok re_match env t (snd kv)) kvs).
    { clear - Hty Hwf Hwt re_id62. induction kvs as [|kv r0 IH]; [reflexivity|].
      cbn [forallb] in *. apply andb_true_iff in Hty as [H1 H2].
      rewrite (scalar_sem env t wi (snd kv) Hwf Hwt H1). rewrite IH by exact H2. reflexivity. }
    unfold item_ok in Hitems.
    assert (Ho : fo_val o = (if req then set_required (fw_val (wrap_map r wi)) else fw_val (wrap_map r wi))
                 /\ fo_pres o = false).
    { destruct req; inversion Hw; cbn; auto. }
    destruct Ho as [Hov Hop].
    unfold validate_b, got, populated, has_presence.
    rewrite Hov, Hop. rewrite orb_false_r.
    cbn [wrap_map fw_val]. unfold within_b, count, nonempty.
    destruct (fw_val wi) as [c|] eqn:Ev; cbn [is_some orb].
    + unfold only_ty.
      destruct req; cbn [set_required c_req c_ty andb negb];
        destruct kvs as [|kv0 kvr]; cbn [negb andb eval_tyc_b length item_tyc];
        destruct r as [r|]; cbn [opt_leN opt_geN andb];
        try reflexivity;
        destruct (c_ty c); rewrite <- ?Hitems, ?forallb_empty_snd; cbn [forallb];
        rewrite ?forallb_true; cbn [andb]; rewrite ?andb_true_r; reflexivity.
    + destruct r as [r|]; cbn [is_some].
      * unfold only_ty.
        destruct req; cbn [set_required c_req c_ty andb negb];
          destruct kvs as [|kv0 kvr]; cbn [negb andb eval_tyc_b length];
          cbn [opt_leN opt_geN andb];
          try reflexivity;
          rewrite <- ?Hitems; cbn [forallb];
          rewrite ?forallb_true; cbn [andb]; rewrite ?andb_true_r; reflexivity.
      * destruct req; cbn [set_required c_req c_ty andb negb];
          destruct kvs as [|kv0 kvr]; cbn [negb andb];
          rewrite <- ?Hitems; cbn [forallb]; rewrite ?forallb_true; reflexivity.
Qed.

(* ---- where the errors are, on the writer's output -------------------------------- *)
Definition val_ty (v : option constraint) : option tyc :=
  match v with Some c => c_ty c | None => None end.

Definition wrapped (env : enum_env) (t : pty) : outcome fieldw :=
  match t with
  | PSingle t => write_field env t
  | PArray r sf t => obind (write_field env t) (fun w => Ok (wrap_array r sf w))
  | PMap r t => obind (write_field env t) (fun w => Ok (wrap_map r w))
  end.

Lemma write_prop_inv env idx d o :
  write_prop env idx d = Ok o ->
  exists w, wrapped env (p_ty d) = Ok w /\ val_ty (fo_val o) = val_ty (fw_val w).
Proof.
  intro Hw. unfold write_prop in Hw. apply obind_ok in Hw as [w [Hw0 Hw]].
  exists w. split; [exact Hw0|].
  match type of Hw with (if ?c then _ else _) = _ => destruct c; [discriminate|] end.
  inversion Hw; subst o; clear Hw. cbn [fo_val].
  match goal with |- val_ty (if ?c then _ else _) = _ => destruct c; [|reflexivity] end.
  unfold set_required. destruct (fw_val w); reflexivity.
Qed.

Lemma field_compiles_val o :
  field_compiles re_ok o = match val_ty (fo_val o) with Some t => tyc_compiles re_ok t | None => true end.
Proof. unfold field_compiles, val_ty. destruct (fo_val o); reflexivity. Qed.

Lemma write_prop_compiles env idx d o :
  write_prop env idx d = Ok o ->
  field_compiles re_ok o = fty_patterns_ok (elem_ty (p_ty d)).
Proof.
  intro Hw. apply write_prop_inv in Hw as [w [Hw Hv]]. rewrite field_compiles_val, Hv. clear Hv.
  destruct (p_ty d) as [t|r sf t|r t]; cbn [wrapped elem_ty] in *.
  - rewrite <- (write_field_compiles env t w Hw). unfold val_ty. destruct (fw_val w); reflexivity.
  - apply obind_ok in Hw as [wi [Hwi Hw]]. inversion Hw; subst w; clear Hw.
    rewrite <- (write_field_compiles env t wi Hwi). cbn [wrap_array fw_val].
    destruct (fw_val wi) as [c|]; cbn [is_some orb only_ty val_ty c_ty tyc_compiles item_tyc].
    + destruct (c_ty c); reflexivity.
    + destruct r; reflexivity.
  - apply obind_ok in Hw as [wi [Hwi Hw]]. inversion Hw; subst w; clear Hw.
    rewrite <- (write_field_compiles env t wi Hwi). cbn [wrap_map fw_val].
    destruct (fw_val wi) as [c|]; cbn [is_some orb only_ty val_ty c_ty tyc_compiles item_tyc].
    + destruct (c_ty c); reflexivity.
    + destruct r; reflexivity.
Qed.

Lemma typed_msg_items t vs :
  forallb (value_typed t) vs = true -> existsb is_msg_value vs = is_msg_ty t && nonempty vs.
Proof.
  induction vs as [|v r IH]; cbn [forallb existsb nonempty]; intro H.
  - symmetry. apply andb_false_r.
  - apply andb_true_iff in H as [Hv Hr]. rewrite (IH Hr). rewrite andb_true_r.
    destruct t, v; cbn in Hv |- *; try discriminate; try reflexivity;
      try (destruct r; reflexivity).
Qed.

Definition nonempty_list (fv : fvalue) : bool :=
  match fv with FMany vs => nonempty vs | _ => false end.

Lemma runtime_fails_val o fv :
  runtime_fails o fv =
  match val_ty (fo_val o), fv with
  | Some (CRep _ _ uq _), FMany vs => is_true uq && existsb is_msg_value vs
  | _, _ => false
  end.
Proof.
  unfold runtime_fails, val_ty.
  destruct (fo_val o) as [c|]; [destruct (c_ty c) as [[]|]; destruct fv; reflexivity|destruct fv; reflexivity].
Qed.

Lemma write_prop_runtime env idx d o fv :
  write_prop env idx d = Ok o -> fvalue_typed d fv = true ->
  runtime_fails o fv = unique_on_messages d && nonempty_list fv.
Proof.
  intros Hw Hty. apply write_prop_inv in Hw as [w [Hw Hv]]. rewrite runtime_fails_val, Hv. clear Hv.
  unfold unique_on_messages, fvalue_typed in *.
  destruct (p_ty d) as [t|r sf t|r t]; cbn [wrapped] in Hw.
  - destruct fv; try discriminate; destruct (val_ty (fw_val w)) as [[]|]; reflexivity.
  - destruct fv as [| |vs|]; try discriminate.
    apply obind_ok in Hw as [wi [Hwi Hw]]. inversion Hw; subst w; clear Hw.
    cbn [wrap_array fw_val nonempty_list]. rewrite (typed_msg_items t vs Hty).
    destruct r as [r|].
    + rewrite orb_true_r. cbn [only_ty val_ty c_ty]. rewrite andb_assoc. reflexivity.
    + destruct (is_some (fw_val wi)); reflexivity.
  - destruct fv; try discriminate.
    apply obind_ok in Hw as [wi [Hwi Hw]]. inversion Hw; subst w; clear Hw.
    cbn [wrap_map fw_val]. destruct (is_some (fw_val wi) || is_some r); reflexivity.
Qed.

(* C12, complete: what the validator returns for every compiled declaration and
   every value of the compiled field *)
Theorem c12_verdict env idx d o fv :
  wf_env env = true ->
  key_placement_ok d = true ->
  write_prop env idx d = Ok o ->
  fvalue_typed d fv = true ->
  validate_sem re_ok re_match (defined_numbers env) o fv =
  if negb (fty_patterns_ok (elem_ty (p_ty d))) then VError ECompile
  else if unique_on_messages d && nonempty_list fv then VError ERuntime
  else of_bool (rule_semb re_match env d fv).
Proof.
  intros Hwf Hkp Hw Hty.
  rewrite validate_sem_split, (write_prop_compiles env idx d o Hw), (write_prop_runtime env idx d o fv Hw Hty),
    (c12_core env idx d o fv Hwf Hkp Hw Hty).
  reflexivity.
Qed.

(* an ill-formed pattern: every value, typed or not, gets the compilation error *)
Theorem c12_bad_pattern env idx d o fv :
  write_prop env idx d = Ok o ->
  fty_patterns_ok (elem_ty (p_ty d)) = false ->
  validate_sem re_ok re_match (defined_numbers env) o fv = VError ECompile.
Proof.
  intros Hw Hp. rewrite validate_sem_split, (write_prop_compiles env idx d o Hw), Hp. reflexivity.
Qed.

Lemma of_bool_accept b : of_bool b = VAccept <-> b = true.
Proof. destruct b; cbn; split; congruence. Qed.

(* C12 for the declarations the validator can evaluate: a verdict, and accept iff the declared rules hold *)
Theorem c12_main env idx d o fv :
  wf_env env = true ->
  key_placement_ok d = true ->
  evaluable d = true ->
  write_prop env idx d = Ok o ->
  fvalue_typed d fv = true ->
  (validate_sem re_ok re_match (defined_numbers env) o fv = VAccept <-> rule_sem pat_sem env d fv) /\
  (validate_sem re_ok re_match (defined_numbers env) o fv = VReject <-> ~ rule_sem pat_sem env d fv).
Proof.
  intros Hwf Hkp Hev Hw Hty.
  rewrite (c12_verdict env idx d o fv Hwf Hkp Hw Hty).
  unfold evaluable in Hev. apply andb_true_iff in Hev as [Hp Hu]. apply negb_true_iff in Hu.
  rewrite Hp, Hu. cbn [negb andb].
  rewrite <- (rule_semb_spec re_match pat_sem re_dec env d fv).
  destruct (rule_semb re_match env d fv); cbn; split; split; intro H; try congruence; try reflexivity;
    try (exfalso; apply H; reflexivity).
Qed.

(* ... and conversely: for a declaration that is not evaluable some (typed) value gets an error *)
Theorem c12_not_evaluable env idx d o :
  wf_env env = true ->
  key_placement_ok d = true ->
  evaluable d = false ->
  write_prop env idx d = Ok o ->
  exists fv k, fvalue_typed d fv = true /\
    validate_sem re_ok re_match (defined_numbers env) o fv = VError k.
Proof.
  intros Hwf Hkp Hev Hw.
  unfold evaluable in Hev. apply andb_false_iff in Hev as [Hp|Hu].
  - assert (Hex : exists fv, fvalue_typed d fv = true).
    { unfold fvalue_typed. destruct (p_ty d); [|exists (FMany []); reflexivity|exists (FMap []); reflexivity].
      destruct t; try (eexists (FOne (VMsg 0)); reflexivity).
      - exists (FOne (VInt 0)); reflexivity.
      - exists (FOne (VStr [])); reflexivity.
      - exists (FOne (VBytes [])); reflexivity.
      - exists (FOne (VBool false)); reflexivity.
      - exists (FOne (VEnum 0)); reflexivity.
      - exists (FOne (VStr [])); reflexivity.
      - exists (FOne (VFloat 0)); reflexivity. }
    destruct Hex as [fv Hfv]. exists fv, ECompile. split; [exact Hfv|].
    apply (c12_bad_pattern env idx d o fv Hw Hp).
  - apply negb_false_iff in Hu. exists (FMany [VMsg 0]), (if fty_patterns_ok (elem_ty (p_ty d)) then ERuntime else ECompile).
    assert (Hty : fvalue_typed d (FMany [VMsg 0]) = true).
    { unfold unique_on_messages in Hu. unfold fvalue_typed. destruct (p_ty d) as [t|[r|] sf t|r t]; try discriminate.
      apply andb_true_iff in Hu as [_ Hm]. cbn. destruct t; try discriminate; reflexivity. }
    split; [exact Hty|].
    rewrite (c12_verdict env idx d o _ Hwf Hkp Hw Hty), Hu.
    destruct (fty_patterns_ok (elem_ty (p_ty d))); reflexivity.
Qed.

(* ---- lifted to messages -------------------------------------------------------------- *)
(* typed_obj: model/Validate.v *)

Lemma vworst_accept a b : vworst a b = VAccept <-> a = VAccept /\ b = VAccept.
Proof. destruct a as [| |[|]], b as [| |[|]]; cbn; split; try intros [? ?]; try congruence; auto. Qed.

Theorem c12_object env ds : forall idx os fvs,
  wf_env env = true ->
  forallb key_placement_ok ds = true ->
  forallb evaluable ds = true ->
  write_props_from env idx ds = Ok os ->
  typed_obj ds fvs = true ->
  (validate_obj re_ok re_match (defined_numbers env) os fvs = VAccept <-> rule_obj pat_sem env ds fvs) /\
  (validate_obj re_ok re_match (defined_numbers env) os fvs = VReject <-> ~ rule_obj pat_sem env ds fvs).
Proof.
  unfold rule_obj.
  induction ds as [|d r IH]; intros idx os fvs Hwf Hkp Hev Hw Hty; cbn in Hw.
  - inversion Hw; subst. destruct fvs; [|discriminate]. cbn. split; split; intro H; try congruence; try constructor.
    exfalso. apply H. constructor.
  - apply obind_ok in Hw as [o [Ho Hw]]. apply obind_ok in Hw as [os' [Hos Hw]].
    inversion Hw; subst os. destruct fvs as [|v s]; [discriminate|].
    cbn [typed_obj] in Hty. apply andb_true_iff in Hty as [Hv Hs].
    cbn [forallb] in Hkp, Hev. apply andb_true_iff in Hkp as [Hk1 Hk2]. apply andb_true_iff in Hev as [He1 He2].
    cbn [validate_obj].
    destruct (c12_main env idx d o v Hwf Hk1 He1 Ho Hv) as [Ha Hr].
    destruct (IH (idx + 1)%N os' s Hwf Hk2 He2 Hos Hs) as [IHa IHr].
    assert (Hcases : forall x, x = VAccept \/ x = VReject \/ exists k, x = VError k)
      by (intros [| |k]; eauto).
    assert (Hne1 : forall k, validate_sem re_ok re_match (defined_numbers env) o v <> VError k).
    { intros k Hk. rewrite (c12_verdict env idx d o v Hwf Hk1 Ho Hv) in Hk.
      unfold evaluable in He1. apply andb_true_iff in He1 as [Hp Hu]. apply negb_true_iff in Hu.
      rewrite Hp, Hu in Hk. cbn in Hk. destruct (rule_semb re_match env d v); discriminate. }
    split.
    + rewrite vworst_accept, Ha, IHa. split.
      * intros [H1 H2]. constructor; assumption.
      * intro H. inversion H; auto.
    + split.
      * intros Hv' Hall. inversion Hall as [|? ? ? ? H1 H2]; subst.
        apply Ha in H1. apply IHa in H2. rewrite H1, H2 in Hv'. discriminate.
      * intro Hn.
        destruct (Hcases (validate_sem re_ok re_match (defined_numbers env) o v)) as [E1|[E1|[k E1]]];
          [| |exfalso; exact (Hne1 k E1)];
          destruct (Hcases (validate_obj re_ok re_match (defined_numbers env) os' s)) as [E2|[E2|[k2 E2]]];
          rewrite ?E1, ?E2; cbn; try reflexivity.
        -- exfalso. apply Hn. constructor; [apply Ha; exact E1|apply IHa; exact E2].
        -- exfalso. (* the tail cannot be an error *)
           assert (Hd : Forall2 (rule_sem pat_sem env) r s \/ ~ Forall2 (rule_sem pat_sem env) r s).
           { destruct (rule_objb re_match env r s) eqn:Eb.
             - left. apply (rule_objb_spec re_match pat_sem re_dec env r s). exact Eb.
             - right. intro Hx. apply (rule_objb_spec re_match pat_sem re_dec env r s) in Hx. congruence. }
           destruct Hd as [Hd|Hd]; [apply IHa in Hd|apply IHr in Hd]; congruence.
        -- exfalso.
           assert (Hd : Forall2 (rule_sem pat_sem env) r s \/ ~ Forall2 (rule_sem pat_sem env) r s).
           { destruct (rule_objb re_match env r s) eqn:Eb.
             - left. apply (rule_objb_spec re_match pat_sem re_dec env r s). exact Eb.
             - right. intro Hx. apply (rule_objb_spec re_match pat_sem re_dec env r s) in Hx. congruence. }
           destruct Hd as [Hd|Hd]; [apply IHa in Hd|apply IHr in Hd]; congruence.
Qed.

(* a property with an ill-formed pattern makes every message of the type unvalidatable *)
Theorem c12_bad_pattern_message env ds : forall idx os fvs,
  write_props_from env idx ds = Ok os ->
  length fvs = length ds ->
  existsb (fun d => negb (fty_patterns_ok (elem_ty (p_ty d)))) ds = true ->
  validate_obj re_ok re_match (defined_numbers env) os fvs = VError ECompile.
Proof.
  induction ds as [|d r IH]; intros idx os fvs Hw Hlen Hex; [discriminate|].
  cbn in Hw. apply obind_ok in Hw as [o [Ho Hw]]. apply obind_ok in Hw as [os' [Hos Hw]].
  inversion Hw; subst os. destruct fvs as [|v s]; [discriminate|]. cbn [validate_obj].
  cbn [existsb] in Hex. apply orb_true_iff in Hex as [Hb|Hb].
  - apply negb_true_iff in Hb. rewrite (c12_bad_pattern env idx d o v Ho Hb). reflexivity.
  - rewrite (IH (idx + 1)%N os' s Hos ltac:(cbn in Hlen; congruence) Hb).
    destruct (validate_sem re_ok re_match (defined_numbers env) o v) as [| |[|]]; reflexivity.
Qed.

End C12.

(* ================================================================ layer 3: statements *)
(* the laws a regular-expression engine must satisfy: it compiles the published
   id62 pattern and decides it as the specification reads key:id62 *)
Definition engine_ok (re_ok : str -> bool) (re_match : str -> str -> bool) (pat_sem : str -> str -> Prop) : Prop :=
  (* the matcher decides the declared meaning of patterns *)
  (forall p s, re_match p s = true <-> pat_sem p s) /\
  (* the published id62 pattern compiles and means "22 characters of 0-9 A-Z a-z" *)
  re_ok Id62Gen.pattern_string = true /\
  (forall s, pat_sem Id62Gen.pattern_string s <-> id62_text s).

Lemma engine_id62_bool re_ok re_match pat_sem :
  engine_ok re_ok re_match pat_sem -> forall s, re_match Id62Gen.pattern_string s = id62_ok s.
Proof. intros [Hd [_ H]] s. apply eq_true_iff_eq. rewrite Hd, H, id62_ok_spec. reflexivity. Qed.

(* C20's class-count matcher is such an engine (its matching relation as the meaning) *)
Lemma class_count_engine : engine_ok re_class_ok re_class_count (fun p s => re_class_count p s = true).
Proof.
  split; [intros; reflexivity|]. split.
  - unfold re_class_ok. rewrite Id62Proofs.pattern_parsed. reflexivity.
  - intro s. rewrite class_count_id62. apply id62_ok_spec.
Qed.

(* the property, unrestricted *)
Definition c12_statement (restrict : (str -> bool) -> prop -> bool) : Prop :=
  forall re_ok re_match pat_sem, engine_ok re_ok re_match pat_sem ->
  forall env idx d o fv,
    wf_env env = true -> key_placement_ok d = true -> restrict re_ok d = true ->
    write_prop env idx d = Ok o -> fvalue_typed d fv = true ->
    (validate_sem re_ok re_match (defined_numbers env) o fv = VAccept <-> rule_sem pat_sem env d fv) /\
    (validate_sem re_ok re_match (defined_numbers env) o fv = VReject <-> ~ rule_sem pat_sem env d fv).

Theorem c12_partial : c12_statement evaluable.
Proof.
  intros re_ok re_match pat_sem He env idx d o fv Hwf Hkp Hev Hw Hty.
  exact (c12_main re_ok re_match pat_sem (proj1 He) (proj1 (proj2 He)) (engine_id62_bool re_ok re_match pat_sem He)
           env idx d o fv Hwf Hkp Hev Hw Hty).
Qed.

(* witness 1: array of objects with uniqueItems = true, one item *)
Definition w_unique_obj : prop :=
  P [97%N] false false (PArray (Some (AR None None (Some true))) None (TObject [66%N;97%N;114%N] false None)) [].
(* witness 2: a string whose pattern is "[" *)
Definition w_bad_pattern : prop :=
  P [97%N] false false (PSingle (TStr None (Some (SR (Some [91%N]) None None)) None)) [].

Theorem c12_unique_messages_refuted :
  forall re_ok re_match pat_sem, exists o,
    write_prop (EE [] None []) 0 w_unique_obj = Ok o /\
    fvalue_typed w_unique_obj (FMany [VMsg 0]) = true /\
    rule_sem pat_sem (EE [] None []) w_unique_obj (FMany [VMsg 0]) /\
    validate_sem re_ok re_match (defined_numbers (EE [] None [])) o (FMany [VMsg 0]) = VError ERuntime.
Proof.
  intros re_ok re_match pat_sem. eexists. split; [reflexivity|]. split; [reflexivity|]. split; [|reflexivity].
  unfold rule_sem, w_unique_obj. cbn [p_ty]. split; [intros _; discriminate|]. split.
  - intros r' Hr. inversion Hr; subst. split.
    + split; intros m Hm; discriminate.
    + intros _ i j a b Hij Ha Hb. destruct i as [|i]; [|destruct i; discriminate].
      destruct j as [|j]; [lia|]. destruct j; discriminate.
  - constructor; [exact I|constructor].
Qed.

Theorem c12_bad_pattern_refuted :
  forall re_ok re_match p, re_ok p = false ->
  forall env idx name l desc, exists o,
    write_prop env idx (P name false false (PSingle (TStr None (Some (SR (Some p) None None)) l)) desc) = Ok o /\
    forall fv, validate_sem re_ok re_match (defined_numbers env) o fv = VError ECompile.
Proof.
  intros re_ok re_match p Hp env idx name l desc. eexists. split; [reflexivity|].
  intro fv. unfold validate_sem, field_compiles. cbn. rewrite Hp. reflexivity.
Qed.

Theorem c12_full_refuted : ~ c12_statement (fun _ _ => true).
Proof.
  intro H.
  destruct (c12_unique_messages_refuted re_class_ok re_class_count (fun p s => re_class_count p s = true)) as [o [Hw [Hty [Hr Hv]]]].
  destruct (H re_class_ok re_class_count _ class_count_engine (EE [] None []) 0%N w_unique_obj o (FMany [VMsg 0])
              eq_refl eq_refl eq_refl Hw Hty) as [Ha _].
  apply Ha in Hr. rewrite Hv in Hr. discriminate.
Qed.

(* what "required" means for a scalar declared without [optional]: the compiled field
   has no presence of its own, so the message in which it holds the default value
   (0, "", false, UNSPECIFIED) IS the message in which it is not set — and the
   validator rejects it. (A JSON document carrying an explicit 0 decodes to that same
   message: at the level of compiled messages the two cannot be told apart.) *)
Theorem c12_required_default re_ok re_match pat_sem :
  engine_ok re_ok re_match pat_sem ->
  forall env idx name t desc o v,
    wf_env env = true ->
    fty_patterns_ok re_ok t = true ->
    is_msg_ty t = false ->
    write_prop env idx (P name true false (PSingle t) desc) = Ok o ->
    value_typed t v = true -> is_zero v = true ->
    validate_sem re_ok re_match (defined_numbers env) o (FOne v) = VReject.
Proof.
  intros He env idx name t desc o v Hwf Hp Hm Hw Hty Hz.
  rewrite (c12_verdict re_ok re_match (proj1 (proj2 He)) (engine_id62_bool re_ok re_match pat_sem He)
             env idx (P name true false (PSingle t) desc) o (FOne v) Hwf eq_refl Hw Hty).
  cbn [p_ty elem_ty]. rewrite Hp. cbn [negb]. unfold unique_on_messages. cbn [p_ty andb].
  unfold rule_semb, must_b. cbn [p_ty p_req p_opt orb]. rewrite Hm, Hz. reflexivity.
Qed.

(* components, in the form the props file states them *)
Lemma int_bounds_sem rm defined k r c z :
  write_int_rules k r = Ok c ->
  (eval_scalar rm defined c (VInt z) = true <-> int_sem r z).
Proof. intro Hw. rewrite (int_sem_b rm defined k r c z Hw). apply int_rule_ok_spec. Qed.

Lemma unique_scan_sem vs : unique_scan [] vs = true <-> all_different vs.
Proof. rewrite unique_scan_distinct. apply distinct_spec. Qed.

Lemma uuid_validator_sem s :
  (match s with [] => true | _ => uuid_regex s end) && negb (match s with [] => true | _ => false end) = true
  <-> uuid_text s.
Proof.
  rewrite <- uuid_regex_spec. destruct s; [split; discriminate|]. rewrite andb_true_r. reflexivity.
Qed.

Lemma enum_numbers_sem env names zs n :
  wf_env env = true -> map_values env names = Ok zs ->
  (memZ n zs = true <-> exists name, In name names /\ names_value env name n).
Proof.
  intros Hwf Hm. rewrite (mapped_mem env names zs n Hwf Hm).
  destruct (option_name env n) as [nm|] eqn:Eo.
  - rewrite mem_str_In. unfold names_full. rewrite in_map_iff. split.
    + intros [name [Hn Hin]]. exists name. split; [exact Hin|]. apply names_value_spec. congruence.
    + intros [name [Hin Hv]]. apply names_value_spec in Hv. exists name. split; [congruence|exact Hin].
  - split; [discriminate|]. intros [name [_ Hv]]. apply names_value_spec in Hv. congruence.
Qed.

(* J5sDecisionProofs.v — the two decision functions of j5convert that the model mirrors by hand
   (enum.go isExplicitZero: which first option is the zero value; service.go checkListMethod:
   what makes a list method and how many response arrays it needs) probed with the literals the
   translator reads from their Go source (ImportsGen.decision_literals): the model functions,
   evaluated on inputs built from the Go literals, give the answers the Go text gives.  A change
   of a literal or of the shape of the comparisons breaks this lemma at make time. *)
From Coq Require Import String List NArith Bool.
From J5V.lib Require Import Outcome.
From J5V.model Require Import J5sAst Desc J5sWalk J5sConvert.
From J5V.gen Require ImportsGen.
Import ListNotations.
Local Open Scope string_scope.
Local Open Scope list_scope.

Definition lits_of (fn : string) : list string * list string :=
  match find (fun r => String.eqb (fst (fst r)) fn) ImportsGen.decision_literals with
  | Some r => (snd (fst r), snd r)
  | None => ([], [])
  end.

Section Probes.
Variable screaming : str -> str.

(* isExplicitZero: option.Number == 0 && enumValueName(prefix, name) == prefix + <literal> *)
Definition zero_probe : bool :=
  match lits_of "enum.go:isExplicitZero" with
  | (ops, [num; suf]) =>
      (if list_eq_dec string_dec ops ["=="; "+"] then true else false) && String.eqb num "0" &&
      explicit_zero (b "P_") (b suf) &&
      explicit_zero (b "P_") (b "P_" ++ b suf) &&
      negb (explicit_zero (b "P_") (b "OLD_" ++ b suf)) &&
      negb (explicit_zero (b "P_") (b suf ++ b "X")) &&
      (* and visitEnumNode gives value 0 that name, whatever the options are *)
      match en_vals (cv_enum screaming (b "E") (mkEnum (b "E") (b "P_") [b "OLD_" ++ b suf; b "A"])) with
      | (z, 0%N) :: (_, 1%N) :: (_, 2%N) :: [] => str_eqb z (b "P_" ++ b suf)
      | _ => false
      end
  | _ => false
  end.

(* checkListMethod: expanded.ref.Package == <pkg> && expanded.ref.Schema == <name>; len(arrays) != <n> *)
Definition list_probe : bool :=
  match lits_of "service.go:checkListMethod" with
  | (ops, [pkg; name; num]) =>
      (if list_eq_dec string_dec ops ["=="; "=="; "!="] then true else false) && String.eqb num "1" &&
      let q := Property (b "q") false false (FObjRef (mkRef (b pkg) (b name))) in
      let arr it n := Property (b n) false false (FArray it) in
      let objs := arr (FObjRef (mkRef [] (b "T"))) in
      let m resp := mkMethod (b "L") VGet (b "/l") (PCons q PNil) resp in
      let ok := list_method_ok (b "foo.v1") [] in
      is_query_ref (b "foo.v1") [] (mkRef (b pkg) (b name)) &&
      is_query_ref (b "foo.v1") [(b "al", b pkg)] (mkRef (b "al") (b name)) &&
      negb (is_query_ref (b "foo.v1") [] (mkRef (b pkg) (b "PageRequest"))) &&
      negb (is_query_ref (b "foo.v1") [] (mkRef [] (b name))) &&
      ok (m (Some (PCons (objs "a") PNil))) &&
      ok (m (Some (PCons (arr (FObjInline [] PNil) "a") (PCons (Property (b "n") false false (FScalar SString)) PNil)))) &&
      negb (ok (m None)) &&
      negb (ok (m (Some PNil))) &&
      negb (ok (m (Some (PCons (objs "a") (PCons (objs "c") PNil))))) &&
      negb (ok (m (Some (PCons (arr (FScalar SString) "a") PNil)))) &&
      (* not a list method: no demand on the response *)
      list_method_ok (b "foo.v1") [] (mkMethod (b "L") VGet (b "/l") PNil None)
  | _ => false
  end.

End Probes.

Lemma decision_literals_agree : zero_probe (fun s => s) && list_probe = true.
Proof. vm_compute. reflexivity. Qed.

(* ProtoPrintFileSortProofs.v — facts about the insertion sort of model/ProtoPrintFile.v (Go's sort on
   short slices): the result is a permutation; sorting commutes with mapping the payload; a list that is
   already ascending is left alone; the output is ascending when the order is asymmetric, hence sorting
   twice is sorting once. *)
From Coq Require Import String List Arith NArith Bool Lia ZifyN ZifyNat ZifyBool Permutation.
From J5V.model Require Import ProtoPrintLit ProtoPrint ProtoPrintFile.
Import ListNotations.

Section Sort.
  Context {A : Type}.
  Variable less : A -> A -> bool.

  Definition step (acc : list A) (x : A) : list A := ins_rev less x acc.

  Lemma isort_unfold l : isort less l = rev (fold_left step l []).
  Proof. reflexivity. Qed.

  Lemma ins_rev_perm x : forall rl, Permutation (ins_rev less x rl) (x :: rl).
  Proof.
    induction rl as [|y r IH]; [apply Permutation_refl|].
    cbn [ins_rev]. destruct (less x y).
    - apply perm_trans with (y :: x :: r); [apply perm_skip; exact IH|apply perm_swap].
    - apply Permutation_refl.
  Qed.

  Lemma fold_step_perm : forall l acc, Permutation (fold_left step l acc) (rev l ++ acc).
  Proof.
    induction l as [|x r IH]; intro acc; [apply Permutation_refl|].
    cbn [fold_left rev]. eapply perm_trans; [apply IH|]. unfold step.
    rewrite <- app_assoc. cbn [app]. apply Permutation_app_head. apply ins_rev_perm.
  Qed.

  Theorem isort_perm l : Permutation (isort less l) l.
  Proof.
    rewrite isort_unfold. eapply perm_trans; [apply Permutation_sym; apply Permutation_rev|].
    eapply perm_trans; [apply fold_step_perm|]. rewrite app_nil_r. apply Permutation_sym. apply Permutation_rev.
  Qed.

  Lemma isort_length l : length (isort less l) = length l.
  Proof. apply Permutation_length. apply isort_perm. Qed.

  Lemma isort_In l x : In x (isort less l) <-> In x l.
  Proof. split; apply Permutation_in; [apply isort_perm|apply Permutation_sym; apply isort_perm]. Qed.

  (* ascending: no element is less than its left neighbour *)
  Fixpoint asc_from (prev : option A) (l : list A) : Prop :=
    match l with
    | [] => True
    | x :: r => match prev with Some y => less x y = false | None => True end /\ asc_from (Some x) r
    end.
  Definition asc (l : list A) : Prop := asc_from None l.

  Lemma fold_step_asc : forall l acc, asc_from (hd_error acc) l -> fold_left step l acc = rev l ++ acc.
  Proof.
    induction l as [|x r IH]; intros acc H; [reflexivity|].
    cbn [fold_left rev]. destruct H as [Hx Hr]. rewrite <- app_assoc. cbn [app].
    assert (E : step acc x = x :: acc).
    { unfold step. destruct acc as [|y acc']; [reflexivity|]. cbn [hd_error] in Hx. cbn [ins_rev]. rewrite Hx. reflexivity. }
    rewrite E. apply IH. exact Hr.
  Qed.

  Theorem isort_asc l : asc l -> isort less l = l.
  Proof.
    intro H. rewrite isort_unfold. rewrite (fold_step_asc l [] H). rewrite app_nil_r. apply rev_involutive.
  Qed.

  (* the reversed accumulator: no element is less than its right neighbour (its left one in the result) *)
  Fixpoint rasc (rl : list A) : Prop :=
    match rl with
    | [] => True
    | y :: r => match r with z :: _ => less y z = false | [] => True end /\ rasc r
    end.

  Hypothesis asym : forall a b, less a b = true -> less b a = false.

  Lemma ins_rev_rasc x : forall rl, rasc rl -> rasc (ins_rev less x rl).
  Proof.
    induction rl as [|y r IH]; intro H; [cbn; auto|].
    destruct H as [Hy Hr]. cbn [ins_rev]. destruct (less x y) eqn:E.
    - cbn [rasc]. split; [|apply IH; exact Hr].
      destruct r as [|z r'].
      + cbn [ins_rev]. apply asym. exact E.
      + cbn [ins_rev]. destruct (less x z); [exact Hy|apply asym; exact E].
    - cbn [rasc]. split; [exact E|]. split; [exact Hy|exact Hr].
  Qed.

  Lemma fold_step_rasc : forall l acc, rasc acc -> rasc (fold_left step l acc).
  Proof. induction l as [|x r IH]; intros acc H; [exact H|]. cbn [fold_left]. apply IH. apply ins_rev_rasc. exact H. Qed.

  Lemma rasc_rev_asc : forall rl, rasc rl ->
    forall l, asc_from (hd_error rl) l -> asc_from None (rev rl ++ l).
  Proof.
    induction rl as [|y r IH]; intros H l Hl; [exact Hl|].
    destruct H as [Hy Hr]. cbn [rev]. rewrite <- app_assoc. cbn [app].
    apply (IH Hr). cbn [asc_from]. split; [|exact Hl].
    destruct r as [|z r']; [exact I|]. cbn [hd_error]. exact Hy.
  Qed.

  Theorem isort_is_asc l : asc (isort less l).
  Proof.
    rewrite isort_unfold. pose proof (fold_step_rasc l [] I) as H.
    rewrite <- (app_nil_r (rev (fold_left step l []))).
    apply (rasc_rev_asc (fold_left step l []) H). exact I.
  Qed.

  Theorem isort_idem l : isort less (isort less l) = isort less l.
  Proof. apply isort_asc. apply isort_is_asc. Qed.
End Sort.

(* sorting commutes with a map that preserves the order *)
Lemma ins_rev_map {A B} (lessA : A -> A -> bool) (lessB : B -> B -> bool) (f : A -> B) :
  (forall a b, lessB (f a) (f b) = lessA a b) ->
  forall x rl, ins_rev lessB (f x) (map f rl) = map f (ins_rev lessA x rl).
Proof.
  intros H x. induction rl as [|y r IH]; [reflexivity|].
  cbn [map ins_rev]. rewrite H. destruct (lessA x y); [cbn [map]; rewrite IH; reflexivity|reflexivity].
Qed.

Lemma isort_map {A B} (lessA : A -> A -> bool) (lessB : B -> B -> bool) (f : A -> B) :
  (forall a b, lessB (f a) (f b) = lessA a b) ->
  forall l, isort lessB (map f l) = map f (isort lessA l).
Proof.
  intros H l. unfold isort. rewrite map_rev. f_equal.
  assert (G : forall l acc, fold_left (fun acc x => ins_rev lessB x acc) (map f l) (map f acc)
                            = map f (fold_left (fun acc x => ins_rev lessA x acc) l acc)).
  { clear l. induction l as [|x r IH]; intro acc; [reflexivity|].
    cbn [map fold_left]. rewrite (ins_rev_map lessA lessB f H). apply IH. }
  exact (G l []).
Qed.

(* payloads sorted by an attached key: the payload can be attached after sorting *)
Lemma sort_project_map {A B} (k : A -> key3) (f : A -> B) (l : list A) :
  sort_project (map (fun e => (k e, f e)) l) = map f (sort_project (map (fun e => (k e, e)) l)).
Proof.
  unfold sort_project.
  set (lessK := fun a b : A => key_less (k a) (k b)).
  assert (E1 : isort (fun a b : key3 * B => key_less (fst a) (fst b)) (map (fun e => (k e, f e)) l)
               = map (fun e => (k e, f e)) (isort lessK l)).
  { apply isort_map. intros a b. reflexivity. }
  assert (E2 : isort (fun a b : key3 * A => key_less (fst a) (fst b)) (map (fun e => (k e, e)) l)
               = map (fun e => (k e, e)) (isort lessK l)).
  { apply isort_map. intros a b. reflexivity. }
  rewrite E1, E2. rewrite !map_map. cbn [snd]. reflexivity.
Qed.

Definition sorted_by {A} (k : A -> key3) (l : list A) : list A :=
  isort (fun a b => key_less (k a) (k b)) l.

Lemma sort_project_sorted_by {A B} (k : A -> key3) (f : A -> B) (l : list A) :
  sort_project (map (fun e => (k e, f e)) l) = map f (sorted_by k l).
Proof.
  unfold sort_project, sorted_by.
  rewrite (isort_map (fun a b : A => key_less (k a) (k b)) (fun a b : key3 * B => key_less (fst a) (fst b))
                     (fun e => (k e, f e))) by reflexivity.
  rewrite map_map. reflexivity.
Qed.

(* ------------------------------------------------------------------ the orders used are asymmetric *)
Lemma bytes_ltb_asym : forall a b, bytes_ltb a b = true -> bytes_ltb b a = false.
Proof.
  induction a as [|x a IH]; intros b H.
  - destruct b; [discriminate H|reflexivity].
  - destruct b as [|y b]; [discriminate H|]. cbn [bytes_ltb] in *.
    destruct (N.ltb x y) eqn:E1.
    + assert (E2 : N.ltb y x = false) by lia. rewrite E2. reflexivity.
    + destruct (N.ltb y x) eqn:E2; [discriminate H|]. apply IH. exact H.
Qed.

Lemma key_less_asym a b : key_less a b = true -> key_less b a = false.
Proof.
  destruct a as [[la ta] ia], b as [[lb tb] ib]. unfold key_less.
  rewrite (orb_comm (N.eqb lb 0) (N.eqb la 0)).
  destruct (N.eqb la 0 || N.eqb lb 0).
  - rewrite (N.eqb_sym tb ta). destruct (N.eqb ta tb) eqn:E; intro H; lia.
  - intro H. lia.
Qed.

(* keys with increasing non-zero lines are ascending *)
Lemma key_less_lines la ta ia lb tb ib : (la <> 0)%N -> (la <= lb)%N -> key_less (lb, tb, ib) (la, ta, ia) = false.
Proof.
  intros H0 Hle. unfold key_less. assert (E1 : N.eqb la 0 = false) by lia. assert (E2 : N.eqb lb 0 = false) by lia.
  rewrite E1, E2. cbn [orb]. lia.
Qed.

(* J5sC13Proofs.v — C13 at full strength for one extended source file: in valid bundles the
   edited package compiles and every previously generated file, message, field, enum value,
   service and method is unchanged in the linked descriptors. *)
From Coq Require Import String List NArith Bool Lia.
From J5V.lib Require Import Outcome Corr Strcase.
From J5V.model Require Import J5sAst Desc J5sWalk J5sLink J5sConvert J5sContract J5sValid J5sEdit J5sCorr.
From J5V.proofs Require Import J5sProofs J5sContractProofs J5sLinkProofs J5sResolveProofs J5sExtProofs J5sTotalProofs
     J5sCompileProofs J5sLinkExtProofs J5sNameProofs J5sNamedProofs J5sPkgExtProofs J5sWitnessProofs.
Import ListNotations.
Local Open Scope N_scope.

(* ------------------------------------------------------------------ exported types carry their package *)
Section ExpPkg.
Variable camel : str -> str.

Lemma exp_ast_pkg pkg file :
  (forall f path dflt t, In t (exp_field camel pkg file path dflt f) -> tr_pkg t = pkg) /\
  (forall ps path t, In t (exp_props camel pkg file path ps) -> tr_pkg t = pkg) /\
  (forall p path t, In t (exp_property camel pkg file path p) -> tr_pkg t = pkg).
Proof.
  apply ast_mutind; cbn [exp_field exp_props exp_property]; intros; try contradiction.
  - destruct H0 as [<-|H0]; [reflexivity|eauto].
  - destruct H0 as [<-|H0]; [reflexivity|eauto].
  - destruct H as [<-|[]]. reflexivity.
  - eauto.
  - eauto.
  - apply in_app_or in H1. destruct H1; eauto.
  - eauto.
Qed.

Lemma exp_nested_pkg pkg file :
  (forall n path t, In t (exp_nested camel pkg file path n) -> tr_pkg t = pkg) /\
  (forall ns path t, In t (exp_nesteds camel pkg file path ns) -> tr_pkg t = pkg).
Proof.
  destruct (exp_ast_pkg pkg file) as (_ & Hp & _).
  apply nested_mutind; cbn [exp_nested exp_nesteds]; intros; try contradiction.
  - destruct H0 as [<-|H0]; [reflexivity|]. apply in_app_or in H0. destruct H0; eauto.
  - destruct H0 as [<-|H0]; [reflexivity|]. apply in_app_or in H0. destruct H0; eauto.
  - destruct H as [<-|[]]. reflexivity.
  - apply in_app_or in H1. destruct H1; eauto.
Qed.

Lemma exp_bfile_pkg x t : In t (exp_bfile camel x) -> tr_pkg t = bfile_pkg x.
Proof.
  destruct x as [j|p]; cbn [exp_bfile bfile_pkg]; intros H.
  - apply in_flat_map in H. destruct H as (e & _ & He). destruct (exp_nested_pkg (j5s_pkg j) (main_proto_path j)) as [Hn _].
    destruct e; cbn [exp_element] in He; try contradiction; eapply Hn; exact He.
  - apply in_app_or in H. destruct H as [H|H]; apply in_map_iff in H; destruct H as (n & <- & _); reflexivity.
Qed.

Lemma resolve_has_pkg bd this im r t :
  (forall x, In x bd -> bfile_pkg x <> []) ->
  resolve (mkEnv this im (pkg_exports camel bd)) r = Ok t -> tr_pkg t <> [].
Proof.
  intros Hne H. unfold resolve in H. cbn [ev_this ev_imports ev_exports] in H.
  assert (Hlk : forall pkg,
    match pkg_exports camel bd pkg with
    | Some ex => match lookup_last (r_name r) ex None with Some t0 => Ok t0 | None => Err "type not found" end
    | None => Err "package not loaded"
    end = Ok t -> tr_pkg t <> []).
  { intros pkg Hp. unfold pkg_exports in Hp. destruct (pkg_files bd pkg) as [|x0 r0] eqn:E; [discriminate|].
    destruct (lookup_last (r_name r) _ None) as [t0|] eqn:El; [|discriminate]. inversion Hp. subst t0.
    destruct (lookup_last_sound _ _ _ _ El) as [Hn|[Hi _]]; [discriminate|].
    apply in_flat_map in Hi. destruct Hi as (x & Hx & Ht). rewrite (exp_bfile_pkg _ _ Ht). apply Hne.
    rewrite <- E in Hx. apply in_pkg_files_iff in Hx. destruct Hx. assumption. }
  assert (Himp : forall p n ti, implicit_ref implicit_table p n = Some ti -> tr_pkg ti <> []).
  { intros p n ti Hi. destruct (implicit_ref_sound _ _ _ _ Hi) as (Hin & Hp & _). rewrite Hp.
    unfold implicit_table in Hin. repeat (destruct Hin as [Hin|Hin]; [inversion Hin; discriminate|]). destruct Hin. }
  destruct ((match r_pkg r with [] => true | _ => false end) || str_eqb (r_pkg r) this); [eapply Hlk; exact H|].
  destruct (implicit_ref implicit_table (r_pkg r) (r_name r)) as [ti|] eqn:Ei; [inversion H; subst; eapply Himp; exact Ei|].
  destruct (assoc (r_pkg r) im) as [full|]; [|discriminate].
  destruct (implicit_ref implicit_table full (r_name r)) as [ti|] eqn:Ei2; [inversion H; subst; eapply Himp; exact Ei2|].
  eapply Hlk. exact H.
Qed.

End ExpPkg.

(* ------------------------------------------------------------------ invariant of generated files *)
Definition file_inv (df : dfile) : Prop :=
  Forall named_ok (fl_msgs df) /\
  (fl_svcs df = [] \/
   ((forall n, In n (map dm_name (fl_msgs df)) -> starts_upper n = true) /\
    methods_ok (map dm_name (fl_msgs df)) (fl_svcs df) /\ fl_enums df = [])).

Section Inv.
Variables snake camel screaming : str -> str.
Hypothesis Hcamel : forall s, nodot_b (camel s) = true.
Hypothesis Hsnake : forall s, nodot_b (snake s) = true.

Lemma cv_file_inv bd f D :
  (forall x, In x bd -> bfile_pkg x <> []) ->
  valid_file snake camel bd f = true ->
  cv_file snake camel screaming (pkg_exports camel bd) f = Ok D -> forall df, In df D -> file_inv df.
Proof.
  unfold valid_file, cv_file. intros Hne Hv H. apply andb_true_iff in Hv. destruct Hv as [_ Hv].
  destruct (import_map (jf_imports f) []) as [im| | |]; try discriminate. cbn [obind] in H.
  apply obind_ok in H. destruct H as ([[m s] t] & E & H). inversion H. subst D. clear H.
  set (ev := mkEnv (j5s_pkg f) im (pkg_exports camel bd)) in *.
  assert (Henv : forall r t0, resolve ev r = Ok t0 -> tr_pkg t0 <> []) by (intros r t0; apply resolve_has_pkg; exact Hne).
  destruct (cv_elements_linkable snake camel screaming ev _ _ facc_nil facc_nil facc_nil _ _ _ Hv (linkable_nil) (linkable_nil) eq_refl E) as (Ls & Lt & Hm).
  destruct (elements_named snake camel screaming Hcamel Hsnake ev Henv _ _ facc_nil facc_nil facc_nil _ _ _ Hv
              (Forall_nil _) (Forall_nil _) (Forall_nil _) E) as (Jm & Js & Jt).
  intros df [<-|Hin]; [split; [exact Jm|left; exact Hm]|].
  apply in_app_or in Hin. destruct Hin as [Hin|Hin].
  - destruct (fa_used s); [|destruct Hin]. destruct Hin as [<-|[]]. split; [exact Js|right; exact Ls].
  - destruct (fa_used t); [|destruct Hin]. destruct Hin as [<-|[]]. split; [exact Jt|right; exact Lt].
Qed.

Lemma cv_files_inv bd fs : forall D,
  (forall x, In x bd -> bfile_pkg x <> []) ->
  (forall f, In (BJ f) fs -> valid_file snake camel bd f = true) ->
  cv_files snake camel screaming (pkg_exports camel bd) fs = Ok D -> forall df, In df D -> file_inv df.
Proof.
  induction fs as [|x r IH]; intros D Hne Hv H df Hin; cbn [J5sConvert.cv_files] in H.
  - inversion H. subst. destruct Hin.
  - destruct x as [j|p].
    + destruct (file_lists_ok j) eqn:Elists; [|discriminate]. apply obind_ok in H. destruct H as (a & Ea & H). apply obind_ok in H. destruct H as (c & Ec & H).
      inversion H. subst D. apply in_app_or in Hin. destruct Hin as [Hin|Hin].
      * eapply cv_file_inv; [exact Hne|apply Hv; left; reflexivity|exact Ea|exact Hin].
      * eapply IH; [exact Hne|intros f Hf; apply Hv; right; exact Hf|exact Ec|exact Hin].
    + eapply IH; [exact Hne|intros f Hf; apply Hv; right; exact Hf|exact H|exact Hin].
Qed.

Lemma convert_package_inv bd pkg D :
  (forall x, In x bd -> bfile_pkg x <> []) -> valid_bundle snake camel screaming bd = true ->
  convert_package snake camel screaming bd pkg = Ok D -> forall df, In df D -> file_inv df.
Proof.
  unfold convert_package. intros Hne Hv H. destruct (pkg_files bd pkg) as [|x r] eqn:E; [discriminate|].
  eapply cv_files_inv; [exact Hne| |exact H]. intros f Hf. apply (valid_files snake camel screaming); [exact Hv|].
  rewrite <- E in Hf. apply in_pkg_files_iff in Hf. destruct Hf. assumption.
Qed.

End Inv.

(* ------------------------------------------------------------------ the link step keeps the embedding *)
Lemma link_method_name_stable msgs msgs' fpkg tn :
  (forall n, In n (map dm_name msgs') -> starts_upper n = true) ->
  incl (map dm_name msgs) (map dm_name msgs') ->
  tn_ok (map dm_name msgs) tn ->
  link_method_name (file_syms msgs' []) fpkg tn = link_method_name (file_syms msgs []) fpkg tn.
Proof.
  intros Hup Hinc Hok. assert (Hup0 : forall n, In n (map dm_name msgs) -> starts_upper n = true) by (intros n Hn; apply Hup, Hinc, Hn).
  destruct Hok as [E|[E|[E|E]]]; [subst tn; reflexivity|destruct E as [r E]; subst tn; reflexivity|destruct E as [Hnd Hin]|subst tn].
  - unfold link_method_name. destruct tn as [|c r]; [reflexivity|].
    destruct (c =? 46); [reflexivity|]. rewrite (split_nodot _ Hnd), (top_sym_in _ _ Hin), (top_sym_in _ _ (Hinc _ Hin)). reflexivity.
  - assert (G : forall ms0, (forall n, In n (map dm_name ms0) -> starts_upper n = true) ->
                link_method_name (file_syms ms0 []) fpkg (b "google.api.HttpBody") = Ok (dot ++ b "google.api.HttpBody")).
    { intros ms0 H0. unfold link_method_name. cbn -[sym_mem file_syms].
      match goal with |- context [if sym_mem ?p ?s then _ else _] => destruct (sym_mem p s) eqn:E end.
      - apply top_sym_only in E. apply H0 in E. vm_compute in E. discriminate.
      - reflexivity. }
    rewrite (G msgs Hup0), (G msgs' Hup). reflexivity.
Qed.

Lemma link_methods_stable msgs msgs' fpkg l :
  (forall n, In n (map dm_name msgs') -> starts_upper n = true) ->
  incl (map dm_name msgs) (map dm_name msgs') ->
  (forall m, In m l -> tn_ok (map dm_name msgs) (me_in m) /\ tn_ok (map dm_name msgs) (me_out m)) ->
  link_methods (file_syms msgs' []) fpkg l = link_methods (file_syms msgs []) fpkg l.
Proof.
  intros Hup Hinc. induction l as [|m r IH]; intros H; cbn [link_methods]; [reflexivity|].
  destruct (H m (or_introl eq_refl)) as [Hi Ho].
  rewrite (link_method_name_stable _ _ _ _ Hup Hinc Hi), (link_method_name_stable _ _ _ _ Hup Hinc Ho).
  rewrite IH by (intros x Hx; apply H; right; exact Hx). reflexivity.
Qed.

Lemma link_methods_app syms fpkg x y r :
  link_methods syms fpkg (x ++ y) = Ok r ->
  exists rx ry, link_methods syms fpkg x = Ok rx /\ link_methods syms fpkg y = Ok ry /\ r = rx ++ ry.
Proof.
  revert r. induction x as [|m t IH]; intros r H; cbn [app link_methods] in *.
  - exists [], r. auto.
  - inv_ok H. destruct (IH _ E1) as (rx & ry & Hx & Hy & ->). inversion H. subst.
    rewrite Hx. cbn [obind]. exists (mkDmethod (me_name m) a a0 (me_http m) :: rx), ry.
    rewrite E, E0. cbn [obind]. auto.
Qed.

Lemma link_services_ext msgs msgs' fpkg : forall ss ss' r r',
  (forall n, In n (map dm_name msgs') -> starts_upper n = true) ->
  incl (map dm_name msgs) (map dm_name msgs') ->
  methods_ok (map dm_name msgs) ss ->
  sub_list service_ext ss ss' ->
  link_services (file_syms msgs []) fpkg ss = Ok r ->
  link_services (file_syms msgs' []) fpkg ss' = Ok r' ->
  sub_list service_ext r r'.
Proof.
  intros ss ss' r r' Hup Hinc Hok Hsub. revert r r' Hok.
  induction Hsub as [l|a c l l' Hac Hl IH|c l l' Hl IH]; intros r r' Hok H H'; cbn [link_services] in H, H'.
  - inversion H. constructor.
  - inv_ok H. inv_ok H'. inversion H. inversion H'. subst. clear H H'.
    destruct Hac as (Hn & Ht & [t Hp]). rewrite Hp in E1.
    destruct (link_methods_app _ _ _ _ _ E1) as (rx & ry & Hx & Hy & ->).
    rewrite (link_methods_stable msgs msgs' fpkg (ds_methods a) Hup Hinc) in Hx
      by (intros m Hm; apply (Hok a m (or_introl eq_refl) Hm)).
    rewrite E in Hx. inversion Hx. subst rx.
    apply sl_keep; [|eapply IH; [intros s m Hs Hm; apply (Hok s m (or_intror Hs) Hm)|exact E0|exact E2]].
    unfold service_ext. cbn. split; [exact Hn|]. split; [exact Ht|]. exists ry. reflexivity.
  - inv_ok H'. inversion H'. subst. apply sl_skip. eapply IH; [exact Hok|exact H|exact E0].
Qed.

Lemma link_file_ext a c a' c' :
  file_inv a -> file_inv c -> file_ext a c ->
  link_file a = Ok a' -> link_file c = Ok c' -> file_ext a' c'.
Proof.
  intros [Ja La] [Jc Lc] (Hp & Hk & Hm & He & Hs) H H'. unfold link_file in H, H'.
  inv_ok H. inv_ok H'. inversion H. inversion H'. subst. clear H H'.
  unfold file_ext. cbn [fl_path fl_pkg fl_msgs fl_enums fl_svcs].
  split; [exact Hp|]. split; [exact Hk|]. rewrite <- Hk.
  split; [apply link_msgs_ext; assumption|]. split; [exact He|].
  destruct La as [Sa|(Ua & Ma & Ea)].
  - rewrite Sa in E. cbn in E. inversion E. constructor.
  - destruct Lc as [Sc|(Uc & Mc & Ec)].
    + rewrite Sc in Hs. inversion Hs. subst. rewrite <- H0 in E. cbn in E. inversion E. constructor.
    + rewrite Ea in E. rewrite Ec in E0. rewrite <- Hk in E0.
      eapply link_services_ext; [exact Uc|apply sub_list_names; exact Hm|exact Ma|exact Hs|exact E|exact E0].
Qed.

Lemma link_files_ext : forall D D' Dl Dl',
  (forall df, In df D -> file_inv df) -> (forall df, In df D' -> file_inv df) ->
  sub_list file_ext D D' -> link_files D = Ok Dl -> link_files D' = Ok Dl' -> sub_list file_ext Dl Dl'.
Proof.
  intros D D' Dl Dl' Hi Hi' Hsub. revert Dl Dl' Hi Hi'.
  induction Hsub as [l|a c l l' Hac Hl IH|c l l' Hl IH]; intros Dl Dl' Hi Hi' H H'; cbn [link_files] in H, H'.
  - inversion H. constructor.
  - inv_ok H. inv_ok H'. inversion H. inversion H'. subst.
    apply sl_keep; [eapply link_file_ext; [apply Hi; left; reflexivity|apply Hi'; left; reflexivity|exact Hac|exact E|exact E1]|].
    eapply IH; [intros df Hd; apply Hi; right; exact Hd|intros df Hd; apply Hi'; right; exact Hd|exact E0|exact E2].
  - inv_ok H'. inversion H'. subst. apply sl_skip.
    eapply IH; [exact Hi|intros df Hd; apply Hi'; right; exact Hd|exact H|exact E0].
Qed.

(* ------------------------------------------------------------------ C13, whole package, linked descriptors *)
Section Full.
Variables snake camel screaming : str -> str.
Hypothesis Hcamel : forall s, nodot_b (camel s) = true.
Hypothesis Hsnake : forall s, nodot_b (snake s) = true.

Theorem compile_package_ext bd f f' pkg D :
  file_src_ext f f' ->
  (forall x, In x bd -> bfile_path x = j5s_path f -> x = BJ f) ->
  (forall x, In x bd -> bfile_pkg x <> []) ->
  valid_bundle snake camel screaming bd = true ->
  valid_bundle snake camel screaming (map (replace_file f') bd) = true ->
  (exists x, In x bd /\ bfile_pkg x = pkg) ->
  compile_package snake camel screaming bd pkg = Ok D ->
  exists D', compile_package snake camel screaming (map (replace_file f') bd) pkg = Ok D' /\ files_ext D D'.
Proof.
  intros Hext Honly Hne Hv Hv' (x0 & Hx0 & Hp0) H.
  set (bd' := map (replace_file f') bd) in *.
  assert (Hne' : forall x, In x bd' -> bfile_pkg x <> []).
  { intros x Hx. apply in_map_iff in Hx. destruct Hx as (y & <- & Hy).
    rewrite (proj2 (g_path bd f f' Hext Honly y Hy)). apply Hne. exact Hy. }
  assert (Hex' : exists x, In x bd' /\ bfile_pkg x = pkg).
  { exists (replace_file f' x0). split; [apply in_map; exact Hx0|].
    rewrite (proj2 (g_path bd f f' Hext Honly x0 Hx0)). exact Hp0. }
  destruct (compile_total snake camel screaming bd' pkg Hv' Hex') as [D' HD']. exists D'. split; [exact HD'|].
  apply (compile_package_inv snake camel screaming) in H. destruct H as (fs & Efs & _ & El & _).
  apply (compile_package_inv snake camel screaming) in HD'. destruct HD' as (fs' & Efs' & _ & El' & _).
  assert (Hdist : forall p l, pkg_exports camel bd' p = Some l -> J5sValid.distinct (map tr_name l) = true).
  { intros p l Hl. unfold valid_bundle in Hv'. apply andb_true_iff in Hv'. destruct Hv' as [Hv' _].
    apply andb_true_iff in Hv'. destruct Hv' as [Hv' _].
    apply andb_true_iff in Hv'. destruct Hv' as [_ Hv']. rewrite forallb_forall in Hv'.
    unfold pkg_exports in Hl. destruct (pkg_files bd' p) as [|y r] eqn:E; [discriminate|].
    assert (Hy : In y bd') by (assert (In y (pkg_files bd' p)) by (rewrite E; left; reflexivity); apply in_pkg_files_iff in H; destruct H; assumption).
    assert (Hpy : bfile_pkg y = p) by (assert (In y (pkg_files bd' p)) by (rewrite E; left; reflexivity); apply in_pkg_files_iff in H; destruct H; assumption).
    specialize (Hv' (bfile_pkg y) (in_map bfile_pkg _ _ Hy)). rewrite Hpy in Hv'. unfold pkg_exports in Hv'. rewrite E in Hv'.
    inversion Hl. subst l. exact Hv'. }
  pose proof (convert_package_ext snake camel screaming bd f f' Hext Honly pkg fs fs' Hdist Efs Efs') as Hfe.
  eapply link_files_ext; [| |exact Hfe|exact El|exact El'].
  - exact (convert_package_inv snake camel screaming Hcamel Hsnake bd pkg fs Hne Hv Efs).
  - exact (convert_package_inv snake camel screaming Hcamel Hsnake bd' pkg fs' Hne' Hv' Efs').
Qed.

End Full.

(* instantiated with the byte-exact strcase functions *)
Theorem compile_ext_strcase bd f f' pkg D :
  file_src_ext f f' ->
  (forall x, In x bd -> bfile_path x = j5s_path f -> x = BJ f) ->
  (forall x, In x bd -> bfile_pkg x <> []) ->
  valid_bundle to_snake to_camel to_screaming_snake bd = true ->
  valid_bundle to_snake to_camel to_screaming_snake (map (replace_file f') bd) = true ->
  (exists x, In x bd /\ bfile_pkg x = pkg) ->
  compile_package to_snake to_camel to_screaming_snake bd pkg = Ok D ->
  exists D', compile_package to_snake to_camel to_screaming_snake (map (replace_file f') bd) pkg = Ok D' /\ files_ext D D'.
Proof. apply compile_package_ext; [exact to_camel_nodot|exact to_snake_nodot]. Qed.

(* ================================================================== sequences of edits *)
Lemma sub_list_nil_r {A} (R : A -> A -> Prop) l : sub_list R l [] -> l = [].
Proof. intros H. inversion H. reflexivity. Qed.

Lemma sub_list_trans {A} (R : A -> A -> Prop) l2 l3 :
  sub_list R l2 l3 -> forall l1,
  (forall a, In a l1 -> forall c d, R a c -> R c d -> R a d) ->
  sub_list R l1 l2 -> sub_list R l1 l3.
Proof.
  intros H23. induction H23 as [l|c d l2 l3 Hcd H IH|d l2 l3 H IH]; intros l1 Ht H12.
  - apply sub_list_nil_r in H12. subst. constructor.
  - inversion H12 as [l|a c' l1' l2' Hac H1|c' l1' l2' H1]; subst.
    + constructor.
    + apply sl_keep; [eapply Ht; [left; reflexivity|exact Hac|exact Hcd]|].
      apply IH; [intros x Hx; apply Ht; right; exact Hx|exact H1].
    + apply sl_skip. apply IH; assumption.
  - apply sl_skip. apply IH; assumption.
Qed.

Lemma enum_ext_trans a c d : enum_ext a c -> enum_ext c d -> enum_ext a d.
Proof. intros [N1 P1] [N2 P2]. split; [congruence|eapply prefix_of_trans; eassumption]. Qed.

Lemma msg_ext_trans : forall a c d, msg_ext a c -> msg_ext c d -> msg_ext a d.
Proof.
  induction a as [n k fs ms es IH] using dmsg_ind2. intros c d H1 H2.
  inversion H1 as [? ? ? fs1 ? ms1 ? es1 P1 S1 E1]. subst.
  inversion H2 as [? ? ? fs2 ? ms2 ? es2 P2 S2 E2]. subst.
  constructor.
  - eapply prefix_of_trans; eassumption.
  - eapply sub_list_trans; [exact S2| |exact S1]. intros x Hx. rewrite Forall_forall in IH. apply IH. exact Hx.
  - eapply sub_list_trans; [exact E2| |exact E1]. intros x _ y z. apply enum_ext_trans.
Qed.

Lemma service_ext_trans a c d : service_ext a c -> service_ext c d -> service_ext a d.
Proof.
  intros (N1 & T1 & P1) (N2 & T2 & P2). repeat split; try congruence. eapply prefix_of_trans; eassumption.
Qed.

Lemma file_ext_trans a c d : file_ext a c -> file_ext c d -> file_ext a d.
Proof.
  intros (A1 & A2 & A3 & A4 & A5) (B1 & B2 & B3 & B4 & B5). unfold file_ext.
  split; [congruence|]. split; [congruence|].
  split; [eapply sub_list_trans; [exact B3| |exact A3]; intros x _ y z; apply msg_ext_trans|].
  split; [eapply sub_list_trans; [exact B4| |exact A4]; intros x _ y z; apply enum_ext_trans|].
  eapply sub_list_trans; [exact B5| |exact A5]. intros x _ y z. apply service_ext_trans.
Qed.

Lemma files_ext_trans D1 D2 D3 : files_ext D1 D2 -> files_ext D2 D3 -> files_ext D1 D3.
Proof.
  unfold files_ext. intros H12 H23. eapply sub_list_trans; [exact H23| |exact H12].
  intros x _ y z. apply file_ext_trans.
Qed.

Lemma files_ext_refl D : files_ext D D.
Proof.
  unfold files_ext. apply sub_list_refl. apply Forall_forall. intros f _. unfold file_ext.
  repeat split; [apply sub_list_refl, msgs_refl|apply sub_list_refl, enums_refl|apply sub_list_refl, svcs_refl].
Qed.

(* an edit of the k-th file, as a replacement by file name (file names are distinct) *)
Lemma nodup_map_inj {A B} (f : A -> B) l x y :
  NoDup (map f l) -> In x l -> In y l -> f x = f y -> x = y.
Proof.
  induction l as [|a r IH]; intros Hn Hx Hy He; [destruct Hx|]. cbn in Hn. inversion Hn as [|? ? Hni Hnr]. subst.
  destruct Hx as [<-|Hx]; destruct Hy as [<-|Hy]; try reflexivity.
  - exfalso. apply Hni. rewrite He. apply in_map. exact Hy.
  - exfalso. apply Hni. rewrite <- He. apply in_map. exact Hx.
  - apply IH; assumption.
Qed.

Lemma update_nth_replace bd : forall k j j',
  NoDup (map bfile_path bd) -> nth_error bd k = Some (BJ j) -> j5s_path j' = j5s_path j ->
  update_nth k (fun _ => BJ j') bd = map (replace_file j') bd.
Proof.
  induction bd as [|x r IH]; intros k j j' Hn Hk Hp; destruct k; cbn in Hk; try discriminate.
  - inversion Hk. subst x. cbn [update_nth map]. unfold replace_file at 1. cbn [bfile_path]. rewrite Hp, str_eqb_refl.
    f_equal. rewrite <- (map_id r) at 1. apply map_ext_in. intros y Hy. unfold replace_file.
    destruct (str_eqb (bfile_path y) (j5s_path j')) eqn:E; [|reflexivity].
    apply str_eqb_eq in E. rewrite Hp in E. exfalso. cbn in Hn. inversion Hn as [|? ? Hni _]. apply Hni.
    cbn [bfile_path]. rewrite <- E. apply in_map. exact Hy.
  - cbn [update_nth map]. cbn in Hn. inversion Hn as [|? ? Hni Hnr]. subst. f_equal.
    + unfold replace_file. destruct (str_eqb (bfile_path x) (j5s_path j')) eqn:E; [|reflexivity].
      apply str_eqb_eq in E. rewrite Hp in E. exfalso. apply Hni. rewrite E.
      change (j5s_path j) with (bfile_path (BJ j)). apply in_map. eapply nth_error_In. exact Hk.
    + eapply IH; eassumption.
Qed.

Lemma update_nth_const {A} (g : A -> A) l : forall k x, nth_error l k = Some x -> update_nth k g l = update_nth k (fun _ => g x) l.
Proof.
  induction l as [|y r IH]; intros k x Hk; destruct k; cbn in Hk; try discriminate; cbn [update_nth].
  - inversion Hk. reflexivity.
  - f_equal. apply IH. exact Hk.
Qed.

Lemma distinct_nodup l : J5sValid.distinct l = true -> NoDup l.
Proof.
  induction l as [|x r IH]; intros H; [constructor|]. apply distinct_cons in H. destruct H as [Hn Hd].
  constructor; [exact Hn|apply IH; exact Hd].
Qed.


(* every edit of the sequence addresses a source file and leaves the bundle valid *)
Fixpoint seq_ok (bd : bundle) (es : list edit) : Prop :=
  match es with
  | [] => True
  | e :: r =>
      (exists j, nth_error bd (edit_target e) = Some (BJ j)) /\
      valid (apply_edit bd e) = true /\ seq_ok (apply_edit bd e) r
  end.

Lemma apply_edit_replace bd e j :
  NoDup (map bfile_path bd) -> nth_error bd (edit_target e) = Some (BJ j) ->
  apply_edit bd e = map (replace_file (edit_file e j)) bd /\ file_src_ext j (edit_file e j).
Proof.
  intros Hn Hk. pose proof (edit_file_ext e j) as Hext. split; [|exact Hext].
  unfold apply_edit. rewrite (update_nth_const _ _ _ _ Hk).
  apply update_nth_replace with (j := j); [exact Hn|exact Hk|]. apply (src_ext_path _ _ Hext).
Qed.

(* C13 at full strength: sequences of append edits, linked descriptors *)
Theorem c13_full : forall es bd pkg D,
  valid bd = true -> (forall x, In x bd -> bfile_pkg x <> []) -> seq_ok bd es ->
  (exists x, In x bd /\ bfile_pkg x = pkg) ->
  compile bd pkg = Ok D ->
  exists D', compile (apply_edits bd es) pkg = Ok D' /\ files_ext D D'.
Proof.
  induction es as [|e r IH]; intros bd pkg D Hv Hne Hseq Hex H.
  - exists D. split; [exact H|apply files_ext_refl].
  - destruct Hseq as ((j & Hk) & Hv1 & Hseq).
    assert (Hn : NoDup (map bfile_path bd)).
    { unfold valid, valid_bundle in Hv. apply andb_true_iff in Hv. destruct Hv as [_ Hd]. apply distinct_nodup. exact Hd. }
    destruct (apply_edit_replace bd e j Hn Hk) as [Heq Hext].
    assert (Honly : forall x, In x bd -> bfile_path x = j5s_path j -> x = BJ j).
    { intros x Hx Hp. eapply (nodup_map_inj bfile_path); [exact Hn|exact Hx|eapply nth_error_In; exact Hk|exact Hp]. }
    cbn [apply_edits fold_left]. change (fold_left apply_edit r (apply_edit bd e)) with (apply_edits (apply_edit bd e) r).
    rewrite Heq in Hv1, Hseq |- *.
    destruct (compile_ext_strcase bd j (edit_file e j) pkg D Hext Honly Hne Hv Hv1 Hex H) as (D1 & HD1 & He1).
    destruct Hex as (x0 & Hx0 & Hp0).
    destruct (IH (map (replace_file (edit_file e j)) bd) pkg D1 Hv1) as (D' & HD' & He'); try assumption.
    + intros x Hx. apply in_map_iff in Hx. destruct Hx as (y & <- & Hy).
      rewrite (proj2 (g_path bd j _ Hext Honly y Hy)). apply Hne. exact Hy.
    + exists (replace_file (edit_file e j) x0). split; [apply in_map; exact Hx0|].
      rewrite (proj2 (g_path bd j _ Hext Honly x0 Hx0)). exact Hp0.
    + exists D'. split; [exact HD'|eapply files_ext_trans; eassumption].
Qed.

(* ------------------------------------------------------------------ a concrete sequence of deep edits *)
(* object Foo { field x array { items object { field kind enum { A } } }  object Sub { field q string } }
   + a field inside the inline object of the array items, an option of the inline enum inside
   it, a field of the nested declaration Sub, a new nested enum of Foo *)
Definition w_deep : bundle :=
  [BJ (mkJfile [b "foo"; b "v1"] (b "a") []
     [EObject (b "Foo")
        (mkprops [Property (b "x") false false
                    (FArray (FObjInline [] (mkprops [Property (b "kind") false false (FEnumInline (mkEnum [] [] [b "A"]))])))])
        (mknesteds [NObject (b "Sub") (mkprops [Property (b "q") false false (FScalar SString)]) NNil])])].

Definition w_deep_edits : list edit :=
  [EAppendIn 0 0 AtDecl [SInline 0] (AField (Property (b "deep") false false (FScalar SString)));
   EAppendIn 0 0 AtDecl [SInline 0; SInline 0] (AOption (b "B"));
   EAppendIn 0 0 AtDecl [SNested 0] (AField (Property (b "r") false false (FScalar SBool)));
   EAppendIn 0 0 AtDecl [] (ASub (NEnum (mkEnum (b "Extra") [] [b "ONE"])))].

Lemma deep_edits_preserve :
  exists D D', compile w_deep (b "foo.v1") = Ok D /\
               compile (apply_edits w_deep w_deep_edits) (b "foo.v1") = Ok D' /\
               files_ext D D' /\ D' <> D.
Proof.
  assert (Hc : exists D, compile w_deep (b "foo.v1") = Ok D) by (eexists; vm_compute; reflexivity).
  destruct Hc as [D Hc].
  assert (Hseq : seq_ok w_deep w_deep_edits).
  { cbn [seq_ok w_deep_edits].
    repeat (split; [eexists; reflexivity|split; [vm_compute; reflexivity|]]). exact I. }
  destruct (c13_full w_deep_edits w_deep (b "foo.v1") D) as (D' & Hc' & Hext); try assumption.
  - vm_compute. reflexivity.
  - intros x [<-|[]]. vm_compute. discriminate.
  - eexists. split; [left; reflexivity|vm_compute; reflexivity].
  - exists D, D'. repeat split; try assumption.
    intros ->. vm_compute in Hc, Hc'. pose proof (eq_trans Hc (eq_sym Hc')) as E. discriminate E.
Qed.

(* c13_full on enums WITHOUT options (regression, fix a65e1f2): `enum Status {}` + option
   OLD_UNSPECIFIED (before the fix: the new zero value, STATUS_UNSPECIFIED renamed) + option ACTIVE
   satisfy seq_ok, and STATUS_UNSPECIFIED = 0 is kept *)
Definition w_empty_enum_ok_edits : list edit :=
  [EAppendOption 0 0 (b "OLD_UNSPECIFIED"); EAppendOption 0 0 (b "ACTIVE")].

Lemma empty_enum_any_option_preserves :
  seq_ok w_empty_enum w_empty_enum_ok_edits /\
  exists D D', compile w_empty_enum (b "foo.v1") = Ok D /\
               compile (apply_edits w_empty_enum w_empty_enum_ok_edits) (b "foo.v1") = Ok D' /\
               files_ext D D' /\
               zero_value D' = Some (b "STATUS_UNSPECIFIED", 0) /\
               map en_vals (flat_map fl_enums D') =
                 [[(b "STATUS_UNSPECIFIED", 0); (b "STATUS_OLD_UNSPECIFIED", 1); (b "STATUS_ACTIVE", 2)]].
Proof.
  assert (Hseq : seq_ok w_empty_enum w_empty_enum_ok_edits).
  { cbn [seq_ok w_empty_enum_ok_edits].
    repeat (split; [eexists; reflexivity|split; [vm_compute; reflexivity|]]). exact I. }
  split; [exact Hseq|].
  assert (Hc : exists D, compile w_empty_enum (b "foo.v1") = Ok D) by (eexists; vm_compute; reflexivity).
  destruct Hc as [D Hc].
  destruct (c13_full w_empty_enum_ok_edits w_empty_enum (b "foo.v1") D) as (D' & Hc' & Hext); try assumption.
  - vm_compute. reflexivity.
  - intros x [<-|[]]. vm_compute. discriminate.
  - eexists. split; [left; reflexivity|vm_compute; reflexivity].
  - exists D, D'. split; [exact Hc|]. split; [exact Hc'|]. split; [exact Hext|].
    vm_compute in Hc'. inversion Hc'. split; vm_compute; reflexivity.
Qed.

(* the same at depth (regression): an enum WITHOUT options nested in an object; the appended
   option OLD_UNSPECIFIED (EAppendIn ... [SNested 0] (AOption ...)) is its first option, number 1
   after the implicit zero value; both versions are valid and compile, the old descriptors embed *)
Definition w_empty_nested_enum : bundle :=
  [BJ (mkJfile [b "foo"; b "v1"] (b "a") []
     [EObject (b "Foo") (mkprops [Property (b "x") false false (FScalar SString)])
        (mknesteds [NEnum (mkEnum (b "Status") [] [])])])].
Definition w_empty_nested_enum_edit : edit := EAppendIn 0 0 AtDecl [SNested 0] (AOption (b "OLD_UNSPECIFIED")).

Definition nested_enum_vals (D : list dfile) : list (list (str * N)) :=
  flat_map (fun f => flat_map (fun m => map en_vals (dm_enums m)) (fl_msgs f)) D.

Lemma append_to_empty_nested_enum_keeps_zero :
  valid w_empty_nested_enum = true /\ valid (apply_edits w_empty_nested_enum [w_empty_nested_enum_edit]) = true /\
  (exists D D', compile w_empty_nested_enum (b "foo.v1") = Ok D /\
                compile (apply_edits w_empty_nested_enum [w_empty_nested_enum_edit]) (b "foo.v1") = Ok D' /\
                nested_enum_vals D = [[(b "STATUS_UNSPECIFIED", 0)]] /\
                nested_enum_vals D' = [[(b "STATUS_UNSPECIFIED", 0); (b "STATUS_OLD_UNSPECIFIED", 1)]] /\
                files_ext_b D D' = true).
Proof.
  split; [vm_compute; reflexivity|]. split; [vm_compute; reflexivity|].
  eexists. eexists. repeat split; vm_compute; reflexivity.
Qed.

(* CodecDecExact.v — lemmas for C03: scalar exactness, spelling leniency, scalar-level rejection. *)
From Coq Require Import String List NArith ZArith Bool Lia ZifyN ZifyNat ZifyBool.
From J5V.lib Require Import Outcome Json Radix.
From J5V.model Require Import CodecTypes CodecDecScalar CodecDec.
Import ListNotations.
Local Open Scope N_scope.

(* ================================================================ decimal digit strings *)
(* the canonical decimal spelling of a natural number (strconv.FormatUint(n, 10)) *)
Definition dec_fuel (n : N) : nat := S (N.to_nat (N.log2 n)).
Definition print_N (n : N) : bytes :=
  if n =? 0 then [48] else rev (map (fun d => 48 + d) (to_digits_le 10 (dec_fuel n) n)).
(* strconv.FormatInt(z, 10) *)
Definition print_Z (z : Z) : bytes :=
  match z with
  | Z0 => [48]
  | Zpos p => print_N (Npos p)
  | Zneg p => 45 :: print_N (Npos p)
  end.

Lemma digits_value_spec s : forall acc,
  Forall (fun c => is_digit c = true) s ->
  digits_value s acc = Some (of_digits_be 10 acc (map (fun c => c - 48) s)).
Proof.
  induction s as [|c r IH]; intros acc H; cbn; [reflexivity|].
  inversion H as [|? ? Hc Hr]; subst. rewrite Hc. rewrite IH by assumption. reflexivity.
Qed.

Lemma pow10_gt n : n < 10 ^ N.of_nat (dec_fuel n).
Proof.
  unfold dec_fuel. destruct (N.eq_dec n 0) as [->|Hn]; [cbn; lia|].
  assert (H2 : n < 2 ^ N.succ (N.log2 n)) by (apply N.log2_spec; lia).
  rewrite Nnat.Nat2N.inj_succ, Nnat.N2Nat.id.
  eapply N.lt_le_trans; [exact H2|].
  apply N.pow_le_mono_l. lia.
Qed.

Lemma print_N_digits n : Forall (fun c => is_digit c = true) (print_N n).
Proof.
  unfold print_N. destruct (n =? 0); [repeat constructor|].
  apply Forall_rev, Forall_map.
  pose proof (to_digits_bound 10 (dec_fuel n) n ltac:(lia)) as Hb.
  eapply Forall_impl; [|exact Hb]. intros d Hd. cbn beta in Hd. unfold is_digit.
  apply andb_true_intro; split; apply N.leb_le; lia.
Qed.

Lemma print_N_value n : digits_value (print_N n) 0 = Some n.
Proof.
  rewrite digits_value_spec by apply print_N_digits.
  unfold print_N. destruct (n =? 0) eqn:E.
  - apply N.eqb_eq in E. subst. reflexivity.
  - rewrite <- map_rev, map_map.
    rewrite map_ext with (g := fun d => d) by (intros; lia). rewrite map_id.
    rewrite of_digits_be_rev_le. rewrite of_to_le; [f_equal; lia | lia | apply pow10_gt].
Qed.

Lemma print_N_nonempty n : print_N n <> [].
Proof.
  unfold print_N. destruct (n =? 0) eqn:E; [discriminate|].
  apply N.eqb_neq in E. unfold dec_fuel. cbn [to_digits_le]. rewrite (proj2 (N.eqb_neq n 0) E).
  cbn [map rev]. intros H. apply app_eq_nil in H. destruct H; discriminate.
Qed.

Lemma print_N_head_not_sign n : forall c r, print_N n = c :: r -> c <> 43 /\ c <> 45.
Proof.
  intros c r H. pose proof (print_N_digits n) as Hd. rewrite H in Hd.
  inversion Hd as [|? ? Hc _]; subst. unfold is_digit in Hc.
  apply andb_prop in Hc. destruct Hc as [H1 H2]. apply N.leb_le in H1. split; lia.
Qed.

Lemma parse_unsigned_print n : parse_unsigned (print_N n) = Some n.
Proof.
  unfold parse_unsigned. pose proof (print_N_nonempty n).
  destruct (print_N n) eqn:E; [contradiction|]. rewrite <- E. apply print_N_value.
Qed.

Lemma parse_signed_print z : parse_signed (print_Z z) = Some z.
Proof.
  destruct z as [|p|p]; cbn [print_Z].
  - reflexivity.
  - unfold parse_signed. destruct (print_N (N.pos p)) as [|c r] eqn:E.
    + exfalso. eapply print_N_nonempty; eauto.
    + destruct (print_N_head_not_sign _ _ _ E) as [H1 H2].
      replace (c =? 43) with false by (symmetry; apply N.eqb_neq; lia).
      replace (c =? 45) with false by (symmetry; apply N.eqb_neq; lia).
      rewrite <- E, parse_unsigned_print. reflexivity.
  - unfold parse_signed. cbn [N.eqb]. change (45 =? 43) with false. change (45 =? 45) with true. cbn iota.
    rewrite parse_unsigned_print. reflexivity.
Qed.

(* ================================================================ integers *)
Definition int_range (k : scalar_kind) : option (Z * Z) :=
  match k with
  | KInt32 => Some (min_i32, max_i32)
  | KInt64 => Some (min_i64, max_i64)
  | KUint32 => Some (0%Z, max_u32)
  | KUint64 => Some (0%Z, max_u64)
  | _ => None
  end.

(* what a digit string denotes: the Horner value of its digits, with its sign *)
Definition denotes_int (s : bytes) (z : Z) : Prop := parse_signed s = Some z.

Lemma parse_unsigned_signed s n : parse_unsigned s = Some n -> parse_signed s = Some (Z.of_N n).
Proof.
  destruct s as [|c r]; [discriminate|]. intros H. unfold parse_signed.
  assert (Hc : is_digit c = true).
  { unfold parse_unsigned in H. cbn in H. destruct (is_digit c); [reflexivity|discriminate]. }
  unfold is_digit in Hc. apply andb_prop in Hc. destruct Hc as [H1 H2].
  apply N.leb_le in H1. apply N.leb_le in H2.
  replace (c =? 43) with false by (symmetry; apply N.eqb_neq; lia).
  replace (c =? 45) with false by (symmetry; apply N.eqb_neq; lia).
  rewrite H. reflexivity.
Qed.

(* exactness: whatever integer is stored is the one the text denotes, and it is in range;
   the same for the quoted and the bare spelling *)
Theorem int_exact k lo hi v z :
  int_range k = Some (lo, hi) ->
  (exists s, v = GStr s \/ v = GNum s) ->
  int_from_go k v = Ok (Some (VInt z)) ->
  (exists s, (v = GStr s \/ v = GNum s) /\ denotes_int s z) /\ (lo <= z <= hi)%Z.
Proof.
  intros Hk [s Hv] H. unfold denotes_int.
  destruct Hv as [-> | ->]; cbn [int_from_go] in H.
  - (* quoted *)
    destruct k; inversion Hk; subst; clear Hk;
      unfold parse_int_bits, parse_uint_bits, in_range in H.
    + destruct (parse_signed s) as [z'|] eqn:E; [|discriminate].
      destruct ((min_i32 <=? z')%Z && (z' <=? max_i32)%Z) eqn:R; inversion H; subst.
      split; [exists s; auto|]. lia.
    + destruct (parse_signed s) as [z'|] eqn:E; [|discriminate].
      destruct ((min_i64 <=? z')%Z && (z' <=? max_i64)%Z) eqn:R; inversion H; subst.
      split; [exists s; auto|]. lia.
    + destruct (parse_unsigned s) as [n|] eqn:E; [|discriminate].
      destruct (Z.of_N n <=? max_u32)%Z eqn:R; inversion H; subst.
      split; [exists s; split; [auto|apply parse_unsigned_signed; exact E]|]. lia.
    + destruct (parse_unsigned s) as [n|] eqn:E; [|discriminate].
      destruct (Z.of_N n <=? max_u64)%Z eqn:R; inversion H; subst.
      split; [exists s; split; [auto|apply parse_unsigned_signed; exact E]|]. lia.
  - (* bare *)
    destruct k; inversion Hk; subst; clear Hk; cbn iota in H;
      unfold parse_int_bits, parse_uint_bits, in_range in H.
    + destruct (parse_signed s) as [z'|] eqn:E; [|discriminate].
      destruct ((min_i64 <=? z')%Z && (z' <=? max_i64)%Z) eqn:R; [|discriminate].
      destruct ((min_i32 <=? z')%Z && (z' <=? max_i32)%Z) eqn:R2; inversion H; subst.
      split; [exists s; auto|]. lia.
    + destruct (parse_signed s) as [z'|] eqn:E; [|discriminate].
      destruct ((min_i64 <=? z')%Z && (z' <=? max_i64)%Z) eqn:R; inversion H; subst.
      split; [exists s; auto|]. lia.
    + destruct (parse_signed s) as [z'|] eqn:E; [|discriminate].
      destruct ((min_i64 <=? z')%Z && (z' <=? max_i64)%Z) eqn:R; [|discriminate].
      destruct ((0 <=? z')%Z && (z' <=? max_u32)%Z) eqn:R2; inversion H; subst.
      split; [exists s; auto|]. lia.
    + destruct (parse_unsigned s) as [n|] eqn:E; [|discriminate].
      destruct (Z.of_N n <=? max_u64)%Z eqn:R; inversion H; subst.
      split; [exists s; split; [auto|apply parse_unsigned_signed; exact E]|]. lia.
Qed.

(* leniency + completeness: every representable integer, written canonically, decodes to
   itself both quoted and bare, for each of the four kinds *)
Lemma in_range_true lo hi z : (lo <= z <= hi)%Z -> in_range lo hi z = true.
Proof. intros H. unfold in_range. apply andb_true_intro; split; apply Z.leb_le; lia. Qed.

Theorem int_canonical_both_spellings k lo hi z :
  int_range k = Some (lo, hi) -> (lo <= z <= hi)%Z ->
  int_from_go k (GStr (print_Z z)) = Ok (Some (VInt z)) /\
  int_from_go k (GNum (print_Z z)) = Ok (Some (VInt z)).
Proof.
  intros Hk Hz.
  assert (Hu : (0 <= z)%Z -> parse_unsigned (print_Z z) = Some (Z.to_N z)).
  { intros H0. destruct z as [|p|p]; [reflexivity| |lia]. cbn [print_Z]. rewrite parse_unsigned_print. reflexivity. }
  pose proof (parse_signed_print z) as Hs.
  destruct k; inversion Hk; subst; clear Hk; cbn [int_from_go]; cbn iota;
    unfold parse_int_bits, parse_uint_bits.
  - rewrite Hs. rewrite (in_range_true min_i32 max_i32 z Hz).
    rewrite (in_range_true min_i64 max_i64 z) by (unfold min_i32, max_i32, min_i64, max_i64 in *; lia).
    rewrite (in_range_true min_i32 max_i32 z Hz). split; reflexivity.
  - rewrite Hs. rewrite (in_range_true min_i64 max_i64 z Hz). split; reflexivity.
  - unfold max_u32 in *. rewrite Hs, Hu by lia. rewrite Z2N.id by lia.
    replace (z <=? 4294967295)%Z with true by (symmetry; apply Z.leb_le; lia).
    rewrite (in_range_true min_i64 max_i64 z) by (unfold min_i64, max_i64; lia).
    rewrite (in_range_true 0 4294967295 z) by lia. split; reflexivity.
  - unfold max_u64 in *. rewrite Hu by lia. rewrite Z2N.id by lia.
    replace (z <=? 18446744073709551615)%Z with true by (symmetry; apply Z.leb_le; lia).
    split; reflexivity.
Qed.

(* rejection: a digit string denoting an integer outside the range of the kind is an error,
   quoted or bare; so is a string that is not an integer at all *)
Lemma int_from_go_shape k v :
  (exists c, int_from_go k v = Err c) \/ (exists z, int_from_go k v = Ok (Some (VInt z))).
Proof.
  destruct k, v; cbn;
    repeat match goal with
           | |- context[match ?c with Some _ => _ | None => _ end] => destruct c
           | |- context[if ?c then _ else _] => destruct c
           end; eauto.
Qed.

Theorem int_out_of_range_rejected k lo hi v s z :
  int_range k = Some (lo, hi) -> (v = GStr s \/ v = GNum s) ->
  denotes_int s z -> (z < lo \/ hi < z)%Z -> is_err (int_from_go k v) = true.
Proof.
  intros Hk Hv Hd Hz.
  destruct (int_from_go_shape k v) as [[c E] | [z0 E]]; [rewrite E; reflexivity|]. exfalso.
  destruct (int_exact k lo hi v z0 Hk (ex_intro _ s Hv) E) as [[s' [Hv' Hd']] Hr].
  assert (s' = s) by (destruct Hv as [-> | ->], Hv' as [Hx | Hx]; congruence). subst s'.
  unfold denotes_int in *. rewrite Hd in Hd'. inversion Hd'; subst. lia.
Qed.

Theorem int_unparsable_rejected k lo hi v s :
  int_range k = Some (lo, hi) -> (v = GStr s \/ v = GNum s) ->
  parse_signed s = None -> is_err (int_from_go k v) = true.
Proof.
  intros Hk Hv Hn.
  assert (Hu : parse_unsigned s = None).
  { destruct (parse_unsigned s) eqn:E; [|reflexivity]. apply parse_unsigned_signed in E. congruence. }
  destruct Hv as [-> | ->]; destruct k; inversion Hk; subst; cbn [int_from_go]; cbn iota;
    unfold parse_int_bits, parse_uint_bits; rewrite ?Hn, ?Hu; reflexivity.
Qed.

(* a JSON value of the wrong type for an integer field (bool, null) is an error *)
Theorem int_wrong_type_rejected k lo hi :
  int_range k = Some (lo, hi) ->
  is_err (int_from_go k GNil) = true /\ forall b, is_err (int_from_go k (GBool b)) = true.
Proof. intros _. split; [|intros b]; reflexivity. Qed.

(* ================================================================ bool, string, key *)
Theorem bool_exact orc v b :
  scalar_from_go orc KBool v = Ok (Some (VBool b)) <-> v = GBool b.
Proof. destruct v; cbn; split; intros H; try discriminate; inversion H; subst; reflexivity. Qed.

Theorem string_exact orc k v s : (k = KString \/ k = KKey) ->
  scalar_from_go orc k v = Ok (Some (VStr s)) <-> v = GStr s.
Proof. intros [-> | ->]; destruct v; cbn; split; intros H; try discriminate; inversion H; subst; reflexivity. Qed.

Theorem wrong_type_rejected orc :
  (forall v, (forall b, v <> GBool b) -> v <> GNil -> is_err (scalar_from_go orc KBool v) = true) /\
  (forall k v, k = KString \/ k = KKey -> (forall s, v <> GStr s) -> v <> GNil -> is_err (scalar_from_go orc k v) = true) /\
  (forall k v, k = KBytes \/ k = KTimestamp \/ k = KDate -> (forall s, v <> GStr s) -> is_err (scalar_from_go orc k v) = true) /\
  (forall v, (forall s, v <> GStr s) -> (forall s, v <> GNum s) -> is_err (scalar_from_go orc KDecimal v) = true).
Proof.
  repeat split.
  - intros v H1 H2. destruct v; cbn; try reflexivity; [congruence | exfalso; eapply H1; reflexivity].
  - intros k v [-> | ->] H1 H2; destruct v; cbn; try reflexivity; try congruence; exfalso; eapply H1; reflexivity.
  - intros k v [-> | [-> | ->]] H1; destruct v; cbn; try reflexivity; exfalso; eapply H1; reflexivity.
  - intros v H1 H2. destruct v; cbn; try reflexivity; exfalso; [eapply H2 | eapply H1]; reflexivity.
Qed.

(* ================================================================ enums *)
(* a short name decodes to its number; with the prefix in front it decodes to the same number,
   unless the prefixed text is itself the short name of an option (then that option wins) *)
Lemma strip_prefix_app p s : strip_prefix p (p ++ s) = Some s.
Proof. induction p as [|c r IH]; cbn; [reflexivity|]. rewrite N.eqb_refl. exact IH. Qed.

Theorem enum_prefix_leniency prefix opts name z :
  option_by_short opts name = Some z ->
  option_by_short opts (prefix ++ name) = None ->
  option_by_name prefix opts name = Some z /\ option_by_name prefix opts (prefix ++ name) = Some z.
Proof.
  intros H1 H2. unfold option_by_name. rewrite H1, H2. split; [reflexivity|].
  unfold trim_prefix. rewrite strip_prefix_app. exact H1.
Qed.

Theorem enum_unknown_rejected prefix opts name :
  option_by_short opts name = None -> option_by_short opts (trim_prefix prefix name) = None ->
  option_by_name prefix opts name = None.
Proof. intros H1 H2. unfold option_by_name. rewrite H1. exact H2. Qed.

(* exactness: the number found belongs to an option whose short name is the text or the text
   without the prefix *)
Theorem enum_exact prefix opts name z :
  option_by_name prefix opts name = Some z ->
  option_by_short opts name = Some z \/ option_by_short opts (trim_prefix prefix name) = Some z.
Proof. unfold option_by_name. destruct (option_by_short opts name); intros H; [left|right]; assumption. Qed.

(* ================================================================ dates *)
Theorem date_exact s y m d :
  date_from_string s = Some (y, m, d) ->
  (0 <= y <= 9999 /\ 1 <= m <= 12 /\ 1 <= d <= days_in y m)%Z.
Proof.
  unfold date_from_string. destruct (split_on 45 s []) as [|a [|b [|c [|? ?]]]]; try discriminate.
  destruct (atoi a) as [y'|]; [|discriminate]. destruct (atoi b) as [m'|]; [|discriminate].
  destruct (atoi c) as [d'|]; [|discriminate].
  destruct ((y' <? 0)%Z || (9999 <? y')%Z || (m' <? 1)%Z || (12 <? m')%Z || (d' <? 1)%Z || (days_in y' m' <? d')%Z) eqn:E; [discriminate|].
  intros H. inversion H; subst; clear H.
  repeat (apply orb_false_elim in E; destruct E as [E ?]).
  assert (Hd : (days_in y' m' <= 31)%Z).
  { unfold days_in. repeat match goal with |- context[if ?c then _ else _] => destruct c end; lia. }
  assert (Hw : forall x, (0 <= x < 2147483648)%Z -> wrap_i32 x = x).
  { intros x Hx. unfold wrap_i32. rewrite Z.mod_small by lia.
    destruct (x <? 2147483648)%Z eqn:Ex; [reflexivity|]. lia. }
  rewrite !Hw by lia. lia.
Qed.

(* the thirteenth month, the thirtieth of February ... are rejected: any triple of numbers that
   is not a calendar date *)
Theorem date_invalid_rejected s a b c y m d :
  split_on 45 s [] = [a; b; c] -> atoi a = Some y -> atoi b = Some m -> atoi c = Some d ->
  (m < 1 \/ 12 < m \/ d < 1 \/ days_in y m < d \/ y < 0 \/ 9999 < y)%Z ->
  date_from_string s = None.
Proof.
  intros Hs Ha Hb Hc H. unfold date_from_string. rewrite Hs, Ha, Hb, Hc.
  replace ((y <? 0)%Z || (9999 <? y)%Z || (m <? 1)%Z || (12 <? m)%Z || (d <? 1)%Z || (days_in y m <? d)%Z) with true; [reflexivity|].
  symmetry. repeat rewrite orb_true_iff. rewrite !Z.ltb_lt. tauto.
Qed.

(* ================================================================ members: local rejection / leniency facts *)
Section Members.
  Variable orc : oracles.
  Variable e : env.
  Variable me : bool.

  Lemma object_body_key f d props key ts m seen :
    object_body orc e me (S f) d props (TStr key :: ts) m seen =
    match find_prop props key with
    | None => Err "no such field"%string
    | Some p =>
      obind (member_with d (decode_present orc e me f (d + 1) p) p ts m seen) (fun r =>
        let '(m', rest, seen') := r in object_body orc e me f d props rest m' seen')
    end.
  Proof. reflexivity. Qed.

  Lemma oneof_body_key f d props key ts m seen found c :
    bytes_eqb key type_key = false ->
    oneof_body orc e me (S f) d props (TStr key :: ts) m seen found c =
    match find_prop props key with
    | None => Err "no such key"%string
    | Some p =>
      obind (member_with d (decode_present orc e me f (d + 1) p) p ts m seen) (fun r =>
        let '(m', rest, seen') := r in
        oneof_body orc e me f d props rest m' seen' (found ++ [key]) c)
    end.
  Proof.
    intros Hk. cbn [oneof_body]. change (has_more me (TStr key :: ts)) with true. cbn iota.
    cbn [obind next_token fst snd]. rewrite Hk. reflexivity.
  Qed.

  (* explicit null for a member: the message and the set of seen names are untouched,
     whatever the property type (within the nesting bound) *)
  Theorem null_member_skipped d dp p ts m seen :
    (d + 1 <= max_nesting_depth)%N ->
    member_with d dp p (TNull :: ts) m seen = Ok (m, ts, seen).
  Proof.
    intros Hd. unfold member_with.
    replace (max_nesting_depth <? d + 1)%N with false; [reflexivity|].
    symmetry. apply N.ltb_ge. exact Hd.
  Qed.

  (* a second non-null value for the same member is rejected (CreateField: already set) *)
  Theorem duplicate_member_rejected d dp p t ts m seen :
    t <> TNull -> mem_bytes (p_json p) seen = true ->
    is_err (member_with d dp p (t :: ts) m seen) = true.
  Proof.
    intros Ht Hs. unfold member_with. destruct (max_nesting_depth <? d + 1)%N; [reflexivity|].
    destruct t; try congruence; rewrite Hs; reflexivity.
  Qed.

  (* a second member of one proto oneof is rejected (CreateField: oneofConflict) *)
  Theorem oneof_sibling_rejected d dp p t ts m seen :
    t <> TNull -> oneof_conflict p m = true ->
    is_err (member_with d dp p (t :: ts) m seen) = true.
  Proof.
    intros Ht Hs. unfold member_with. destruct (max_nesting_depth <? d + 1)%N; [reflexivity|].
    destruct t; try congruence; destruct (mem_bytes (p_json p) seen); try reflexivity; rewrite Hs; reflexivity.
  Qed.

  (* an unknown key is rejected where it stands, in objects and in oneofs *)
  Theorem unknown_key_rejected_object f d props key ts m seen :
    find_prop props key = None ->
    is_err (object_body orc e me (S f) d props (TStr key :: ts) m seen) = true.
  Proof. intros H. rewrite object_body_key, H. reflexivity. Qed.

  Theorem unknown_key_rejected_oneof f d props key ts m seen found c :
    bytes_eqb key type_key = false -> find_prop props key = None ->
    is_err (oneof_body orc e me (S f) d props (TStr key :: ts) m seen found c) = true.
  Proof. intros Hk H. rewrite oneof_body_key by exact Hk. rewrite H. reflexivity. Qed.

  (* more than one key in a oneof, and a "!type" that contradicts the key present *)
  Theorem oneof_two_keys_rejected props m k1 k2 rest constrain :
    is_err (oneof_post props m (k1 :: k2 :: rest) constrain) = true.
  Proof.
    unfold oneof_post. cbn [length].
    replace (N.of_nat (S (S (length rest))) =? 0)%N with false by (symmetry; apply N.eqb_neq; lia).
    replace (1 <? N.of_nat (S (S (length rest))))%N with true by (symmetry; apply N.ltb_lt; lia).
    reflexivity.
  Qed.

  Theorem oneof_type_contradiction_rejected props m k c :
    bytes_eqb k c = false -> is_err (oneof_post props m [k] (Some c)) = true.
  Proof. intros H. unfold oneof_post. cbn. rewrite H. reflexivity. Qed.

  Theorem oneof_type_agreement_accepted props m k :
    bytes_eqb k k = true -> oneof_post props m [k] (Some k) = Ok m.
  Proof. intros H. unfold oneof_post. cbn. rewrite H. reflexivity. Qed.

  (* errors are never swallowed on the way out: a failing value fails its object *)
  Theorem member_error_fails_object f d props key p ts m seen c :
    find_prop props key = Some p ->
    member_with d (decode_present orc e me f (d + 1) p) p ts m seen = Err c ->
    object_body orc e me (S f) d props (TStr key :: ts) m seen = Err c.
  Proof. intros Hp He. rewrite object_body_key, Hp, He. reflexivity. Qed.

  (* a null element in an array / a null value in a scalar map is rejected (not skipped) *)
  Theorem null_array_element_rejected f d k ts acc :
    is_err (array_items orc e me (S f) d (FScalar k) (TNull :: ts) acc) = true.
  Proof.
    cbn [array_items has_more Json.more is_close negb obind next_token fst snd is_delim].
    unfold append_go_value. cbn [goval_of_token].
    destruct k; cbn; try reflexivity.
  Qed.
End Members.

(* ================================================================ query parameters (C03 clause d) *)
From J5V.model Require Import CodecDecQuery.

(* the JSON token that a query parameter's text stands for: the quoted string, except that
   "true" / "false" for a bool field are the JSON literals *)
Definition query_token (k : scalar_kind) (v : bytes) : token :=
  match query_go_value (scalar_kind_eqb k KBool) v with
  | GBool b => TBool b
  | _ => TStr v
  end.

Lemma query_token_goval k v :
  goval_of_token (query_token k v) = query_go_value (scalar_kind_eqb k KBool) v.
Proof.
  unfold query_token, query_go_value. destruct (scalar_kind_eqb k KBool); [|reflexivity].
  destruct (bytes_eqb v str_true); [reflexivity|]. destruct (bytes_eqb v str_false); reflexivity.
Qed.

Lemma query_token_not_delim k v : is_delim (query_token k v) = false.
Proof.
  unfold query_token. destruct (query_go_value (scalar_kind_eqb k KBool) v); reflexivity.
Qed.

(* a scalar supplied as the single value of a query parameter is stored exactly as the JSON
   member with the corresponding token would be: same message, same errors *)
Theorem query_scalar_as_json orc e me f d props name p k v m st :
  find_prop props name = Some p -> p_ty p = FScalar k ->
  mem_bytes (p_json p) (qt_seen st) = false -> oneof_conflict p m = false ->
  omap fst (query_final orc e props name [v] m st) =
  omap fst (decode_present orc e me (S f) d p (query_token k v :: []) m).
Proof.
  intros Hp Hk Hs Hc. unfold query_final, create_check. rewrite Hp, Hs, Hc. cbn [obind].
  cbn [decode_present]. rewrite Hk. cbn [next_token obind fst snd].
  rewrite query_token_not_delim, query_token_goval.
  destruct (scalar_from_go orc k (query_go_value (scalar_kind_eqb k KBool) v)) as [r| | |]; cbn [obind omap]; try reflexivity.
  destruct (with_holder (p_path p) m _) as [[m' u]| | |]; reflexivity.
Qed.

(* ================================================================ an independent reading of decimal integers *)
(* positional notation: an optional sign, one or more ASCII digits, value = sum of digit * 10^position
   (Radix.of_digits_be is the positional value, defined without reference to any parser) *)
Definition decimal_denotes (s : bytes) (z : Z) : Prop :=
  exists (sign : option bool) (digits : bytes),
    s = match sign with None => [] | Some false => [43%N] | Some true => [45%N] end ++ digits /\
    digits <> [] /\ Forall (fun c => is_digit c = true) digits /\
    z = (match sign with Some true => -1 | _ => 1 end * Z.of_N (of_digits_be 10 0 (map (fun c => c - 48)%N digits)))%Z.

Lemma digits_value_some s acc n : digits_value s acc = Some n -> Forall (fun c => is_digit c = true) s.
Proof.
  revert acc. induction s as [|c r IH]; intros acc H; [constructor|]. cbn in H.
  destruct (is_digit c) eqn:E; [|discriminate]. constructor; [exact E|eapply IH; exact H].
Qed.

Lemma parse_unsigned_denotes s n : parse_unsigned s = Some n <->
  (s <> [] /\ Forall (fun c => is_digit c = true) s /\ n = of_digits_be 10 0 (map (fun c => c - 48)%N s)).
Proof.
  split.
  - intros H. destruct s as [|c r]; [discriminate|]. unfold parse_unsigned in H.
    pose proof (digits_value_some _ _ _ H) as Hd. rewrite digits_value_spec in H by exact Hd.
    inversion H. repeat split; [discriminate|exact Hd].
  - intros (Hne & Hd & ->). destruct s as [|c r]; [congruence|]. unfold parse_unsigned.
    apply digits_value_spec. exact Hd.
Qed.

Theorem parse_signed_denotes s z : parse_signed s = Some z <-> decimal_denotes s z.
Proof.
  split.
  - intros H. unfold parse_signed in H. destruct s as [|c r]; [discriminate|].
    destruct (c =? 43)%N eqn:E1.
    + apply N.eqb_eq in E1. subst c. destruct (parse_unsigned r) as [n|] eqn:En; [|discriminate].
      inversion H; subst. apply parse_unsigned_denotes in En. destruct En as (Hne & Hd & ->).
      exists (Some false), r. repeat split; try assumption; try lia.
    + destruct (c =? 45)%N eqn:E2.
      * apply N.eqb_eq in E2. subst c. destruct (parse_unsigned r) as [n|] eqn:En; [|discriminate].
        inversion H; subst. apply parse_unsigned_denotes in En. destruct En as (Hne & Hd & ->).
        exists (Some true), r. repeat split; try assumption; try lia.
      * destruct (parse_unsigned (c :: r)) as [n|] eqn:En; [|discriminate].
        inversion H; subst. apply parse_unsigned_denotes in En. destruct En as (Hne & Hd & ->).
        exists None, (c :: r). repeat split; try assumption; try lia.
  - intros (sign & digits & -> & Hne & Hd & ->).
    assert (Hu : parse_unsigned digits = Some (of_digits_be 10 0 (map (fun c => (c - 48)%N) digits)))
      by (apply parse_unsigned_denotes; repeat split; assumption).
    destruct sign as [[|]|]; cbn [app].
    + unfold parse_signed. change (45 =? 43)%N with false. change (45 =? 45)%N with true. cbn iota.
      rewrite Hu. f_equal; try lia.
    + unfold parse_signed. change (43 =? 43)%N with true. cbn iota. rewrite Hu. f_equal; try lia.
    + destruct digits as [|c r]; [congruence|]. unfold parse_signed.
      inversion Hd as [|? ? Hc _]; subst. unfold is_digit in Hc. apply andb_prop in Hc. destruct Hc as [H1 H2].
      apply N.leb_le in H1. apply N.leb_le in H2.
      replace (c =? 43)%N with false by (symmetry; apply N.eqb_neq; lia).
      replace (c =? 45)%N with false by (symmetry; apply N.eqb_neq; lia).
      rewrite Hu. f_equal; try lia.
Qed.

(* integer exactness against the independent reading *)
Theorem int_exact_decimal k lo hi v z :
  int_range k = Some (lo, hi) -> (exists s, v = GStr s \/ v = GNum s) ->
  int_from_go k v = Ok (Some (VInt z)) ->
  (exists s, (v = GStr s \/ v = GNum s) /\ decimal_denotes s z) /\ (lo <= z <= hi)%Z.
Proof.
  intros Hk Hv H. destruct (int_exact k lo hi v z Hk Hv H) as [(s & Hs & Hd) Hr].
  split; [|exact Hr]. exists s. split; [exact Hs|]. apply parse_signed_denotes. exact Hd.
Qed.

(* ================================================================ quoted or bare: floats and decimals *)
(* for ANY behaviour of strconv.ParseFloat / decimal.NewFromString the quoted and the bare spelling of
   the same text go through the same conversion *)
Theorem float_decimal_quoted_or_bare orc k s :
  k = KFloat32 \/ k = KFloat64 \/ k = KDecimal ->
  scalar_from_go orc k (GStr s) = scalar_from_go orc k (GNum s).
Proof. intros [-> | [-> | ->]]; reflexivity. Qed.

(* wrong JSON type for the remaining kinds: floats take numbers and strings only *)
Theorem float_wrong_type_rejected orc k :
  k = KFloat32 \/ k = KFloat64 ->
  is_err (scalar_from_go orc k GNil) = true /\ forall b, is_err (scalar_from_go orc k (GBool b)) = true.
Proof. intros [-> | ->]; split; try intros b; reflexivity. Qed.

(* ================================================================ dates: the numbers written *)
Lemma atoi_denotes a y : atoi a = Some y -> decimal_denotes a y.
Proof.
  unfold atoi, parse_int_bits. destruct (parse_signed a) as [z|] eqn:E; [|discriminate].
  destruct (in_range min_i64 max_i64 z); intros H; inversion H; subst. apply parse_signed_denotes. exact E.
Qed.

Theorem date_exact_strong s y m d :
  date_from_string s = Some (y, m, d) ->
  exists a b c, split_on 45 s [] = [a; b; c] /\
    decimal_denotes a y /\ decimal_denotes b m /\ decimal_denotes c d /\
    (0 <= y <= 9999 /\ 1 <= m <= 12 /\ 1 <= d <= days_in y m)%Z.
Proof.
  intros H. pose proof (date_exact s y m d H) as Hr.
  unfold date_from_string in H. destruct (split_on 45 s []) as [|a [|b [|c [|? ?]]]]; try discriminate.
  destruct (atoi a) as [y'|] eqn:Ea; [|discriminate]. destruct (atoi b) as [m'|] eqn:Eb; [|discriminate].
  destruct (atoi c) as [d'|] eqn:Ec; [|discriminate].
  destruct ((y' <? 0)%Z || (9999 <? y')%Z || (m' <? 1)%Z || (12 <? m')%Z || (d' <? 1)%Z || (days_in y' m' <? d')%Z) eqn:E; [discriminate|].
  repeat (apply orb_false_elim in E; destruct E as [E ?]).
  assert (Hd : (days_in y' m' <= 31)%Z).
  { unfold days_in. repeat match goal with |- context[if ?c then _ else _] => destruct c end; lia. }
  assert (Hw : forall x, (0 <= x < 2147483648)%Z -> wrap_i32 x = x).
  { intros x Hx. unfold wrap_i32. rewrite Z.mod_small by lia.
    destruct (x <? 2147483648)%Z eqn:Ex; [reflexivity|]. lia. }
  rewrite !Hw in H by lia. inversion H; subst.
  exists a, b, c. repeat split; try (apply atoi_denotes; assumption); lia.
Qed.

(* CodecEnvDeriveProofs.v — what the derived client environment (CodecEnvDerive) guarantees:
   enum option names are the proto value names minus the enum's prefix (the first value's name minus
   UNSPECIFIED); a flattened object property is replaced by the client properties of its schema under
   their own JSON names, addressed through the flattened field; every other property is kept. *)
From Coq Require Import String List NArith ZArith Bool Lia.
From J5V.lib Require Import Outcome Json JsonPrint.
From J5V.model Require Import CodecTypes CodecEnc CodecEncSpec CodecEnvDerive.
From J5V.proofs Require Import CodecEncProofs.
Import ListNotations.
Local Open Scope N_scope.
Local Open Scope list_scope.

Lemma strip_prefix_sound p : forall s r, strip_prefix p s = Some r -> s = p ++ r.
Proof.
  induction p as [|x p IH]; intros s r H; cbn [strip_prefix] in H.
  - injection H as <-. reflexivity.
  - destruct s as [|y s]; [discriminate|]. destruct (x =? y) eqn:E; [|discriminate].
    apply N.eqb_eq in E. subst y. cbn [app]. f_equal. apply IH. exact H.
Qed.

Lemma strip_suffix_sound suf s r : strip_suffix suf s = Some r -> s = r ++ suf.
Proof.
  unfold strip_suffix. destruct (strip_prefix (rev suf) (rev s)) as [r'|] eqn:E; [|discriminate].
  intros [= <-]. apply strip_prefix_sound in E.
  rewrite <- (rev_involutive s), E, rev_app_distr, rev_involutive. reflexivity.
Qed.

Lemma option_by_number_map (f : bytes -> bytes) vals n :
  option_by_number (map (fun v => (f (fst v), snd v)) vals) n =
  match option_by_number vals n with Some full => Some (f full) | None => None end.
Proof.
  induction vals as [|[k z] r IH]; [reflexivity|]. cbn [map fst snd option_by_number].
  destruct (Z.eqb z n); [reflexivity|exact IH].
Qed.

(* the values an enum schema offers: all proto values, or all but the first under no_default *)
Definition offered (nodefault : bool) (values : list (bytes * Z)) : list (bytes * Z) :=
  if nodefault then tl values else values.

(* buildEnum *)
Theorem derive_enum_spec nodefault values pre opts :
  derive_enum nodefault values = Some (SEnum pre opts) ->
  (exists z rest, values = (pre ++ txt_unspecified, z) :: rest) /\
  opts = map (fun v => (trim_prefix pre (fst v), snd v)) (offered nodefault values).
Proof.
  unfold derive_enum. destruct values as [|[first z] rest]; [discriminate|].
  destruct (strip_suffix txt_unspecified first) as [p|] eqn:E; [|discriminate].
  intros [= <- <-]. apply strip_suffix_sound in E. split.
  - exists z, rest. rewrite E. reflexivity.
  - unfold offered. destruct nodefault; reflexivity.
Qed.

(* "enums as the short option name": in an environment whose enum schema is derived from the proto
   enum, the JSON value of an enum number is the name of the first offered proto value with that
   number, minus the prefix *)
Theorem enum_short_name_derived fmt env r nodefault values v j :
  (exists s, lookup env r = Some s /\ derive_enum nodefault values = Some s) ->
  wire_value fmt env (FEnum r) v j ->
  exists pre n full z rest,
    values = (pre ++ txt_unspecified, z) :: rest /\ v = VEnum n /\
    option_by_number (offered nodefault values) n = Some full /\ j = JStr (trim_prefix pre full).
Proof.
  intros (s & Hlk & Hd) Hw.
  destruct (spec_enum_short_name _ _ _ _ _ Hw) as (pre & opts & n & name & Hlk' & -> & Hn & ->).
  rewrite Hlk in Hlk'. injection Hlk' as ->.
  destruct (derive_enum_spec _ _ _ _ Hd) as ((z & rest & Hv) & Ho).
  rewrite Ho, option_by_number_map in Hn.
  destruct (option_by_number (offered nodefault values) n) as [full|] eqn:En; [|discriminate].
  injection Hn as <-. exists pre, n, full, z, rest. repeat split; assumption || reflexivity.
Qed.

(* ClientProperties *)
Theorem client_props_kept f re ps p : In (p, false) ps -> In p (client_props (S f) re ps).
Proof.
  intros Hin. cbn [client_props]. apply in_flat_map. exists (p, false). split; [exact Hin|]. left. reflexivity.
Qed.

Theorem client_props_hoisted f re ps p r cps q :
  In (p, true) ps -> p_ty p = FObject r -> rlookup re r = Some (RObject cps) ->
  In q (client_props f re cps) -> In (nest p q) (client_props (S f) re ps).
Proof.
  intros Hin Ht Hr Hq. cbn [client_props]. apply in_flat_map. exists (p, true). split; [exact Hin|].
  cbn [fst snd]. rewrite Ht, Hr. apply in_map. exact Hq.
Qed.

(* every client property is an own property or a hoisted one: nothing else appears *)
Theorem client_props_only f re : forall ps x, In x (client_props f re ps) ->
  (exists b, In (x, b) ps) \/
  (exists p r cps q, In (p, true) ps /\ p_ty p = FObject r /\ rlookup re r = Some (RObject cps) /\
                     x = nest p q /\ match f with O => False | S f' => In q (client_props f' re cps) end).
Proof.
  destruct f as [|f]; intros ps x H; [destruct H|]. cbn [client_props] in H.
  apply in_flat_map in H as ([p b] & Hin & Hx). cbn [fst snd] in Hx.
  destruct b.
  - destruct (p_ty p) as [| |r| | | |] eqn:Et; try (destruct Hx as [<-|[]]; left; exists true; exact Hin).
    destruct (rlookup re r) as [[cps| | |]|] eqn:Er; try (destruct Hx as [<-|[]]; left; exists true; exact Hin).
    apply in_map_iff in Hx as (q & <- & Hq). right. exists p, r, cps, q. repeat split; assumption.
  - destruct Hx as [<-|[]]. left. exists false. exact Hin.
Qed.

(* "flattened objects are inlined into their parent": a hoisted property of a flattened child that
   is populated appears as a member of the PARENT object under the child's own JSON name *)
Theorem flatten_inlined_derived fmt env re ps m ms f p r cps q v :
  wire_members fmt env (client_props (S f) re ps) m ms ->
  In (p, true) ps -> p_ty p = FObject r -> rlookup re r = Some (RObject cps) ->
  In q (client_props f re cps) ->
  prop_present env (nest p q) m = Some v ->
  In (p_json q) (map fst ms) /\ p_path (nest p q) = p_path p ++ p_path q.
Proof.
  intros Hw Hin Ht Hr Hq Hv. split; [|reflexivity].
  pose proof (client_props_hoisted f re ps p r cps q Hin Ht Hr Hq) as Hc.
  rewrite (spec_members_names _ _ _ _ _ Hw). change (p_json q) with (p_json (nest p q)).
  apply in_map. apply filter_In. split; [exact Hc|]. rewrite Hv. reflexivity.
Qed.

(* the dumped client environment is the derived one, schema by schema (decided per run: CEnv) *)
Lemma bytes_eqb_true a : forall b, bytes_eqb a b = true -> a = b.
Proof.
  induction a as [|c r IH]; intros [|c' r'] H; try discriminate; [reflexivity|].
  cbn [bytes_eqb] in H. apply andb_true_iff in H as [H1 H2]. apply N.eqb_eq in H1. subst. f_equal. apply IH. exact H2.
Qed.
Lemma nums_eqb_true a : forall b, nums_eqb a b = true -> a = b.
Proof.
  induction a as [|c r IH]; intros [|c' r'] H; try discriminate; [reflexivity|].
  cbn [nums_eqb] in H. apply andb_true_iff in H as [H1 H2]. apply N.eqb_eq in H1. subst. f_equal. apply IH. exact H2.
Qed.
Lemma ty_eqb_true a : forall b, ty_eqb a b = true -> a = b.
Proof.
  induction a as [k|r|r|r|it IH|it IH|pb]; intros [k'|r'|r'|r'|it'|it'|pb'] H; cbn [ty_eqb] in H; try discriminate.
  - destruct k, k'; try discriminate; reflexivity.
  - f_equal. apply bytes_eqb_true. exact H.
  - f_equal. apply bytes_eqb_true. exact H.
  - f_equal. apply bytes_eqb_true. exact H.
  - f_equal. apply IH. exact H.
  - f_equal. apply IH. exact H.
  - f_equal. apply eqb_prop. exact H.
Qed.
Lemma property_eqb_true a b : property_eqb a b = true -> a = b.
Proof.
  unfold property_eqb. intros H. repeat (apply andb_true_iff in H as [H ?]).
  destruct a, b; cbn in *.
  f_equal; try (apply bytes_eqb_true; assumption); try (apply nums_eqb_true; assumption);
    try (apply eqb_prop; assumption); apply ty_eqb_true; assumption.
Qed.
Lemma props_eqb_true a : forall b, props_eqb a b = true -> a = b.
Proof.
  induction a as [|x r IH]; intros [|y s] H; try discriminate; [reflexivity|].
  cbn [props_eqb] in H. apply andb_true_iff in H as [H1 H2]. f_equal; [apply property_eqb_true; exact H1|apply IH; exact H2].
Qed.
Lemma opts_eqb_true a : forall b, opts_eqb a b = true -> a = b.
Proof.
  induction a as [|[n z] r IH]; intros [|[n' z'] s] H; try discriminate; [reflexivity|].
  cbn [opts_eqb] in H. apply andb_true_iff in H as [H H3]. apply andb_true_iff in H as [H1 H2].
  apply bytes_eqb_true in H1. apply Z.eqb_eq in H2. subst. f_equal. apply IH. exact H3.
Qed.
Lemma schema_eqb_true a b : schema_eqb a b = true -> a = b.
Proof.
  destruct a, b; cbn [schema_eqb]; try discriminate; intros H.
  - f_equal. apply props_eqb_true. exact H.
  - f_equal. apply props_eqb_true. exact H.
  - apply andb_true_iff in H as [H1 H2]. f_equal; [apply bytes_eqb_true; exact H1|apply opts_eqb_true; exact H2].
Qed.

Lemma lookup_in_env (e : env) name s : lookup e name = Some s -> exists n', In (n', s) e /\ bytes_eqb n' name = true.
Proof.
  induction e as [|[n0 s0] r IH]; cbn [lookup]; [discriminate|].
  destruct (bytes_eqb n0 name) eqn:E; [intros [= <-]; exists n0; split; [left; reflexivity|exact E]|].
  intros H. destruct (IH H) as (n' & Hin & Hn). exists n'. split; [right; exact Hin|exact Hn].
Qed.

Theorem env_derived_sound re e : env_derived_b re e = true ->
  forall name s, lookup e name = Some s ->
    exists rs, rlookup re name = Some rs /\ derive_schema re rs = Some s.
Proof.
  unfold env_derived_b. intros H name s Hlk. rewrite forallb_forall in H.
  destruct (lookup_in_env _ _ _ Hlk) as (n' & Hin & Hn). apply bytes_eqb_true in Hn. subst n'.
  specialize (H _ Hin). cbn [fst snd] in H.
  destruct (rlookup re name) as [rs|]; [|discriminate]. destruct (derive_schema re rs) as [s'|] eqn:Ed; [|discriminate].
  apply schema_eqb_true in H. subst s'. exists rs. split; [reflexivity|exact Ed].
Qed.

(* BclErrposGenProofs.v — the general rendering (nil Pos, file name, context path, nil Err) never fails, and on
   the parser's diagnostics it is the text of BclErrposText. *)
From Coq Require Import String List NArith ZArith Bool.
From J5V.lib Require Import Text Outcome.
From J5V.model Require Import BclLexer BclErrpos BclErrposText BclErrposGen.
From J5V.proofs Require Import BclErrposProofs BclErrposTextProofs.
Import ListNotations.

Lemma human_string_ok lines context d : exists h, human_string lines context d = Ok h.
Proof.
  destruct (human_all_ok lines context [d]) as [hs Hs]. cbn [human_all] in Hs.
  destruct (human_string lines context d) as [h| | |]; cbn in Hs; try discriminate. eexists. reflexivity.
Qed.

Lemma human_text_g_ok lines context g : exists t, human_text_g lines context g = Ok t.
Proof.
  unfold human_text_g, pos_text. destruct (g_pos g) as [[[fn s] e]|]; [|eexists; reflexivity].
  destruct (human_string_ok lines context (mkDiag s e [])) as [h Hh].
  destruct fn as [f|].
  - destruct (point_empty s); [eexists; reflexivity|]. rewrite Hh. eexists. reflexivity.
  - rewrite Hh. eexists. reflexivity.
Qed.

Theorem human_text_g_all_ok lines context gs : exists t, human_text_g_all lines context gs = Ok t.
Proof.
  induction gs as [|g r IH]; [eexists; reflexivity|]. cbn [human_text_g_all].
  destruct (human_text_g_ok lines context g) as [t Ht]. destruct r as [|g2 r2]; [exists t; exact Ht|].
  rewrite Ht. cbn [obind]. destruct IH as [ts Hts]. rewrite Hts. cbn [obind]. eexists. reflexivity.
Qed.

Theorem human_text_g_bytes_ok input context gs : exists t, human_text_g_bytes input context gs = Ok t.
Proof.
  unfold human_text_g_bytes. destruct gs as [|g r]; [eexists; reflexivity|].
  exact (human_text_g_all_ok (split_on 10 input) context (g :: r)).
Qed.

(* the parser's diagnostics: the general text is the text of BclErrposText *)
Lemma human_text_g_parser lines context d : human_text_g lines context (gdiag_of d) = human_text lines context d.
Proof.
  unfold human_text_g, human_text, pos_text, gdiag_of, ctx_text, msg_text. cbn [g_pos g_ctx g_msg].
  unfold human_string, render. cbn [dstart dend]. destruct (dstart d) as [sl sc], (dend d) as [el ec].
  destruct (human_string lines context (mkDiag (sl, sc) (el, ec) [])) eqn:E; unfold human_string in E; cbn [dstart] in E;
    rewrite E; cbn [omap]; reflexivity.
Qed.

Lemma g_all_cons2 lines c g g2 r : human_text_g_all lines c (g :: g2 :: r) =
  obind (human_text_g lines c g) (fun t =>
  obind (human_text_g_all lines c (g2 :: r)) (fun ts => Ok (t ++ nl1 ++ bytes_of "-----" ++ nl1 ++ ts))).
Proof. reflexivity. Qed.
Lemma all_cons2 lines c d d2 r : human_text_all lines c (d :: d2 :: r) =
  obind (human_text lines c d) (fun t =>
  obind (human_text_all lines c (d2 :: r)) (fun ts => Ok (t ++ nl1 ++ bytes_of "-----" ++ nl1 ++ ts))).
Proof. reflexivity. Qed.

Lemma human_text_g_all_parser lines context : forall ds,
  human_text_g_all lines context (map gdiag_of ds) = human_text_all lines context ds.
Proof.
  induction ds as [|d r IH]; [reflexivity|]. destruct r as [|d2 r2].
  - cbn [map human_text_g_all human_text_all]. apply human_text_g_parser.
  - change (map gdiag_of (d :: d2 :: r2)) with (gdiag_of d :: gdiag_of d2 :: map gdiag_of r2).
    rewrite g_all_cons2, all_cons2, human_text_g_parser.
    change (gdiag_of d2 :: map gdiag_of r2) with (map gdiag_of (d2 :: r2)). rewrite IH. reflexivity.
Qed.

Theorem human_text_g_bytes_parser input context ds :
  human_text_g_bytes input context (map gdiag_of ds) = human_text_bytes input context ds.
Proof.
  unfold human_text_g_bytes, human_text_bytes. destruct ds as [|d r]; [reflexivity|].
  change (map gdiag_of (d :: r)) with (gdiag_of d :: map gdiag_of r). cbv iota beta.
  change (gdiag_of d :: map gdiag_of r) with (map gdiag_of (d :: r)). apply human_text_g_all_parser.
Qed.

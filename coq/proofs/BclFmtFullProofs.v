(* BclFmtFullProofs.v — closing C19: the lines after the last statement are
   blank (lexer coverage + walker coverage), hence applying FmtDiffs' edits
   gives the formatter's output up to trailing blank lines, unconditionally. *)
From Coq Require Import String List NArith ZArith Bool Lia ZifyN ZifyNat ZifyBool.
From J5V.lib Require Import Text Outcome.
From J5V.model Require Import BclLexer BclParser BclFmt.
From J5V.proofs Require Import BclPosProofs BclLexerProofs BclLexerCoverProofs BclParserProofs BclWalkCoverProofs
                               BclTextProofs BclFmtProofs.
Import ListNotations.
Local Open Scope Z_scope.
Arguments Nat.sub : simpl never.

(* a rune on a line below every fragment is white space *)
Lemma below_fragments_space data fs : collect_fragments data = Ok fs ->
  forall q c, pfx (q ++ [c]) data -> (forall f, In f fs -> fst (frag_end f) < fst (P q)) -> is_space c = true.
Proof.
  unfold collect_fragments. pose proof (all_tokens_ok true data) as Hl.
  destruct (all_tokens true data) as [toks|ds|] eqn:El; try discriminate.
  destruct (all_tokens_cover true data toks El) as [Hlc Hcov].
  pose proof (walk_fragments_spec data true toks (schain_chain _ _ _ Hl)) as Hw.
  unfold walk_fragments in *.
  destruct (walk_fragments_loop (S (length toks)) true (mkW toks None)) as [fs' ds|p|] eqn:Ew; try contradiction.
  destruct ds; [|discriminate]. intros [= <-] q c Hqc Hbelow.
  destruct (Hcov q c Hqc) as [H|(t & Hin & Hne & H1 & H2)]; [exact H|]. exfalso.
  assert (Hok : wst_ok data (mkW toks None)).
  { split; [apply valid_pos0|]. split; [apply schain_chain, Hl|]. intros p Hp. discriminate. }
  destruct (walk_loop_lines data (S (length toks)) (mkW toks None) fs' Hok Hlc ltac:(cbn; lia) Ew t Hin Hne)
    as (f & Hf & Hle).
  specialize (Hbelow f Hf). destruct H2 as [H2|[H2 _]]; lia.
Qed.

(* ---- the last line covered by a diff ------------------------------------------------------ *)
Lemma fd_chain_to_le n : forall ds d0, fd_chain n ds -> forall d, In d ds -> fd_to d <= last (map fd_to ds) d0.
Proof.
  induction ds as [|x r IH]; intros d0 H d Hin; [contradiction|].
  cbn [fd_chain] in H. destruct H as (_ & _ & _ & Hn & Hr). cbn [map]. rewrite last_cons_dflt.
  destruct r as [|y r'].
  - destruct Hin as [->|[]]. cbn. lia.
  - destruct Hin as [->|Hin].
    + destruct Hn as [_ Hxy]. pose proof (IH (fd_to d) Hr y (or_introl eq_refl)) as H. lia.
    + apply IH; assumption.
Qed.

Lemma merge_loop_last n : forall ds c d0,
  match ds with [] => True | g :: _ => fd_to c - 1 <= fd_from g /\ fd_to c <= fd_to g end ->
  fd_chain n ds ->
  last (map fd_to (merge_loop ds (Some c))) d0 = last (map fd_to (c :: ds)) d0.
Proof.
  induction ds as [|d r IH]; intros c d0 Hn Hc; [reflexivity|].
  cbn [merge_loop]. cbn [fd_chain] in Hc. destruct Hc as (_ & _ & _ & Dn & Dc). destruct Hn as [N1 N2].
  destruct (fd_from d <? fd_to c).
  - rewrite IH; [|cbn [fd_to]; rewrite Z.max_r by lia; exact Dn|exact Dc].
    cbn [map fd_to]. rewrite Z.max_r by lia. rewrite !last_cons_dflt. reflexivity.
  - cbn [map]. rewrite last_cons_dflt. rewrite IH by assumption. cbn [map]. rewrite !last_cons_dflt. reflexivity.
Qed.

Lemma merge_diffs_last n ds d0 : fd_chain n ds ->
  last (map fd_to (merge_diffs ds)) d0 = last (map fd_to ds) d0.
Proof.
  destruct ds as [|d r]; [reflexivity|]. cbn [fd_chain]. intros (_ & _ & _ & Dn & Dc).
  unfold merge_diffs. cbn [merge_loop]. apply (merge_loop_last n); assumption.
Qed.

Lemma diff_file_to : forall fs indent, map fd_to (diff_file fs indent) = map (fun f => fst (frag_end f) + 1) fs.
Proof.
  induction fs as [|f r IH]; intros indent; [reflexivity|].
  destruct f; cbn [diff_file map]; rewrite IH; reflexivity.
Qed.

Lemma in_skipn_nth {A} (l : list A) : forall n x, In x (skipn n l) -> exists k, (n <= k)%nat /\ nth_error l k = Some x.
Proof.
  induction l as [|a r IH]; intros n x H.
  - destruct n; contradiction.
  - destruct n as [|n].
    + cbn in H. destruct H as [->|H]; [exists 0%nat; split; [lia|reflexivity]|].
      destruct (IH 0%nat x H) as (k & _ & Hk). exists (S k). split; [lia|exact Hk].
    + cbn in H. destruct (IH n x H) as (k & Hk1 & Hk2). exists (S k). split; [lia|exact Hk2].
Qed.

Lemma forallb_nth {A} (p : A -> bool) l : (forall j c, nth_error l j = Some c -> p c = true) -> forallb p l = true.
Proof.
  intros H. apply forallb_forall. intros x Hx. apply In_nth_error in Hx. destruct Hx as [j Hj]. eauto.
Qed.

(* the hypothesis of fmt_diffs_apply holds *)
Theorem trailing_lines_blank input ds : collect_fmt (utf8_decode input) = Ok ds ->
  forallb blank_line (skipn (Z.to_nat (last (map fd_to (merge_diffs ds)) 0)) (split_on 10 input)) = true.
Proof.
  intros E. pose proof (collect_fmt_chain _ _ E) as Hc.
  rewrite (merge_diffs_last _ ds 0 Hc).
  unfold collect_fmt, omap, obind in E.
  destruct (collect_fragments (utf8_decode input)) as [fs| | |] eqn:Ef; try discriminate. injection E as <-.
  apply forallb_forall. intros l Hl.
  destruct (in_skipn_nth _ _ _ Hl) as (k & Hk1 & Hk2).
  unfold blank_line. apply forallb_nth. intros j c Hj.
  assert (Hrl : nth_error (rlines (utf8_decode input)) k = Some (utf8_decode l)).
  { unfold rlines. rewrite decode_lines. apply map_nth_error. exact Hk2. }
  destruct (line_rune _ k _ j c Hrl Hj) as (q & Hq1 & Hq2).
  apply (below_fragments_space _ fs Ef q c Hq1).
  intros f Hf. rewrite Hq2.
  assert (Hin : In (fst (frag_end f) + 1) (map fd_to (diff_file fs 0))).
  { rewrite diff_file_to. apply in_map_iff. exists f. auto. }
  apply in_map_iff in Hin. destruct Hin as (d & Hd1 & Hd2).
  pose proof (fd_chain_to_le _ _ 0 Hc d Hd2) as Hle. lia.
Qed.

(* C19 at full strength *)
Theorem fmt_diffs_full input out : fmt_bytes input = Ok out ->
  exists es, fmt_diffs input = Ok es /\
             edits_wf (Z.of_nat (length (split_on 10 input))) 0 es /\
             strip_trailing_blank (apply_edits (split_on 10 input) 0 es) = strip_trailing_blank (split_on 10 out).
Proof.
  intros Eo. destruct (proj1 (fmt_accepts_iff input) (ex_intro _ out Eo)) as [ds E].
  destruct (fmt_diffs_wf input ds E) as (es & Ee & Hw).
  exists es. split; [exact Ee|]. split; [exact Hw|].
  apply (fmt_diffs_apply input ds out es E Eo Ee). apply trailing_lines_blank. exact E.
Qed.

(* the exact form: the edited document is the formatter's lines followed by the lines of the original
   after its last statement, all blank; the formatter's own text ends after its last line *)
Theorem fmt_diffs_exact input out : fmt_bytes input = Ok out ->
  exists es L k,
    fmt_diffs input = Ok es /\
    apply_edits (split_on 10 input) 0 es = L ++ skipn k (split_on 10 input) /\
    split_on 10 out = L ++ [[]] /\
    forallb blank_line (skipn k (split_on 10 input)) = true.
Proof.
  intros Eo. destruct (proj1 (fmt_accepts_iff input) (ex_intro _ out Eo)) as [ds E].
  destruct (fmt_diffs_wf input ds E) as (es & Ee & _).
  pose proof (trailing_lines_blank input ds E) as Hblank.
  pose proof (collect_fmt_chain _ _ E) as Hc. unfold rlines in Hc. rewrite decode_line_count in Hc.
  assert (Eo' := Eo). unfold fmt_bytes, fmt_runes, omap, obind in Eo'. rewrite E in Eo'. injection Eo' as <-.
  assert (Ee' := Ee). unfold fmt_diffs in Ee'. rewrite E in Ee'. cbn [obind] in Ee'. unfold fmt_diffs_of in Ee'.
  assert (Hw : Forall (fun m => wf_text (utf8_encode (fd_text m))) (merge_diffs ds)).
  { unfold merge_diffs. apply merge_loop_wf_text; [|exact I].
    unfold collect_fmt, omap, obind in E. destruct (collect_fragments (utf8_decode input)); try discriminate.
    injection E as <-. apply diff_file_wf_text. }
  destruct (diffs_apply (split_on 10 input) (split_on_no_nl input) (merge_diffs ds) true (-1) 0 es
              (merge_diffs_sep _ _ Hc) Hw (or_introl (conj eq_refl eq_refl)) Ee') as [Ha _].
  exists es, (fmt_lines (merge_diffs ds) true (-1)), (Z.to_nat (last (map fd_to (merge_diffs ds)) 0)).
  split; [exact Ee|]. split; [exact Ha|]. split; [|exact Hblank].
  rewrite fmt_join_enc.
  assert (Hm : fmt_join (map enc_fd ds) true (-1) = fmt_join (map enc_fd (merge_diffs ds)) true (-1)).
  { rewrite <- !fmt_join_enc. f_equal. apply (fmt_join_merge_diffs _ ds Hc). }
  rewrite Hm, fmt_join_lines by exact Hw. reflexivity.
Qed.

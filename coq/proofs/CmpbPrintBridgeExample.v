(* CmpbPrintBridgeExample.v — non-vacuity of print_file_tokens_range_order_free: tool's example descriptor
   (proofs/ProtoPrintFileExample.v ex_file) and the same descriptor with the two options of field Foo.id in the
   other Range order are different terms, Range-equivalent, and print the same tokens. *)
From Coq Require Import String List NArith ZArith Bool Permutation.
From J5V.model Require Import ProtoPrintLit ProtoPrint ProtoPrintFile.
From J5V.proofs Require ProtoPrintFileExample.
From J5V.proofs Require Import CmpbPrintBridgeProofs.
Import ListNotations.
Module X := ProtoPrintFileExample.

Definition f_id_swapped : dfield :=
  {| f_key := f_key X.f_id; f_cm := f_cm X.f_id; f_label := f_label X.f_id; f_type := f_type X.f_id;
     f_name := f_name X.f_id; f_num := f_num X.f_id; f_json := f_json X.f_id; f_opts := [X.opt_validate; X.opt_key] |}.
Definition m_foo_swapped : delem :=
  match X.m_foo with
  | DMsg k c n o (_ :: rest) => DMsg k c n o (DField f_id_swapped :: rest)
  | e => e
  end.
Definition ex_file_swapped : dfile :=
  {| d_pkg := d_pkg X.ex_file; d_imports := d_imports X.ex_file; d_fopts := d_fopts X.ex_file; d_exts := d_exts X.ex_file;
     d_body := m_foo_swapped :: tl (d_body X.ex_file) |}.

Ltac distinct_keys :=
  let a := fresh "a" in let b := fresh "b" in let Ha := fresh "Ha" in let Hb := fresh "Hb" in let E := fresh "E" in
  intros a b Ha Hb E; vm_compute in Ha, Hb;
  repeat match goal with H : _ \/ _ |- _ => destruct H | H : False |- _ => destruct H end;
  subst; try reflexivity; vm_compute in E; discriminate.
Ltac opts_same := split; [apply Permutation_refl|distinct_keys].

Lemma ex_swapped_differs : X.ex_file <> ex_file_swapped.
Proof. intro H. vm_compute in H. discriminate. Qed.

Lemma ex_swapped_equiv : dfile_equiv X.ex_file ex_file_swapped.
Proof.
  unfold dfile_equiv. cbn [d_pkg d_imports d_fopts d_exts d_body ex_file_swapped X.ex_file tl].
  repeat split; try reflexivity; try constructor.
  all: try (cbn; repeat split; try reflexivity; try opts_same; repeat constructor; repeat split; try reflexivity; try opts_same).
  all: try (apply perm_swap).
  all: try distinct_keys.
Qed.

Lemma ex_swapped_prints_the_same st : print_file_tokens st X.ex_file = print_file_tokens st ex_file_swapped.
Proof. apply print_file_tokens_range_order_free, ex_swapped_equiv. Qed.

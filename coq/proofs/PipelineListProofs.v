(* PipelineListProofs.v — the list request of a list method (model/PipelineList.v):
   it can always be built when every enum field's default filters name options of its enum (and only then: the
   refutation below); every filterable / sortable / searchable name is the dotted path of a walked field of a
   type buildListRequest reads that constraint from; the chain with list requests is the chain without them
   when the defaults are known. *)
From Coq Require Import String Ascii List Arith NArith Bool Lia.
From J5V.lib Require Import Outcome Corr.
From J5V.model Require Import Pipeline PipelineCompile PipelineEntity PipelineList PipelineCorr.
From J5V.proofs Require Import PipelineProofs PipelineChainProofs PipelineEntityProofs.
Import ListNotations.
Local Open Scope N_scope.
Local Open Scope bool_scope.

(* every default filter of every enum rule is found by OptionByName *)
Definition defaults_known (rt : rules_table) : Prop :=
  forall e, In e rt -> forallb (option_by_name (snd e)) (lr_defaults (snd e)) = true.

Lemma find_rule_In rt k j r : find_rule rt k j = Some r -> exists e, In e rt /\ snd e = r.
Proof.
  unfold find_rule. destruct (find _ rt) as [e|] eqn:E; [|discriminate]. intro H. injection H as <-.
  apply find_some in E as [Hin _]. exists e. split; [exact Hin|reflexivity].
Qed.

(* ---------- one step ------------------------------------------------------------ *)
Lemma list_step_total rt g root acc x : defaults_known rt -> exists acc', list_step rt g root acc x = Ok acc'.
Proof.
  intro Hd. unfold list_step. destruct x as [path ty].
  destruct (match path_owner g root path with Some k => find_rule rt k (last path []) | None => None end) as [r|] eqn:Er;
    [|eexists; reflexivity].
  assert (Hr : forallb (option_by_name r) (lr_defaults r) = true).
  { destruct (path_owner g root path) as [k|]; [|discriminate].
    destruct (find_rule_In _ _ _ _ Er) as (e & He & <-). exact (Hd e He). }
  destruct ty as [a|alt k|i|i]; try (eexists; reflexivity).
  destruct (String.eqb alt "enum"); [|eexists; reflexivity].
  destruct (lr_filter r); [|eexists; reflexivity]. rewrite Hr. eexists; reflexivity.
Qed.

Lemma build_from_total rt g root : defaults_known rt -> forall walk acc,
  exists lf, fold_left (fun acc x => obind acc (fun a => list_step rt g root a x)) walk (Ok acc) = Ok lf.
Proof.
  intros Hd walk. induction walk as [|x r IH]; intro acc; [exists acc; reflexivity|].
  cbn [fold_left obind]. destruct (list_step_total rt g root acc x Hd) as [acc' E]. rewrite E. apply IH.
Qed.

Theorem list_fields_total rt g root walk : defaults_known rt -> exists lf, build_list_fields rt g root walk = Ok lf.
Proof. intro Hd. unfold build_list_fields. apply build_from_total. exact Hd. Qed.

(* ---------- what the names are ------------------------------------------------------ *)
Definition FILTER_KINDS : list string := ["bool"; "float"; "integer"; "key"; "timestamp"]%string.
Definition SORT_KINDS : list string := ["float"; "integer"; "timestamp"]%string.
Definition SEARCH_KINDS : list string := ["string"]%string.

Definition is_enum_ref (t : fty) : Prop := exists k, t = TRef "enum" k.

Definition names_law (walk : list (list str * fty)) (lf : list_fields) : Prop :=
  (forall n, In n (lf_filter lf) -> exists path ty, In (path, ty) walk /\ n = dotted_path path
                                     /\ (is_alt ty FILTER_KINDS = true \/ is_enum_ref ty))
  /\ (forall n, In n (lf_sort lf) -> exists path ty, In (path, ty) walk /\ n = dotted_path path /\ is_alt ty SORT_KINDS = true)
  /\ (forall n, In n (lf_search lf) -> exists path ty, In (path, ty) walk /\ n = dotted_path path /\ is_alt ty SEARCH_KINDS = true).

Lemma names_law_mono walk x lf : names_law walk lf -> names_law (walk ++ [x]) lf.
Proof.
  intros (A & B & C). repeat split; intros n Hn;
    [destruct (A n Hn) as (p & t & Hin & R)|destruct (B n Hn) as (p & t & Hin & R)|destruct (C n Hn) as (p & t & Hin & R)];
    exists p, t; (split; [apply in_or_app; left; exact Hin|exact R]).
Qed.

Lemma if_single_In {A} (b : bool) (n m : A) : In m (if b then [n] else []) -> b = true /\ m = n.
Proof. destruct b; [intros [<-|[]]; split; reflexivity|intros []]. Qed.

Lemma list_step_names rt g root walk acc x acc' :
  names_law walk acc -> list_step rt g root acc x = Ok acc' -> names_law (walk ++ [x]) acc'.
Proof.
  intros Hn E. pose proof (names_law_mono walk x acc Hn) as Hm.
  unfold list_step in E. destruct x as [path ty].
  destruct (match path_owner g root path with Some k => find_rule rt k (last path []) | None => None end) as [r|];
    [|injection E as <-; exact Hm].
  assert (Hlast : In (path, ty) (walk ++ [(path, ty)])) by (apply in_or_app; right; left; reflexivity).
  destruct ty as [a|alt k|i|i]; try (injection E as <-; exact Hm).
  - (* scalar *)
    injection E as <-. destruct Hm as (A & B & C). cbn [lf_filter lf_sort lf_search]. repeat split; intros n Hin.
    + apply in_app_or in Hin as [Hin|Hin]; [exact (A n Hin)|]. apply if_single_In in Hin as [Hb ->].
      apply andb_true_iff in Hb as [_ Hb]. exists path, (TScalar a). split; [exact Hlast|]. split; [reflexivity|left; exact Hb].
    + apply in_app_or in Hin as [Hin|Hin]; [exact (B n Hin)|]. apply if_single_In in Hin as [Hb ->].
      apply andb_true_iff in Hb as [_ Hb]. exists path, (TScalar a). split; [exact Hlast|]. split; [reflexivity|exact Hb].
    + apply in_app_or in Hin as [Hin|Hin]; [exact (C n Hin)|]. apply if_single_In in Hin as [Hb ->].
      apply andb_true_iff in Hb as [_ Hb]. exists path, (TScalar a). split; [exact Hlast|]. split; [reflexivity|exact Hb].
  - (* reference *)
    destruct (String.eqb alt "enum") eqn:Ea; [|injection E as <-; exact Hm]. apply String.eqb_eq in Ea. subst alt.
    destruct (lr_filter r); [|injection E as <-; exact Hm].
    destruct (forallb (option_by_name r) (lr_defaults r)); [|discriminate]. injection E as <-.
    destruct Hm as (A & B & C). cbn [lf_filter lf_sort lf_search]. split; [|split; assumption].
    intros n Hin. apply in_app_or in Hin as [Hin|[<-|[]]]; [exact (A n Hin)|].
    exists path, (TRef "enum" k). split; [exact Hlast|]. split; [reflexivity|right; exists k; reflexivity].
Qed.

Lemma build_from_names rt g root : forall rest done acc lf,
  names_law done acc ->
  fold_left (fun acc x => obind acc (fun a => list_step rt g root a x)) rest (Ok acc) = Ok lf ->
  names_law (done ++ rest) lf.
Proof.
  induction rest as [|x r IH]; intros done acc lf Hn E.
  - cbn in E. injection E as <-. rewrite app_nil_r. exact Hn.
  - cbn [fold_left obind] in E. destruct (list_step rt g root acc x) as [acc'| | |] eqn:Es.
    + replace (done ++ x :: r) with ((done ++ [x]) ++ r) by (rewrite <- app_assoc; reflexivity).
      apply (IH _ acc'); [exact (list_step_names _ _ _ _ _ _ _ Hn Es)|exact E].
    + exfalso. clear -E. induction r as [|y r IHr]; [discriminate|exact (IHr E)].
    + exfalso. clear -E. induction r as [|y r IHr]; [discriminate|exact (IHr E)].
    + exfalso. clear -E. induction r as [|y r IHr]; [discriminate|exact (IHr E)].
Qed.

Theorem list_fields_names rt g root walk lf : build_list_fields rt g root walk = Ok lf -> names_law walk lf.
Proof.
  intro E. apply (build_from_names rt g root walk [] {| lf_filter := []; lf_sort := []; lf_search := [] |} lf); [|exact E].
  repeat split; intros n [].
Qed.

(* ---------- every list method of the client stage ------------------------------------------------ *)
Definition has_list_root (m : client_method) : Prop :=
  cm_list m <> None -> exists root, list_root (cm_resp m) = Ok root.

Lemma method_list_fields_total rt g m : defaults_known rt -> has_list_root m ->
  exists o, method_list_fields rt g m = Ok o.
Proof.
  intros Hd Hr. unfold method_list_fields. destruct (cm_list m) as [walk|] eqn:El; [|eexists; reflexivity].
  assert (Hne : cm_list m <> None) by (rewrite El; discriminate).
  destruct (Hr Hne) as [root Eroot]. rewrite Eroot.
  destruct (list_fields_total rt g root walk Hd) as [lf E]. rewrite E. eexists; reflexivity.
Qed.

Theorem lists_ok_total rt g ms : defaults_known rt -> Forall has_list_root ms -> lists_ok rt g ms = Ok tt.
Proof.
  intros Hd Hall. unfold lists_ok. induction Hall as [|m r Hm _ IH]; [reflexivity|].
  cbn [fold_left obind]. destruct (method_list_fields_total rt g m Hd Hm) as [o E]. rewrite E. cbn [omap obind]. exact IH.
Qed.

(* a method the client stage builds has a list walk only when its response has the one array of objects *)
Lemma method_from_source_list_root gd im sub svc m cm : method_from_source gd im sub svc m = Ok cm -> has_list_root cm.
Proof.
  unfold method_from_source. intro E.
  destruct (object_props (im_schemas im) (sub_pkg im sub, sm_req m)) as [req| | |]; try discriminate. cbn [obind] in E.
  destruct (if str_eqb (sm_resp m) HTTPBODY_SHORT then Ok None
            else omap Some (object_props (im_schemas im) (sub_pkg im sub, sm_resp m))) as [resp| | |]; try discriminate.
  cbn [obind] in E.
  destruct (is_query_request req).
  - destruct (list_root resp) as [root| | |] eqn:Er; try discriminate. cbn [obind] in E.
    match type of E with obind ?w _ = _ => destruct w as [lst| | |]; try discriminate end.
    cbn [obind] in E. injection E as <-. intros _. cbn [cm_resp]. exists root. exact Er.
  - cbn [obind] in E. injection E as <-. intro H. cbn [cm_list] in H. contradiction.
Qed.

Lemma omapM_Forall {A B} (f : A -> outcome B) (P : B -> Prop) : (forall a b, f a = Ok b -> P b) ->
  forall l out, omapM f l = Ok out -> Forall P out.
Proof.
  intros Hf. induction l as [|x r IH]; intros out E; cbn [omapM] in E; [injection E as <-; constructor|].
  destruct (f x) as [y| | |] eqn:Ey; try discriminate. cbn [obind] in E.
  destruct (omapM f r) as [ys| | |]; try discriminate. cbn [obind] in E. injection E as <-.
  constructor; [exact (Hf x y Ey)|exact (IH ys eq_refl)].
Qed.

Lemma Forall_concat {A} (P : A -> Prop) (ll : list (list A)) : Forall (Forall P) ll -> Forall P (concat ll).
Proof. induction 1 as [|l r Hl _ IH]; [constructor|]. cbn [concat]. apply Forall_app. split; assumption. Qed.

Lemma methods_from_source_list_roots gd im api ms : methods_from_source gd im api = Ok ms -> Forall has_list_root ms.
Proof.
  unfold methods_from_source. destruct (negb (all_refs_link (im_schemas im))); [discriminate|]. intro E.
  match type of E with omap _ ?w = _ => destruct w as [mss| | |] eqn:Ew; try discriminate end.
  cbn [omap obind] in E. injection E as <-. apply Forall_concat.
  refine (omapM_Forall _ (Forall has_list_root) _ _ _ Ew).
  intros s out Es. cbv beta in Es.
  apply (omapM_Forall _ has_list_root (fun a b H => method_from_source_list_root _ _ _ _ a b H) _ _ Es).
Qed.

(* ---------- the chain ------------------------------------------------------------------------------ *)
Lemma with_lists_id rt g r ms ks : cr_client r = Ok (ms, ks) -> lists_ok rt g ms = Ok tt -> with_lists rt g r = r.
Proof. intros E L. unfold with_lists. rewrite E, L. reflexivity. Qed.

(* under the hypotheses of chain_with_entities and known defaults, the chain with the list requests succeeds in
   every stage, with the same client API *)
Theorem chain_with_lists im anns rt api ms :
  add_structure (im_services im) {| sa_services := []; sa_topics := [] |} = Ok api ->
  wf_anns anns ->
  (forall es, walk_source_schemas anns = Ok es -> exists evs, omapM (entity_events (im_schemas im)) es = Ok evs) ->
  all_refs_link (im_schemas im) = true -> wf_env (im_schemas im) -> client_env (im_schemas im) <> None ->
  (forall es, walk_source_schemas anns = Ok es -> forall k, In k (entity_roots es) -> present (im_schemas im) k) ->
  methods_from_source true (with_roots im []) api = Ok ms ->
  Forall wf_client_method ms ->
  (forall k, In k (flat_map method_roots ms) -> present (im_schemas im) k) ->
  defaults_known rt ->
  let r := run_chain_list current_config im anns rt in
  exists es ks,
    walk_source_schemas anns = Ok es
    /\ cr_source r = Ok api
    /\ cr_client r = Ok (ms, ks)
    /\ (forall x, In x ks <->
          present (cenv (im_schemas im)) x /\
          exists k, In k (root_refs (im_schemas im) (entity_roots es) ++ flat_map method_roots ms)
                    /\ present (cenv (im_schemas im)) k /\ reach (cenv (im_schemas im)) k x)
    /\ cr_swagger r = Ok tt
    /\ Forall (fun m => exists o, method_list_fields rt (im_schemas im) m = Ok o) ms.
Proof.
  intros Hsrc Hwa Hev Hl Hwf Hff Hroots Hms Hwm Hmr Hd. cbv zeta.
  destruct (chain_with_entities im anns api ms Hsrc Hwa Hev Hl Hwf Hff Hroots Hms Hwm Hmr) as (es & ks & A & B & C & D & E).
  pose proof (methods_from_source_list_roots _ _ _ _ Hms) as Hlr.
  unfold run_chain_list. rewrite (with_lists_id rt (im_schemas im) _ ms ks C (lists_ok_total rt _ ms Hd Hlr)).
  exists es, ks. repeat (split; [assumption|]).
  rewrite Forall_forall in Hlr |- *. intros m Hm. exact (method_list_fields_total rt _ m Hd (Hlr m Hm)).
Qed.

(* the composed chain theorem with list requests: for a valid declared package and a rules table with known
   defaults, building the list requests changes nothing and every list method gets its list fields *)
Theorem chain_full_lists (to_snake : str -> str) (P : decl_package) rt :
  valid_package to_snake P -> defaults_known rt ->
  let r0 := run_chain current_config (PipelineCompile.compile_image to_snake P) in
  let g := im_schemas (PipelineCompile.compile_image to_snake P) in
  with_lists rt g r0 = r0
  /\ Forall (fun m => exists o, method_list_fields rt g m = Ok o) (declared_clients to_snake P).
Proof.
  intros Hv Hd. cbv zeta.
  destruct (chain_full to_snake P Hv) as (ks & _ & C & _).
  pose proof (methods_from_source_list_roots _ _ _ _ (methods_declared to_snake P Hv)) as Hlr.
  split.
  - exact (with_lists_id rt _ _ _ ks C (lists_ok_total rt _ _ Hd Hlr)).
  - rewrite Forall_forall in Hlr |- *. intros m Hm. exact (method_list_fields_total rt _ m Hd (Hlr m Hm)).
Qed.

(* ---------- the hypothesis is needed: an unknown default filter fails the client stage ---------------------- *)
Definition lex_pkg : str := bytes_of "t.v1".
Definition lex_env : env :=
  [ ((lex_pkg, bytes_of "Item"), SObject [ {| p_json := bytes_of "kind"; p_ty := TRef "enum" (lex_pkg, bytes_of "Kind") |};
                                           {| p_json := bytes_of "weight"; p_ty := TScalar "integer" |};
                                           {| p_json := bytes_of "base"; p_ty := TRef "flatten" (lex_pkg, bytes_of "Base") |};
                                           {| p_json := bytes_of "sub"; p_ty := TRef "object" (lex_pkg, bytes_of "Base") |} ]);
    ((lex_pkg, bytes_of "Base"), SObject [ {| p_json := bytes_of "title"; p_ty := TScalar "string" |};
                                           {| p_json := bytes_of "flag"; p_ty := TScalar "bool" |} ]);
    ((lex_pkg, bytes_of "Kind"), SEnum) ].

Definition lex_rule (f s q : bool) (d : list string) : lrule :=
  {| lr_filter := f; lr_sort := s; lr_search := q; lr_defaults := map bytes_of d; lr_prefix := bytes_of "KIND_";
     lr_options := map bytes_of ["UNSPECIFIED"; "ALPHA"; "BETA"]%string |}.

Definition lex_rules (d : list string) : rules_table :=
  [ ((lex_pkg, bytes_of "Item"), bytes_of "kind", lex_rule true false false d);
    ((lex_pkg, bytes_of "Item"), bytes_of "weight", lex_rule true true false []);
    ((lex_pkg, bytes_of "Base"), bytes_of "title", lex_rule false false true []);
    ((lex_pkg, bytes_of "Base"), bytes_of "flag", lex_rule true false false []) ].

Definition lex_walk : outcome (list (list str * fty)) :=
  walk_fields 10 (cenv lex_env) (lex_pkg, bytes_of "Item") [] [].

Definition lex_fields (d : list string) : outcome (list str * list str * list str) :=
  obind lex_walk (fun w =>
    omap (fun lf => (lf_filter lf, lf_sort lf, lf_search lf))
         (build_list_fields (lex_rules d) lex_env (lex_pkg, bytes_of "Item") w)).

(* known defaults, with and without the prefix; flattened and nested fields find their rules in the declaring schema *)
Lemma list_fields_example :
  lex_fields ["ALPHA"; "KIND_BETA"]%string
  = Ok (map bytes_of ["kind"; "weight"; "flag"; "sub.flag"], map bytes_of ["weight"], map bytes_of ["title"; "sub.title"])%string.
Proof. vm_compute. reflexivity. Qed.

Theorem list_fields_unknown_default_refuted : lex_fields ["NOPE"]%string = Err "unknown enum value".
Proof. vm_compute. reflexivity. Qed.

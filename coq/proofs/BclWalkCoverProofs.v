(* BclWalkCoverProofs.v — every production of the walker that yields a fragment
   leaves the walker on the line where the fragment ends (a trailing comment
   and the EOL that close a statement are on the statement's last line).
   Hence every token of an accepted file ends on or before the last line of
   some fragment, and with the lexer's coverage theorem: the lines after the
   last fragment hold only white space. *)
From Coq Require Import String List NArith ZArith Bool Lia ZifyN ZifyNat ZifyBool.
From J5V.lib Require Import Text Outcome.
From J5V.model Require Import BclLexer BclParser.
From J5V.proofs Require Import BclPosProofs BclLexerProofs BclLexerCoverProofs BclParserProofs.
Import ListNotations.
Local Open Scope Z_scope.
Arguments Nat.sub : simpl never.

Section WalkCover.
Variable inp : list N.

Definition lst_ok (s : wstate) : Prop := lchain (wprev s) (wrest s).
(* the previous token exists and is not an EOL *)
Definition pne (s : wstate) : Prop := exists p, wprev s = Some p /\ ty p <> EOL.

Lemma lchain_app : forall a prev b, lchain prev (a ++ b) -> lchain (last (map Some a) prev) b.
Proof.
  induction a as [|x r IH]; intros prev b H; [exact H|].
  cbn [app lchain] in H. destruct H as (_ & _ & H). cbn [map]. rewrite last_cons_dflt. apply IH. exact H.
Qed.

Lemma wstep_lst s s' : wstep inp s s' -> lst_ok s -> lst_ok s'.
Proof.
  intros H Hl. destruct (ws_cons _ _ _ H) as (c & Hc & Hp). unfold lst_ok in *.
  rewrite Hp. apply lchain_app. rewrite <- Hc. exact Hl.
Qed.

(* popping a token: the state afterwards, with the type of what was popped *)
Lemma pop_token_line s : wst_ok inp s -> wlive s -> lst_ok s ->
  exists t s', pop_token s = WOk t s' /\ wstep inp s s' /\ hw s' = (if wrest s then hw s else tend t) /\
    ty t = next_type s /\
    (wrest s <> [] -> wprev s' = Some t) /\ (wrest s = [] -> s' = s) /\
    (pne s -> ty t = COMMENT \/ ty t = EOL \/ ty t = EOF -> fst (hw s') = fst (hw s)).
Proof.
  intros Hok Hl Hls.
  destruct (pop_token_spec inp s Hok Hl) as (t & s' & E & Hst & Hin & Hty & Hlen & Hte).
  exists t, s'. split; [exact E|]. split; [exact Hst|].
  unfold pop_token in E. destruct (wrest s) as [|t0 r] eqn:Hr.
  - destruct (wprev s) as [p|] eqn:Hp; [|discriminate].
    destruct (tt_eqb (ty p) EOF); inversion E; subst; repeat split; auto; congruence.
  - inversion E; subst. split; [reflexivity|]. split; [exact Hty|]. split; [reflexivity|]. split; [congruence|].
    intros (p & Hp & Hpne) Hk. unfold lst_ok in Hls. rewrite Hr, Hp in Hls. cbn [lchain] in Hls.
    destruct Hls as (A & B & _). unfold hw, current_pos. cbn [wprev]. rewrite Hp.
    assert (Hk' : ty t = COMMENT \/ ty t = EOL).
    { destruct Hk as [Hk|[Hk|Hk]]; auto. exfalso.
      destruct Hok as (_ & Hc & _). rewrite Hr in Hc. cbn in Hc. apply Hc. exact Hk. }
    rewrite (B Hk'), (A Hpne). reflexivity.
Qed.

(* endStatement stays on the line *)
Lemma end_statement_line s c s' : wst_ok inp s -> wlive s -> lst_ok s -> pne s ->
  end_statement s = WOk c s' -> fst (hw s') = fst (hw s).
Proof.
  intros Hok Hl Hls Hp. unfold end_statement.
  destruct (pop_token_line s Hok Hl Hls) as (t & s1 & E & Hst & Hhw & Hty & Hprev & Hsame & Hline).
  rewrite E. cbn [wbind].
  destruct (ty t) eqn:Et; try discriminate.
  - intros [= _ <-]. apply Hline; auto.
  - intros [= _ <-]. apply Hline; auto.
  - (* COMMENT *)
    assert (H1 : fst (hw s1) = fst (hw s)) by (apply Hline; auto).
    assert (Hp1 : pne s1).
    { destruct (wrest s) as [|t0 r] eqn:Hr.
      - rewrite (Hsame eq_refl). exact Hp.
      - exists t. split; [apply Hprev; discriminate|]. rewrite Et. discriminate. }
    destruct (pop_token_line s1 (ws_ok _ _ _ Hst) (wstep_live _ _ _ Hst) (wstep_lst _ _ Hst Hls))
      as (t2 & s2 & E2 & Hst2 & Hhw2 & Hty2 & _ & _ & Hline2).
    rewrite E2. cbn [wbind].
    destruct (ty t2) eqn:Et2; try discriminate; intros [= _ <-]; rewrite <- H1; apply Hline2; auto.
Qed.

(* ---- where productions leave the walker --------------------------------------------------- *)
Lemma pop_ident_pne s i s' : wst_ok inp s -> wlive s -> pop_ident s = WOk i s' -> pne s' /\ wstep inp s s'.
Proof.
  intros Hok Hl. unfold pop_ident.
  destruct (pop_token_spec inp s Hok Hl) as (t & s1 & E & Hst & Hin & Hty & Hlen & Hte).
  rewrite E. cbn [wbind]. destruct (as_ident t) as [i0|] eqn:Ei; [|discriminate].
  intros [= _ <-]. split; [|exact Hst].
  unfold pop_token in E. destruct (wrest s) as [|t0 r] eqn:Hr.
  - destruct (wprev s) as [p|] eqn:Hp; [|discriminate].
    destruct (tt_eqb (ty p) EOF) eqn:Ee.
    + inversion E; subst. exists t. split; [exact Hp|]. unfold as_ident in Ei. destruct (ty t); discriminate.
    + inversion E; subst. cbn in Ei. discriminate.
  - inversion E; subst. exists t. split; [reflexivity|]. unfold as_ident in Ei. destruct (ty t); discriminate.
Qed.

Lemma pop_reference_loop_pne : forall fuel acc s r s', wst_ok inp s -> wlive s ->
  pop_reference_loop fuel acc s = WOk r s' -> pne s'.
Proof.
  induction fuel as [|f IH]; intros acc s r s' Hok Hl; cbn [pop_reference_loop]; [discriminate|].
  destruct (pop_ident s) as [i s1|t wet s1|p|] eqn:E; try discriminate.
  - destruct (pop_ident_pne s i s1 Hok Hl E) as [Hp Hst].
    destruct (tt_eqb (next_type s1) DOT).
    + destruct (pop_token_spec inp s1 (ws_ok _ _ _ Hst) (wstep_live _ _ _ Hst)) as (t2 & s2 & E2 & Hst2 & _).
      rewrite E2. cbn [wbind]. apply IH; [apply Hst2|eapply wstep_live; eauto].
    + intros [= _ <-]. exact Hp.
  - destruct acc; discriminate.
Qed.

Lemma pop_reference_pne s r s' : wst_ok inp s -> wlive s -> pop_reference s = WOk r s' -> pne s'.
Proof. intros Hok Hl. apply pop_reference_loop_pne; assumption. Qed.

(* popping a token whose type is known not to be EOL / EOF *)
Lemma pop_token_pne s t s' : wst_ok inp s -> wlive s -> pop_token s = WOk t s' ->
  next_type s <> EOL -> next_type s <> EOF -> pne s' /\ hw s' = tend t.
Proof.
  intros Hok Hl E H1 H2. unfold pop_token, next_type in *. destruct (wrest s) as [|t0 r] eqn:Hr; [congruence|].
  inversion E; subst. split; [|reflexivity]. exists t. split; [reflexivity|exact H1].
Qed.

Definition value_out (v : value) (s' : wstate) : Prop := pne s' /\ value_end v = hw s'.

Lemma pop_elems_out pv (bound : nat) op :
  (forall s2 v s3, wst_ok inp s2 -> wlive s2 -> (length (wrest s2) < bound)%nat -> pv s2 = WOk v s3 ->
                   value_out v s3 /\ wstep inp s2 s3) ->
  forall fuel2 acc s2 v s', wst_ok inp s2 -> wlive s2 -> (length (wrest s2) < bound)%nat ->
  pop_elems pv fuel2 op acc s2 = WOk v s' -> value_out v s'.
Proof.
  intros Hpv. induction fuel2 as [|f2 IH]; intros acc s2 v s' Hok Hl Hb; cbn [pop_elems]; [discriminate|].
  destruct (pv s2) as [v0 s3|t wet s3|p|] eqn:Ev; try discriminate. cbn [wbind].
  destruct (Hpv s2 v0 s3 Hok Hl Hb Ev) as [_ H23].
  destruct (pop_token_spec inp s3 (ws_ok _ _ _ H23) (wstep_live _ _ _ H23)) as (t4 & s4 & E4 & H34 & _ & Hty4 & _ & Hte4).
  destruct (tt_eqb (next_type s3) COMMA) eqn:Ec.
  - rewrite E4. cbn [wbind]. apply IH; [apply H34|eapply wstep_live; eauto|].
    pose proof (ws_len _ _ _ H23). pose proof (ws_len _ _ _ H34). lia.
  - destruct (tt_eqb (next_type s3) RBRACK) eqn:Eb; rewrite E4; cbn [wbind]; [|discriminate].
    intros [= <- <-]. apply tt_eqb_true in Eb.
    destruct (pop_token_pne s3 t4 s4 (ws_ok _ _ _ H23) (wstep_live _ _ _ H23) E4) as [Hp Hh];
      [rewrite Eb; discriminate|rewrite Eb; discriminate|].
    split; [exact Hp|reflexivity].
Qed.

Lemma pop_value_out : forall fuel depth s v s', wst_ok inp s -> wlive s -> (length (wrest s) < fuel)%nat ->
  pop_value fuel depth s = WOk v s' -> value_out v s' /\ wstep inp s s'.
Proof.
  induction fuel as [|f IH]; intros depth s v s' Hok Hl Hf; [lia|].
  intros E. split.
  2:{ pose proof (pop_value_spec inp (S f) depth s Hok Hl Hf) as H. unfold value_res in H. rewrite E in H. apply H. }
  revert E. cbn [pop_value].
  destruct (tt_eqb (next_type s) IDENT) eqn:E1.
  { apply tt_eqb_true in E1.
    pose proof (pop_reference_spec inp s Hok Hl (or_introl E1)) as Hs.
    destruct (pop_reference s) as [r s1|t wet s1|p|] eqn:Er; try discriminate. cbn [wbind]. intros [= <- <-].
    cbn in Hs. destruct Hs as (_ & (_ & _ & Hre) & _).
    split; [eapply pop_reference_pne; eauto|exact Hre]. }
  destruct (is_literal (next_type s)) eqn:E2.
  { destruct (pop_token s) as [t s1|t wet s1|p|] eqn:Et; try discriminate. cbn [wbind]. intros [= <- <-].
    destruct (pop_token_pne s t s1 Hok Hl Et) as [Hp Hh]; try (intros H; rewrite H in E2; discriminate).
    split; [exact Hp|symmetry; exact Hh]. }
  destruct (tt_eqb (next_type s) LBRACK) eqn:E3; cycle 1.
  { destruct (pop_token s); discriminate. }
  apply tt_eqb_true in E3.
  destruct (pop_token_spec inp s Hok Hl) as (op & s1 & E & Hst & Hin & Hty & Hlen & Hte).
  rewrite E. cbn [wbind].
  assert (Hr : wrest s <> []). { apply (next_type_not_eof inp); auto. rewrite E3. discriminate. }
  specialize (Hlen Hr).
  destruct (N.leb max_value_depth depth); [discriminate|].
  destruct (tt_eqb (next_type s1) RBRACK) eqn:E4.
  { destruct (pop_token s1) as [t2 s2|t2 wet2 s2|p|] eqn:E2'; try discriminate. cbn [wbind]. intros [= <- <-].
    apply tt_eqb_true in E4.
    destruct (pop_token_pne s1 t2 s2 (ws_ok _ _ _ Hst) (wstep_live _ _ _ Hst) E2') as [Hp Hh];
      [rewrite E4; discriminate|rewrite E4; discriminate|].
    split; [exact Hp|reflexivity]. }
  apply (pop_elems_out (pop_value f (N.succ depth)) f op).
  - intros s2 v0 s3 Hok2 Hl2 Hb Ev. eapply IH; eassumption.
  - apply Hst.
  - eapply wstep_live; eauto.
  - lia.
Qed.

Lemma pop_tag_pne s t s' : wst_ok inp s -> wlive s -> pop_tag s = WOk t s' -> pne s'.
Proof.
  intros Hok Hl. unfold pop_tag.
  assert (Hafter : forall mk mt s0, wst_ok inp s0 -> wlive s0 ->
    match next_type s0 with
    | IDENT | BOOL =>
      wbind (pop_reference s0) (fun r s1 => WOk (mkTag mk mt (TagRef r) (ref_start r) (ref_end r)) s1)
    | STRING =>
      wbind (pop_value_top s0) (fun v s1 => WOk (mkTag mk mt (TagVal v) (value_start v) (value_end v)) s1)
    | _ => wbind (pop_token s0) (fun t s1 => WErr t (Expected exp_tag) s1)
    end = WOk t s' -> pne s').
  { intros mk mt s0 Hok0 Hl0.
    assert (Hr : wbind (pop_reference s0) (fun r s1 => WOk (mkTag mk mt (TagRef r) (ref_start r) (ref_end r)) s1) = WOk t s' -> pne s').
    { destruct (pop_reference s0) as [r s1|t1 wet1 s1|p|] eqn:Er; try discriminate. cbn [wbind]. intros [= _ <-].
      eapply pop_reference_pne; eauto. }
    assert (Hd : wbind (pop_token s0) (fun t s1 => WErr (A:=tag) t (Expected exp_tag) s1) = WOk t s' -> pne s').
    { destruct (pop_token s0); discriminate. }
    destruct (next_type s0); auto.
    unfold pop_value_top. destruct (pop_value (S (length (wrest s0))) 0%N s0) as [v s1|t1 wet1 s1|p|] eqn:Ev; try discriminate.
    cbn [wbind]. intros [= _ <-]. apply (pop_value_out _ _ _ _ _ Hok0 Hl0 (Nat.lt_succ_diag_r _) Ev). }
  destruct (pop_token_spec inp s Hok Hl) as (t0 & s1 & E & Hst & _).
  pose proof (Hafter MarkNone None s Hok Hl) as Hnone.
  assert (Hmark : forall mk, wbind (pop_token s) (fun t0 s1 =>
      match next_type s1 with
      | IDENT | BOOL =>
        wbind (pop_reference s1) (fun r s2 => WOk (mkTag mk (Some t0) (TagRef r) (ref_start r) (ref_end r)) s2)
      | STRING =>
        wbind (pop_value_top s1) (fun v s2 => WOk (mkTag mk (Some t0) (TagVal v) (value_start v) (value_end v)) s2)
      | _ => wbind (pop_token s1) (fun t s2 => WErr t (Expected exp_tag) s2)
      end) = WOk t s' -> pne s').
  { intros mk. rewrite E. cbn [wbind]. apply Hafter; [apply Hst|eapply wstep_live; eauto]. }
  cbv zeta. destruct (next_type s) eqn:En; try exact Hnone; apply Hmark.
Qed.

Lemma tags_loop_pne : forall fuel acc s ts s', wst_ok inp s -> wlive s -> pne s ->
  tags_loop fuel acc s = WOk ts s' -> pne s'.
Proof.
  induction fuel as [|f IH]; intros acc s ts s' Hok Hl Hp; cbn [tags_loop]; [discriminate|].
  destruct (can_start_tag (next_type s)); [|intros [= _ <-]; exact Hp].
  pose proof (pop_tag_spec inp s Hok Hl) as Hs. unfold tag_res in Hs.
  destruct (pop_tag s) as [t s1|t wet s1|p|] eqn:Et; try discriminate. cbn [wbind]. cbn in Hs. destruct Hs as (Hst & _).
  apply IH; [apply Hst|eapply wstep_live; eauto|eapply pop_tag_pne; eauto].
Qed.

Lemma quals_loop_pne : forall fuel acc s ts s', wst_ok inp s -> wlive s -> pne s ->
  quals_loop fuel acc s = WOk ts s' -> pne s'.
Proof.
  induction fuel as [|f IH]; intros acc s ts s' Hok Hl Hp; cbn [quals_loop]; [discriminate|].
  destruct (tt_eqb (next_type s) COLON); [|intros [= _ <-]; exact Hp].
  destruct (pop_token_spec inp s Hok Hl) as (t0 & s0 & E & Hst & _).
  rewrite E. cbn [wbind].
  pose proof (pop_tag_spec inp s0 (ws_ok _ _ _ Hst) (wstep_live _ _ _ Hst)) as Hs. unfold tag_res in Hs.
  destruct (pop_tag s0) as [t s1|t wet s1|p|] eqn:Et; try discriminate. cbn [wbind]. cbn in Hs. destruct Hs as (Hst1 & _).
  apply IH; [apply Hst1|eapply wstep_live; eauto|].
  eapply pop_tag_pne; [apply Hst|eapply wstep_live; eauto|exact Et].
Qed.


(* ---- statements end on the line where the walker is left -------------------------------- *)
Lemma pop_value_top_out s v s' : wst_ok inp s -> wlive s -> pop_value_top s = WOk v s' ->
  value_out v s' /\ wstep inp s s'.
Proof. intros Hok Hl. apply pop_value_out; auto. Qed.

Lemma walk_value_assign_line r app s f s' : wst_ok inp s -> wlive s -> lst_ok s ->
  walk_value_assign r app s = WOk f s' -> fst (hw s') = fst (frag_end f).
Proof.
  intros Hok Hl Hls. unfold walk_value_assign.
  destruct (pop_token_spec inp s Hok Hl) as (t & s1 & E & Hst & _).
  rewrite E. cbn [wbind]. destruct (negb (tt_eqb (ty t) ASSIGN)); [discriminate|].
  destruct (pop_value_top s1) as [v s2|t2 wet2 s2|p|] eqn:Ev; try discriminate. cbn [wbind].
  destruct (pop_value_top_out s1 v s2 (ws_ok _ _ _ Hst) (wstep_live _ _ _ Hst) Ev) as [[Hp Hve] H12].
  destruct (end_statement s2) as [c s3|t3 wet3 s3|p|] eqn:Ee; try discriminate. cbn [wbind].
  intros [= <- <-]. cbn [frag_end aend]. rewrite Hve.
  apply (end_statement_line s2 c s3); auto; [apply H12|eapply wstep_live; eauto|].
  eapply wstep_lst; [exact H12|]. eapply wstep_lst; eauto.
Qed.

Lemma step_or_same_ok s1 s2 : wst_ok inp s1 -> wlive s1 -> lst_ok s1 -> s2 = s1 \/ wstep inp s1 s2 ->
  wst_ok inp s2 /\ wlive s2 /\ lst_ok s2.
Proof.
  intros A B C [->|H]; [auto|]. split; [apply H|]. split; [eapply wstep_live; eauto|eapply wstep_lst; eauto].
Qed.

Lemma walk_statement_line s f s' : wst_ok inp s -> wlive s -> lst_ok s ->
  next_type s = IDENT \/ next_type s = BOOL ->
  walk_statement s = WOk f s' -> fst (hw s') = fst (frag_end f).
Proof.
  intros Hok Hl Hls Hn. unfold walk_statement.
  pose proof (pop_reference_spec inp s Hok Hl Hn) as Href.
  destruct (pop_reference s) as [r s1|t wet s1|p|] eqn:Er; try discriminate. cbn [wbind]. cbn in Href.
  destruct Href as (H01 & _ & _).
  pose proof (pop_reference_pne s r s1 Hok Hl Er) as Hp1.
  assert (Hok1 := ws_ok _ _ _ H01). assert (Hl1 := wstep_live _ _ _ H01). assert (Hls1 := wstep_lst _ _ H01 Hls).
  destruct (tt_eqb (next_type s1) ASSIGN).
  { apply walk_value_assign_line; assumption. }
  destruct (tt_eqb (next_type s1) PLUS).
  { destruct (pop_token_spec inp s1 Hok1 Hl1) as (t & s2 & E & H12 & _). rewrite E. cbn [wbind].
    destruct (negb (tt_eqb (next_type s2) ASSIGN)); [destruct (pop_token s2); discriminate|].
    apply walk_value_assign_line; [apply H12|eapply wstep_live; eauto|eapply wstep_lst; eauto]. }
  pose proof (tags_loop_spec inp (S (length (wrest s1))) [] s1 (hw s) Hok1 Hl1) as Ht.
  destruct (tags_loop (S (length (wrest s1))) [] s1) as [tags s2|t wet s2|p|] eqn:Et; try discriminate. cbn [wbind].
  destruct Ht as (A2 & _); [apply H01|constructor|lia|].
  pose proof (tags_loop_pne _ _ _ _ _ Hok1 Hl1 Hp1 Et) as Hp2.
  destruct (step_or_same_ok s1 s2 Hok1 Hl1 Hls1 A2) as (Hok2 & Hl2 & Hls2).
  pose proof (quals_loop_spec inp (S (length (wrest s2))) [] s2 (hw s2) Hok2 Hl2) as Hq.
  destruct (quals_loop (S (length (wrest s2))) [] s2) as [quals s3|t wet s3|p|] eqn:Eq; try discriminate. cbn [wbind].
  destruct Hq as (A3 & _); [apply pos_le_refl|constructor|lia|].
  pose proof (quals_loop_pne _ _ _ _ _ Hok2 Hl2 Hp2 Eq) as Hp3.
  destruct (step_or_same_ok s2 s3 Hok2 Hl2 Hls2 A3) as (Hok3 & Hl3 & Hls3).
  destruct (pop_token_spec inp s3 Hok3 Hl3) as (t4 & s4 & E4 & H34 & _ & Hty4 & _ & Hte4).
  destruct (next_type s3) eqn:En3; try (rewrite E4; discriminate).
  - (* EOF *) intros [= <- <-]. reflexivity.
  - (* EOL *) intros [= <- <-]. reflexivity.
  - (* COMMENT *)
    destruct (end_statement s3) as [c s5|t5 wet5 s5|p|] eqn:Ee; try discriminate. cbn [wbind].
    intros [= <- <-]. cbn [frag_end hend]. apply (end_statement_line s3 c s5); auto.
  - (* DESCRIPTION *) rewrite E4. cbn [wbind]. intros [= <- <-]. reflexivity.
  - (* LBRACE *)
    rewrite E4. cbn [wbind].
    destruct (end_statement s4) as [c s5|t5 wet5 s5|p|] eqn:Ee; try discriminate. cbn [wbind].
    intros [= <- <-]. cbn [frag_end hend].
    apply (end_statement_line s4 c s5); [apply H34|eapply wstep_live; eauto|eapply wstep_lst; eauto| |exact Ee].
    destruct (pop_token_pne s3 t4 s4 Hok3 Hl3 E4) as [Hp4 _]; [rewrite En3; discriminate|rewrite En3; discriminate|exact Hp4].
Qed.

Lemma pop_description_loop_end : forall fuel acc s d s', wst_ok inp s -> wlive s ->
  pop_description_loop fuel acc s = WOk d s' -> dsend d = hw s'.
Proof.
  induction fuel as [|f IH]; intros acc s d s' Hok Hl; cbn [pop_description_loop]; [discriminate|].
  destruct (pop_token_spec inp s Hok Hl) as (t & s1 & E & Hst & _ & _ & _ & Hte).
  rewrite E. cbn [wbind].
  destruct (tt_eqb (peek_type 0 s1) EOL && tt_eqb (peek_type 1 s1) DESCRIPTION)%bool.
  - destruct (pop_token_spec inp s1 (ws_ok _ _ _ Hst) (wstep_live _ _ _ Hst)) as (t2 & s2 & E2 & Hst2 & _).
    rewrite E2. cbn [wbind]. apply IH; [apply Hst2|eapply wstep_live; eauto].
  - intros [= <- <-]. cbn [dsend]. rewrite ref_end_snoc. exact Hte.
Qed.

Lemma next_fragment_line s f s' : wst_ok inp s -> wlive s -> lst_ok s ->
  next_fragment s = WOk (Some f) s' -> fst (hw s') = fst (frag_end f).
Proof.
  intros Hok Hl Hls. unfold next_fragment.
  destruct (pop_token_spec inp s Hok Hl) as (t & s1 & E & Hst & _ & _ & _ & Hte).
  destruct (next_type s) eqn:En; try (rewrite E; discriminate).
  - (* IDENT *) destruct (walk_statement s) as [f0 s0|t0 wet0 s0|p|] eqn:Ew; try discriminate. cbn [wbind].
    intros [= <- <-]. eapply walk_statement_line; eauto.
  - (* BOOL *) destruct (walk_statement s) as [f0 s0|t0 wet0 s0|p|] eqn:Ew; try discriminate. cbn [wbind].
    intros [= <- <-]. eapply walk_statement_line; eauto.
  - (* COMMENT *) rewrite E. cbn [wbind]. intros [= <- <-]. cbn [frag_end]. rewrite Hte. reflexivity.
  - (* BLOCK_COMMENT *) rewrite E. cbn [wbind]. intros [= <- <-]. cbn [frag_end]. rewrite Hte. reflexivity.
  - (* DESCRIPTION *)
    unfold pop_description. destruct (pop_description_loop (S (length (wrest s))) [] s) as [d s0|t0 wet0 s0|p|] eqn:Ed; try discriminate.
    cbn [wbind]. intros [= <- <-]. cbn [frag_end]. rewrite (pop_description_loop_end _ _ _ _ _ Hok Hl Ed). reflexivity.
  - (* RBRACE *) rewrite E. cbn [wbind]. intros [= <- <-]. cbn [frag_end]. rewrite Hte. reflexivity.
Qed.

(* ---- every token that is not an EOL ends on or before the last line of some fragment ----- *)
Lemma chain_consumed_le : forall c lo r d, chain_from inp lo (c ++ r) ->
  forall t, In t c -> pos_le (tend t) (tend (last c d)).
Proof.
  induction c as [|x c IH]; intros lo r d H t Hin; [contradiction|].
  cbn [app chain_from] in H. destruct H as (H1 & (_ & _ & Hxe) & _ & H4).
  destruct c as [|y c'].
  - destruct Hin as [Heq|[]]. subst t. apply pos_le_refl.
  - change (last (x :: y :: c') d) with (last (y :: c') d).
    destruct Hin as [Heq|Hin].
    + subst t. pose proof H4 as H4'. cbn [app chain_from] in H4'. destruct H4' as (Hy1 & (_ & _ & Hye) & _).
      eapply pos_le_trans; [exact Hy1|]. eapply pos_le_trans; [exact Hye|].
      apply (IH (tend x) r d H4 y). left. reflexivity.
    + apply (IH (tend x) r d H4 t Hin).
Qed.

Lemma walk_loop_lines : forall fuel s fs, wst_ok inp s -> lst_ok s -> (length (wrest s) < fuel)%nat ->
  walk_fragments_loop fuel true s = WalkOk fs [] ->
  forall t, In t (wrest s) -> ty t <> EOL -> exists f, In f fs /\ fst (tend t) <= fst (frag_end f).
Proof.
  induction fuel as [|f IH]; intros s fs Hok Hls Hf; [lia|].
  cbn [walk_fragments_loop].
  destruct (tt_eqb (next_type s) EOF) eqn:Ee.
  { intros _ t Hin. apply tt_eqb_true in Ee. exfalso.
    destruct Hok as (_ & Hc & _). unfold next_type in Ee. destruct (wrest s) as [|t0 r]; [contradiction|].
    cbn in Hc. apply Hc. exact Ee. }
  apply tt_eqb_false in Ee.
  assert (Hr : wrest s <> []) by (apply (next_type_not_eof inp); auto).
  assert (Hl : wlive s) by (left; exact Hr).
  pose proof (next_fragment_spec inp s Hok Hl) as Hn.
  destruct (next_fragment s) as [fo s1|t wet s1|p|] eqn:En; cbn in Hn; try contradiction.
  - destruct Hn as (H01 & _ & Hlen). specialize (Hlen Hr).
    specialize (IH s1). destruct (walk_fragments_loop f true s1) as [fs1 ds1|p|] eqn:Ew; try discriminate.
    intros Heq t Hin Hty.
    assert (Hds : ds1 = []) by (destruct fo; injection Heq; auto).
    subst ds1. specialize (IH fs1 (ws_ok _ _ _ H01) (wstep_lst _ _ H01 Hls) ltac:(lia) eq_refl).
    destruct (ws_cons _ _ _ H01) as (c & Hc & Hp).
    rewrite Hc in Hin. apply in_app_or in Hin. destruct Hin as [Hin|Hin].
    + (* consumed by this step *)
      assert (Hle : pos_le (tend t) (hw s1)).
      { destruct Hok as (_ & Hch & _). rewrite Hc in Hch.
        pose proof (chain_consumed_le c (hw s) (wrest s1) t Hch t Hin) as H.
        unfold hw, current_pos. rewrite Hp.
        destruct c as [|x c']; [contradiction|]. cbn [map]. rewrite last_cons_dflt.
        rewrite (last_cons_dflt c' x t) in H.
        replace (last (map Some c') (Some x)) with (Some (last c' x)); [exact H|].
        clear. revert x. induction c' as [|y r IHr]; intros x; [reflexivity|]. cbn [map]. rewrite !last_cons_dflt. apply IHr. }
      destruct fo as [fr|].
      * exists fr. split; [injection Heq as <-; left; reflexivity|].
        rewrite <- (next_fragment_line s fr s1 Hok Hl Hls En).
        destruct Hle as [H|[H _]]; lia.
      * (* an empty line: the consumed token is the EOL *)
        exfalso. unfold next_fragment in En.
        destruct (pop_token_spec inp s Hok Hl) as (t0 & s0 & E0 & _ & _ & Hty0 & _).
        destruct (next_type s) eqn:Ent; try (rewrite E0 in En; discriminate);
          try (destruct (walk_statement s); discriminate);
          try (destruct (pop_description s); discriminate).
        -- apply Ee. reflexivity.
        -- rewrite E0 in En. cbn in En. injection En as Es. subst s1.
           unfold pop_token in E0. destruct (wrest s) as [|x r] eqn:Hrs; [contradiction|].
           inversion E0; subst. cbn in Hc. destruct c as [|y c'].
           ++ cbn in Hc. apply (f_equal (@length _)) in Hc. cbn in Hc. lia.
           ++ cbn in Hc. injection Hc as <- Hc'. apply (f_equal (@length _)) in Hc'. rewrite app_length in Hc'.
              destruct c'; [|cbn in Hc'; lia]. destruct Hin as [<-|[]]. apply Hty. rewrite <- Hty0. unfold next_type. reflexivity.
    + destruct (IH t Hin Hty) as (f0 & Hf0 & Hle). exists f0. split; [|exact Hle].
      destruct fo; injection Heq as <-; [right|]; exact Hf0.
  - intros H. discriminate.
Qed.
End WalkCover.

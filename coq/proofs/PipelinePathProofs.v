(* PipelinePathProofs.v — the clause of C16 "each path parameter names a request property", as a theorem
   about what buildMethod and fillRequest do (no hypothesis that the declared path only uses request
   properties): whenever buildMethod accepts a method, every ":name" of the client path is the JSON name of
   an input field, because a "{x}" part is only mapped through a field found by its proto name and a
   literal part containing ':' is rejected; fillRequest then puts the property of that name among the path
   parameters. Also: C16_full instantiated with the model of iancoleman/strcase ToSnake. *)
From Coq Require Import String Ascii List Arith NArith Bool Lia ZifyN ZifyNat ZifyBool Permutation.
From J5V.lib Require Import Outcome Corr Strcase.
From J5V.model Require Import Pipeline PipelineCompile PipelineCorr.
From J5V.proofs Require Import StrcaseProofs PipelineProofs PipelineStrcaseProofs PipelineChainProofs.
Import ListNotations.
Local Open Scope N_scope.
Local Open Scope bool_scope.

Lemma split_on_no_sep sep s : Forall (no_char sep) (split_on sep s).
Proof.
  induction s as [|c r IH]; cbn [split_on]; [constructor; [intros []|constructor]|].
  destruct (c =? sep) eqn:E.
  - constructor; [intros []|exact IH].
  - pose proof (split_on_nonempty sep r) as Hn. destruct (split_on sep r) as [|p ps]; [contradiction|].
    inversion IH as [|? ? Hp Hps]; subst. constructor; [|exact Hps].
    intros [Hc|Hin]; [apply N.eqb_neq in E; congruence|exact (Hp Hin)].
Qed.

(* one part: the result starts with ':' only if it is ':' ++ the JSON name of a field *)
Lemma map_part_colon fields part out : map_part fields part = Ok out ->
  forall n, out = COLON :: n -> exists f, In f fields /\ f_json f = n.
Proof.
  unfold map_part. destruct part as [|c rest]; [intros E n Hn; subst out; discriminate E|].
  destruct ((c =? LBRACE) && (last_or 0 (c :: rest) =? RBRACE)).
  - destruct (find (fun f => str_eqb (f_proto f) (removelast rest)) fields) as [f|] eqn:F; [|discriminate].
    intros E n Hn. subst out. injection E as E. apply find_some in F as [Hin _]. exists f. split; [exact Hin|exact E].
  - destruct (existsb (fun x => existsb (N.eqb x) invalid_chars) (c :: rest)) eqn:X; [discriminate|].
    intros E n Hn. subst out. injection E as Ec Er. subst c. exfalso.
    cbn [existsb] in X. apply orb_false_iff in X as [X _]. unfold invalid_chars in X. cbn [existsb] in X.
    rewrite N.eqb_refl in X. rewrite !orb_true_r in X. cbn in X. discriminate.
Qed.

(* a mapped part contains no '/' when the part and the JSON names do not *)
Lemma map_part_no_slash fields part out :
  (forall f, In f fields -> no_char SLASH (f_json f)) -> no_char SLASH part ->
  map_part fields part = Ok out -> no_char SLASH out.
Proof.
  intros Hf Hp. unfold map_part. destruct part as [|c rest]; [intro E; inversion E; subst; intros []|].
  destruct ((c =? LBRACE) && (last_or 0 (c :: rest) =? RBRACE)).
  - destruct (find (fun f => str_eqb (f_proto f) (removelast rest)) fields) as [f|] eqn:F; [|discriminate].
    intro E. inversion E; subst. apply find_some in F as [Hin _].
    intros [Hc|Hin']; [unfold COLON, SLASH in Hc; discriminate Hc|exact (Hf f Hin Hin')].
  - destruct (existsb _ (c :: rest)); [discriminate|]. intro E. inversion E; subst. exact Hp.
Qed.

Lemma map_parts_spec fields : forall parts outs,
  (forall f, In f fields -> no_char SLASH (f_json f)) -> Forall (no_char SLASH) parts ->
  map_parts fields parts = Ok outs ->
  Forall (no_char SLASH) outs
  /\ forall n, In (COLON :: n) outs -> exists f, In f fields /\ f_json f = n.
Proof.
  induction parts as [|p r IH]; intros outs Hf Hp E.
  - cbn in E. inversion E; subst. split; [constructor|intros n []].
  - inversion Hp as [|? ? Hp1 Hpr]; subst. cbn [map_parts] in E.
    destruct (map_part fields p) as [p'| | |] eqn:E1; cbn [obind] in E; try discriminate.
    destruct (map_parts fields r) as [r'| | |] eqn:E2; cbn [obind] in E; try discriminate.
    inversion E; subst. destruct (IH r' Hf Hpr eq_refl) as [H1 H2]. split.
    + constructor; [exact (map_part_no_slash fields p p' Hf Hp1 E1)|exact H1].
    + intros n [Hn|Hn]; [exact (map_part_colon fields p p' E1 n Hn)|exact (H2 n Hn)].
Qed.

Lemma map_parts_nonempty fields : forall parts outs, parts <> [] -> map_parts fields parts = Ok outs -> outs <> [].
Proof.
  destruct parts as [|p r]; intros outs Hne E; [contradiction|]. cbn [map_parts] in E.
  destruct (map_part fields p); cbn [obind] in E; try discriminate.
  destruct (map_parts fields r); cbn [obind] in E; try discriminate. inversion E. discriminate.
Qed.

Lemma In_path_param_names path n : In n (path_param_names path) <-> In (COLON :: n) (split_on SLASH path).
Proof.
  unfold path_param_names. rewrite in_flat_map. split.
  - intros (part & Hp & Hn). destruct part as [|c nm]; [destruct Hn|].
    destruct (c =? COLON) eqn:E; [|destruct Hn]. apply N.eqb_eq in E. subst c. destruct Hn as [<-|[]]. exact Hp.
  - intro H. exists (COLON :: n). split; [exact H|]. rewrite N.eqb_refl. left; reflexivity.
Qed.

(* buildMethod: every path parameter of the client path is the JSON name of an input field *)
Theorem client_path_params_are_fields fields http p :
  (forall f, In f fields -> no_char SLASH (f_json f)) ->
  to_client_path fields http = Ok p ->
  forall n, In n (path_param_names p) -> exists f, In f fields /\ f_json f = n.
Proof.
  intros Hf E n Hn. unfold to_client_path in E.
  destruct (map_parts fields (split_on SLASH http)) as [outs| | |] eqn:Em; cbn [omap] in E; try discriminate.
  inversion E; subst p.
  destruct (map_parts_spec fields _ outs Hf (split_on_no_sep SLASH http) Em) as [Hns Hc].
  apply In_path_param_names in Hn.
  rewrite split_join in Hn; [exact (Hc n Hn)| |exact Hns].
  exact (map_parts_nonempty fields _ outs (split_on_nonempty SLASH http) Em).
Qed.

Theorem build_method_path_params m sm :
  (forall f, In f (md_in_fields m) -> no_char SLASH (f_json f)) ->
  build_method m = Ok sm ->
  forall n, In n (path_param_names (sm_path sm)) -> exists f, In f (md_in_fields m) /\ f_json f = n.
Proof.
  intros Hf E. unfold build_method in E.
  destruct (negb (md_in_same_pkg m && str_eqb (md_in_name m) (md_name m ++ bytes_of "Request"))); [discriminate|].
  destruct (negb (str_eqb (md_out_name m) (md_name m ++ bytes_of "Response")) && negb (str_eqb (md_out_full m) HTTPBODY)); [discriminate|].
  destruct (md_http m) as [[verb path]|]; [|discriminate].
  destruct ((verb =? 0) || (5 <? verb)); [discriminate|].
  destruct (to_client_path (md_in_fields m) path) as [p| | |] eqn:Ep; cbn [obind] in E; try discriminate.
  inversion E; subst sm. cbn [sm_path]. exact (client_path_params_are_fields _ path p Hf Ep).
Qed.

(* fillRequest: a path parameter that is the name of a request property is answered by that property *)
Theorem fill_request_covers_params verb path props n :
  In n (path_param_names path) -> In n (map p_json props) ->
  exists p, In p (r_path (fill_request verb path props)) /\ p_json p = n.
Proof.
  intros Hn Hp. apply in_map_iff in Hp as (p & E & Hin). exists p. split; [|exact E].
  apply fill_request_path_spec. split; [exact Hin|]. rewrite E. exact Hn.
Qed.

(* the two together, for what the compiler emits for a declared method: no hypothesis on the declared path *)
Theorem declared_path_params_name_props (to_snake : str -> str) (d : decl_full) sm :
  (forall n, In n (map p_json (df_req d)) -> no_char SLASH n) ->
  build_method (compile_method to_snake (df_decl d)) = Ok sm ->
  forall n, In n (path_param_names (sm_path sm)) ->
    exists p, In p (r_path (fill_request (sm_verb sm) (sm_path sm) (df_req d))) /\ p_json p = n.
Proof.
  intros Hs E n Hn. apply fill_request_covers_params; [exact Hn|].
  destruct (build_method_path_params (compile_method to_snake (df_decl d)) sm) with (n := n) as (f & Hf & Ef); [|exact E|exact Hn|].
  - intros f Hf. cbn [compile_method md_in_fields] in Hf. unfold fields_of in Hf.
    apply in_map_iff in Hf as (nm & <- & Hnm). cbn [f_json]. apply Hs. exact Hnm.
  - cbn [compile_method md_in_fields] in Hf. unfold fields_of in Hf. apply in_map_iff in Hf as (nm & <- & Hnm).
    cbn [f_json] in Ef. subst nm. exact Hnm.
Qed.

(* ------------------------------------------------------------------ C16_full with the real ToSnake *)
(* valid_package where the two hypotheses on ToSnake (injective on the request's names, no '/') are replaced
   by a condition on the names: lowerCamel (letters, starting lower-case, no two adjacent capitals) *)
Definition valid_package_strcase (P : decl_package) : Prop :=
  Forall (fun d => 1 <= df_verb d <= 5 /\ df_parts d <> []
                   /\ Forall (wf_part (map p_json (df_req d))) (df_parts d)
                   /\ all_lower_camel (map p_json (df_req d))) (all_methods P)
  /\ NoDup (map df_name (all_methods P))
  /\ Forall (fun d => is_query_request (df_req d) = true -> exists root, list_root (df_resp d) = Ok root) (all_methods P)
  /\ all_refs_link (im_schemas (compile_image to_snake P)) = true
  /\ wf_env (im_schemas (compile_image to_snake P))
  /\ client_env (im_schemas (compile_image to_snake P)) <> None.

Lemma valid_package_strcase_valid P : valid_package_strcase P -> valid_package to_snake P.
Proof.
  intros (H1 & H2 & H3 & H4 & H5 & H6). unfold valid_package.
  split; [|split; [exact H2|split; [exact H3|split; [exact H4|split; [exact H5|exact H6]]]]].
  rewrite Forall_forall in H1. rewrite Forall_forall. intros d Hd. destruct (H1 d Hd) as (Hv & Hne & Hf & Hlc).
  unfold wf_decl, df_decl. cbn [dm_verb dm_parts dm_props].
  split; [exact Hv|]. split; [exact Hne|]. split; [exact Hf|].
  split; [apply snake_inj_lower_camel; exact Hlc|apply snake_ok_lower_camel; exact Hlc].
Qed.

Theorem chain_full_strcase : forall P, valid_package_strcase P ->
  let r := run_chain current_config (compile_image to_snake P) in
  exists ks,
    cr_source r = Ok (declared_api P)
    /\ cr_client r = Ok (declared_clients to_snake P, ks)
    /\ (forall x, In x ks <->
          present (cenv (image_env to_snake P)) x /\
          exists k, In k (flat_map method_roots (declared_clients to_snake P)) /\ present (cenv (image_env to_snake P)) k
                    /\ reach (cenv (image_env to_snake P)) k x)
    /\ cr_swagger r = Ok tt.
Proof. intros P Hv. apply chain_full. apply valid_package_strcase_valid. exact Hv. Qed.

(* ------------------------------------------------------------------ ... and for camelCase names WITH digits *)
(* lower_camel_d (proofs/StrcaseProofs.v, builder ent): letters and digits, starting lower-case, no capital
   after a capital, no lower-case letter after a digit (address2Line, fooB2, v12Beta); adjacent capitals
   (userID / userId) stay outside: ToSnake maps both to user_id *)
Definition all_lower_camel_d (props : list str) : Prop := Forall (fun n => lower_camel_d n = true) props.

Lemma snake_inj_lower_camel_d props : all_lower_camel_d props -> snake_inj to_snake props.
Proof.
  intros H n m Hn Hm E. unfold all_lower_camel_d in H. rewrite Forall_forall in H.
  apply to_snake_injective_lower_camel_d; auto.
Qed.

Lemma snake_ok_lower_camel_d props : all_lower_camel_d props -> snake_ok to_snake props.
Proof.
  intros H n Hn. unfold all_lower_camel_d in H. rewrite Forall_forall in H.
  pose proof (lower_camel_d_ident n (H n Hn)) as Hi. split.
  - apply ident_no_slash. exact Hi.
  - apply ident_no_slash. apply to_snake_ident. exact Hi.
Qed.

Definition valid_package_strcase_d (P : decl_package) : Prop :=
  Forall (fun d => 1 <= df_verb d <= 5 /\ df_parts d <> []
                   /\ Forall (wf_part (map p_json (df_req d))) (df_parts d)
                   /\ all_lower_camel_d (map p_json (df_req d))) (all_methods P)
  /\ NoDup (map df_name (all_methods P))
  /\ Forall (fun d => is_query_request (df_req d) = true -> exists root, list_root (df_resp d) = Ok root) (all_methods P)
  /\ all_refs_link (im_schemas (compile_image to_snake P)) = true
  /\ wf_env (im_schemas (compile_image to_snake P))
  /\ client_env (im_schemas (compile_image to_snake P)) <> None.

Lemma valid_package_strcase_d_valid P : valid_package_strcase_d P -> valid_package to_snake P.
Proof.
  intros (H1 & H2 & H3 & H4 & H5 & H6). unfold valid_package.
  split; [|split; [exact H2|split; [exact H3|split; [exact H4|split; [exact H5|exact H6]]]]].
  rewrite Forall_forall in H1. rewrite Forall_forall. intros d Hd. destruct (H1 d Hd) as (Hv & Hne & Hf & Hlc).
  unfold wf_decl, df_decl. cbn [dm_verb dm_parts dm_props].
  split; [exact Hv|]. split; [exact Hne|]. split; [exact Hf|].
  split; [apply snake_inj_lower_camel_d; exact Hlc|apply snake_ok_lower_camel_d; exact Hlc].
Qed.

Theorem chain_full_strcase_d : forall P, valid_package_strcase_d P ->
  let r := run_chain current_config (compile_image to_snake P) in
  exists ks,
    cr_source r = Ok (declared_api P)
    /\ cr_client r = Ok (declared_clients to_snake P, ks)
    /\ (forall x, In x ks <->
          present (cenv (image_env to_snake P)) x /\
          exists k, In k (flat_map method_roots (declared_clients to_snake P)) /\ present (cenv (image_env to_snake P)) k
                    /\ reach (cenv (image_env to_snake P)) k x)
    /\ cr_swagger r = Ok tt.
Proof. intros P Hv. apply chain_full. apply valid_package_strcase_d_valid. exact Hv. Qed.

(* ConcKeyOwnProofs.v — with the claim check (HitCheck) a call is never handed an object that was registered
   for another descriptor: invariant "the outermost frame of a call in progress holds the placeholder the
   call itself registered for the descriptor it was asked for", for every key function (collisions
   included), both disciplines, all schedules. *)
From Coq Require Import List NArith Bool Arith Lia.
From J5V.model Require Import Conc ConcKey.
Import ListNotations.

(* the cell of the outermost frame: the placeholder of the call in progress *)
Fixpoint bottom (stk : list frame) : option cellid :=
  match stk with
  | [] => None
  | [f] => Some (f_cell f)
  | _ :: r => bottom r
  end.

Definition root_of (p : pc) : option cellid :=
  match p with
  | PRefLookup stk | PRefInsert stk | PLinked stk | PFail stk => bottom stk
  | PReturn c => Some c
  | _ => None
  end.

Definition pc_ok (h : list cell) (n : name) (p : pc) : Prop :=
  match root_of p with Some c => src_is h c n | None => True end.

Definition thr_ok (h : list cell) (th : thread) : Prop :=
  match t_calls th with
  | n :: _ => pc_ok h n (t_pc th)
  | [] => True
  end.

Definition own_inv (st : state) : Prop := Forall (thr_ok (heap (s_sh st))) (s_thr st).

(* heaps only grow, and a cell keeps its descriptor *)
Definition heap_le (h h' : list cell) : Prop :=
  forall c cl, nth_error h c = Some cl -> exists cl', nth_error h' c = Some cl' /\ c_name cl' = c_name cl.

Lemma heap_le_refl h : heap_le h h.
Proof. intros c cl H. eauto. Qed.

Lemma heap_le_trans a b c : heap_le a b -> heap_le b c -> heap_le a c.
Proof.
  intros H1 H2 i cl Hi. destruct (H1 i cl Hi) as (cl1 & Hb & E1). destruct (H2 i cl1 Hb) as (cl2 & Hc & E2).
  exists cl2. split; [exact Hc|congruence].
Qed.

Lemma src_is_le h h' c d : heap_le h h' -> src_is h c d -> src_is h' c d.
Proof. intros Hle (cl & Hc & E). destruct (Hle c cl Hc) as (cl' & Hc' & E'). exists cl'. split; [exact Hc'|congruence]. Qed.

Lemma nth_error_set_nth_same {A} (l : list A) : forall i x y, nth_error l i = Some y -> nth_error (set_nth l i x) i = Some x.
Proof. induction l as [|a r IH]; intros [|i] x y H; cbn in *; try discriminate; [reflexivity|eauto]. Qed.

Lemma nth_error_set_nth_other {A} (l : list A) : forall i j x, i <> j -> nth_error (set_nth l i x) j = nth_error l j.
Proof. induction l as [|a r IH]; intros [|i] [|j] x H; cbn; try reflexivity; try lia. apply IH. lia. Qed.

Lemma heap_le_set_to sh c fs : heap_le (heap sh) (heap (set_to sh c fs)).
Proof.
  unfold set_to. destruct (nth_error (heap sh) c) as [cl|] eqn:E; [|apply heap_le_refl]. cbn [heap].
  intros i cli Hi. destruct (Nat.eq_dec c i) as [<-|Ne].
  - rewrite (nth_error_set_nth_same _ _ _ _ E). rewrite E in Hi. injection Hi as <-. eexists. split; [reflexivity|reflexivity].
  - rewrite nth_error_set_nth_other by exact Ne. eauto.
Qed.

Lemma heap_le_kalloc key sh d : heap_le (heap sh) (heap (fst (kalloc key sh d))).
Proof.
  unfold kalloc. cbn [fst heap]. intros i cl Hi. exists cl. split; [|reflexivity].
  rewrite nth_error_app1; [exact Hi|]. apply nth_error_Some. congruence.
Qed.

Lemma kalloc_src key sh d : src_is (heap (fst (kalloc key sh d))) (snd (kalloc key sh d)) d.
Proof.
  unfold kalloc, src_is. cbn [fst snd heap]. exists (mkCell d None). split; [|reflexivity].
  rewrite nth_error_app2 by lia. rewrite Nat.sub_diag. reflexivity.
Qed.

Lemma heap_le_advance sh stk : heap_le (heap sh) (heap (fst (advance sh stk))).
Proof.
  unfold advance. destruct stk as [|f rest]; [apply heap_le_refl|].
  destruct (f_todo f) as [|m todo].
  - destruct rest; cbn [fst]; apply heap_le_set_to.
  - destruct (N.eqb m unsupported); cbn [fst]; apply heap_le_refl.
Qed.

Lemma bottom_some rest : forall f, exists b, bottom (f :: rest) = Some b.
Proof. induction rest as [|g r IH]; intros f; [eexists; reflexivity|]. destruct (IH g) as [b Hb]. exists b. exact Hb. Qed.

Lemma bottom_cons f g r : bottom (f :: g :: r) = bottom (g :: r).
Proof. reflexivity. Qed.

(* advance keeps the outermost placeholder *)
Lemma advance_root sh stk : forall c, bottom stk = Some c ->
  root_of (snd (advance sh stk)) = Some c \/ root_of (snd (advance sh stk)) = None.
Proof.
  intros c Hb. unfold advance. destruct stk as [|f rest]; [discriminate|].
  destruct (f_todo f) as [|m todo].
  - destruct rest as [|g r]; cbn [snd root_of].
    + cbn in Hb. left. exact Hb.
    + left. exact Hb.
  - destruct (N.eqb m unsupported); cbn [snd].
    + destruct rest as [|g r]; cbn [root_of]; [right; reflexivity|left; exact Hb].
    + left. exact Hb.
Qed.

Lemma pc_ok_of_root h h' n c p' : heap_le h h' -> src_is h c n ->
  (root_of p' = Some c \/ root_of p' = None) -> pc_ok h' n p'.
Proof. intros Hle Hs [E|E]; unfold pc_ok; rewrite E; [eapply src_is_le; eauto|exact I]. Qed.

Lemma bottom_replace f a b rest : bottom (mkFrame (f_cell f) a b :: rest) = bottom (f :: rest).
Proof. destruct rest; reflexivity. Qed.

Lemma pc_ok_bottom h n stk : pc_ok h n (PLinked stk) -> forall c, bottom stk = Some c -> src_is h c n.
Proof. unfold pc_ok. cbn [root_of]. intros H c E. rewrite E in H. exact H. Qed.

Section Own.
Variable pol : hitpol.
Variable key : name -> name.

Lemma klstep_own k g n sh p : pc_ok (heap sh) n p ->
  heap_le (heap sh) (heap (fst (klstep pol key k g n sh p))) /\
  match snd (klstep pol key k g n sh p) with
  | inl p' => pc_ok (heap (fst (klstep pol key k g n sh p))) n p'
  | inr _ => True
  end.
Proof.
  intros Hok. destruct p as [| | | |stk|stk|stk|c|stk|].
  - cbn. split; [apply heap_le_refl|exact I].
  - cbn. split; [apply heap_le_refl|exact I].
  - (* PLookup *)
    cbn [klstep]. destruct (lookup (cmap sh) (key n)) as [c|]; [|cbn; split; [apply heap_le_refl|exact I]].
    destruct (hit_ok pol sh c n); [destruct (cell_to sh c)|]; cbn; split; try apply heap_le_refl; exact I.
  - (* PInsert *)
    cbn [klstep]. pose proof (heap_le_kalloc key sh n) as L1. pose proof (kalloc_src key sh n) as S1.
    destruct (kalloc key sh n) as [sh1 c]. cbn [fst snd] in *.
    pose proof (heap_le_advance sh1 [mkFrame c (refs g n) []]) as L2.
    pose proof (advance_root sh1 [mkFrame c (refs g n) []] c eq_refl) as R.
    destruct (advance sh1 [mkFrame c (refs g n) []]) as [sh2 p']. cbn [fst snd] in *.
    split; [eapply heap_le_trans; eauto|]. eapply pc_ok_of_root; eauto.
  - (* PRefLookup *)
    destruct stk as [|f rest]; [cbn; split; [apply heap_le_refl|exact Hok]|]. cbn [klstep].
    destruct (f_todo f) as [|m todo]; [cbn; split; [apply heap_le_refl|exact Hok]|].
    unfold pc_ok in Hok. cbn [root_of] in Hok.
    destruct (lookup (cmap sh) (key m)) as [c|]; [|cbn; split; [apply heap_le_refl|exact Hok]].
    destruct (hit_ok pol sh c m).
    + pose proof (heap_le_advance sh (mkFrame (f_cell f) todo (c :: f_done f) :: rest)) as L.
      destruct (bottom_some rest f) as [b Eb]. rewrite Eb in Hok.
      pose proof (advance_root sh (mkFrame (f_cell f) todo (c :: f_done f) :: rest) b) as R.
      rewrite bottom_replace in R. specialize (R Eb).
      destruct (advance sh _) as [sh2 p']. cbn [fst snd] in *. split; [exact L|].
      eapply pc_ok_of_root; eauto.
    + cbn [fst snd fail_to heap]. split; [apply heap_le_refl|].
      destruct rest as [|g' r]; [exact I|]. unfold pc_ok. cbn [root_of]. rewrite bottom_cons in Hok. exact Hok.
  - (* PRefInsert *)
    destruct stk as [|f rest]; [cbn; split; [apply heap_le_refl|exact Hok]|]. cbn [klstep].
    destruct (f_todo f) as [|m todo]; [cbn; split; [apply heap_le_refl|exact Hok]|].
    unfold pc_ok in Hok. cbn [root_of] in Hok.
    pose proof (heap_le_kalloc key sh m) as L1. destruct (kalloc key sh m) as [sh1 c]. cbn [fst snd] in *.
    set (stk' := mkFrame c (refs g m) [] :: mkFrame (f_cell f) todo (c :: f_done f) :: rest).
    pose proof (heap_le_advance sh1 stk') as L2.
    destruct (bottom_some rest f) as [b Eb]. rewrite Eb in Hok.
    assert (Eb' : bottom stk' = Some b).
    { subst stk'. rewrite bottom_cons, bottom_replace. exact Eb. }
    pose proof (advance_root sh1 stk' b Eb') as R.
    destruct (advance sh1 stk') as [sh2 p']. cbn [fst snd] in *.
    split; [eapply heap_le_trans; eauto|].
    apply (pc_ok_of_root (heap sh) (heap sh2) n b p'); [eapply heap_le_trans; [exact L1|exact L2]|exact Hok|exact R].
  - (* PLinked *)
    cbn [klstep lstep]. pose proof (heap_le_advance sh stk) as L.
    destruct (bottom stk) as [b|] eqn:Eb.
    + pose proof (advance_root sh stk b Eb) as R. pose proof (pc_ok_bottom _ _ _ Hok b Eb) as S.
      destruct (advance sh stk) as [sh2 p']. cbn [fst snd] in *. split; [exact L|]. eapply pc_ok_of_root; eauto.
    + destruct stk as [|f r]; [cbn; split; [apply heap_le_refl|exact I]|]. destruct (bottom_some r f) as [b Hb]. congruence.
  - (* PReturn *)
    cbn. split; [apply heap_le_refl|exact I].
  - (* PFail *)
    destruct stk as [|f rest]; [cbn; split; [apply heap_le_refl|exact Hok]|].
    cbn [klstep lstep fst snd fail_to heap]. split; [apply heap_le_refl|].
    destruct rest as [|g' r]; [exact I|]. unfold pc_ok in *. cbn [root_of] in *. rewrite bottom_cons in Hok. exact Hok.
  - cbn. split; [apply heap_le_refl|exact I].
Qed.
End Own.

Lemma thr_ok_le h h' th : heap_le h h' -> thr_ok h th -> thr_ok h' th.
Proof.
  intros Hle. unfold thr_ok, pc_ok. destruct (t_calls th); [auto|].
  destruct (root_of (t_pc th)); [apply src_is_le; exact Hle|auto].
Qed.

Lemma Forall_set_nth {A} (P : A -> Prop) l : forall i x, Forall P l -> P x -> Forall P (set_nth l i x).
Proof.
  induction l as [|y r IH]; intros [|i] x H Hx; cbn; try exact H.
  - inversion H; subst. constructor; assumption.
  - inversion H; subst. constructor; [assumption|apply IH; assumption].
Qed.

Lemma Forall_le h h' l : heap_le h h' -> Forall (thr_ok h) l -> Forall (thr_ok h') l.
Proof. intros Hle H. eapply Forall_impl; [|exact H]. intros th. apply thr_ok_le. exact Hle. Qed.

Section OwnRun.
Variable pol : hitpol.
Variable key : name -> name.

Lemma kgstep_own d k g t st : own_inv st ->
  heap_le (heap (s_sh st)) (heap (s_sh (kgstep pol key d k g t st))) /\ own_inv (kgstep pol key d k g t st).
Proof.
  intros I. unfold kgstep. destruct (nth_error (s_thr st) t) as [th|] eqn:Et; [|split; [apply heap_le_refl|exact I]].
  destruct (t_calls th) as [|n rest] eqn:Ec; [split; [apply heap_le_refl|exact I]|].
  assert (Hth : thr_ok (heap (s_sh st)) th).
  { unfold own_inv in I. rewrite Forall_forall in I. apply I. eapply nth_error_In; eauto. }
  assert (Easy : forall sh' lk wq p', heap sh' = heap (s_sh st) -> root_of p' = None ->
            heap_le (heap (s_sh st)) (heap sh') /\ own_inv (mkState sh' lk wq (set_nth (s_thr st) t (with_pc th p')))).
  { intros sh' lk wq p' Eh Er. rewrite Eh. split; [apply heap_le_refl|]. unfold own_inv. cbn [s_sh s_thr]. rewrite Eh.
    apply Forall_set_nth; [exact I|]. unfold thr_ok, with_pc. cbn [t_calls t_pc]. rewrite Ec. unfold pc_ok. rewrite Er. exact I0 || exact Logic.I. }
  assert (Main : forall p, pc_ok (heap (s_sh st)) n p ->
    heap_le (heap (s_sh st))
      (heap (s_sh (let (sh', o) := klstep pol key k g n (s_sh st) p in
        match o with
        | inl p' => mkState sh' (s_lock st) (s_waitq st) (set_nth (s_thr st) t (with_pc th p'))
        | inr res =>
            let st' := mkState (finish_shared res sh') (s_lock st) (s_waitq st) (set_nth (s_thr st) t (finish_thread th res)) in
            match d with Unguarded => st' | Guarded => release st' end
        end))) /\
    own_inv (let (sh', o) := klstep pol key k g n (s_sh st) p in
        match o with
        | inl p' => mkState sh' (s_lock st) (s_waitq st) (set_nth (s_thr st) t (with_pc th p'))
        | inr res =>
            let st' := mkState (finish_shared res sh') (s_lock st) (s_waitq st) (set_nth (s_thr st) t (finish_thread th res)) in
            match d with Unguarded => st' | Guarded => release st' end
        end)).
  { intros p Hp. destruct (klstep_own pol key k g n (s_sh st) p Hp) as [L Ok'].
    destruct (klstep pol key k g n (s_sh st) p) as [sh' o]. cbn [fst snd] in *.
    destruct o as [p'|res].
    - cbn [s_sh]. split; [exact L|]. unfold own_inv. cbn [s_sh s_thr].
      apply Forall_set_nth; [eapply Forall_le; [exact L|exact I]|].
      unfold thr_ok, with_pc. cbn [t_calls t_pc]. rewrite Ec. exact Ok'.
    - assert (Hh : heap (finish_shared res sh') = heap sh') by (destruct res; reflexivity).
      assert (G : heap_le (heap (s_sh st)) (heap (finish_shared res sh')) /\
                  Forall (thr_ok (heap (finish_shared res sh'))) (set_nth (s_thr st) t (finish_thread th res))).
      { rewrite Hh. split; [exact L|]. apply Forall_set_nth; [eapply Forall_le; [exact L|exact I]|].
        unfold thr_ok, finish_thread. cbn [t_calls t_pc]. destruct (tl (t_calls th)); [exact Logic.I|]. unfold pc_ok. cbn. exact Logic.I. }
      destruct d; cbn [s_sh s_thr release]; exact G. }
  unfold thr_ok in Hth. rewrite Ec in Hth.
  destruct (t_pc th) eqn:Ep; try (apply Main; exact Hth).
  - (* PEnter *)
    destruct d; [apply Easy; reflexivity|]. destruct (s_lock st); apply Easy; reflexivity.
  - (* PWait *)
    destruct d; [split; [apply heap_le_refl|exact I]|]. destruct (s_lock st); [split; [apply heap_le_refl|exact I]|].
    apply Easy; reflexivity.
Qed.

Lemma krun_from_own d k g sched : forall st, own_inv st ->
  heap_le (heap (s_sh st)) (heap (s_sh (krun_from pol key d k g sched st))) /\ own_inv (krun_from pol key d k g sched st).
Proof.
  unfold krun_from. induction sched as [|t r IH]; intros st I; cbn [fold_left]; [split; [apply heap_le_refl|exact I]|].
  destruct (kgstep_own d k g t st I) as [L1 I1]. destruct (IH _ I1) as [L2 I2].
  split; [eapply heap_le_trans; eauto|exact I2].
Qed.

Lemma own_inv_init calls : own_inv (init calls).
Proof.
  unfold own_inv, init. cbn [s_thr]. apply Forall_forall. intros th Hin. apply in_map_iff in Hin.
  destruct Hin as (c & <- & _). unfold thr_ok, init_thread. cbn. destruct c; exact Logic.I.
Qed.
End OwnRun.

(* ---- with the claim check, a call is never handed an object registered for another descriptor --- *)
Section Check.
Variable key : name -> name.

Lemma kgstep_ret_own k g t st x : own_inv st -> kgstep_ret HitCheck key k g t st = Some x ->
  src_is (heap (s_sh st)) (snd x) (snd (fst x)).
Proof.
  intros I. unfold kgstep_ret. destruct (nth_error (s_thr st) t) as [th|] eqn:Et; [|discriminate].
  destruct (t_calls th) as [|n rest] eqn:Ec; [discriminate|].
  assert (Hth : pc_ok (heap (s_sh st)) n (t_pc th)).
  { unfold own_inv in I. rewrite Forall_forall in I. specialize (I th (nth_error_In _ _ Et)). unfold thr_ok in I. rewrite Ec in I. exact I. }
  assert (Other : forall p, kresult_cell key n (s_sh st) p = None ->
            match snd (klstep HitCheck key k g n (s_sh st) p) with
            | inr (ROk _) => match kresult_cell key n (s_sh st) p with Some c => Some (t, n, c) | None => None end
            | _ => None
            end = Some x -> src_is (heap (s_sh st)) (snd x) (snd (fst x))).
  { intros p E. rewrite E. destruct (snd (klstep HitCheck key k g n (s_sh st) p)) as [p'|[| | |u]]; discriminate. }
  destruct (t_pc th) as [| | | |stk|stk|stk|c|stk|] eqn:Ep; try discriminate; try (apply Other; reflexivity).
  - (* PLookup *)
    cbn [klstep kresult_cell]. destruct (lookup (cmap (s_sh st)) (key n)) as [c|] eqn:El; [|discriminate].
    unfold hit_ok. destruct (N.eqb (cell_src (s_sh st) c n) n) eqn:Es; [|discriminate].
    unfold cell_to. unfold cell_src in Es. destruct (nth_error (heap (s_sh st)) c) as [cl|] eqn:En; [|destruct (existsb _ _); cbn [snd]; discriminate].
    destruct (c_to cl); [|destruct (existsb _ _); cbn [snd]; discriminate]. cbn [snd]. intros [= <-]. cbn [fst snd].
    exists cl. split; [exact En|apply N.eqb_eq; exact Es].
  - (* PReturn *)
    cbn [klstep snd kresult_cell]. intros [= <-]. cbn [fst snd]. unfold pc_ok in Hth. cbn [root_of] in Hth. exact Hth.
Qed.

Theorem check_hands_out_own_object d k g sched : forall st, own_inv st ->
  forall t n c, In (t, n, c) (krets_from HitCheck key d k g sched st) ->
    src_is (heap (s_sh (krun_from HitCheck key d k g sched st))) c n.
Proof.
  induction sched as [|u r IH]; intros st I t n c Hin; [destruct Hin|].
  cbn [krets_from] in Hin. apply in_app_or in Hin.
  destruct (kgstep_own HitCheck key d k g u st I) as [L1 I1].
  unfold krun_from. cbn [fold_left]. fold (krun_from HitCheck key d k g r (kgstep HitCheck key d k g u st)).
  destruct Hin as [Hin|Hin].
  - destruct (kgstep_ret HitCheck key k g u st) as [x|] eqn:Er; [|destruct Hin].
    destruct Hin as [E|[]]. subst x. pose proof (kgstep_ret_own k g u st _ I Er) as S. cbn [fst snd] in S.
    destruct (krun_from_own HitCheck key d k g r _ I1) as [L2 _].
    eapply src_is_le; [eapply heap_le_trans; [exact L1|exact L2]|exact S].
  - apply (IH _ I1 t n c Hin).
Qed.
End Check.

Theorem claim_hands_out_own_object key d k g calls sched t n c :
  In (t, n, c) (krets HitCheck key d k g calls sched) ->
  src_is (heap (s_sh (krun HitCheck key d k g calls sched))) c n.
Proof. intros H. apply (check_hands_out_own_object key d k g sched (init calls) (own_inv_init calls) t n c H). Qed.

(* serving whatever is found does hand out the other descriptor's object: the witness of ConcKeyProofs,
   thread 1 asks for descriptor 3 and is handed cell 0, registered for descriptor 2 *)
Lemma serve_hands_out_foreign_object :
  let key := key_of [(3, 2)]%N in
  let g := [(1, []); (2, [4]); (3, []); (4, [])]%N in
  let sched := repeat 0 8 ++ repeat 1 3 in
  In (1, 3%N, 0) (krets HitServe key Guarded 3 g [[2]; [3]]%N sched) /\
  src_is (heap (s_sh (krun HitServe key Guarded 3 g [[2]; [3]]%N sched))) 0 2%N.
Proof. cbv zeta. split; [vm_compute; auto|]. eexists. split; vm_compute; reflexivity. Qed.

(* StrcaseProofs.v — laws of lib/Strcase.v that the j5 compiler relies on, each
   with the name class for which it holds.  Name classes are boolean predicates over
   byte lists so that callers can discharge them by computation:
     ident s        every byte is an ASCII letter, digit or '_'
     lower_camel s  ASCII letters only, starts lower-case, no two adjacent capitals
     upper_word s   ASCII letters only, starts with a capital, no two adjacent capitals
     ends_cap s     the last byte is a capital letter
   Main laws:
     trim_space_ident       ident s -> trim_space s = s
     to_camel_app_word      ident n -> ends_cap n = false -> upper_word w ->
                              to_camel (n ++ w) = to_camel n ++ w
     to_camel_app_word_iff  for ident n, upper_word w: the equation holds IFF ends_cap n = false
     to_camel_FooS_refuted  the witness outside the class
     to_lower_camel_to_snake lower_camel n -> to_lower_camel (to_snake n) = n
     to_snake_idem          ident n -> to_snake (to_snake n) = to_snake n
     to_snake_idem_all      to_snake (to_snake n) = to_snake n for EVERY byte string
                            (trim_space_to_snake: TrimSpace leaves every ToSnake output alone)
     lower_camel_d / upper_word_d   camelCase WITH DIGITS (no capital after a capital, no lower-case
                            letter after a digit): to_lower_camel_to_snake_d, to_camel_to_snake_d,
                            to_snake_injective_lower_camel_d / _upper_word_d; the old letter-only classes
                            are sub-classes (lower_camel_is_d, upper_word_is_d); outside: foo2bar / foo2Bar
     (totality of all functions is by construction: they are Gallina functions) *)
From Coq Require Import List NArith Bool Lia ZifyN ZifyNat ZifyBool.
From J5V.lib Require Import Strcase.
Import ListNotations.
Local Open Scope bool_scope.
Local Open Scope N_scope.

(* ---- name classes ------------------------------------------------------ *)
Definition is_letter (c : N) : bool := is_cap c || is_low c.
Definition plain (c : N) : bool := is_cap c || is_low c || is_num c || (c =? 95).
Definition ident (s : list N) : bool := forallb plain s.
Definition letters (s : list N) : bool := forallb is_letter s.

Fixpoint last_cap (d : bool) (s : list N) : bool :=
  match s with [] => d | c :: r => last_cap (is_cap c) r end.
Definition ends_cap (s : list N) : bool := last_cap false s.

(* letters only; a capital is never preceded by a capital ([pc]: previous byte was one) *)
Fixpoint camel_tail (pc : bool) (s : list N) : bool :=
  match s with
  | [] => true
  | c :: r => (is_low c || (is_cap c && negb pc)) && camel_tail (is_cap c) r
  end.
Definition upper_word (s : list N) : bool :=
  match s with c :: r => is_cap c && camel_tail true r | [] => false end.
Definition lower_camel (s : list N) : bool :=
  match s with c :: r => is_low c && camel_tail false r | [] => true end.

(* ---- byte class facts --------------------------------------------------- *)
Ltac unfold_classes :=
  unfold plain, is_letter, is_cap, is_low, is_num, is_sep, ascii_space, space2, space3,
         to_upper, to_lower in *.

Lemma cap_not_low : forall c, is_cap c = true -> is_low c = false.
Proof. intros c; unfold_classes; lia. Qed.
Lemma low_not_cap : forall c, is_low c = true -> is_cap c = false.
Proof. intros c; unfold_classes; lia. Qed.
Lemma cap_not_num : forall c, is_cap c = true -> is_num c = false.
Proof. intros c; unfold_classes; lia. Qed.
Lemma low_not_num : forall c, is_low c = true -> is_num c = false.
Proof. intros c; unfold_classes; lia. Qed.
Lemma cap_not_sep : forall c, is_cap c = true -> is_sep c = false.
Proof. intros c; unfold_classes; lia. Qed.
Lemma low_not_sep : forall c, is_low c = true -> is_sep c = false.
Proof. intros c; unfold_classes; lia. Qed.
Lemma num_not_sep : forall c, is_num c = true -> is_sep c = false.
Proof. intros c; unfold_classes; lia. Qed.
Lemma cap_lower_is_low : forall c, is_cap c = true -> is_low (c + 32) = true.
Proof. intros c; unfold_classes; lia. Qed.
Lemma cap_lower_upper : forall c, is_cap c = true -> c + 32 - 32 = c.
Proof. intros c _; lia. Qed.
Lemma low_upper_is_cap : forall c, is_low c = true -> is_cap (c - 32) = true.
Proof. intros c; unfold_classes; lia. Qed.

Lemma plain_no_space : forall c, plain c = true -> ascii_space c = false /\ c < 128.
Proof. intros c; unfold_classes; lia. Qed.

(* ---- trim_space is the identity on strings whose first and last byte are
        ASCII non-space bytes (in particular on identifiers) ---------------- *)
Lemma trim_left_head : forall c r, c < 128 -> ascii_space c = false ->
  trim_left (c :: r) = c :: r.
Proof.
  intros c r Hlt Hsp. cbn [trim_left]. rewrite Hsp.
  destruct r as [|d r1]; [reflexivity|].
  assert (H2 : space2 c d = false) by (unfold_classes; lia). rewrite H2.
  destruct r1 as [|e r2]; [reflexivity|].
  assert (H3 : space3 c d e = false) by (unfold_classes; lia). rewrite H3. reflexivity.
Qed.

Lemma trim_left_rev_head : forall c r, c < 128 -> ascii_space c = false ->
  trim_left_rev (c :: r) = c :: r.
Proof.
  intros c r Hlt Hsp. cbn [trim_left_rev]. rewrite Hsp.
  destruct r as [|d r1]; [reflexivity|].
  assert (H2 : space2 d c = false) by (unfold_classes; lia). rewrite H2.
  destruct r1 as [|e r2]; [reflexivity|].
  assert (H3 : space3 e d c = false) by (unfold_classes; lia). rewrite H3. reflexivity.
Qed.

Lemma trim_space_ends : forall s,
  (forall c r, s = c :: r -> c < 128 /\ ascii_space c = false) ->
  (forall c r, rev s = c :: r -> c < 128 /\ ascii_space c = false) ->
  trim_space s = s.
Proof.
  intros s Hh Hl. unfold trim_space, trim_right.
  assert (E : trim_left s = s).
  { destruct s as [|c r]; [reflexivity|]. destruct (Hh c r eq_refl). now apply trim_left_head. }
  rewrite E. destruct (rev s) as [|c r] eqn:Er.
  - cbn. apply (f_equal (@rev N)) in Er. rewrite rev_involutive in Er. now rewrite Er.
  - destruct (Hl c r eq_refl). rewrite trim_left_rev_head by assumption.
    rewrite <- Er. apply rev_involutive.
Qed.

Lemma ident_rev : forall s, ident (rev s) = ident s.
Proof.
  intros s. unfold ident. induction s as [|c r IH]; [reflexivity|].
  cbn [rev forallb]. rewrite forallb_app, IH. cbn. rewrite andb_true_r. apply andb_comm.
Qed.

Theorem trim_space_ident : forall s, ident s = true -> trim_space s = s.
Proof.
  intros s Hs. apply trim_space_ends.
  - intros c r ->. cbn in Hs. apply andb_true_iff in Hs. destruct Hs as [Hc _].
    destruct (plain_no_space c Hc). split; assumption.
  - intros c r Er. rewrite <- ident_rev, Er in Hs. cbn in Hs. apply andb_true_iff in Hs.
    destruct Hs as [Hc _]. destruct (plain_no_space c Hc). split; assumption.
Qed.

Lemma ident_app : forall a b, ident (a ++ b) = ident a && ident b.
Proof. intros. apply forallb_app. Qed.

(* ---- camel: splitting the loop at a concatenation ----------------------- *)
Definition camel_step (st : bool * bool * bool) (v0 : N) : bool * bool * bool :=
  if is_cap v0 || is_low v0 then (false, false, is_cap v0)
  else if is_num v0 then (false, true, is_cap v0)
  else (false, is_sep v0, is_cap v0).
Definition camel_run (st : bool * bool * bool) (s : list N) : list N :=
  let '(f, cn, pc) := st in camel_go f cn pc s.

Lemma camel_go_app : forall a b f cn pc,
  camel_go f cn pc (a ++ b) = camel_go f cn pc a ++ camel_run (fold_left camel_step a (f, cn, pc)) b.
Proof.
  induction a as [|v0 a IH]; intros b f cn pc; [reflexivity|].
  cbn [app camel_go fold_left]. unfold camel_step at 2.
  destruct (is_cap v0 || is_low v0) eqn:El.
  - cbn [app]. f_equal. apply IH.
  - assert (Ev : (if cn then if is_low v0 then v0 - 32 else v0
                  else if f then if is_cap v0 then v0 + 32 else v0
                  else if pc && is_cap v0 then v0 + 32 else v0) = v0).
    { apply orb_false_iff in El. destruct El as [Ec Elw]. rewrite Ec, Elw, andb_false_r.
      destruct cn, f; reflexivity. }
    rewrite Ev. destruct (is_num v0); [cbn [app]; f_equal|]; apply IH.
Qed.

Lemma camel_state_pc : forall a f cn pc,
  snd (fold_left camel_step a (f, cn, pc)) = last_cap pc a.
Proof.
  induction a as [|v0 a IH]; intros f cn pc; [reflexivity|].
  cbn [fold_left last_cap]. unfold camel_step at 2.
  destruct (is_cap v0 || is_low v0); [|destruct (is_num v0)]; apply IH.
Qed.

Lemma camel_state_first : forall a f cn pc,
  fst (fst (fold_left camel_step a (f, cn, pc))) = true -> a = [].
Proof.
  intros a f cn pc. destruct a as [|v0 a]; [reflexivity|]. intros H. exfalso.
  cbn [fold_left] in H. unfold camel_step at 2 in H.
  assert (G : forall l c p, fst (fst (fold_left camel_step l (false, c, p))) = false).
  { induction l as [|x l IHl]; intros c p; [reflexivity|]. cbn [fold_left]. unfold camel_step at 2.
    destruct (is_cap x || is_low x); [|destruct (is_num x)]; apply IHl. }
  destruct (is_cap v0 || is_low v0); [|destruct (is_num v0)]; rewrite G in H; discriminate.
Qed.

(* a camel word is copied unchanged once its first letter is past *)
Lemma camel_go_tail : forall s pc, camel_tail pc s = true -> camel_go false false pc s = s.
Proof.
  induction s as [|c r IH]; intros pc H; [reflexivity|].
  cbn [camel_tail] in H. apply andb_true_iff in H. destruct H as [Hc Hr].
  cbn [camel_go]. apply orb_true_iff in Hc. destruct Hc as [Hl|Hc].
  - rewrite (low_not_cap c Hl) in *. rewrite Hl, andb_false_r. cbn. f_equal. now apply IH.
  - apply andb_true_iff in Hc. destruct Hc as [Hc Hp]. apply negb_true_iff in Hp. subst pc.
    rewrite Hc in *. cbn. f_equal. now apply IH.
Qed.

Lemma camel_go_upper_word : forall w f cn,
  upper_word w = true -> (f = true -> cn = true) -> camel_go f cn false w = w.
Proof.
  intros [|c r] f cn H Hf; [discriminate|]. cbn [upper_word] in H.
  apply andb_true_iff in H. destruct H as [Hc Hr].
  cbn [camel_go]. rewrite Hc, (cap_not_low c Hc). cbn [orb andb].
  assert (E : (if cn then c else if f then c + 32 else c) = c).
  { destruct cn; [reflexivity|]. destruct f; [|reflexivity]. discriminate (Hf eq_refl). }
  rewrite E. f_equal. now apply camel_go_tail.
Qed.

(* with a capital just before it, the first letter of the word is lowered *)
Lemma camel_go_after_cap : forall c r,
  is_cap c = true -> exists t, camel_go false false true (c :: r) = (c + 32) :: t.
Proof.
  intros c r Hc. cbn [camel_go]. rewrite Hc. cbn. eexists. reflexivity.
Qed.

Lemma camel_split : forall n w, ident (n ++ w) = true -> ident n = true ->
  to_camel (n ++ w) = to_camel n ++ camel_run (fold_left camel_step n (true, true, false)) w.
Proof.
  intros n w Hnw Hn. unfold to_camel, to_camel_init.
  rewrite (trim_space_ident _ Hnw), (trim_space_ident _ Hn). apply camel_go_app.
Qed.

Lemma camel_tail_ident : forall r pc, camel_tail pc r = true -> ident r = true.
Proof.
  induction r as [|x r IH]; intros pc H; [reflexivity|].
  cbn [camel_tail] in H. apply andb_true_iff in H. destruct H as [Hx Hr].
  cbn [ident forallb]. fold (ident r). rewrite (IH _ Hr), andb_true_r.
  unfold plain. apply orb_true_iff in Hx. destruct Hx as [Hx|Hx].
  - rewrite Hx. now rewrite orb_true_r.
  - apply andb_true_iff in Hx. destruct Hx as [Hx _]. now rewrite Hx.
Qed.

Lemma upper_word_ident : forall w, upper_word w = true -> ident w = true.
Proof.
  intros [|c r] H; [discriminate|]. cbn [upper_word] in H. apply andb_true_iff in H.
  destruct H as [Hc Hr]. cbn [ident forallb]. fold (ident r).
  rewrite (camel_tail_ident _ _ Hr), andb_true_r. unfold plain. now rewrite Hc.
Qed.

Lemma lower_camel_ident : forall w, lower_camel w = true -> ident w = true.
Proof.
  intros [|c r] H; [reflexivity|]. cbn [lower_camel] in H. apply andb_true_iff in H.
  destruct H as [Hc Hr]. cbn [ident forallb]. fold (ident r).
  rewrite (camel_tail_ident _ _ Hr), andb_true_r. unfold plain. rewrite Hc. now rewrite orb_true_r.
Qed.

(* THE camel-stability law: appending an UpperCamel word to an identifier that does
   not end in a capital commutes with ToCamel *)
Theorem to_camel_app_word : forall n w,
  ident n = true -> ends_cap n = false -> upper_word w = true ->
  to_camel (n ++ w) = to_camel n ++ w.
Proof.
  intros n w Hn He Hw.
  rewrite camel_split; [|rewrite ident_app, Hn; now apply upper_word_ident|assumption].
  f_equal. destruct (fold_left camel_step n (true, true, false)) as [[f cn] pc] eqn:Est.
  pose proof (camel_state_pc n true true false) as Hpc. rewrite Est in Hpc. cbn in Hpc.
  unfold ends_cap in He. rewrite He in Hpc. subst pc.
  unfold camel_run. apply camel_go_upper_word; [assumption|]. intros ->.
  pose proof (camel_state_first n true true false) as Hf. rewrite Est in Hf.
  specialize (Hf eq_refl). subst n. cbn in Est. now inversion Est.
Qed.

Lemma last_cap_split : forall s d, last_cap d s = true ->
  (s = [] /\ d = true) \/ exists a c, s = a ++ [c] /\ is_cap c = true.
Proof.
  induction s as [|c r IH]; intros d H; [left; split; [reflexivity|exact H]|].
  right. cbn [last_cap] in H. destruct (IH _ H) as [[-> Hc]|[a [c' [-> Hc]]]].
  - exists [], c. split; [reflexivity|assumption].
  - exists (c :: a), c'. split; [reflexivity|assumption].
Qed.

(* ... and ONLY then: after a trailing capital the word's first letter is lowered *)
Theorem to_camel_app_word_iff : forall n w,
  ident n = true -> upper_word w = true ->
  (to_camel (n ++ w) = to_camel n ++ w <-> ends_cap n = false).
Proof.
  intros n w Hn Hw. split; [|intros He; now apply to_camel_app_word].
  intros Heq. destruct (ends_cap n) eqn:He; [exfalso|reflexivity].
  rewrite camel_split in Heq; [|rewrite ident_app, Hn; now apply upper_word_ident|assumption].
  apply app_inv_head in Heq.
  destruct (last_cap_split n false He) as [[_ Hd]|[a [c [-> Hc]]]]; [discriminate|].
  rewrite fold_left_app in Heq. cbn [fold_left] in Heq. unfold camel_step at 1 in Heq.
  rewrite Hc in Heq. cbn [orb camel_run] in Heq.
  destruct w as [|x r]; [discriminate|]. cbn [upper_word] in Hw.
  apply andb_true_iff in Hw. destruct Hw as [Hx _].
  destruct (camel_go_after_cap x r Hx) as [t Ht]. rewrite Ht in Heq. inversion Heq. lia.
Qed.

Theorem to_camel_FooS_refuted :
  let n := [70;111;111;83] in          (* "FooS" *)
  let w := [83;116;97;116;101] in      (* "State" *)
  ident n = true /\ upper_word w = true /\ to_camel (n ++ w) <> to_camel n ++ w
  /\ to_camel (n ++ w) = [70;111;111;83;115;116;97;116;101].   (* "FooSstate" *)
Proof. cbv zeta. repeat split; try (vm_compute; reflexivity). vm_compute. discriminate. Qed.

(* ---- snake: one clean unfolding of the loop body ------------------------ *)
Definition conv (sc : bool) (c : N) : N :=
  if is_low c && sc then c - 32 else if is_cap c && negb sc then c + 32 else c.
Definition head_cap (s : list N) : bool := match s with c :: _ => is_cap c | [] => false end.
Definition head_low (s : list N) : bool := match s with c :: _ => is_low c | [] => false end.
Definition head_num (s : list N) : bool := match s with c :: _ => is_num c | [] => false end.

Lemma conv_num : forall sc c, is_num (conv sc c) = is_num c.
Proof.
  intros sc c. unfold conv.
  destruct (is_low c) eqn:El, (is_cap c) eqn:Ec, sc; cbn [andb negb]; try reflexivity;
    unfold_classes; lia.
Qed.
Lemma conv_sep : forall sc c, is_sep (conv sc c) = is_sep c.
Proof.
  intros sc c. unfold conv.
  destruct (is_low c) eqn:El, (is_cap c) eqn:Ec, sc; cbn [andb negb]; try reflexivity;
    unfold_classes; lia.
Qed.

Lemma delimited_go_cons : forall d sc pc c r,
  delimited_go d sc pc (c :: r) =
    if is_cap c then
      (if pc && head_low r then [d] else []) ++ conv sc c ::
      (if head_num r then [d] else []) ++ delimited_go d sc true r
    else if is_low c then
      conv sc c :: (if head_cap r || head_num r then [d] else []) ++ delimited_go d sc false r
    else if is_num c then
      c :: (if head_cap r || head_low r then [d] else []) ++ delimited_go d sc false r
    else (if is_sep c then d else c) :: delimited_go d sc false r.
Proof.
  intros d sc pc c r.
  pose proof (conv_num sc c) as Hn. pose proof (conv_sep sc c) as Hs. unfold conv in Hn, Hs.
  cbn [delimited_go]. rewrite Hn, Hs. fold (conv sc c).
  destruct (is_cap c) eqn:Ec.
  - rewrite (cap_not_low c Ec), (cap_not_num c Ec), (cap_not_sep c Ec).
    destruct r as [|n r']; [destruct pc; reflexivity|]. cbn [head_low head_num head_cap andb orb].
    destruct (is_low n), (is_num n), (is_cap n), pc; reflexivity.
  - destruct (is_low c) eqn:El.
    + rewrite (low_not_num c El), (low_not_sep c El).
      destruct r as [|n r']; [reflexivity|]. cbn [head_low head_num head_cap andb orb].
      destruct (is_low n), (is_num n), (is_cap n); reflexivity.
    + assert (Ev : conv sc c = c) by (unfold conv; rewrite Ec, El; reflexivity). rewrite Ev.
      destruct (is_num c) eqn:En.
      * rewrite (num_not_sep c En).
        destruct r as [|n r']; [reflexivity|]. cbn [head_low head_num head_cap andb orb].
        destruct (is_low n), (is_num n), (is_cap n); reflexivity.
      * destruct r as [|n r']; [reflexivity|]. cbn [andb orb]. reflexivity.
Qed.

(* ---- ToLowerCamel (ToSnake n) = n on lowerCamel names --------------------- *)
Lemma camel_go_underscore : forall f cn pc s,
  camel_go f cn pc (95 :: s) = camel_go false true false s.
Proof. intros f cn pc s. destruct f, cn, pc; reflexivity. Qed.

Lemma camel_tail_head_num : forall pc r, camel_tail pc r = true -> head_num r = false.
Proof.
  intros pc [|n r'] H; [reflexivity|]. cbn [camel_tail] in H. cbn [head_num].
  apply andb_true_iff in H. destruct H as [H _]. apply orb_true_iff in H. destruct H as [H|H].
  - now apply low_not_num.
  - apply andb_true_iff in H. destruct H as [H _]. now apply cap_not_num.
Qed.

Lemma camel_tail_true_head : forall r, camel_tail true r = true -> head_cap r = false.
Proof.
  intros [|n r'] H; [reflexivity|]. cbn [camel_tail] in H. cbn [head_cap].
  apply andb_true_iff in H. destruct H as [H _]. apply orb_true_iff in H. destruct H as [H|H].
  - now apply low_not_cap.
  - apply andb_true_iff in H. destruct H as [_ H]. discriminate.
Qed.

Lemma lc_snake_aux : forall s pc f cn,
  camel_tail pc s = true -> cn = head_cap s -> (f = true -> cn = false) ->
  camel_go f cn false (delimited_go 95 false pc s) = s.
Proof.
  induction s as [|c r IH]; intros pc f cn Ht Hcn Hf; [reflexivity|].
  rewrite delimited_go_cons. cbn [head_cap] in Hcn.
  cbn [camel_tail] in Ht. apply andb_true_iff in Ht. destruct Ht as [Hc Hr].
  pose proof (camel_tail_head_num _ _ Hr) as Hnum. rewrite Hnum.
  apply orb_true_iff in Hc. destruct Hc as [Hl|Hc].
  - (* lower-case letter: copied; '_' follows iff the next letter is a capital *)
    pose proof (low_not_cap c Hl) as Ec. rewrite Ec in *. rewrite Hl. subst cn.
    assert (Ev : conv false c = c) by (unfold conv; rewrite Hl, Ec; reflexivity).
    rewrite Ev, orb_false_r. cbn [camel_go]. rewrite Ec, Hl. cbn [orb andb].
    assert (Ef : (if f then c else c) = c) by (destruct f; reflexivity). rewrite Ef. f_equal.
    destruct (head_cap r) eqn:Hh.
    + cbn [app]. rewrite camel_go_underscore. apply (IH false); [assumption|now symmetry|discriminate].
    + cbn [app]. apply (IH false); [assumption|now symmetry|reflexivity].
  - (* capital (never after a capital): lowered by ToSnake, raised again after the '_' *)
    apply andb_true_iff in Hc. destruct Hc as [Hc Hp]. apply negb_true_iff in Hp. subst pc.
    rewrite Hc in *. subst cn. assert (f = false) by (destruct f; [discriminate (Hf eq_refl)|reflexivity]).
    subst f. cbn [andb app].
    assert (Ev : conv false c = c + 32) by (unfold conv; rewrite (cap_not_low c Hc), Hc; reflexivity).
    rewrite Ev. cbn [camel_go].
    rewrite (cap_lower_is_low c Hc), (low_not_cap _ (cap_lower_is_low c Hc)). cbn [orb].
    rewrite (cap_lower_upper c Hc). f_equal.
    apply (IH true); [assumption|symmetry; now apply camel_tail_true_head|reflexivity].
Qed.

(* the snake form of an identifier is again an identifier *)
Lemma ident_delimited : forall s pc, ident s = true -> ident (delimited_go 95 false pc s) = true.
Proof.
  induction s as [|c r IHs]; intros pc Hs; [reflexivity|].
  cbn [ident forallb] in Hs. fold (ident r) in Hs. apply andb_true_iff in Hs. destruct Hs as [Hc Hr].
  rewrite delimited_go_cons.
  assert (Hcv : plain (conv false c) = true).
  { unfold conv. destruct (is_low c) eqn:El, (is_cap c) eqn:Ec; cbn [andb negb]; try assumption;
      unfold_classes; lia. }
  assert (Hif : forall b : bool, ident (if b then [95] else []) = true) by (intros []; reflexivity).
  assert (Hcons : forall x l, ident (x :: l) = plain x && ident l) by reflexivity.
  destruct (is_cap c); [|destruct (is_low c); [|destruct (is_num c)]].
  - rewrite ident_app, Hif, Hcons, Hcv, ident_app, Hif, IHs by assumption. reflexivity.
  - rewrite Hcons, Hcv, ident_app, Hif, IHs by assumption. reflexivity.
  - rewrite Hcons, Hc, ident_app, Hif, IHs by assumption. reflexivity.
  - rewrite Hcons, IHs by assumption. destruct (is_sep c); [reflexivity|]. now rewrite Hc.
Qed.

Theorem to_lower_camel_to_snake : forall n,
  lower_camel n = true -> to_lower_camel (to_snake n) = n.
Proof.
  intros n Hn. pose proof (lower_camel_ident n Hn) as Hi.
  unfold to_lower_camel, to_camel_init, to_snake, to_delimited, to_screaming_delimited.
  rewrite (trim_space_ident n Hi), (trim_space_ident _ (ident_delimited n false Hi)).
  destruct n as [|c r]; [reflexivity|]. cbn [lower_camel] in Hn.
  apply andb_true_iff in Hn. destruct Hn as [Hc Hr].
  apply lc_snake_aux; [|cbn [head_cap]; symmetry; now apply low_not_cap|reflexivity].
  cbn [camel_tail]. rewrite Hc, (low_not_cap c Hc), Hr. reflexivity.
Qed.

(* ---- ToSnake idempotence -------------------------------------------------
   Snake normal form: no capitals, no separator other than '_', never a lower-case
   letter next to a digit.  Every output of the ToSnake loop is in normal form (for
   ALL byte strings), and the loop is the identity on normal forms. *)
Definition okc (c : N) : bool := negb (is_cap c) && (negb (is_sep c) || (c =? 95)).
Definition adj (c n : N) : bool := negb (is_low c && is_num n) && negb (is_num c && is_low n).
Definition hadj (c : N) (l : list N) : bool := match l with [] => true | n :: _ => adj c n end.
Fixpoint snake_nf (s : list N) : bool :=
  match s with [] => true | c :: r => okc c && hadj c r && snake_nf r end.

Lemma nf_head_cap : forall r, snake_nf r = true -> head_cap r = false.
Proof.
  intros [|n r] H; [reflexivity|]. cbn [snake_nf] in H. cbn [head_cap].
  apply andb_true_iff in H. destruct H as [H _]. apply andb_true_iff in H. destruct H as [H _].
  unfold okc in H. apply andb_true_iff in H. destruct H as [H _]. now apply negb_true_iff in H.
Qed.

Lemma snake_nf_fixed : forall s pc, snake_nf s = true -> delimited_go 95 false pc s = s.
Proof.
  induction s as [|c r IH]; intros pc H; [reflexivity|].
  cbn [snake_nf] in H. apply andb_true_iff in H. destruct H as [H Hr].
  apply andb_true_iff in H. destruct H as [Hc Ha].
  unfold okc in Hc. apply andb_true_iff in Hc. destruct Hc as [Hcap Hsep].
  apply negb_true_iff in Hcap. rewrite delimited_go_cons, Hcap.
  pose proof (nf_head_cap r Hr) as Hhc. rewrite Hhc. cbn [orb].
  destruct (is_low c) eqn:El.
  - assert (Ev : conv false c = c) by (unfold conv; rewrite El, Hcap; reflexivity). rewrite Ev.
    assert (Hn : head_num r = false).
    { destruct r as [|n r']; [reflexivity|]. cbn [hadj head_num] in *. unfold adj in Ha.
      rewrite El in Ha. destruct (is_num n); [discriminate|reflexivity]. }
    rewrite Hn. cbn [app]. f_equal. now apply IH.
  - destruct (is_num c) eqn:En.
    + assert (Hl : head_low r = false).
      { destruct r as [|n r']; [reflexivity|]. cbn [hadj head_low] in *. unfold adj in Ha.
        rewrite En, El in Ha. destruct (is_low n); [discriminate|reflexivity]. }
      rewrite Hl. cbn [app]. f_equal. now apply IH.
    + destruct (is_sep c) eqn:Es.
      * cbn [negb orb] in Hsep. apply N.eqb_eq in Hsep. subst c. f_equal. now apply IH.
      * f_equal. now apply IH.
Qed.

Lemma hd_delimited : forall pc c r,
  hd_error (delimited_go 95 false pc (c :: r)) =
    Some (if (is_cap c && pc && head_low r) || is_sep c then 95 else conv false c).
Proof.
  intros pc c r. rewrite delimited_go_cons. destruct (is_cap c) eqn:Ec.
  - rewrite (cap_not_sep c Ec), orb_false_r. cbn [andb]. destruct (pc && head_low r); reflexivity.
  - cbn [andb orb]. destruct (is_low c) eqn:El.
    + rewrite (low_not_sep c El). reflexivity.
    + assert (Ev : conv false c = c) by (unfold conv; rewrite El, Ec; reflexivity). rewrite Ev.
      destruct (is_num c) eqn:En; [rewrite (num_not_sep c En)|]; reflexivity.
Qed.

Lemma hadj_hd : forall x l, hadj x l = match hd_error l with None => true | Some n => adj x n end.
Proof. intros x [|n l]; reflexivity. Qed.

Lemma conv_low : forall c, is_low (conv false c) = is_low c || is_cap c.
Proof.
  intros c. unfold conv. rewrite andb_false_r. cbn [negb]. rewrite andb_true_r.
  destruct (is_cap c) eqn:Ec.
  - now rewrite (cap_lower_is_low c Ec), orb_true_r.
  - now rewrite orb_false_r.
Qed.

Lemma hadj_delimited : forall x pc r,
  (is_low x = true -> head_num r = false) ->
  (is_num x = true -> head_low r = false /\ head_cap r = false) ->
  hadj x (delimited_go 95 false pc r) = true.
Proof.
  intros x pc [|n r'] Hl Hn; [reflexivity|].
  rewrite hadj_hd, hd_delimited.
  destruct ((is_cap n && pc && head_low r') || is_sep n).
  - unfold adj. assert (E1 : is_num 95 = false) by reflexivity.
    assert (E2 : is_low 95 = false) by reflexivity. rewrite E1, E2, !andb_false_r. reflexivity.
  - unfold adj. rewrite conv_num, conv_low. cbn [head_num head_low head_cap] in *.
    destruct (is_low x) eqn:Elx.
    + rewrite (Hl eq_refl). cbn [andb negb]. rewrite (low_not_num x Elx). reflexivity.
    + cbn [andb negb]. destruct (is_num x) eqn:Enx; [|reflexivity].
      destruct (Hn eq_refl) as [H1 H2]. rewrite H1, H2. reflexivity.
Qed.

Lemma snake_nf_us : forall l, snake_nf (95 :: l) = snake_nf l.
Proof. intros [|n l]; reflexivity. Qed.

Lemma snake_nf_delimited : forall s pc, snake_nf (delimited_go 95 false pc s) = true.
Proof.
  induction s as [|c r IH]; intros pc; [reflexivity|].
  rewrite delimited_go_cons.
  assert (Hus : forall (b : bool) l, snake_nf ((if b then [95] else []) ++ l) = snake_nf l).
  { intros [] l; [apply snake_nf_us|reflexivity]. }
  assert (Hcons : forall x l, snake_nf (x :: l) = okc x && hadj x l && snake_nf l) by reflexivity.
  assert (Hx95 : forall x l, hadj x (95 :: l) = true).
  { intros x l. cbn [hadj]. unfold adj. assert (E1 : is_num 95 = false) by reflexivity.
    assert (E2 : is_low 95 = false) by reflexivity. rewrite E1, E2, !andb_false_r. reflexivity. }
  destruct (is_cap c) eqn:Ec; [|destruct (is_low c) eqn:El; [|destruct (is_num c) eqn:En]].
  - rewrite Hus, Hcons.
    pose proof (cap_lower_is_low c Ec) as Hlow.
    assert (Ev : conv false c = c + 32) by (unfold conv; rewrite (cap_not_low c Ec), Ec; reflexivity).
    rewrite Ev. assert (Hok : okc (c + 32) = true).
    { unfold okc. rewrite (low_not_cap _ Hlow), (low_not_sep _ Hlow). reflexivity. }
    rewrite Hok. destruct (head_num r) eqn:Hn.
    + cbn [app]. rewrite Hx95, snake_nf_us, IH. reflexivity.
    + cbn [app]. rewrite IH, hadj_delimited; [reflexivity|intros _; exact Hn|].
      rewrite (low_not_num _ Hlow). discriminate.
  - rewrite Hcons.
    assert (Ev : conv false c = c) by (unfold conv; rewrite El, Ec; reflexivity). rewrite Ev.
    assert (Hok : okc c = true) by (unfold okc; rewrite Ec, (low_not_sep c El); reflexivity).
    rewrite Hok. destruct (head_cap r || head_num r) eqn:Hh.
    + cbn [app]. rewrite Hx95, snake_nf_us, IH. reflexivity.
    + apply orb_false_iff in Hh. destruct Hh as [_ Hn].
      cbn [app]. rewrite IH, hadj_delimited; [reflexivity|intros _; exact Hn|].
      rewrite (low_not_num _ El). discriminate.
  - rewrite Hcons.
    assert (Hok : okc c = true) by (unfold okc; rewrite Ec, (num_not_sep c En); reflexivity).
    rewrite Hok. destruct (head_cap r || head_low r) eqn:Hh.
    + cbn [app]. rewrite Hx95, snake_nf_us, IH. reflexivity.
    + apply orb_false_iff in Hh. destruct Hh as [Hc Hl].
      cbn [app]. rewrite IH, hadj_delimited; [reflexivity|rewrite El; discriminate|].
      intros _. split; assumption.
  - rewrite Hcons, IH. destruct (is_sep c) eqn:Es.
    + assert (E : okc 95 = true) by reflexivity. rewrite E.
      rewrite hadj_delimited; [reflexivity|discriminate|discriminate].
    + assert (Hok : okc c = true) by (unfold okc; rewrite Ec, Es; reflexivity).
      rewrite Hok, hadj_delimited; [reflexivity|rewrite El; discriminate|rewrite En; discriminate].
Qed.

(* the loop of ToSnake is idempotent on every byte string ... *)
Theorem snake_loop_idem : forall s pc pc',
  delimited_go 95 false pc' (delimited_go 95 false pc s) = delimited_go 95 false pc s.
Proof. intros s pc pc'. apply snake_nf_fixed, snake_nf_delimited. Qed.

(* ... hence ToSnake is idempotent wherever TrimSpace leaves the result alone, in
   particular on identifiers *)
Theorem to_snake_idem_gen : forall n,
  trim_space (to_snake n) = to_snake n -> to_snake (to_snake n) = to_snake n.
Proof.
  intros n Ht. unfold to_snake at 1. unfold to_delimited, to_screaming_delimited.
  rewrite Ht. unfold to_snake, to_delimited, to_screaming_delimited. apply snake_loop_idem.
Qed.

Lemma to_snake_ident : forall n, ident n = true -> ident (to_snake n) = true.
Proof.
  intros n Hn. unfold to_snake, to_delimited, to_screaming_delimited.
  rewrite (trim_space_ident n Hn). now apply ident_delimited.
Qed.

Theorem to_snake_idem : forall n, ident n = true -> to_snake (to_snake n) = to_snake n.
Proof. intros n Hn. apply to_snake_idem_gen, trim_space_ident, to_snake_ident, Hn. Qed.

(* a name that is already snake-normal (e.g. a lower_snake field name) is a fixed point *)
Theorem to_snake_fixed : forall n, ident n = true -> snake_nf n = true -> to_snake n = n.
Proof.
  intros n Hi Hn. unfold to_snake, to_delimited, to_screaming_delimited.
  rewrite (trim_space_ident n Hi). now apply snake_nf_fixed.
Qed.

(* ---- UpperCamel words are fixed points of ToCamel and of ToCamel . ToSnake ----------- *)
Theorem to_camel_upper_word : forall n, upper_word n = true -> to_camel n = n.
Proof.
  intros n Hn. unfold to_camel, to_camel_init. rewrite (trim_space_ident n (upper_word_ident n Hn)).
  destruct n as [|c r]; [discriminate|]. cbn [upper_word] in Hn.
  apply andb_true_iff in Hn. destruct Hn as [Hc Hr].
  cbn [camel_go]. rewrite Hc, (cap_not_low c Hc). cbn [orb]. f_equal. now apply camel_go_tail.
Qed.

Theorem to_camel_to_snake_upper_word : forall n, upper_word n = true -> to_camel (to_snake n) = n.
Proof.
  intros n Hn. pose proof (upper_word_ident n Hn) as Hi.
  unfold to_camel, to_camel_init, to_snake, to_delimited, to_screaming_delimited.
  rewrite (trim_space_ident n Hi), (trim_space_ident _ (ident_delimited n false Hi)).
  destruct n as [|c r]; [discriminate|]. cbn [upper_word] in Hn.
  apply andb_true_iff in Hn. destruct Hn as [Hc Hr].
  rewrite delimited_go_cons, Hc. cbn [andb app].
  rewrite (camel_tail_head_num _ _ Hr). cbn [app].
  assert (Ev : conv false c = c + 32) by (unfold conv; rewrite (cap_not_low c Hc), Hc; reflexivity).
  rewrite Ev. cbn [camel_go].
  rewrite (cap_lower_is_low c Hc), (low_not_cap _ (cap_lower_is_low c Hc)). cbn [orb].
  rewrite (cap_lower_upper c Hc). f_equal.
  apply (lc_snake_aux r true false false); [assumption| |discriminate].
  symmetry. now apply camel_tail_true_head.
Qed.

Theorem to_snake_upper_word_lower : forall n, upper_word n = true ->
  to_lower_camel (to_snake n) = match n with c :: r => (c + 32) :: r | [] => [] end.
Proof.
  intros n Hn. pose proof (upper_word_ident n Hn) as Hi.
  unfold to_lower_camel, to_camel_init, to_snake, to_delimited, to_screaming_delimited.
  rewrite (trim_space_ident n Hi), (trim_space_ident _ (ident_delimited n false Hi)).
  destruct n as [|c r]; [discriminate|]. cbn [upper_word] in Hn.
  apply andb_true_iff in Hn. destruct Hn as [Hc Hr].
  rewrite delimited_go_cons, Hc. cbn [andb app].
  rewrite (camel_tail_head_num _ _ Hr). cbn [app].
  assert (Ev : conv false c = c + 32) by (unfold conv; rewrite (cap_not_low c Hc), Hc; reflexivity).
  rewrite Ev. cbn [camel_go].
  rewrite (cap_lower_is_low c Hc), (low_not_cap _ (cap_lower_is_low c Hc)). cbn [orb]. f_equal.
  apply (lc_snake_aux r true false false); [assumption| |discriminate].
  symmetry. now apply camel_tail_true_head.
Qed.

(* ---- ToSnake is injective on lowerCamel names and on UpperCamel words ---------------
   (the classes on which it has a left inverse); across classes it is not:
   "fooBar", "foo_bar" and "FooBar" share one snake form *)
Theorem to_snake_injective_lower_camel : forall a b,
  lower_camel a = true -> lower_camel b = true -> to_snake a = to_snake b -> a = b.
Proof.
  intros a b Ha Hb H. rewrite <- (to_lower_camel_to_snake a Ha), <- (to_lower_camel_to_snake b Hb).
  now rewrite H.
Qed.

Theorem to_snake_injective_upper_word : forall a b,
  upper_word a = true -> upper_word b = true -> to_snake a = to_snake b -> a = b.
Proof.
  intros a b Ha Hb H.
  rewrite <- (to_camel_to_snake_upper_word a Ha), <- (to_camel_to_snake_upper_word b Hb).
  now rewrite H.
Qed.

Theorem to_snake_collision_witness :
  let a := [102;111;111;66;97;114] in       (* "fooBar" *)
  let b := [102;111;111;95;98;97;114] in    (* "foo_bar" *)
  let c := [70;111;111;66;97;114] in        (* "FooBar" *)
  a <> b /\ a <> c /\ to_snake a = to_snake b /\ to_snake a = to_snake c
  /\ lower_camel a = true /\ ident b = true /\ upper_word c = true.
Proof. cbv zeta. repeat split; try discriminate; vm_compute; reflexivity. Qed.

(* ---- ToScreamingSnake is ToSnake in upper case ------------------------------------------ *)
Lemma conv_true_upper : forall c, conv true c = to_upper (conv false c).
Proof.
  intros c. unfold conv, to_upper.
  destruct (is_low c) eqn:El.
  - rewrite (low_not_cap c El). cbn [andb negb]. rewrite El. reflexivity.
  - destruct (is_cap c) eqn:Ec; cbn [andb negb].
    + rewrite (cap_lower_is_low c Ec). lia.
    + now rewrite El.
Qed.

Lemma to_upper_other : forall c, is_low c = false -> to_upper c = c.
Proof. intros c H. unfold to_upper. now rewrite H. Qed.

Theorem screaming_loop_is_upper_snake : forall s pc,
  delimited_go 95 true pc s = map to_upper (delimited_go 95 false pc s).
Proof.
  induction s as [|c r IH]; intros pc; [reflexivity|].
  rewrite !delimited_go_cons.
  assert (Hif : forall b : bool, map to_upper (if b then [95] else []) = if b then [95] else []).
  { intros []; reflexivity. }
  destruct (is_cap c) eqn:Ec; [|destruct (is_low c) eqn:El; [|destruct (is_num c) eqn:En]].
  - rewrite map_app, Hif. cbn [map]. rewrite map_app, Hif, <- IH, conv_true_upper. reflexivity.
  - cbn [map]. rewrite map_app, Hif, <- IH, conv_true_upper. reflexivity.
  - cbn [map]. rewrite map_app, Hif, <- IH, (to_upper_other c El). reflexivity.
  - cbn [map]. rewrite <- IH. f_equal. destruct (is_sep c); [reflexivity|]. now rewrite (to_upper_other c El).
Qed.

Theorem to_screaming_snake_upper : forall s, to_screaming_snake s = map to_upper (to_snake s).
Proof. intros s. apply screaming_loop_is_upper_snake. Qed.

(* ---- ToCamel / ToLowerCamel output only letters and digits; for an identifier that starts
        with a letter the result of ToCamel starts with a capital (a proto message name) ------ *)
Definition alnum (c : N) : bool := is_cap c || is_low c || is_num c.

Lemma camel_go_alnum : forall s f cn pc, forallb alnum (camel_go f cn pc s) = true.
Proof.
  induction s as [|v0 r IH]; intros f cn pc; [reflexivity|]. cbn [camel_go].
  destruct (is_cap v0 || is_low v0) eqn:El.
  - cbn [forallb]. rewrite IH, andb_true_r. apply orb_true_iff in El.
    destruct El as [Hc|Hl].
    + rewrite (cap_not_low v0 Hc). rewrite Hc.
      destruct cn; [unfold alnum; now rewrite Hc|].
      destruct f; [unfold alnum; now rewrite (cap_lower_is_low v0 Hc), orb_true_r|].
      destruct pc; cbn [andb]; unfold alnum; [now rewrite (cap_lower_is_low v0 Hc), orb_true_r|now rewrite Hc].
    + rewrite Hl, (low_not_cap v0 Hl), andb_false_r.
      destruct cn; [unfold alnum; now rewrite (low_upper_is_cap v0 Hl)|].
      destruct f; unfold alnum; now rewrite Hl, orb_true_r.
  - apply orb_false_iff in El. destruct El as [Ec Elw].
    assert (Ev : (if cn then if is_low v0 then v0 - 32 else v0
                  else if f then if is_cap v0 then v0 + 32 else v0
                  else if pc && is_cap v0 then v0 + 32 else v0) = v0).
    { rewrite Ec, Elw, andb_false_r. destruct cn, f; reflexivity. }
    rewrite Ev. destruct (is_num v0) eqn:En; [|apply IH].
    cbn [forallb]. rewrite IH, andb_true_r. unfold alnum. now rewrite En, orb_true_r.
Qed.

Theorem to_camel_alnum : forall s, forallb alnum (to_camel s) = true.
Proof. intros s. apply camel_go_alnum. Qed.
Theorem to_lower_camel_alnum : forall s, forallb alnum (to_lower_camel s) = true.
Proof. intros s. apply camel_go_alnum. Qed.

Theorem to_camel_starts_cap : forall c r,
  is_letter c = true -> ident (c :: r) = true ->
  exists c' t, to_camel (c :: r) = c' :: t /\ is_cap c' = true.
Proof.
  intros c r Hc Hi. unfold to_camel, to_camel_init. rewrite (trim_space_ident _ Hi).
  cbn [camel_go]. unfold is_letter in Hc. rewrite Hc.
  destruct (is_low c) eqn:El.
  - eexists. eexists. split; [reflexivity|]. now apply low_upper_is_cap.
  - rewrite orb_false_r in Hc. eexists. eexists. split; [reflexivity|exact Hc].
Qed.

(* ---- ToLowerCamel on UpperCamel words lowers the first letter, hence is injective there ---- *)
Theorem to_lower_camel_upper_word : forall c r,
  upper_word (c :: r) = true -> to_lower_camel (c :: r) = (c + 32) :: r.
Proof.
  intros c r Hn. unfold to_lower_camel, to_camel_init.
  rewrite (trim_space_ident _ (upper_word_ident _ Hn)).
  cbn [upper_word] in Hn. apply andb_true_iff in Hn. destruct Hn as [Hc Hr].
  cbn [camel_go]. rewrite Hc. cbn [orb]. f_equal. now apply camel_go_tail.
Qed.

Theorem to_lower_camel_injective_upper_word : forall a b,
  upper_word a = true -> upper_word b = true -> to_lower_camel a = to_lower_camel b -> a = b.
Proof.
  intros [|c r] [|d s] Ha Hb H; try discriminate.
  rewrite (to_lower_camel_upper_word c r Ha), (to_lower_camel_upper_word d s Hb) in H.
  inversion H. f_equal. lia.
Qed.

(* snake-normal identifiers (lower_snake field names) are their own snake form, so ToSnake is
   injective on them too *)
Theorem to_snake_injective_snake_nf : forall a b,
  ident a = true -> snake_nf a = true -> ident b = true -> snake_nf b = true ->
  to_snake a = to_snake b -> a = b.
Proof.
  intros a b Ha Na Hb Nb H. now rewrite (to_snake_fixed a Ha Na), (to_snake_fixed b Hb Nb) in H.
Qed.

(* ---- camelCase names WITH DIGITS ---------------------------------------------------------
   letters and digits; a capital is never preceded by a capital and a lower-case letter never
   by a digit (a digit ends a word: "address2Line", "fooB2", "v12Beta"; not "foo2bar", whose
   snake form foo_2_bar is also that of "foo2Bar").  On this class ToLowerCamel / ToCamel
   undo ToSnake, so ToSnake is injective. *)
Fixpoint camel_tail_d (pc pd : bool) (s : list N) : bool :=
  match s with
  | [] => true
  | c :: r => ((is_low c && negb pd) || (is_cap c && negb pc) || is_num c)
              && camel_tail_d (is_cap c) (is_num c) r
  end.
Definition lower_camel_d (s : list N) : bool :=
  match s with c :: r => is_low c && camel_tail_d false false r | [] => true end.
Definition upper_word_d (s : list N) : bool :=
  match s with c :: r => is_cap c && camel_tail_d true false r | [] => false end.

Lemma camel_tail_d_ident : forall r pc pd, camel_tail_d pc pd r = true -> ident r = true.
Proof.
  induction r as [|x r IH]; intros pc pd H; [reflexivity|].
  cbn [camel_tail_d] in H. apply andb_true_iff in H. destruct H as [Hx Hr].
  cbn [ident forallb]. fold (ident r). rewrite (IH _ _ Hr), andb_true_r.
  unfold plain. destruct (is_cap x), (is_low x), (is_num x); try reflexivity. discriminate.
Qed.

Lemma lower_camel_d_ident : forall w, lower_camel_d w = true -> ident w = true.
Proof.
  intros [|c r] H; [reflexivity|]. cbn [lower_camel_d] in H. apply andb_true_iff in H.
  destruct H as [Hc Hr]. cbn [ident forallb]. fold (ident r).
  rewrite (camel_tail_d_ident _ _ _ Hr), andb_true_r. unfold plain. rewrite Hc. now rewrite orb_true_r.
Qed.
Lemma upper_word_d_ident : forall w, upper_word_d w = true -> ident w = true.
Proof.
  intros [|c r] H; [discriminate|]. cbn [upper_word_d] in H. apply andb_true_iff in H.
  destruct H as [Hc Hr]. cbn [ident forallb]. fold (ident r).
  rewrite (camel_tail_d_ident _ _ _ Hr), andb_true_r. unfold plain. now rewrite Hc.
Qed.

(* the old classes are sub-classes *)
Lemma camel_tail_is_d : forall r pc pd, camel_tail pc r = true -> pd = false -> camel_tail_d pc pd r = true.
Proof.
  induction r as [|c r IH]; intros pc pd H Hpd; [reflexivity|]. subst pd.
  cbn [camel_tail] in H. apply andb_true_iff in H. destruct H as [Hc Hr].
  cbn [camel_tail_d]. rewrite andb_true_r. apply andb_true_iff. split.
  - apply orb_true_iff in Hc. destruct Hc as [Hc|Hc]; rewrite Hc; [reflexivity|].
    destruct (is_low c); reflexivity.
  - apply IH; [assumption|]. apply orb_true_iff in Hc. destruct Hc as [Hc|Hc].
    + now apply low_not_num.
    + apply andb_true_iff in Hc. destruct Hc as [Hc _]. now apply cap_not_num.
Qed.
Lemma lower_camel_is_d : forall s, lower_camel s = true -> lower_camel_d s = true.
Proof.
  intros [|c r] H; [reflexivity|]. cbn [lower_camel lower_camel_d] in *. apply andb_true_iff in H.
  destruct H as [Hc Hr]. rewrite Hc. now apply camel_tail_is_d.
Qed.
Lemma upper_word_is_d : forall s, upper_word s = true -> upper_word_d s = true.
Proof.
  intros [|c r] H; [discriminate|]. cbn [upper_word upper_word_d] in *. apply andb_true_iff in H.
  destruct H as [Hc Hr]. rewrite Hc. now apply camel_tail_is_d.
Qed.

Lemma camel_tail_d_after_cap : forall r pd, camel_tail_d true pd r = true -> head_cap r = false.
Proof.
  intros [|n r'] pd H; [reflexivity|]. cbn [camel_tail_d] in H. cbn [head_cap].
  apply andb_true_iff in H. destruct H as [H _]. destruct (is_cap n) eqn:Ec; [|reflexivity].
  rewrite (cap_not_low n Ec), (cap_not_num n Ec) in H. discriminate.
Qed.
Lemma camel_tail_d_after_num : forall r pc, camel_tail_d pc true r = true -> head_low r = false.
Proof.
  intros [|n r'] pc H; [reflexivity|]. cbn [camel_tail_d] in H. cbn [head_low].
  apply andb_true_iff in H. destruct H as [H _]. destruct (is_low n) eqn:El; [|reflexivity].
  rewrite (low_not_cap n El), (low_not_num n El) in H. discriminate.
Qed.
Lemma camel_tail_d_heads : forall r pc pd, camel_tail_d pc pd r = true ->
  head_cap r || head_num r = false -> head_low r = true \/ r = [].
Proof.
  intros [|n r'] pc pd H Hh; [now right|]. left. cbn [camel_tail_d] in H. cbn [head_cap head_num head_low] in *.
  apply andb_true_iff in H. destruct H as [H _]. apply orb_false_iff in Hh. destruct Hh as [Hc Hn].
  rewrite Hc, Hn in H. destruct (is_low n); [reflexivity|]. cbn in H. discriminate.
Qed.

Lemma lcd_snake_aux : forall s pc pd f cn,
  camel_tail_d pc pd s = true ->
  (head_low s = true -> cn = false) -> (head_cap s = true -> cn = true) -> (f = true -> cn = false) ->
  camel_go f cn false (delimited_go 95 false pc s) = s.
Proof.
  induction s as [|c r IH]; intros pc pd f cn Ht Hlo Hca Hf; [reflexivity|].
  rewrite delimited_go_cons. cbn [head_low head_cap] in Hlo, Hca.
  cbn [camel_tail_d] in Ht. apply andb_true_iff in Ht. destruct Ht as [Hc Hr].
  destruct (is_cap c) eqn:Ec.
  - (* capital, never after a capital: lowered by ToSnake, raised again by cap_next *)
    rewrite (cap_not_low c Ec), (cap_not_num c Ec) in Hc. cbn in Hc. rewrite orb_false_r in Hc.
    apply negb_true_iff in Hc. subst pc. specialize (Hca eq_refl). subst cn.
    assert (f = false) by (destruct f; [discriminate (Hf eq_refl)|reflexivity]). subst f. cbn [andb app].
    assert (Ev : conv false c = c + 32) by (unfold conv; rewrite (cap_not_low c Ec), Ec; reflexivity).
    rewrite Ev. cbn [camel_go].
    rewrite (cap_lower_is_low c Ec), (low_not_cap _ (cap_lower_is_low c Ec)). cbn [orb].
    rewrite (cap_lower_upper c Ec). f_equal.
    pose proof (camel_tail_d_after_cap _ _ Hr) as Hhc.
    destruct (head_num r) eqn:Hn.
    + cbn [app]. rewrite camel_go_underscore. apply (IH true (is_num c)); try assumption; try discriminate.
      * intros Hl. destruct r as [|n r']; [discriminate|]. cbn [head_low head_num] in *.
        rewrite (low_not_num n Hl) in Hn. discriminate.
      * reflexivity.
    + cbn [app]. apply (IH true (is_num c)); try assumption; try reflexivity.
      intros Hx. rewrite Hx in Hhc. discriminate.
  - destruct (is_low c) eqn:El.
    + (* lower-case letter: copied; '_' follows iff a capital or a digit comes next *)
      specialize (Hlo eq_refl). subst cn.
      assert (Ev : conv false c = c) by (unfold conv; rewrite El, Ec; reflexivity).
      rewrite Ev. cbn [camel_go]. rewrite Ec, El. cbn [orb andb].
      assert (Ef : (if f then c else c) = c) by (destruct f; reflexivity). rewrite Ef. f_equal.
      destruct (head_cap r || head_num r) eqn:Hh.
      * cbn [app]. rewrite camel_go_underscore. apply (IH false (is_num c)); try assumption; try reflexivity; try discriminate.
        intros Hl. destruct r as [|n r']; [discriminate|]. cbn [head_low head_cap head_num] in *.
        rewrite (low_not_cap n Hl), (low_not_num n Hl) in Hh. discriminate.
      * cbn [app]. apply (IH false (is_num c)); try assumption; try reflexivity.
        intros Hx. rewrite Hx in Hh. discriminate.
    + (* digit: copied; cap_next is set, so the capital that must follow is raised again *)
      cbn in Hc. assert (En : is_num c = true) by (destruct (is_num c); [reflexivity|discriminate]).
      rewrite En in *. pose proof (camel_tail_d_after_num _ _ Hr) as Hhl.
      cbn [camel_go]. rewrite Ec, El. cbn [orb andb].
      assert (Ev : (if cn then c else if f then c else c) = c) by (destruct cn, f; reflexivity).
      rewrite Ev, En. f_equal. rewrite Hhl, orb_false_r.
      destruct (head_cap r) eqn:Hh.
      * cbn [app]. rewrite camel_go_underscore. apply (IH false true); try assumption; try reflexivity; try discriminate.
        intros Hx. rewrite Hx in Hhl. discriminate.
      * cbn [app]. apply (IH false true); try assumption; try reflexivity; try discriminate.
        intros Hx. rewrite Hx in Hhl. discriminate.
Qed.

Theorem to_lower_camel_to_snake_d : forall n,
  lower_camel_d n = true -> to_lower_camel (to_snake n) = n.
Proof.
  intros n Hn. pose proof (lower_camel_d_ident n Hn) as Hi.
  unfold to_lower_camel, to_camel_init, to_snake, to_delimited, to_screaming_delimited.
  rewrite (trim_space_ident n Hi), (trim_space_ident _ (ident_delimited n false Hi)).
  destruct n as [|c r]; [reflexivity|]. cbn [lower_camel_d] in Hn.
  apply andb_true_iff in Hn. destruct Hn as [Hc Hr].
  apply (lcd_snake_aux (c :: r) false false); try reflexivity.
  - cbn [camel_tail_d]. rewrite Hc, (low_not_num c Hc), (low_not_cap c Hc). exact Hr.
  - cbn [head_cap]. rewrite (low_not_cap c Hc). discriminate.
Qed.

Theorem to_camel_to_snake_d : forall n, upper_word_d n = true -> to_camel (to_snake n) = n.
Proof.
  intros n Hn. pose proof (upper_word_d_ident n Hn) as Hi.
  unfold to_camel, to_camel_init, to_snake, to_delimited, to_screaming_delimited.
  rewrite (trim_space_ident n Hi), (trim_space_ident _ (ident_delimited n false Hi)).
  destruct n as [|c r]; [discriminate|]. cbn [upper_word_d] in Hn.
  apply andb_true_iff in Hn. destruct Hn as [Hc Hr].
  rewrite delimited_go_cons, Hc. cbn [andb app].
  assert (Ev : conv false c = c + 32) by (unfold conv; rewrite (cap_not_low c Hc), Hc; reflexivity).
  rewrite Ev. cbn [camel_go].
  rewrite (cap_lower_is_low c Hc), (low_not_cap _ (cap_lower_is_low c Hc)). cbn [orb].
  rewrite (cap_lower_upper c Hc). f_equal.
  pose proof (camel_tail_d_after_cap _ _ Hr) as Hhc.
  destruct (head_num r) eqn:Hnum.
  - cbn [app]. rewrite camel_go_underscore. apply (lcd_snake_aux r true false); try assumption; try discriminate.
    + intros Hl. destruct r as [|n r']; [discriminate|]. cbn [head_low head_num] in *.
      rewrite (low_not_num n Hl) in Hnum. discriminate.
    + reflexivity.
  - cbn [app]. apply (lcd_snake_aux r true false); try assumption; try reflexivity.
    intros Hx. rewrite Hx in Hhc. discriminate.
Qed.

Theorem to_snake_injective_lower_camel_d : forall a b,
  lower_camel_d a = true -> lower_camel_d b = true -> to_snake a = to_snake b -> a = b.
Proof.
  intros a b Ha Hb H. rewrite <- (to_lower_camel_to_snake_d a Ha), <- (to_lower_camel_to_snake_d b Hb).
  now rewrite H.
Qed.

Theorem to_snake_injective_upper_word_d : forall a b,
  upper_word_d a = true -> upper_word_d b = true -> to_snake a = to_snake b -> a = b.
Proof.
  intros a b Ha Hb H. rewrite <- (to_camel_to_snake_d a Ha), <- (to_camel_to_snake_d b Hb).
  now rewrite H.
Qed.

(* outside the class: a lower-case letter right after a digit *)
Theorem to_snake_digit_collision_witness :
  let a := [102;111;111;50;98;97;114] in       (* "foo2bar" *)
  let b := [102;111;111;50;66;97;114] in       (* "foo2Bar" *)
  let c := [102;111;111;95;50;95;98;97;114] in (* "foo_2_bar" *)
  a <> b /\ to_snake a = to_snake b /\ to_snake a = c /\ lower_camel_d b = true /\ lower_camel_d a = false.
Proof. cbv zeta. repeat split; try discriminate; vm_compute; reflexivity. Qed.

(* ---- ToSnake is idempotent on EVERY byte string ------------------------------------------------
   What was missing: strings.TrimSpace leaves every output of the loop alone when the loop's
   input was trimmed.  [lead_ok s]: s does not start with a white-space rune (the exact condition
   under which TrimLeft returns s); the loop keeps every byte >= 128 in place and inserts
   delimiters only between ASCII letters/digits, so it can neither create nor complete a
   white-space encoding at either end. *)
Definition lead_ok (s : list N) : bool :=
  match s with
  | [] => true
  | c :: r => negb (ascii_space c) &&
      match r with
      | [] => true
      | d :: r1 => negb (space2 c d) && match r1 with [] => true | e :: _ => negb (space3 c d e) end
      end
  end.
(* the same for the reversed string (head = last byte) *)
Definition trail_ok (s : list N) : bool :=
  match s with
  | [] => true
  | c :: r => negb (ascii_space c) &&
      match r with
      | [] => true
      | d :: r1 => negb (space2 d c) && match r1 with [] => true | e :: _ => negb (space3 e d c) end
      end
  end.

Lemma lead_ok_fixed : forall s, lead_ok s = true -> trim_left s = s.
Proof.
  intros [|c r] H; [reflexivity|]. cbn [lead_ok] in H. apply andb_true_iff in H. destruct H as [H1 H].
  apply negb_true_iff in H1. cbn [trim_left]. rewrite H1. destruct r as [|d r1]; [reflexivity|].
  apply andb_true_iff in H. destruct H as [H2 H]. apply negb_true_iff in H2. rewrite H2.
  destruct r1 as [|e r2]; [reflexivity|]. apply negb_true_iff in H. now rewrite H.
Qed.
Lemma trail_ok_fixed : forall s, trail_ok s = true -> trim_left_rev s = s.
Proof.
  intros [|c r] H; [reflexivity|]. cbn [trail_ok] in H. apply andb_true_iff in H. destruct H as [H1 H].
  apply negb_true_iff in H1. cbn [trim_left_rev]. rewrite H1. destruct r as [|d r1]; [reflexivity|].
  apply andb_true_iff in H. destruct H as [H2 H]. apply negb_true_iff in H2. rewrite H2.
  destruct r1 as [|e r2]; [reflexivity|]. apply negb_true_iff in H. now rewrite H.
Qed.

(* TrimLeft returns a suffix that does not start with white space *)
Lemma trim_left_spec : forall n s, (length s <= n)%nat ->
  lead_ok (trim_left s) = true /\ exists p, s = p ++ trim_left s.
Proof.
  induction n as [|n IH]; intros s Hn.
  - destruct s; [|cbn in Hn; lia]. split; [reflexivity|exists []; reflexivity].
  - destruct s as [|c r]; [split; [reflexivity|exists []; reflexivity]|]. cbn [length] in Hn.
    cbn [trim_left]. destruct (ascii_space c) eqn:E1.
    + destruct (IH r ltac:(lia)) as [H1 [p Hp]]. split; [exact H1|]. exists (c :: p). cbn. now rewrite <- Hp.
    + destruct r as [|d r1]; [split; [cbn; now rewrite E1|exists []; reflexivity]|].
      destruct (space2 c d) eqn:E2.
      * cbn [length] in Hn. destruct (IH r1 ltac:(lia)) as [H1 [p Hp]]. split; [exact H1|].
        exists (c :: d :: p). cbn. now rewrite <- Hp.
      * destruct r1 as [|e r2]; [split; [cbn; now rewrite E1, E2|exists []; reflexivity]|].
        destruct (space3 c d e) eqn:E3.
        -- cbn [length] in Hn. destruct (IH r2 ltac:(lia)) as [H1 [p Hp]]. split; [exact H1|].
           exists (c :: d :: e :: p). cbn. now rewrite <- Hp.
        -- split; [cbn; now rewrite E1, E2, E3|exists []; reflexivity].
Qed.
Lemma trim_left_rev_spec : forall n s, (length s <= n)%nat ->
  trail_ok (trim_left_rev s) = true /\ exists p, s = p ++ trim_left_rev s.
Proof.
  induction n as [|n IH]; intros s Hn.
  - destruct s; [|cbn in Hn; lia]. split; [reflexivity|exists []; reflexivity].
  - destruct s as [|c r]; [split; [reflexivity|exists []; reflexivity]|]. cbn [length] in Hn.
    cbn [trim_left_rev]. destruct (ascii_space c) eqn:E1.
    + destruct (IH r ltac:(lia)) as [H1 [p Hp]]. split; [exact H1|]. exists (c :: p). cbn. now rewrite <- Hp.
    + destruct r as [|d r1]; [split; [cbn; now rewrite E1|exists []; reflexivity]|].
      destruct (space2 d c) eqn:E2.
      * cbn [length] in Hn. destruct (IH r1 ltac:(lia)) as [H1 [p Hp]]. split; [exact H1|].
        exists (c :: d :: p). cbn. now rewrite <- Hp.
      * destruct r1 as [|e r2]; [split; [cbn; now rewrite E1, E2|exists []; reflexivity]|].
        destruct (space3 e d c) eqn:E3.
        -- cbn [length] in Hn. destruct (IH r2 ltac:(lia)) as [H1 [p Hp]]. split; [exact H1|].
           exists (c :: d :: e :: p). cbn. now rewrite <- Hp.
        -- split; [cbn; now rewrite E1, E2, E3|exists []; reflexivity].
Qed.

(* not starting with white space is inherited by prefixes *)
Lemma lead_ok_prefix : forall a b, lead_ok (a ++ b) = true -> lead_ok a = true.
Proof.
  intros [|c [|d [|e a]]] b H; try reflexivity; cbn [app lead_ok] in *.
  - apply andb_true_iff in H. destruct H as [H _]. now rewrite H.
  - apply andb_true_iff in H. destruct H as [H1 H]. rewrite H1. destruct b; [exact H|].
    apply andb_true_iff in H. destruct H as [H2 _]. now rewrite H2.
  - exact H.
Qed.

(* TrimSpace yields a string that neither starts nor ends with white space *)
Lemma trim_space_ok : forall s, lead_ok (trim_space s) = true /\ trail_ok (rev (trim_space s)) = true.
Proof.
  intros s. unfold trim_space, trim_right.
  destruct (trim_left_spec (length s) s (le_n _)) as [Hl _]. set (x := trim_left s) in *.
  destruct (trim_left_rev_spec (length (rev x)) (rev x) (le_n _)) as [Ht [p Hp]].
  set (y := trim_left_rev (rev x)) in *. split; [|now rewrite rev_involutive].
  apply (lead_ok_prefix (rev y) (rev p)). rewrite <- rev_app_distr, <- Hp, rev_involutive. exact Hl.
Qed.

Lemma ok_trim_space : forall s, lead_ok s = true -> trail_ok (rev s) = true -> trim_space s = s.
Proof.
  intros s Hl Ht. unfold trim_space, trim_right. rewrite (lead_ok_fixed s Hl), (trail_ok_fixed _ Ht).
  apply rev_involutive.
Qed.

(* the loop on single bytes *)
Definition hi (c : N) : bool := 128 <=? c.
Definition out_byte (c : N) : N := if is_sep c then 95 else conv false c.

Lemma hi_classes : forall c, hi c = true ->
  is_cap c = false /\ is_low c = false /\ is_num c = false /\ is_sep c = false /\ ascii_space c = false.
Proof. intros c H. unfold hi in H. unfold_classes. lia. Qed.

Lemma out_byte_hi : forall c, hi c = true -> out_byte c = c.
Proof.
  intros c H. destruct (hi_classes c H) as [Hc [Hl [_ [Hs _]]]]. unfold out_byte, conv. now rewrite Hs, Hc, Hl.
Qed.
Lemma out_byte_lo : forall c, hi c = false ->
  hi (out_byte c) = false /\ (ascii_space (out_byte c) = true -> ascii_space c = true).
Proof.
  intros c H. unfold out_byte, conv, hi in *. rewrite andb_false_r. cbn [negb]. rewrite andb_true_r.
  destruct (is_sep c) eqn:Es; [split; [reflexivity|discriminate]|].
  destruct (is_cap c) eqn:Ec; [|split; [exact H|auto]].
  split; unfold_classes; lia.
Qed.

Lemma loop_hi : forall pc c r, hi c = true ->
  delimited_go 95 false pc (c :: r) = c :: delimited_go 95 false false r.
Proof.
  intros pc c r H. destruct (hi_classes c H) as [Hc [Hl [Hn [Hs _]]]].
  rewrite delimited_go_cons, Hc, Hl, Hn, Hs. reflexivity.
Qed.

Lemma loop_head : forall pc c r, exists t,
  delimited_go 95 false pc (c :: r) = (if is_cap c && pc && head_low r then 95 else out_byte c) :: t.
Proof.
  intros pc c r. pose proof (hd_delimited pc c r) as H.
  destruct (delimited_go 95 false pc (c :: r)) as [|o t] eqn:E; [discriminate|].
  cbn in H. inversion H as [Ho]. exists t. f_equal. unfold out_byte.
  destruct (is_cap c) eqn:Ec.
  - rewrite (cap_not_sep c Ec), orb_false_r. reflexivity.
  - cbn [andb orb]. reflexivity.
Qed.

Lemma lead_ok_lo : forall c r, hi c = false -> ascii_space c = false -> lead_ok (c :: r) = true.
Proof.
  intros c r H Hs. cbn [lead_ok]. rewrite Hs. cbn [negb andb]. destruct r as [|d r1]; [reflexivity|].
  assert (E2 : space2 c d = false) by (unfold hi in H; unfold_classes; lia). rewrite E2. cbn [negb andb].
  destruct r1 as [|e r2]; [reflexivity|].
  assert (E3 : space3 c d e = false) by (unfold hi in H; unfold_classes; lia). now rewrite E3.
Qed.
Lemma trail_ok_lo : forall c r, hi c = false -> ascii_space c = false -> trail_ok (c :: r) = true.
Proof.
  intros c r H Hs. cbn [trail_ok]. rewrite Hs. cbn [negb andb]. destruct r as [|d r1]; [reflexivity|].
  assert (E2 : space2 d c = false) by (unfold hi in H; unfold_classes; lia). rewrite E2. cbn [negb andb].
  destruct r1 as [|e r2]; [reflexivity|].
  assert (E3 : space3 e d c = false) by (unfold hi in H; unfold_classes; lia). now rewrite E3.
Qed.

(* the first output byte of the loop on an ASCII byte: ASCII, and white space only if the input was *)
Lemma loop_head_lo : forall pc c r, hi c = false -> exists o t,
  delimited_go 95 false pc (c :: r) = o :: t /\ hi o = false /\ (ascii_space o = true -> ascii_space c = true).
Proof.
  intros pc c r H. destruct (loop_head pc c r) as [t Ht]. eexists. exists t. split; [exact Ht|].
  destruct (is_cap c && pc && head_low r); [split; [reflexivity|discriminate]|]. now apply out_byte_lo.
Qed.

Theorem lead_ok_loop : forall s pc, lead_ok s = true -> lead_ok (delimited_go 95 false pc s) = true.
Proof.
  intros [|c0 r0] pc H; [reflexivity|]. pose proof H as H0. cbn [lead_ok] in H.
  apply andb_true_iff in H. destruct H as [Hs0 H]. apply negb_true_iff in Hs0.
  destruct (hi c0) eqn:Eh0.
  2:{ destruct (loop_head_lo pc c0 r0 Eh0) as [o [t [-> [Ho Hsp]]]]. apply lead_ok_lo; [exact Ho|].
      destruct (ascii_space o) eqn:E; [|reflexivity]. rewrite (Hsp eq_refl) in Hs0. discriminate. }
  rewrite (loop_hi pc c0 r0 Eh0). destruct r0 as [|c1 r1]; [cbn; now rewrite Hs0|].
  apply andb_true_iff in H. destruct H as [H2 H]. apply negb_true_iff in H2.
  destruct (hi c1) eqn:Eh1.
  2:{ destruct (loop_head_lo false c1 r1 Eh1) as [o [t [-> [Ho _]]]]. cbn [lead_ok]. rewrite Hs0. cbn [negb andb].
      assert (E2 : space2 c0 o = false) by (unfold hi in Ho; unfold_classes; lia). rewrite E2. cbn [negb andb].
      destruct t as [|e t']; [reflexivity|].
      assert (E3 : space3 c0 o e = false) by (unfold hi in Ho; unfold_classes; lia). now rewrite E3. }
  rewrite (loop_hi false c1 r1 Eh1). cbn [lead_ok]. rewrite Hs0, H2. cbn [negb andb].
  destruct r1 as [|c2 r2]; [reflexivity|]. apply negb_true_iff in H.
  destruct (hi c2) eqn:Eh2.
  - rewrite (loop_hi false c2 r2 Eh2). now rewrite H.
  - destruct (loop_head_lo false c2 r2 Eh2) as [o [t [-> [Ho _]]]].
    assert (E3 : space3 c0 c1 o = false) by (unfold hi in Ho; unfold_classes; lia). now rewrite E3.
Qed.

(* the last output byte: the loop on a ++ [c] ends with out_byte c, and for c >= 128 the rest is
   the loop on a *)
Lemma heads_snoc_hi : forall a c, hi c = true ->
  head_cap (a ++ [c]) = head_cap a /\ head_low (a ++ [c]) = head_low a /\ head_num (a ++ [c]) = head_num a.
Proof.
  intros [|x a] c H; [|repeat split; reflexivity]. destruct (hi_classes c H) as [Hc [Hl [Hn _]]].
  cbn. now rewrite Hc, Hl, Hn.
Qed.

Lemma loop_snoc : forall a pc c, exists pre,
  delimited_go 95 false pc (a ++ [c]) = pre ++ [out_byte c]
  /\ (hi c = true -> pre = delimited_go 95 false pc a).
Proof.
  induction a as [|x a IH]; intros pc c.
  - exists []. split; [|reflexivity]. cbn [app]. rewrite delimited_go_cons. unfold out_byte. cbn [head_low head_num head_cap].
    rewrite andb_false_r. cbn [orb app].
    destruct (is_cap c) eqn:Ec; [now rewrite (cap_not_sep c Ec)|].
    destruct (is_low c) eqn:El; [now rewrite (low_not_sep c El)|].
    assert (Ev : conv false c = c) by (unfold conv; rewrite El, Ec; reflexivity). rewrite Ev.
    destruct (is_num c) eqn:En; [now rewrite (num_not_sep c En)|reflexivity].
  - cbn [app]. rewrite delimited_go_cons.
    destruct (is_cap x) eqn:Ec; [|destruct (is_low x) eqn:El; [|destruct (is_num x) eqn:En]].
    + destruct (IH true c) as [pre [E Hh]]. rewrite E.
      exists ((if pc && head_low (a ++ [c]) then [95] else []) ++ conv false x ::
              (if head_num (a ++ [c]) then [95] else []) ++ pre). split.
      * rewrite <- !app_assoc. cbn [app]. rewrite <- !app_assoc. reflexivity.
      * intros H. rewrite delimited_go_cons, Ec. destruct (heads_snoc_hi a c H) as [_ [-> ->]].
        now rewrite (Hh H).
    + destruct (IH false c) as [pre [E Hh]]. rewrite E.
      exists (conv false x :: (if head_cap (a ++ [c]) || head_num (a ++ [c]) then [95] else []) ++ pre). split.
      * cbn [app]. rewrite <- !app_assoc. reflexivity.
      * intros H. rewrite delimited_go_cons, Ec, El. destruct (heads_snoc_hi a c H) as [-> [_ ->]].
        now rewrite (Hh H).
    + destruct (IH false c) as [pre [E Hh]]. rewrite E.
      exists (x :: (if head_cap (a ++ [c]) || head_low (a ++ [c]) then [95] else []) ++ pre). split.
      * cbn [app]. rewrite <- !app_assoc. reflexivity.
      * intros H. rewrite delimited_go_cons, Ec, El, En. destruct (heads_snoc_hi a c H) as [-> [-> _]].
        now rewrite (Hh H).
    + destruct (IH false c) as [pre [E Hh]]. rewrite E.
      exists ((if is_sep x then 95 else x) :: pre). split.
      * reflexivity.
      * intros H. rewrite delimited_go_cons, Ec, El, En. now rewrite (Hh H).
Qed.

Lemma snoc_case : forall (l : list N), l = [] \/ exists a c, l = a ++ [c].
Proof. intros l. destruct (rev l) as [|c a] eqn:E.
  - left. apply (f_equal (@rev N)) in E. now rewrite rev_involutive in E.
  - right. exists (rev a), c. apply (f_equal (@rev N)) in E. now rewrite rev_involutive in E.
Qed.

Theorem trail_ok_loop : forall s pc, trail_ok (rev s) = true -> trail_ok (rev (delimited_go 95 false pc s)) = true.
Proof.
  intros s pc H. destruct (snoc_case s) as [->|[a [c ->]]]; [reflexivity|].
  rewrite rev_app_distr in H. cbn [rev app] in H. pose proof H as H0. cbn [trail_ok] in H.
  apply andb_true_iff in H. destruct H as [Hs0 H]. apply negb_true_iff in Hs0.
  destruct (loop_snoc a pc c) as [pre [E Hh]]. rewrite E, rev_app_distr. cbn [rev app].
  destruct (hi c) eqn:Eh0.
  2:{ destruct (out_byte_lo c Eh0) as [Ho Hsp]. apply trail_ok_lo; [exact Ho|].
      destruct (ascii_space (out_byte c)) eqn:Es; [|reflexivity]. rewrite (Hsp eq_refl) in Hs0. discriminate. }
  rewrite (out_byte_hi c Eh0), (Hh eq_refl). clear E Hh pre.
  destruct (snoc_case a) as [->|[a1 [d ->]]]; [cbn; now rewrite Hs0|].
  rewrite rev_app_distr in H. cbn [rev app] in H.
  apply andb_true_iff in H. destruct H as [H2 H]. apply negb_true_iff in H2.
  destruct (loop_snoc a1 pc d) as [pre1 [E1 Hh1]]. rewrite E1, rev_app_distr. cbn [rev app trail_ok].
  rewrite Hs0. cbn [negb andb].
  destruct (hi d) eqn:Eh1.
  2:{ destruct (out_byte_lo d Eh1) as [Ho _].
      assert (E2 : space2 (out_byte d) c = false) by (unfold hi in Ho; unfold_classes; lia). rewrite E2. cbn [negb andb].
      destruct (rev pre1) as [|e t]; [reflexivity|].
      assert (E3 : space3 e (out_byte d) c = false) by (unfold hi in Ho; unfold_classes; lia). now rewrite E3. }
  rewrite (out_byte_hi d Eh1), (Hh1 eq_refl), H2. cbn [negb andb]. clear E1 Hh1 pre1.
  destruct (snoc_case a1) as [->|[a2 [e ->]]]; [reflexivity|].
  rewrite rev_app_distr in H. cbn [rev app] in H. apply negb_true_iff in H.
  destruct (loop_snoc a2 pc e) as [pre2 [E2 _]]. rewrite E2, rev_app_distr. cbn [rev app].
  destruct (hi e) eqn:Eh2.
  - rewrite (out_byte_hi e Eh2). now rewrite H.
  - destruct (out_byte_lo e Eh2) as [Ho _].
    assert (E3 : space3 (out_byte e) d c = false) by (unfold hi in Ho; unfold_classes; lia). now rewrite E3.
Qed.

Theorem trim_space_to_snake : forall n, trim_space (to_snake n) = to_snake n.
Proof.
  intros n. unfold to_snake, to_delimited, to_screaming_delimited.
  destruct (trim_space_ok n) as [Hl Ht]. apply ok_trim_space.
  - now apply lead_ok_loop.
  - now apply trail_ok_loop.
Qed.

(* for ALL byte strings *)
Theorem to_snake_idem_all : forall n, to_snake (to_snake n) = to_snake n.
Proof. intros n. apply to_snake_idem_gen, trim_space_to_snake. Qed.

Theorem trim_space_idem : forall s, trim_space (trim_space s) = trim_space s.
Proof. intros s. destruct (trim_space_ok s) as [Hl Ht]. now apply ok_trim_space. Qed.

(* ---- the name class of the laws vs. the class the j5s lexer accepts (round 3) ---------------------------------
   The lexer accepts a unicode letter followed by letters / digits / '_'.  On bytes that is [ident] plus
   bytes >= 128.  The laws above are stated for [ident] (ASCII); they cannot be stated for the byte class
   "ident or >= 128" without a Unicode table, because that class contains encoded white space, which
   strings.TrimSpace - the first step of every strcase function - removes: *)
Definition ident8 (s : list N) : bool := forallb (fun c => plain c || (128 <=? c)) s.

Theorem trim_space_ident8_refuted :
  exists s, ident8 s = true /\ trim_space s <> s /\ to_snake (104 :: 105 :: s) <> 104 :: 105 :: s.
Proof. exists [194; 160]. repeat split; vm_compute; discriminate. Qed.

(* what does hold on that class: a name whose first and last bytes are ASCII identifier bytes (`naïve`,
   `Crée`, `x日本Y`) is not trimmed, whatever lies between *)
Theorem trim_space_ident8_ascii_ends : forall c s d,
  plain c = true -> plain d = true -> trim_space (c :: s ++ [d]) = c :: s ++ [d].
Proof.
  intros c s d Hc Hd. apply trim_space_ends.
  - intros c' r E. inversion E; subst c'. clear E. unfold plain, is_cap, is_low, is_num in Hc. unfold ascii_space.
    repeat match type of Hc with (_ || _) = true => apply orb_true_iff in Hc; destruct Hc as [Hc|Hc] end;
      repeat match type of Hc with (_ && _) = true => apply andb_true_iff in Hc; destruct Hc end;
      split; try lia; repeat (apply orb_false_iff; split); try (apply N.eqb_neq); lia.
  - intros c' r E. change (c :: s ++ [d]) with ((c :: s) ++ [d]) in E. rewrite rev_app_distr in E. cbn [rev app] in E.
    inversion E; subst c'. clear E. unfold plain, is_cap, is_low, is_num in Hd. unfold ascii_space.
    repeat match type of Hd with (_ || _) = true => apply orb_true_iff in Hd; destruct Hd as [Hd|Hd] end;
      repeat match type of Hd with (_ && _) = true => apply andb_true_iff in Hd; destruct Hd end;
      split; try lia; repeat (apply orb_false_iff; split); try (apply N.eqb_neq); lia.
Qed.

(* CmpbOrderProofs.v — lemmas behind props/C14.v: every order parameter of model/CmpbOrder.v is
   irrelevant to the result (for all permutations), and the places where it is not are exhibited. *)
From Coq Require Import List NArith Bool Arith Lia ZifyN ZifyNat ZifyBool Permutation Sorted.
From J5V.model Require Import CmpbOrder.
Import ListNotations.
Local Open Scope N_scope.

(* ------------------------------------------------------------ byte strings *)
Lemma beqb_eq a : forall b, beqb a b = true <-> a = b.
Proof.
  induction a as [|x r IH]; intros [|y s]; cbn [beqb]; split; intro H; try reflexivity; try discriminate.
  - apply andb_prop in H. destruct H as [H1 H2]. apply N.eqb_eq in H1. apply IH in H2. subst. reflexivity.
  - inversion H; subst. rewrite N.eqb_refl. cbn. apply IH. reflexivity.
Qed.
Lemma beqb_refl a : beqb a a = true.
Proof. apply beqb_eq. reflexivity. Qed.
Lemma beqb_neq a b : beqb a b = false <-> a <> b.
Proof.
  split; intro H.
  - intro E. apply beqb_eq in E. congruence.
  - destruct (beqb a b) eqn:E; [apply beqb_eq in E; contradiction|reflexivity].
Qed.

Lemma bleb_refl a : bleb a a = true.
Proof. induction a as [|x r IH]; cbn [bleb]; [reflexivity|]. rewrite N.ltb_irrefl. exact IH. Qed.
Lemma bleb_total a : forall b, bleb a b = true \/ bleb b a = true.
Proof.
  induction a as [|x r IH]; intros [|y s]; cbn [bleb]; auto.
  destruct (x <? y) eqn:E1; [auto|]. destruct (y <? x) eqn:E2; [auto|]. apply IH.
Qed.
Lemma bleb_antisym a : forall b, bleb a b = true -> bleb b a = true -> a = b.
Proof.
  induction a as [|x r IH]; intros [|y s]; cbn [bleb]; intros H1 H2; try reflexivity; try discriminate.
  destruct (x <? y) eqn:E1; destruct (y <? x) eqn:E2; try discriminate; try lia.
  assert (x = y) by lia. subst. f_equal. apply IH; assumption.
Qed.
Lemma bleb_trans a : forall b c, bleb a b = true -> bleb b c = true -> bleb a c = true.
Proof.
  induction a as [|x r IH]; intros [|y s] [|z t]; cbn [bleb]; intros H1 H2; try reflexivity; try discriminate.
  destruct (x <? y) eqn:E1.
  - destruct (y <? z) eqn:E2.
    + replace (x <? z) with true by lia. reflexivity.
    + destruct (z <? y) eqn:E3; [discriminate|]. assert (y = z) by lia. subst. rewrite E1. reflexivity.
  - destruct (y <? x) eqn:E1'; [discriminate|]. assert (x = y) by lia. subst.
    destruct (y <? z) eqn:E2; [reflexivity|]. destruct (z <? y) eqn:E3; [discriminate|].
    apply IH with s; assumption.
Qed.

(* ------------------------------------------------------------ sorting by a key *)
Section SortFacts.
  Context {A K : Type}.
  Variable key : A -> K.
  Variable leb : K -> K -> bool.
  Hypothesis leb_total : forall a b, leb a b = true \/ leb b a = true.
  Hypothesis leb_trans : forall a b c, leb a b = true -> leb b c = true -> leb a c = true.

  Definition le (a b : A) : Prop := leb (key a) (key b) = true.

  Lemma insert_perm x l : Permutation (insert key leb x l) (x :: l).
  Proof.
    induction l as [|y r IH]; cbn [insert]; [reflexivity|].
    destruct (leb (key x) (key y)); [reflexivity|].
    rewrite IH. apply perm_swap.
  Qed.
  Lemma isort_perm l : Permutation (isort key leb l) l.
  Proof.
    induction l as [|x r IH]; cbn [isort]; [reflexivity|].
    rewrite insert_perm. constructor. exact IH.
  Qed.

  Lemma insert_sorted x l : StronglySorted le l -> StronglySorted le (insert key leb x l).
  Proof.
    induction l as [|y r IH]; intro Hs; cbn [insert].
    - constructor; constructor.
    - inversion Hs as [|? ? Hr Hall]; subst.
      destruct (leb (key x) (key y)) eqn:E.
      + constructor; [exact Hs|]. constructor; [exact E|].
        rewrite Forall_forall in *. intros z Hz. unfold le. apply leb_trans with (key y); [exact E|apply Hall; exact Hz].
      + constructor; [apply IH; exact Hr|].
        assert (Hyx : le y x). { destruct (leb_total (key x) (key y)) as [H|H]; [congruence|exact H]. }
        rewrite Forall_forall in *. intros z Hz.
        apply (Permutation_in _ (insert_perm x r)) in Hz. destruct Hz as [Hz|Hz]; [subst; exact Hyx|apply Hall; exact Hz].
  Qed.
  Lemma isort_sorted l : StronglySorted le (isort key leb l).
  Proof. induction l as [|x r IH]; cbn [isort]; [constructor|apply insert_sorted; exact IH]. Qed.

  (* two sorted arrangements of the same elements coincide when the order separates the elements *)
  Lemma sorted_perm_eq : forall l1 l2,
    StronglySorted le l1 -> StronglySorted le l2 -> Permutation l1 l2 ->
    (forall a b, In a l1 -> In b l1 -> le a b -> le b a -> a = b) ->
    l1 = l2.
  Proof.
    induction l1 as [|a1 r1 IH]; intros l2 H1 H2 Hp Hanti.
    - apply Permutation_nil in Hp. subst. reflexivity.
    - destruct l2 as [|a2 r2]; [apply Permutation_sym, Permutation_nil in Hp; discriminate|].
      inversion H1 as [|? ? Hs1 Hall1]; subst. inversion H2 as [|? ? Hs2 Hall2]; subst.
      rewrite Forall_forall in Hall1, Hall2.
      assert (Ha : a1 = a2).
      { assert (In a1 (a2 :: r2)) as [E|E] by (apply (Permutation_in _ Hp); left; reflexivity); [auto|].
        assert (In a2 (a1 :: r1)) as [E2|E2] by (apply (Permutation_in _ (Permutation_sym Hp)); left; reflexivity); [auto|].
        apply Hanti; [left; reflexivity|right; exact E2|apply Hall1; exact E2|apply Hall2; exact E]. }
      subst a2. f_equal. apply IH; auto.
      + apply Permutation_cons_inv with a1. exact Hp.
      + intros a b Ha Hb. apply Hanti; right; assumption.
  Qed.

  (* the sort result does not depend on the order in which the elements arrived *)
  Lemma isort_perm_invariant l1 l2 :
    Permutation l1 l2 ->
    (forall a b, In a l1 -> In b l1 -> le a b -> le b a -> a = b) ->
    isort key leb l1 = isort key leb l2.
  Proof.
    intros Hp Hanti. apply sorted_perm_eq; try apply isort_sorted.
    - rewrite (isort_perm l1), (isort_perm l2). exact Hp.
    - intros a b Ha Hb. apply Hanti; apply (Permutation_in _ (isort_perm l1)); assumption.
  Qed.

  (* ... and not on the sorting algorithm either: any sorted permutation of the input is that list *)
  Lemma any_sort_is_isort l s :
    StronglySorted le s -> Permutation s l ->
    (forall a b, In a l -> In b l -> le a b -> le b a -> a = b) ->
    s = isort key leb l.
  Proof.
    intros Hs Hp Hanti. apply sorted_perm_eq; auto using isort_sorted.
    - rewrite Hp. symmetry. apply isort_perm.
    - intros a b Ha Hb. apply Hanti; apply (Permutation_in _ Hp); assumption.
  Qed.
End SortFacts.

(* ------------------------------------------------------------ instances *)
(* sort.Strings: the order is antisymmetric on the strings themselves, duplicates are harmless *)
Lemma sort_strings_perm l1 l2 : Permutation l1 l2 -> sort_strings l1 = sort_strings l2.
Proof.
  intro Hp. unfold sort_strings. apply (isort_perm_invariant (fun x => x) bleb bleb_total bleb_trans); [exact Hp|].
  intros a b _ _ H1 H2. apply bleb_antisym; assumption.
Qed.

(* CompilePackage's file order *)
Lemma sort_names_perm l1 l2 : Permutation l1 l2 -> sort_names l1 = sort_names l2.
Proof. apply sort_strings_perm. Qed.

Lemma N_leb_total a b : N.leb a b = true \/ N.leb b a = true.
Proof. lia. Qed.
Lemma N_leb_trans a b c : N.leb a b = true -> N.leb b c = true -> N.leb a c = true.
Proof. lia. Qed.

Definition distinct_on {A K} (key : A -> K) (l : list A) : Prop :=
  forall a b, In a l -> In b l -> key a = key b -> a = b.

(* lexicographic pairs inherit totality, transitivity and antisymmetry *)
Section Lex.
  Context {K : Type}.
  Variable leb : K -> K -> bool.
  Hypothesis leb_total : forall a b, leb a b = true \/ leb b a = true.
  Hypothesis leb_trans : forall a b c, leb a b = true -> leb b c = true -> leb a c = true.
  Lemma lexN_total x y : lexN leb x y = true \/ lexN leb y x = true.
  Proof.
    unfold lexN. destruct x as [a k], y as [b l]; cbn [fst snd].
    destruct (a <? b) eqn:E1; [auto|]. destruct (b <? a) eqn:E2; [auto|]. apply leb_total.
  Qed.
  Lemma lexN_trans x y z : lexN leb x y = true -> lexN leb y z = true -> lexN leb x z = true.
  Proof.
    unfold lexN. destruct x as [a k], y as [b l], z as [c m]; cbn [fst snd].
    destruct (a <? b) eqn:E1.
    - destruct (b <? c) eqn:E2.
      + intros _ _. replace (a <? c) with true by lia. reflexivity.
      + destruct (c <? b) eqn:E3; [discriminate|]. intros _ _. replace (a <? c) with true by lia. reflexivity.
    - destruct (b <? a) eqn:E1'; [discriminate|]. assert (a = b) by lia. subst b.
      destruct (a <? c) eqn:E2; [reflexivity|]. destruct (c <? a) eqn:E3; [discriminate|]. apply leb_trans.
  Qed.
  Lemma lexN_antisym (eqK : K -> K -> Prop) :
    (forall a b, leb a b = true -> leb b a = true -> eqK a b) ->
    forall x y, lexN leb x y = true -> lexN leb y x = true -> fst x = fst y /\ eqK (snd x) (snd y).
  Proof.
    intros Ha x y. unfold lexN. destruct x as [a k], y as [b l]; cbn [fst snd].
    destruct (a <? b) eqn:E1; destruct (b <? a) eqn:E2; try discriminate; try lia.
    intros H1 H2. split; [lia|apply Ha; assumption].
  Qed.
End Lex.

Definition lex1 := lexN bleb.
Definition lex2 := lexN lex1.
Lemma lex1_total a b : lex1 a b = true \/ lex1 b a = true.
Proof. exact (lexN_total bleb bleb_total a b). Qed.
Lemma lex1_trans a b c : lex1 a b = true -> lex1 b c = true -> lex1 a c = true.
Proof. exact (lexN_trans bleb bleb_total bleb_trans a b c). Qed.
Lemma lex2_total a b : lex2 a b = true \/ lex2 b a = true.
Proof. exact (lexN_total lex1 lex1_total a b). Qed.
Lemma lex2_trans a b c : lex2 a b = true -> lex2 b c = true -> lex2 a c = true.
Proof. exact (lexN_trans lex1 lex1_total lex1_trans a b c). Qed.
Lemma opt_key_leb_total a b : opt_key_leb a b = true \/ opt_key_leb b a = true.
Proof. exact (lexN_total lex2 lex2_total a b). Qed.
Lemma opt_key_leb_trans a b c : opt_key_leb a b = true -> opt_key_leb b c = true -> opt_key_leb a c = true.
Proof. exact (lexN_trans lex2 lex2_total lex2_trans a b c). Qed.
Lemma opt_key_leb_full a b : opt_key_leb (opt_key a) (opt_key b) = true -> opt_key_leb (opt_key b) (opt_key a) = true -> o_full a = o_full b.
Proof.
  intros H1 H2.
  assert (A1 : forall u v : N * bytes, lex1 u v = true -> lex1 v u = true -> snd u = snd v).
  { intros u v Hu Hv. apply (lexN_antisym bleb bleb_total bleb_trans (fun p q => p = q) (fun p q => bleb_antisym p q) u v Hu Hv). }
  assert (A2 : forall u v : N * (N * bytes), lex2 u v = true -> lex2 v u = true -> snd (snd u) = snd (snd v)).
  { intros u v Hu Hv. apply (lexN_antisym lex1 lex1_total lex1_trans (fun p q => snd p = snd q) A1 u v Hu Hv). }
  apply (lexN_antisym lex2 lex2_total lex2_trans (fun p q => snd (snd p) = snd (snd q)) A2 (opt_key a) (opt_key b) H1 H2).
Qed.

(* OptionsFor (after the repair of finding 28): independent of protobuf's Range order whenever the
   extensions on the descriptor are distinct (they always are: one value per extension) *)
Lemma options_for_perm l1 l2 : Permutation l1 l2 -> distinct_on o_full l1 -> options_for l1 = options_for l2.
Proof.
  intros Hp Hd. unfold options_for. apply (isort_perm_invariant opt_key opt_key_leb opt_key_leb_total opt_key_leb_trans); [exact Hp|].
  intros a b Ha Hb H1 H2. apply Hd; auto. apply opt_key_leb_full; assumption.
Qed.
(* the order that was used before the repair (index only) did depend on Range order: two options with
   the same index (extensions defined at the same position of two different files) *)
Definition options_for_by_index (range_order : list opt) : list opt := isort o_index N.leb range_order.
Lemma options_for_by_index_tie :
  exists a b, o_full a <> o_full b /\ options_for_by_index [a; b] <> options_for_by_index [b; a]
              /\ options_for [a; b] = options_for [b; a].
Proof.
  exists (mkOpt 0 0 [97] [97]), (mkOpt 0 0 [98] [98]). split; [discriminate|]. split; [vm_compute; discriminate|vm_compute; reflexivity].
Qed.

(* field / enum-value options are re-sorted by qualified name: independent of Range order whenever
   the names are distinct *)
Lemma field_options_perm l1 l2 : Permutation l1 l2 -> distinct_on o_name l1 -> field_options l1 = field_options l2.
Proof.
  intros Hp Hd. unfold field_options. apply (isort_perm_invariant o_name bleb bleb_total bleb_trans).
  - unfold options_for. rewrite (isort_perm opt_key opt_key_leb l1), (isort_perm opt_key opt_key_leb l2). exact Hp.
  - intros a b Ha Hb H1 H2. unfold options_for in Ha, Hb.
    apply (Permutation_in _ (isort_perm opt_key opt_key_leb l1)) in Ha.
    apply (Permutation_in _ (isort_perm opt_key opt_key_leb l1)) in Hb.
    apply Hd; auto. apply bleb_antisym; assumption.
Qed.

(* walkOptionMap (after the repair): map keys are unique *)
Lemma map_entries_perm l1 l2 : Permutation l1 l2 -> distinct_on (fun kv : bytes * bytes => fst kv) l1 -> map_entries l1 = map_entries l2.
Proof.
  intros Hp Hd. unfold map_entries.
  apply (isort_perm_invariant (fun kv : bytes * bytes => fst kv) bleb bleb_total bleb_trans); [exact Hp|].
  intros a b Ha Hb H1 H2. apply Hd; auto. apply bleb_antisym; assumption.
Qed.

(* ------------------------------------------------------------ ensureImport *)
Lemma existsb_beqb p l : existsb (beqb p) l = true <-> In p l.
Proof.
  rewrite existsb_exists. split.
  - intros [x [Hx E]]. apply beqb_eq in E. subst. exact Hx.
  - intro H. exists p. split; [exact H|apply beqb_refl].
Qed.

Definition strict_sorted (l : list bytes) : Prop := StronglySorted (le (fun x => x) bleb) l /\ NoDup l.

Lemma strict_sorted_ext l1 l2 : strict_sorted l1 -> strict_sorted l2 -> (forall x, In x l1 <-> In x l2) -> l1 = l2.
Proof.
  intros [S1 N1] [S2 N2] H. apply (sorted_perm_eq (fun x => x) bleb); auto.
  - apply NoDup_Permutation; assumption.
  - intros a b _ _ H1 H2. apply bleb_antisym; assumption.
Qed.

Lemma ensure_import_spec deps p :
  strict_sorted deps ->
  strict_sorted (ensure_import deps p) /\ (forall x, In x (ensure_import deps p) <-> In x deps \/ x = p).
Proof.
  intros [S N]. unfold ensure_import. destruct (existsb (beqb p) deps) eqn:E.
  - apply existsb_beqb in E. split; [split; assumption|]. intro x. split; [auto|]. intros [H|H]; [exact H|subst; exact E].
  - assert (Hn : ~ In p deps) by (rewrite <- existsb_beqb; congruence).
    assert (Hp : Permutation (sort_strings (deps ++ [p])) (deps ++ [p])) by apply isort_perm.
    split; [split|].
    + apply (isort_sorted (fun x => x) bleb bleb_total bleb_trans).
    + apply (Permutation_NoDup (Permutation_sym Hp)).
      rewrite <- (rev_involutive (deps ++ [p])). apply NoDup_rev. rewrite rev_app_distr. cbn.
      constructor; [rewrite <- in_rev; exact Hn|apply NoDup_rev; exact N].
    + intro x. split; intro H.
      * apply (Permutation_in _ Hp) in H. apply in_app_or in H. destruct H as [H|[H|[]]]; auto.
      * apply (Permutation_in _ (Permutation_sym Hp)). apply in_or_app. destruct H as [H|H]; [left; exact H|right; left; auto].
Qed.

Lemma ensure_fold_spec calls : forall deps,
  strict_sorted deps ->
  strict_sorted (fold_left ensure_import calls deps)
  /\ (forall x, In x (fold_left ensure_import calls deps) <-> In x deps \/ In x calls).
Proof.
  induction calls as [|p r IH]; intros deps Hs; cbn [fold_left].
  - split; [exact Hs|]. intro x. split; [auto|]. intros [H|[]]. exact H.
  - destruct (ensure_import_spec deps p Hs) as [Hs' Hin]. destruct (IH _ Hs') as [Hs'' Hin'].
    split; [exact Hs''|]. intro x. rewrite Hin', Hin. cbn [In]. intuition.
Qed.

Lemma strict_sorted_nil : strict_sorted [].
Proof. split; constructor. Qed.

(* the Dependency list is a function of the SET of files ever passed to ensureImport: independent
   of the order of the calls and of repetitions *)
Lemma ensure_all_set_invariant c1 c2 : (forall x, In x c1 <-> In x c2) -> ensure_all c1 = ensure_all c2.
Proof.
  intro H. unfold ensure_all.
  destruct (ensure_fold_spec c1 [] strict_sorted_nil) as [S1 I1].
  destruct (ensure_fold_spec c2 [] strict_sorted_nil) as [S2 I2].
  apply strict_sorted_ext; auto. intro x. rewrite I1, I2. cbn [In]. rewrite H. tauto.
Qed.
Lemma ensure_all_perm c1 c2 : Permutation c1 c2 -> ensure_all c1 = ensure_all c2.
Proof.
  intro Hp. apply ensure_all_set_invariant. intro x. split; apply Permutation_in; [exact Hp|apply Permutation_sym; exact Hp].
Qed.
Lemma ensure_all_sorted c : strict_sorted (ensure_all c).
Proof. apply (ensure_fold_spec c [] strict_sorted_nil). Qed.


(* ------------------------------------------------------------ Go maps as sorted association lists *)
Local Close Scope string_scope.
Section MapFacts.
  Context {V : Type}.
  Implicit Types m : list (bytes * V).

  Definition keys_sorted m : Prop := strict_sorted (map fst m).

  Lemma map_get_set_same k v m : map_get k (map_set k v m) = Some v.
  Proof.
    induction m as [|[k' v'] r IH]; cbn [map_set map_get].
    - rewrite beqb_refl. reflexivity.
    - destruct (beqb k k') eqn:E; [cbn [map_get]; rewrite beqb_refl; reflexivity|].
      destruct (bleb k k'); cbn [map_get]; [rewrite beqb_refl; reflexivity|].
      rewrite E. exact IH.
  Qed.
  Lemma map_get_set_other k k2 v m : k2 <> k -> map_get k2 (map_set k v m) = map_get k2 m.
  Proof.
    intro Hn. apply beqb_neq in Hn.
    induction m as [|[k' v'] r IH]; cbn [map_set map_get].
    - rewrite Hn. reflexivity.
    - destruct (beqb k k') eqn:E.
      + apply beqb_eq in E. subst k'. cbn [map_get]. rewrite Hn. reflexivity.
      + destruct (bleb k k'); cbn [map_get]; [rewrite Hn; reflexivity|].
        destruct (beqb k2 k'); [reflexivity|exact IH].
  Qed.

  Lemma map_get_in k m v : map_get k m = Some v -> In k (map fst m).
  Proof.
    induction m as [|[k' v'] r IH]; cbn [map_get map fst]; [discriminate|].
    destruct (beqb k k') eqn:E; [apply beqb_eq in E; subst; left; reflexivity|right; auto].
  Qed.
  Lemma map_get_none k m : ~ In k (map fst m) -> map_get k m = None.
  Proof.
    induction m as [|[k' v'] r IH]; cbn [map_get map fst]; [reflexivity|].
    intro H. destruct (beqb k k') eqn:E; [apply beqb_eq in E; subst; exfalso; apply H; left; reflexivity|].
    apply IH. intro H2. apply H. right. exact H2.
  Qed.
  Lemma map_get_some_in k m : In k (map fst m) -> exists v, map_get k m = Some v.
  Proof.
    induction m as [|[k' v'] r IH]; cbn [map_get map fst]; [intros []|].
    intros [H|H]; destruct (beqb k k') eqn:E; eauto.
    subst. rewrite beqb_refl in E. discriminate.
  Qed.

  Lemma map_set_keys k v m x : In x (map fst (map_set k v m)) <-> x = k \/ In x (map fst m).
  Proof.
    induction m as [|[k' v'] r IH]; cbn [map_set map fst In].
    - intuition.
    - destruct (beqb k k') eqn:E.
      + apply beqb_eq in E. subst. cbn [map fst In]. intuition.
      + destruct (bleb k k'); cbn [map fst In]; [intuition|]. rewrite IH. intuition.
  Qed.

  Lemma map_set_sorted k v m : keys_sorted m -> keys_sorted (map_set k v m).
  Proof.
    unfold keys_sorted, strict_sorted.
    induction m as [|[k' v'] r IH]; cbn [map_set map fst]; intros [S N].
    - split; repeat constructor. intros [].
    - inversion S as [|? ? Sr Hall]; subst. inversion N as [|? ? Hni Nr]; subst.
      destruct (beqb k k') eqn:E.
      + apply beqb_eq in E. subst. cbn [map fst]. split; constructor; assumption.
      + destruct (bleb k k') eqn:L; cbn [map fst].
        * split.
          -- constructor; [constructor; assumption|]. constructor; [exact L|].
             rewrite Forall_forall in *. intros z Hz. unfold le. apply bleb_trans with k'; [exact L|apply Hall; exact Hz].
          -- constructor; [|constructor; assumption]. intros [H|H].
             ++ subst. rewrite beqb_refl in E. discriminate.
             ++ rewrite Forall_forall in Hall. specialize (Hall _ H). unfold le in Hall.
                assert (k = k') by (apply bleb_antisym; assumption). subst. rewrite beqb_refl in E. discriminate.
        * destruct (IH (conj Sr Nr)) as [S' N']. split.
          -- constructor; [exact S'|]. rewrite Forall_forall in *. intros z Hz. apply map_set_keys in Hz.
             destruct Hz as [Hz|Hz]; [subst|apply Hall; exact Hz].
             unfold le. destruct (bleb_total k' k) as [H|H]; [exact H|congruence].
          -- constructor; [|exact N']. rewrite map_set_keys. intros [H|H]; [subst; rewrite beqb_refl in E; discriminate|contradiction].
  Qed.

  (* two sorted maps with the same lookups are the same list *)
  Lemma map_ext : forall m1 m2, keys_sorted m1 -> keys_sorted m2 -> (forall k, map_get k m1 = map_get k m2) -> m1 = m2.
  Proof.
    induction m1 as [|[k1 v1] r1 IH]; intros [|[k2 v2] r2] H1 H2 He.
    - reflexivity.
    - specialize (He k2). cbn [map_get] in He. rewrite beqb_refl in He. discriminate.
    - specialize (He k1). cbn [map_get] in He. rewrite beqb_refl in He. discriminate.
    - destruct H1 as [S1 N1], H2 as [S2 N2]. cbn [map fst] in *.
      inversion S1 as [|? ? Sr1 A1]; subst. inversion S2 as [|? ? Sr2 A2]; subst.
      inversion N1 as [|? ? Hn1 Nr1]; subst. inversion N2 as [|? ? Hn2 Nr2]; subst.
      rewrite Forall_forall in A1, A2.
      assert (Hk : k1 = k2).
      { pose proof (He k1) as E1. cbn [map_get] in E1. rewrite beqb_refl in E1.
        pose proof (He k2) as E2. cbn [map_get] in E2. rewrite beqb_refl in E2.
        destruct (beqb k1 k2) eqn:B; [apply beqb_eq in B; exact B|].
        assert (B' : beqb k2 k1 = false) by (apply beqb_neq; intro; subst; rewrite beqb_refl in B; discriminate).
        rewrite B' in E2. symmetry in E1. apply map_get_in in E1. apply map_get_in in E2.
        apply bleb_antisym; [apply A1; exact E2|apply A2; exact E1]. }
      subst k2.
      assert (Hv : v1 = v2).
      { specialize (He k1). cbn [map_get] in He. rewrite beqb_refl in He. congruence. }
      subst v2. f_equal. apply IH; [split; assumption|split; assumption|].
      intro k. specialize (He k). cbn [map_get] in He. destruct (beqb k k1) eqn:B; [|exact He].
      apply beqb_eq in B. subst. rewrite (map_get_none _ _ Hn1), (map_get_none _ _ Hn2). reflexivity.
  Qed.

  Lemma keys_sorted_nil : keys_sorted (@nil (bytes * V)).
  Proof. split; constructor. Qed.

  (* folding assignments: sortedness, and the lookup is the LAST binding of the key *)
  Definition set_all (es : list (bytes * V)) m := fold_left (fun acc kv => map_set (fst kv) (snd kv) acc) es m.
  Lemma include_io_is_set_all es m : include_io es m = set_all es m.
  Proof. reflexivity. Qed.
  Lemma set_all_sorted es : forall m, keys_sorted m -> keys_sorted (set_all es m).
  Proof. induction es as [|[k v] r IH]; intros m H; cbn [set_all fold_left fst snd]; [exact H|]. apply IH. apply map_set_sorted. exact H. Qed.
  Lemma set_all_get_notin es : forall m k, ~ In k (map fst es) -> map_get k (set_all es m) = map_get k m.
  Proof.
    induction es as [|[k' v'] r IH]; intros m k H; cbn [set_all fold_left fst snd]; [reflexivity|].
    cbn [map fst In] in H. fold (set_all r (map_set k' v' m)). rewrite IH; [|intro; apply H; right; assumption].
    apply map_get_set_other. intro; subst; apply H; left; reflexivity.
  Qed.
  Lemma set_all_get_in es : forall m k v, NoDup (map fst es) -> In (k, v) es -> map_get k (set_all es m) = Some v.
  Proof.
    induction es as [|[k' v'] r IH]; intros m k v N Hin; cbn [set_all fold_left fst snd]; [destruct Hin|].
    cbn [map fst] in N. inversion N as [|? ? Hni Nr]; subst. fold (set_all r (map_set k' v' m)).
    destruct Hin as [E|Hin].
    - inversion E; subst. rewrite set_all_get_notin; [apply map_get_set_same|exact Hni].
    - apply IH; assumption.
  Qed.

  (* Go: ranging over a map (or listing files) in any order and assigning into another map gives the
     same map, provided no key is assigned twice *)
  Lemma set_all_perm es1 es2 m : keys_sorted m -> NoDup (map fst es1) -> Permutation es1 es2 -> set_all es1 m = set_all es2 m.
  Proof.
    intros Hm N Hp. apply map_ext; try (apply set_all_sorted; exact Hm).
    assert (N2 : NoDup (map fst es2)) by (apply (Permutation_NoDup (Permutation_map fst Hp)); exact N).
    intro k. destruct (in_dec (list_eq_dec N.eq_dec) k (map fst es1)) as [Hi|Hi].
    - apply in_map_iff in Hi. destruct Hi as [[k' v] [E Hin]]. cbn [fst] in E. subst k'.
      rewrite (set_all_get_in es1 m k v N Hin).
      rewrite (set_all_get_in es2 m k v N2 (Permutation_in _ Hp Hin)). reflexivity.
    - rewrite set_all_get_notin by exact Hi. rewrite set_all_get_notin; [reflexivity|].
      intro H. apply Hi. apply (Permutation_in _ (Permutation_sym (Permutation_map fst Hp))). exact H.
  Qed.
  Lemma set_all_app a b m : set_all (a ++ b) m = set_all b (set_all a m).
  Proof. unfold set_all. apply fold_left_app. Qed.
End MapFacts.

Lemma include_io_perm {V} (es1 es2 m : list (bytes * V)) :
  keys_sorted m -> NoDup (map fst es1) -> Permutation es1 es2 -> include_io es1 m = include_io es2 m.
Proof. apply set_all_perm. Qed.


(* ------------------------------------------------------------ package loading *)
Section LoadFacts.
  Context {F D : Type}.
  Variable convert : env -> @srcfile F -> bytes -> D.
  Notation srcfile := (@srcfile F).
  Notation pkg := (@pkg D).

  (* what a package IS, as a function of the bundle alone (files in the bundle's own order) *)
  Definition spec_exports (b : @bundle F) (d : bytes) : exports :=
    match find_pkg d b with Some fs => collect_exports fs | None => [] end.
  Definition dep_names (n : bytes) (files : list srcfile) : list bytes := map fst (collect_deps n files).
  Definition spec_pkg (b : @bundle F) (n : bytes) : pkg :=
    match find_pkg n b with
    | None => mkPkg [] [] []
    | Some files =>
        let own := collect_exports files in
        let ds := set_all (map (fun d => (d, spec_exports b d)) (dep_names n files)) [] in
        let e := mkEnv own ds in
        mkPkg own ds (set_all (concat (map (file_outputs convert e) files)) [])
    end.

  (* validity of a bundle: within a package no type is exported twice and no file name repeats *)
  Definition all_exports (files : list srcfile) : exports := concat (map file_exports files).
  Definition valid_pkg (files : list srcfile) : Prop :=
    NoDup (map fst (all_exports files)) /\ NoDup (concat (map f_outputs files)).
  Definition valid (b : @bundle F) : Prop := forall n fs, find_pkg n b = Some fs -> valid_pkg fs.

  Lemma fold_include_concat {V} (g : srcfile -> list (bytes * V)) (l : list srcfile) : forall acc,
    fold_left (fun acc f => include_io (g f) acc) l acc = set_all (concat (map g l)) acc.
  Proof.
    induction l as [|f r IH]; intro acc; cbn [fold_left map concat]; [reflexivity|].
    rewrite set_all_app. rewrite IH. reflexivity.
  Qed.
  Lemma concat_map_perm {B} (g : srcfile -> list B) (l1 l2 : list srcfile) :
    Permutation l1 l2 -> Permutation (concat (map g l1)) (concat (map g l2)).
  Proof.
    induction 1 as [|x l l' _ IH|x y l|l l' l'' _ IH1 _ IH2]; cbn [map concat].
    - reflexivity.
    - apply Permutation_app_head. exact IH.
    - rewrite !app_assoc. apply Permutation_app_tail. apply Permutation_app_comm.
    - etransitivity; eassumption.
  Qed.
  Lemma outputs_keys e (files : list srcfile) : map fst (concat (map (file_outputs convert e) files)) = concat (map f_outputs files).
  Proof.
    induction files as [|f r IH]; cbn [map concat]; [reflexivity|].
    rewrite map_app, IH. f_equal. unfold file_outputs. rewrite map_map. cbn [fst]. apply map_id.
  Qed.

  Lemma collect_exports_as_set_all (files : list srcfile) : collect_exports files = set_all (all_exports files) [].
  Proof.
    unfold collect_exports, all_exports. generalize (@nil (bytes * bytes)).
    induction files as [|f r IH]; intro acc; cbn [fold_left map concat]; [reflexivity|].
    rewrite set_all_app. rewrite IH. reflexivity.
  Qed.
  Lemma collect_exports_sorted (files : list srcfile) : keys_sorted (collect_exports files).
  Proof. rewrite collect_exports_as_set_all. apply set_all_sorted. apply keys_sorted_nil. Qed.

  Lemma all_exports_perm (f1 f2 : list srcfile) : Permutation f1 f2 -> Permutation (all_exports f1) (all_exports f2).
  Proof.
    unfold all_exports. induction 1 as [|x l l' _ IH|x y l|l l' l'' _ IH1 _ IH2]; cbn [map concat].
    - reflexivity.
    - apply Permutation_app_head. exact IH.
    - rewrite !app_assoc. apply Permutation_app_tail. apply Permutation_app_comm.
    - etransitivity; eassumption.
  Qed.

  (* the exports map does not depend on the order in which the file source lists the files *)
  Lemma collect_exports_perm (f1 f2 : list srcfile) : valid_pkg f1 -> Permutation f1 f2 -> collect_exports f1 = collect_exports f2.
  Proof.
    intros [Hn _] Hp. rewrite !collect_exports_as_set_all.
    apply set_all_perm; [apply keys_sorted_nil|exact Hn|apply all_exports_perm; exact Hp].
  Qed.

  (* the dependency set: a map with unit values, so only membership matters *)
  Definition all_deps (files : list srcfile) : list (bytes * unit) := concat (map (fun f => map (fun d => (d, tt)) (f_deps f)) files).
  Definition raw_deps (files : list srcfile) : list (bytes * unit) := set_all (all_deps files) [].
  Lemma raw_deps_fold (files : list srcfile) :
    fold_left (fun acc f => include_io (map (fun d => (d, tt)) (f_deps f)) acc) files [] = raw_deps files.
  Proof.
    unfold raw_deps, all_deps. generalize (@nil (bytes * unit)).
    induction files as [|f r IH]; intro acc; cbn [fold_left map concat]; [reflexivity|].
    rewrite set_all_app. rewrite IH. reflexivity.
  Qed.
  Lemma unit_map_get (m1 m2 : list (bytes * unit)) :
    (forall k, In k (map fst m1) <-> In k (map fst m2)) -> forall k, map_get k m1 = map_get k m2.
  Proof.
    intros H k. destruct (in_dec (list_eq_dec N.eq_dec) k (map fst m1)) as [Hi|Hi].
    - destruct (map_get_some_in _ _ Hi) as [[] E1]. apply H in Hi. destruct (map_get_some_in _ _ Hi) as [[] E2]. congruence.
    - rewrite (map_get_none _ _ Hi). rewrite map_get_none; [reflexivity|]. intro H2. apply Hi. apply H. exact H2.
  Qed.
  Lemma set_all_keys {V} (es : list (bytes * V)) : forall m x, In x (map fst (set_all es m)) <-> In x (map fst es) \/ In x (map fst m).
  Proof.
    induction es as [|[k v] r IH]; intros m x; cbn [set_all fold_left fst snd map In]; [tauto|].
    fold (set_all r (map_set k v m)). rewrite IH. rewrite map_set_keys. intuition.
  Qed.
  Lemma raw_deps_perm (f1 f2 : list srcfile) : Permutation f1 f2 -> raw_deps f1 = raw_deps f2.
  Proof.
    intro Hp. unfold raw_deps. apply map_ext; try (apply set_all_sorted; apply keys_sorted_nil).
    apply unit_map_get. intro k. rewrite !set_all_keys. cbn [map In].
    assert (Hq : Permutation (all_deps f1) (all_deps f2)).
    { unfold all_deps. clear k. induction Hp as [|x l l' _ IH|x y l|l l' l'' _ IH1 _ IH2]; cbn [map concat].
      - reflexivity.
      - apply Permutation_app_head. exact IH.
      - rewrite !app_assoc. apply Permutation_app_tail. apply Permutation_app_comm.
      - etransitivity; eassumption. }
    split; intros [H|[]]; left; [apply (Permutation_in _ (Permutation_map fst Hq))|apply (Permutation_in _ (Permutation_sym (Permutation_map fst Hq)))]; exact H.
  Qed.
  Lemma collect_deps_perm n (f1 f2 : list srcfile) : Permutation f1 f2 -> collect_deps n f1 = collect_deps n f2.
  Proof. intro Hp. unfold collect_deps. rewrite !raw_deps_fold. rewrite (raw_deps_perm f1 f2 Hp). reflexivity. Qed.

  Lemma filter_keys_sorted {V} (p : bytes * V -> bool) (m : list (bytes * V)) : keys_sorted m -> keys_sorted (filter p m).
  Proof.
    unfold keys_sorted, strict_sorted. induction m as [|[k v] r IH]; cbn [filter map fst]; intros [S N]; [split; constructor|].
    inversion S as [|? ? Sr A]; subst. inversion N as [|? ? Hn Nr]; subst. destruct (IH (conj Sr Nr)) as [S' N'].
    assert (Hsub : forall x, In x (map fst (filter p r)) -> In x (map fst r)).
    { intros x Hx. apply in_map_iff in Hx. destruct Hx as [y [E Hy]]. apply filter_In in Hy. apply in_map_iff. exists y. tauto. }
    destruct (p (k, v)); cbn [map fst]; [|split; assumption].
    split; constructor; auto.
    rewrite Forall_forall in *. intros x Hx. apply A. apply Hsub. exact Hx.
  Qed.
  Lemma dep_names_nodup n (files : list srcfile) : NoDup (dep_names n files).
  Proof.
    unfold dep_names, collect_deps. rewrite raw_deps_fold.
    apply (filter_keys_sorted _ (raw_deps files)). apply set_all_sorted. apply keys_sorted_nil.
  Qed.

  (* ---- order parameters: arbitrary reorderings *)
  Variable list_files : bytes -> list srcfile -> list srcfile.
  Variable range_deps : bytes -> list bytes -> list bytes.
  Variable range_files : bytes -> list bytes -> list bytes.
  Hypothesis list_files_perm : forall n l, Permutation (list_files n l) l.
  Hypothesis range_deps_perm : forall n l, Permutation (range_deps n l) l.
  Hypothesis range_files_perm : forall n l, Permutation (range_files n l) l.

  (* the PackageSet cache only ever holds packages as spec_pkg describes them *)
  Definition cache_ok (b : @bundle F) (c : list (bytes * pkg)) : Prop :=
    keys_sorted c /\ forall n p, map_get n c = Some p -> p = spec_pkg b n.

  Lemma cache_ok_nil b : cache_ok b [].
  Proof. split; [apply keys_sorted_nil|]. intros n p H. discriminate. Qed.
  Lemma cache_ok_set b c n : cache_ok b c -> cache_ok b (map_set n (spec_pkg b n) c).
  Proof.
    intros [S H]. split; [apply map_set_sorted; exact S|]. intros k p Hk.
    destruct (list_eq_dec N.eq_dec k n) as [E|E].
    - subst. rewrite map_get_set_same in Hk. congruence.
    - rewrite map_get_set_other in Hk by exact E. apply H. exact Hk.
  Qed.

  Notation load := (load convert list_files range_deps).

  (* the dependency loop of resolveDependencies, for any prefix order *)
  Definition dep_step (fuel : nat) (b : @bundle F) :=
    fun (acc : option (list (bytes * pkg) * list (bytes * exports))) (d : bytes) =>
      match acc with
      | None => None
      | Some (c, ds) =>
          match load fuel b c d with
          | None => None
          | Some (c', pd) => Some (c', map_set d (p_exports pd) ds)
          end
      end.
  Lemma dep_step_none fuel b deps : fold_left (dep_step fuel b) deps None = None.
  Proof. induction deps as [|d r IH]; cbn [fold_left dep_step]; [reflexivity|exact IH]. Qed.

  Lemma spec_exports_of_spec_pkg b d : p_exports (spec_pkg b d) = spec_exports b d.
  Proof. unfold spec_pkg, spec_exports. destruct (find_pkg d b); reflexivity. Qed.

  Lemma dep_loop fuel b :
    (forall c n c' p, cache_ok b c -> load fuel b c n = Some (c', p) -> p = spec_pkg b n /\ cache_ok b c') ->
    forall deps c ds c' ds',
      cache_ok b c ->
      fold_left (dep_step fuel b) deps (Some (c, ds)) = Some (c', ds') ->
      cache_ok b c' /\ ds' = set_all (map (fun d => (d, spec_exports b d)) deps) ds.
  Proof.
    intros IH. induction deps as [|d r IHd]; intros c ds c' ds' Hc Hf; cbn [fold_left] in Hf.
    - inversion Hf; subst. split; [exact Hc|reflexivity].
    - cbn [dep_step] in Hf. destruct (load fuel b c d) as [[c1 pd]|] eqn:El; [|rewrite dep_step_none in Hf; discriminate].
      destruct (IH _ _ _ _ Hc El) as [Hp Hc1]. subst pd. rewrite spec_exports_of_spec_pkg in Hf.
      destruct (IHd _ _ _ _ Hc1 Hf) as [Hc' Hds]. split; [exact Hc'|]. rewrite Hds. reflexivity.
  Qed.

  Lemma nodup_map_fst_pairs {B} (g : bytes -> B) l : NoDup l -> NoDup (map fst (map (fun d => (d, g d)) l)).
  Proof. intro H. rewrite map_map. cbn [fst]. rewrite map_id. exact H. Qed.

  (* the loaded package is spec_pkg, whatever the cache held before and whatever the three orders *)
  Theorem load_spec (b : @bundle F) : valid b ->
    forall fuel c n c' p, cache_ok b c -> load fuel b c n = Some (c', p) -> p = spec_pkg b n /\ cache_ok b c'.
  Proof.
    intro Hv. induction fuel as [|fuel IH]; intros c n c' p Hc Hl.
    - cbn [CmpbOrder.load] in Hl. destruct (map_get n c) as [p0|] eqn:G; [|discriminate].
      inversion Hl; subst. split; [apply (proj2 Hc); exact G|exact Hc].
    - cbn [CmpbOrder.load] in Hl. destruct (map_get n c) as [p0|] eqn:G.
      { inversion Hl; subst. split; [apply (proj2 Hc); exact G|exact Hc]. }
      destruct (find_pkg n b) as [files0|] eqn:Ef; [|discriminate].
      fold (dep_step fuel b) in Hl.
      set (files := list_files n files0) in *.
      assert (Hpf : Permutation files files0) by apply list_files_perm.
      assert (Hvp : valid_pkg files0) by (apply (Hv n); exact Ef).
      assert (Hvp' : valid_pkg files).
      { destruct Hvp as [A B]. split.
        - apply (Permutation_NoDup (Permutation_map fst (all_exports_perm _ _ (Permutation_sym Hpf)))). exact A.
        - apply (Permutation_NoDup (concat_map_perm f_outputs _ _ (Permutation_sym Hpf))). exact B. }
      assert (Eown : collect_exports files = collect_exports files0) by (apply collect_exports_perm; assumption).
      assert (Edeps : collect_deps n files = collect_deps n files0) by (apply collect_deps_perm; exact Hpf).
      rewrite Eown, Edeps in Hl.
      fold (dep_names n files0) in Hl.
      set (deps := range_deps n (dep_names n files0)) in *.
      destruct (fold_left (dep_step fuel b) deps (Some (c, []))) as [[c1 ds]|] eqn:Efold; [|discriminate].
      destruct (dep_loop fuel b IH deps c [] c1 ds Hc Efold) as [Hc1 Hds].
      inversion Hl; subst c' p. clear Hl.
      assert (Eds : ds = set_all (map (fun d => (d, spec_exports b d)) (dep_names n files0)) []).
      { rewrite Hds. apply set_all_perm; [apply keys_sorted_nil| |].
        - apply nodup_map_fst_pairs. apply (Permutation_NoDup (Permutation_sym (range_deps_perm n _))). apply dep_names_nodup.
        - apply Permutation_map. apply range_deps_perm. }
      assert (Eprod : forall e, set_all (concat (map (file_outputs convert e) files)) [] = set_all (concat (map (file_outputs convert e) files0)) []).
      { intro e. apply set_all_perm; [apply keys_sorted_nil| |apply concat_map_perm; exact Hpf].
        rewrite outputs_keys. exact (proj2 Hvp'). }
      assert (Espec : mkPkg (collect_exports files0) ds
                        (fold_left (fun acc f => include_io (file_outputs convert (mkEnv (collect_exports files0) ds) f) acc) files [])
                      = spec_pkg b n).
      { unfold spec_pkg. rewrite Ef. cbv zeta. rewrite <- Eds. f_equal.
        rewrite fold_include_concat. apply Eprod. }
      rewrite Espec. split; [reflexivity|apply cache_ok_set; exact Hc1].
  Qed.

  (* ---- totality: with an acyclic dependency relation (a rank that decreases along dependencies),
     every dependency present in the bundle and more fuel than the rank, loading succeeds whatever the
     orders and whatever the (consistent) cache holds.  The Go code needs no fuel: it recurses along
     the same relation and detects cycles through the resolveBaton chain. *)
  Definition well_founded_deps (b : @bundle F) (rank : bytes -> nat) : Prop :=
    forall n files, find_pkg n b = Some files ->
      forall d, In d (dep_names n files) -> find_pkg d b <> None /\ (rank d < rank n)%nat.

  Lemma dep_loop_total fuel b rank :
    valid b ->
    (forall n c, cache_ok b c -> find_pkg n b <> None -> (rank n < fuel)%nat -> exists c' p, load fuel b c n = Some (c', p)) ->
    forall deps c ds, cache_ok b c ->
      (forall d, In d deps -> find_pkg d b <> None /\ (rank d < fuel)%nat) ->
      exists c' ds', fold_left (dep_step fuel b) deps (Some (c, ds)) = Some (c', ds').
  Proof.
    intros Hv IH. induction deps as [|d r IHd]; intros c ds Hc Hd; cbn [fold_left].
    - eauto.
    - destruct (Hd d (or_introl eq_refl)) as [Hf Hr].
      destruct (IH d c Hc Hf Hr) as [c1 [pd El]]. cbn [dep_step]. rewrite El.
      destruct (load_spec b Hv _ _ _ _ _ Hc El) as [_ Hc1].
      apply IHd; [exact Hc1|]. intros x Hx. apply Hd. right. exact Hx.
  Qed.

  Theorem load_total (b : @bundle F) rank : valid b -> well_founded_deps b rank ->
    forall fuel n c, cache_ok b c -> find_pkg n b <> None -> (rank n < fuel)%nat ->
      exists c' p, load fuel b c n = Some (c', p).
  Proof.
    intros Hv Hw. induction fuel as [|fuel IH]; intros n c Hc Hf Hr; [lia|].
    cbn [CmpbOrder.load]. destruct (map_get n c) as [p0|] eqn:G; [eauto|].
    destruct (find_pkg n b) as [files0|] eqn:Ef; [|congruence].
    fold (dep_step fuel b).
    set (files := list_files n files0).
    assert (Hpf : Permutation files files0) by apply list_files_perm.
    assert (Hvp : valid_pkg files0) by (apply (Hv n); exact Ef).
    assert (Eown : collect_exports files = collect_exports files0) by (apply collect_exports_perm; [|exact Hpf];
      destruct Hvp as [A B]; split;
      [apply (Permutation_NoDup (Permutation_map fst (all_exports_perm _ _ (Permutation_sym Hpf)))); exact A
      |apply (Permutation_NoDup (concat_map_perm f_outputs _ _ (Permutation_sym Hpf))); exact B]).
    assert (Edeps : collect_deps n files = collect_deps n files0) by (apply collect_deps_perm; exact Hpf).
    rewrite Eown, Edeps. fold (dep_names n files0).
    destruct (dep_loop_total fuel b rank Hv IH (range_deps n (dep_names n files0)) c [] Hc) as [c1 [ds Efold]].
    - intros d Hd. apply (Permutation_in _ (range_deps_perm n _)) in Hd.
      destruct (Hw n files0 Ef d Hd) as [H1 H2]. split; [exact H1|lia].
    - rewrite Efold. eauto.
  Qed.

  (* CompilePackage returns exactly the package's files in file-name order *)
  Lemma sorted_keys_fixed {V} (m : list (bytes * V)) l : keys_sorted m -> Permutation l (map fst m) -> sort_names l = map fst m.
  Proof.
    intros [S N] Hp. unfold sort_names, sort_strings.
    symmetry. apply (any_sort_is_isort (fun x => x) bleb bleb_total bleb_trans); [exact S|apply Permutation_sym; exact Hp|].
    intros a b0 _ _ H1 H2. apply bleb_antisym; assumption.
  Qed.
  Lemma lookup_all {V} (m : list (bytes * V)) : keys_sorted m ->
    flat_map (fun n => match map_get n m with Some d => [(n, d)] | None => [] end) (map fst m) = m.
  Proof.
    intros [_ N]. induction m as [|[k v] r IH]; cbn [map fst flat_map]; [reflexivity|].
    cbn [map fst] in N. inversion N as [|? ? Hn Nr]; subst.
    cbn [map_get]. rewrite beqb_refl. cbn [app]. f_equal.
    rewrite <- (IH Nr) at 2. apply flat_map_ext_in || idtac.
    clear IH. induction r as [|[k2 v2] r2 IH2]; [reflexivity|].
    cbn [map fst flat_map]. cbn [map fst In] in Hn.
    assert (Hk : beqb k2 k = false) by (apply beqb_neq; intro; subst; apply Hn; left; reflexivity).
    cbn [map_get]. rewrite Hk. f_equal.
    inversion Nr as [|? ? Hn2 Nr2]; subst.
    transitivity (flat_map (fun n => match map_get n ((k2, v2) :: r2) with Some d => [(n, d)] | None => [] end) (map fst r2)).
    - clear IH2. assert (Hsub : forall x, In x (map fst r2) -> In x (map fst r2)) by auto.
      revert Hsub. generalize (map fst r2) at 1 3 4. intro l. induction l as [|x l IHl]; intro Hs; [reflexivity|].
      cbn [flat_map]. f_equal; [|apply IHl; intros; apply Hs; right; assumption].
      cbn [map_get]. assert (beqb x k = false) as ->; [|reflexivity].
      apply beqb_neq. intro; subst. apply Hn. right. apply Hs. left. reflexivity.
    - reflexivity.
  Qed.

  Theorem compile_package_spec (b : @bundle F) : valid b ->
    forall fuel c n c' out, cache_ok b c ->
      compile_package convert list_files range_deps range_files fuel b c n = Some (c', out) ->
      out = p_files (spec_pkg b n) /\ cache_ok b c'.
  Proof.
    intros Hv fuel c n c' out Hc H. unfold compile_package in H.
    destruct (load fuel b c n) as [[c1 p]|] eqn:El; [|discriminate].
    destruct (load_spec b Hv _ _ _ _ _ Hc El) as [Hp Hc1]. subst p. inversion H; subst. split; [|exact Hc1].
    assert (Hs : keys_sorted (p_files (spec_pkg b n))).
    { unfold spec_pkg. destruct (find_pkg n b); cbn [p_files]; [apply set_all_sorted|]; apply keys_sorted_nil. }
    rewrite (sorted_keys_fixed _ _ Hs (range_files_perm n _)). apply lookup_all. exact Hs.
  Qed.

  Theorem compile_package_total (b : @bundle F) rank : valid b -> well_founded_deps b rank ->
    forall fuel c n, cache_ok b c -> find_pkg n b <> None -> (rank n < fuel)%nat ->
      exists c', compile_package convert list_files range_deps range_files fuel b c n = Some (c', p_files (spec_pkg b n)).
  Proof.
    intros Hv Hw fuel c n Hc Hf Hr. destruct (load_total b rank Hv Hw fuel n c Hc Hf Hr) as [c1 [p El]].
    destruct (compile_package convert list_files range_deps range_files fuel b c n) as [[c' out]|] eqn:E.
    - destruct (compile_package_spec b Hv _ _ _ _ _ Hc E) as [Ho _]. subst out. eauto.
    - unfold compile_package in E. rewrite El in E. discriminate.
  Qed.

  (* whatever was compiled before on this PackageSet leaves a cache that changes nothing *)
  Lemma compile_seq_cache_ok (b : @bundle F) : valid b ->
    forall fuel calls c, cache_ok b c ->
      cache_ok b (compile_seq convert list_files range_deps range_files fuel b c calls).
  Proof.
    intros Hv fuel calls. induction calls as [|n r IH]; intros c Hc; cbn [compile_seq]; [exact Hc|].
    destruct (compile_package convert list_files range_deps range_files fuel b c n) as [[c1 out]|] eqn:E.
    - apply IH. apply (compile_package_spec b Hv _ _ _ _ _ Hc E).
    - apply IH. exact Hc.
  Qed.
End LoadFacts.

(* Total form: on a valid bundle with acyclic, present dependencies and enough fuel, EVERY run returns,
   and returns the package as the bundle alone determines it *)
Theorem compile_total_deterministic {F D} (convert : env -> @srcfile F -> bytes -> D) (b : @bundle F) rank :
  valid b -> well_founded_deps b rank ->
  forall lf rd rf,
    (forall n l, Permutation (lf n l) l) -> (forall n l, Permutation (rd n l) l) -> (forall n l, Permutation (rf n l) l) ->
  forall fuel earlier n, find_pkg n b <> None -> (rank n < fuel)%nat ->
    exists c, compile_package convert lf rd rf fuel b (compile_seq convert lf rd rf fuel b [] earlier) n
              = Some (c, p_files (spec_pkg convert b n)).
Proof.
  intros Hv Hw lf rd rf P1 P2 P3 fuel earlier n Hf Hr.
  apply (compile_package_total convert lf rd rf P1 P2 P3 b rank Hv Hw); auto.
  apply compile_seq_cache_ok; auto. apply cache_ok_nil.
Qed.

(* Two runs of the same bundle under different listing orders, map iteration orders, fuels, and
   with different histories of earlier CompilePackage calls on their PackageSets, return the same
   files in the same order with the same content *)
Theorem compile_deterministic {F D} (convert : env -> @srcfile F -> bytes -> D) (b : @bundle F) :
  valid b ->
  forall lf1 rd1 rf1 lf2 rd2 rf2,
    (forall n l, Permutation (lf1 n l) l) -> (forall n l, Permutation (rd1 n l) l) -> (forall n l, Permutation (rf1 n l) l) ->
    (forall n l, Permutation (lf2 n l) l) -> (forall n l, Permutation (rd2 n l) l) -> (forall n l, Permutation (rf2 n l) l) ->
  forall fuel1 fuel2 earlier1 earlier2 n c1 out1 c2 out2,
    compile_package convert lf1 rd1 rf1 fuel1 b (compile_seq convert lf1 rd1 rf1 fuel1 b [] earlier1) n = Some (c1, out1) ->
    compile_package convert lf2 rd2 rf2 fuel2 b (compile_seq convert lf2 rd2 rf2 fuel2 b [] earlier2) n = Some (c2, out2) ->
    out1 = out2.
Proof.
  intros Hv lf1 rd1 rf1 lf2 rd2 rf2 P1 P2 P3 P4 P5 P6 fuel1 fuel2 e1 e2 n c1 out1 c2 out2 H1 H2.
  pose proof (compile_seq_cache_ok convert lf1 rd1 rf1 P1 P2 P3 b Hv fuel1 e1 [] (cache_ok_nil convert b)) as C1.
  pose proof (compile_seq_cache_ok convert lf2 rd2 rf2 P4 P5 P6 b Hv fuel2 e2 [] (cache_ok_nil convert b)) as C2.
  destruct (compile_package_spec convert lf1 rd1 rf1 P1 P2 P3 b Hv _ _ _ _ _ C1 H1) as [E1 _].
  destruct (compile_package_spec convert lf2 rd2 rf2 P4 P5 P6 b Hv _ _ _ _ _ C2 H2) as [E2 _].
  congruence.
Qed.


(* ------------------------------------------------------------ the link phase and its cache *)
Section LinkFacts.
  Context {D L : Type}.
  Variable lookup : bytes -> option D.
  Variable deps_of : D -> list bytes.
  Variable link1 : D -> list L -> L.
  Notation link_file := (link_file lookup deps_of link1).
  Notation link_all := (link_all lookup deps_of link1).
  Notation spec_link := (spec_link lookup deps_of link1).

  Definition spec_list (fuel : nat) (ds : list bytes) : option (list L) :=
    fold_right (fun dep acc => match spec_link fuel dep, acc with
                               | Some l, Some ls => Some (l :: ls)
                               | _, _ => None
                               end) (Some []) ds.
  Lemma spec_link_unfold fuel name :
    spec_link (S fuel) name =
    match lookup name with
    | None => None
    | Some d => match spec_list fuel (deps_of d) with Some ls => Some (link1 d ls) | None => None end
    end.
  Proof. reflexivity. Qed.

  (* more fuel does not change a result *)
  Lemma spec_link_mono : forall f1 n l, spec_link f1 n = Some l -> forall f2, (f1 <= f2)%nat -> spec_link f2 n = Some l.
  Proof.
    induction f1 as [|f1 IH]; intros n l H f2 Hle; [discriminate|].
    destruct f2 as [|f2]; [lia|]. rewrite spec_link_unfold in *.
    destruct (lookup n) as [d|]; [|discriminate].
    assert (Hl : forall ds ls, spec_list f1 ds = Some ls -> spec_list f2 ds = Some ls).
    { induction ds as [|x r IHr]; intros ls Hs; cbn [spec_list fold_right] in *; [exact Hs|].
      fold (spec_list f1 r) in Hs. fold (spec_list f2 r).
      destruct (spec_link f1 x) as [lx|] eqn:Ex; [|discriminate].
      destruct (spec_list f1 r) as [lr|] eqn:Er; [|discriminate].
      rewrite (IH _ _ Ex f2) by lia. rewrite (IHr _ eq_refl). exact Hs. }
    destruct (spec_list f1 (deps_of d)) as [ls|] eqn:E; [|discriminate].
    rewrite (Hl _ _ E). exact H.
  Qed.
  Lemma spec_list_mono f1 ds ls : spec_list f1 ds = Some ls -> forall f2, (f1 <= f2)%nat -> spec_list f2 ds = Some ls.
  Proof.
    revert ls. induction ds as [|x r IHr]; intros ls Hs f2 Hle; cbn [spec_list fold_right] in *; [exact Hs|].
    fold (spec_list f1 r) in Hs. fold (spec_list f2 r).
    destruct (spec_link f1 x) as [lx|] eqn:Ex; [|discriminate].
    destruct (spec_list f1 r) as [lr|] eqn:Er; [|discriminate].
    rewrite (spec_link_mono _ _ _ Ex f2 Hle). rewrite (IHr _ eq_refl f2 Hle). exact Hs.
  Qed.
  (* hence what linking a file yields is unique *)
  Lemma spec_link_functional f1 f2 n l1 l2 : spec_link f1 n = Some l1 -> spec_link f2 n = Some l2 -> l1 = l2.
  Proof.
    intros H1 H2. pose proof (spec_link_mono _ _ _ H1 (Nat.max f1 f2) (Nat.le_max_l _ _)) as E1.
    pose proof (spec_link_mono _ _ _ H2 (Nat.max f1 f2) (Nat.le_max_r _ _)) as E2. congruence.
  Qed.
  Lemma spec_list_app f ds1 ds2 l1 l2 : spec_list f ds1 = Some l1 -> spec_list f ds2 = Some l2 -> spec_list f (ds1 ++ ds2) = Some (l1 ++ l2).
  Proof.
    revert l1. induction ds1 as [|x r IH]; intros l1 H1 H2; cbn [spec_list fold_right app] in *.
    - inversion H1; subst. exact H2.
    - fold (spec_list f r) in H1. fold (spec_list f (r ++ ds2)).
      destruct (spec_link f x) as [lx|]; [|discriminate]. destruct (spec_list f r) as [lr|] eqn:Er; [|discriminate].
      inversion H1; subst. rewrite (IH _ eq_refl H2). reflexivity.
  Qed.

  (* the SearchResult.Linked cache only ever holds what linking the file yields *)
  Definition link_cache_ok (c : list (bytes * L)) : Prop :=
    keys_sorted c /\ forall n l, map_get n c = Some l -> exists f, spec_link f n = Some l.
  Lemma link_cache_ok_nil : link_cache_ok [].
  Proof. split; [apply keys_sorted_nil|]. intros n l H. discriminate. Qed.
  Lemma link_cache_ok_set c n l f : link_cache_ok c -> spec_link f n = Some l -> link_cache_ok (map_set n l c).
  Proof.
    intros [S H] Hs. split; [apply map_set_sorted; exact S|]. intros k x Hk.
    destruct (list_eq_dec N.eq_dec k n) as [E|E].
    - subst. rewrite map_get_set_same in Hk. inversion Hk; subst. eauto.
    - rewrite map_get_set_other in Hk by exact E. eauto.
  Qed.

  Definition link_step (fuel : nat) :=
    fun (acc : option (list (bytes * L) * list L)) (dep : bytes) =>
      match acc with
      | None => None
      | Some (c, ls) =>
          match link_file fuel c dep with
          | None => None
          | Some (c', l) => Some (c', ls ++ [l])
          end
      end.
  Lemma link_step_none fuel ds : fold_left (link_step fuel) ds None = None.
  Proof. induction ds as [|d r IH]; cbn [fold_left link_step]; [reflexivity|exact IH]. Qed.

  Lemma link_loop fuel :
    (forall c n c' l, link_cache_ok c -> link_file fuel c n = Some (c', l) -> (exists f, spec_link f n = Some l) /\ link_cache_ok c') ->
    forall ds c ls0 c' ls', link_cache_ok c ->
      fold_left (link_step fuel) ds (Some (c, ls0)) = Some (c', ls') ->
      exists f ls, ls' = ls0 ++ ls /\ spec_list f ds = Some ls /\ link_cache_ok c'.
  Proof.
    intro IH. induction ds as [|d r IHd]; intros c ls0 c' ls' Hc Hf; cbn [fold_left] in Hf.
    - inversion Hf; subst. exists 0%nat, []. rewrite app_nil_r. split; [reflexivity|split; [reflexivity|exact Hc]].
    - cbn [link_step] in Hf. destruct (link_file fuel c d) as [[c1 l]|] eqn:El; [|rewrite link_step_none in Hf; discriminate].
      destruct (IH _ _ _ _ Hc El) as [[f1 Hs1] Hc1].
      destruct (IHd _ _ _ _ Hc1 Hf) as [f2 [ls [E [Hs2 Hc']]]].
      exists (Nat.max f1 f2), (l :: ls). split; [rewrite E, <- app_assoc; reflexivity|]. split; [|exact Hc'].
      cbn [spec_list fold_right]. fold (spec_list (Nat.max f1 f2) r).
      rewrite (spec_link_mono _ _ _ Hs1 _ (Nat.le_max_l _ _)). rewrite (spec_list_mono _ _ _ Hs2 _ (Nat.le_max_r _ _)). reflexivity.
  Qed.

  (* linking a file returns what linking the file yields, whatever the cache held (whatever was linked
     by earlier CompilePackage calls), and keeps the cache consistent *)
  Theorem link_file_spec : forall fuel c n c' l,
    link_cache_ok c -> link_file fuel c n = Some (c', l) -> (exists f, spec_link f n = Some l) /\ link_cache_ok c'.
  Proof.
    induction fuel as [|fuel IH]; intros c n c' l Hc Hl.
    - cbn [CmpbOrder.link_file] in Hl. destruct (map_get n c) as [l0|] eqn:G; [|discriminate].
      inversion Hl; subst. split; [apply (proj2 Hc); exact G|exact Hc].
    - cbn [CmpbOrder.link_file] in Hl. destruct (map_get n c) as [l0|] eqn:G.
      { inversion Hl; subst. split; [apply (proj2 Hc); exact G|exact Hc]. }
      destruct (lookup n) as [d|] eqn:Ed; [|discriminate].
      fold (link_step fuel) in Hl.
      destruct (fold_left (link_step fuel) (deps_of d) (Some (c, []))) as [[c1 ls]|] eqn:Ef; [|discriminate].
      destruct (link_loop fuel IH _ _ _ _ _ Hc Ef) as [f [ls' [E [Hs Hc1]]]]. cbn [app] in E. subst ls'.
      inversion Hl; subst.
      assert (Hn : spec_link (S f) n = Some (link1 d ls)) by (rewrite spec_link_unfold, Ed, Hs; reflexivity).
      split; [eauto|]. apply (link_cache_ok_set _ _ _ (S f)); assumption.
  Qed.

  Theorem link_all_spec : forall fuel names c c' ls,
    link_cache_ok c -> link_all fuel c names = Some (c', ls) -> (exists f, spec_list f names = Some ls) /\ link_cache_ok c'.
  Proof.
    intros fuel. induction names as [|n r IH]; intros c c' ls Hc H; cbn [CmpbOrder.link_all] in H.
    - inversion H; subst. split; [exists 0%nat; reflexivity|exact Hc].
    - destruct (link_file fuel c n) as [[c1 l]|] eqn:El; [|discriminate].
      destruct (link_file_spec _ _ _ _ _ Hc El) as [[f1 Hs1] Hc1].
      destruct (link_all fuel c1 r) as [[c2 lr]|] eqn:Er; [|discriminate]. inversion H; subst.
      destruct (IH _ _ _ Hc1 Er) as [[f2 Hs2] Hc2]. split; [|exact Hc2].
      exists (Nat.max f1 f2). cbn [spec_list fold_right]. fold (spec_list (Nat.max f1 f2) r).
      rewrite (spec_link_mono _ _ _ Hs1 _ (Nat.le_max_l _ _)). rewrite (spec_list_mono _ _ _ Hs2 _ (Nat.le_max_r _ _)). reflexivity.
  Qed.

  Lemma spec_list_functional f1 f2 ds l1 l2 : spec_list f1 ds = Some l1 -> spec_list f2 ds = Some l2 -> l1 = l2.
  Proof.
    intros H1 H2. pose proof (spec_list_mono _ _ _ H1 (Nat.max f1 f2) (Nat.le_max_l _ _)) as E1.
    pose proof (spec_list_mono _ _ _ H2 (Nat.max f1 f2) (Nat.le_max_r _ _)) as E2. congruence.
  Qed.

  (* resolveAll on one PackageSet: whatever earlier calls left in the Linked cache (any consistent
     cache, in particular the empty one of a fresh set), the linked files are the same *)
  Theorem link_all_deterministic : forall fuel1 fuel2 names c1 c2 c1' c2' ls1 ls2,
    link_cache_ok c1 -> link_cache_ok c2 ->
    link_all fuel1 c1 names = Some (c1', ls1) -> link_all fuel2 c2 names = Some (c2', ls2) -> ls1 = ls2.
  Proof.
    intros fuel1 fuel2 names c1 c2 c1' c2' ls1 ls2 H1 H2 E1 E2.
    destruct (link_all_spec _ _ _ _ _ H1 E1) as [[f1 S1] _]. destruct (link_all_spec _ _ _ _ _ H2 E2) as [[f2 S2] _].
    exact (spec_list_functional _ _ _ _ _ S1 S2).
  Qed.
End LinkFacts.

(* ------------------------------------------------------------ the property at full strength *)
(* C14 over the model: for every valid bundle with acyclic, present dependencies, every choice of the
   order parameters (any permutations), fuel above the rank and any history of earlier calls on the
   PackageSet, CompilePackage returns, and returns what the bundle alone determines; import lists
   depend on the set of ensured files only; printed options, field options and map-option entries
   do not depend on protobuf's Range order. *)
Definition full_statement : Prop :=
  (forall (F D : Type) (convert : env -> @srcfile F -> bytes -> D) (b : @bundle F) rank,
     valid b -> well_founded_deps b rank ->
     forall lf rd rf,
       (forall n l, Permutation (lf n l) l) -> (forall n l, Permutation (rd n l) l) -> (forall n l, Permutation (rf n l) l) ->
     forall fuel earlier n, find_pkg n b <> None -> (rank n < fuel)%nat ->
       exists c, compile_package convert lf rd rf fuel b (compile_seq convert lf rd rf fuel b [] earlier) n
                 = Some (c, p_files (spec_pkg convert b n)))
  /\ (forall c1 c2, (forall x, In x c1 <-> In x c2) -> ensure_all c1 = ensure_all c2)
  /\ (forall l1 l2, Permutation l1 l2 -> distinct_on o_full l1 -> options_for l1 = options_for l2)
  /\ (forall l1 l2, Permutation l1 l2 -> distinct_on o_name l1 -> field_options l1 = field_options l2)
  /\ (forall l1 l2, Permutation l1 l2 -> distinct_on (fun kv : bytes * bytes => fst kv) l1 -> map_entries l1 = map_entries l2).
Lemma full_statement_holds : full_statement.
Proof.
  split; [|split; [|split; [|split]]].
  - intros F D convert b rank Hv Hw lf rd rf P1 P2 P3 fuel earlier n Hf Hr.
    exact (compile_total_deterministic convert b rank Hv Hw lf rd rf P1 P2 P3 fuel earlier n Hf Hr).
  - exact ensure_all_set_invariant.
  - exact options_for_perm.
  - exact field_options_perm.
  - exact map_entries_perm.
Qed.

(* ------------------------------------------------------------ the order sites of the Go code *)
From Coq Require Import String.
From J5V.gen Require MapRangeGen SetExtGen.
Local Open Scope string_scope.

(* ---- lemmas behind the sites whose loop body makes the order irrelevant *)
(* RangeField (setJ5Ext): each populated field of the source message is assigned to the same-named field
   of a fresh message; assignments to distinct keys commute (a message = a map from field to value) *)
Lemma assign_distinct_fields_commute : forall (es1 es2 m : list (bytes * bytes)),
  keys_sorted m -> NoDup (map fst es1) -> Permutation es1 es2 -> set_all es1 m = set_all es2 m.
Proof. intros. apply set_all_perm; assumption. Qed.
(* markOptionImportsUsed: when every extension resolves (C07: the converter imports the file of every
   extension it sets) no order of the range finds an error *)
Lemma first_unresolved_none {A} (resolves : A -> bool) l1 l2 :
  (forall x, In x l1 -> resolves x = true) -> Permutation l1 l2 -> first_unresolved resolves l2 = None.
Proof.
  intros H Hp. unfold first_unresolved. apply find_none_iff || idtac.
  destruct (find (fun x => negb (resolves x)) l2) as [x|] eqn:E; [|reflexivity].
  apply find_some in E. destruct E as [Hi Hn]. apply (Permutation_in _ (Permutation_sym Hp)) in Hi.
  rewrite (H _ Hi) in Hn. discriminate.
Qed.
(* buildFieldNode: the populated members of a oneof: at most one, so there is only one order *)
Lemma at_most_one_has_one_order {A} (l1 l2 : list A) : (List.length l1 <= 1)%nat -> Permutation l1 l2 -> l2 = l1.
Proof.
  intros Hl Hp. destruct l1 as [|a [|b r]]; cbn in Hl; try lia.
  - apply Permutation_nil in Hp. exact Hp.
  - apply Permutation_length_1_inv in Hp. exact Hp.
Qed.

(* ---- loops whose effect never reaches a descriptor or a printed file: what they produce is the same up to order *)
(* a loop that emits one report / log line per element passing a test (SourceSummary's `import not used`
   warnings, PrintScope's debug lines): the same reports, as a multiset, for every iteration order *)
Definition report_loop {A R} (test : A -> bool) (mk : A -> R) (l : list A) : list R := map mk (filter test l).
Lemma filter_perm {A} (f : A -> bool) l1 l2 : Permutation l1 l2 -> Permutation (filter f l1) (filter f l2).
Proof.
  induction 1 as [|x l l' _ IH|x y l|l l' l'' _ IH1 _ IH2]; cbn.
  - constructor.
  - destruct (f x); [constructor|]; exact IH.
  - destruct (f y), (f x); try apply Permutation_refl; apply perm_swap.
  - eapply Permutation_trans; eassumption.
Qed.
Lemma report_loop_perm {A R} (test : A -> bool) (mk : A -> R) l1 l2 :
  Permutation l1 l2 -> Permutation (report_loop test mk l1) (report_loop test mk l2).
Proof. intro H. unfold report_loop. apply Permutation_map. apply filter_perm. exact H. Qed.
(* a loop that returns at the first element that fails (LintAll: the first file with lint errors): WHETHER it
   returns early does not depend on the order, and what it returns is one of the failing elements *)
Lemma first_failing_perm {A} (bad : A -> bool) l1 l2 : Permutation l1 l2 ->
  (find bad l1 = None <-> find bad l2 = None)
  /\ (forall x, find bad l1 = Some x -> exists y, find bad l2 = Some y /\ bad y = true /\ In y l1).
Proof.
  intro Hp. split.
  - split; intro H.
    + destruct (find bad l2) as [y|] eqn:E; [|reflexivity]. apply find_some in E. destruct E as [Hi Hb].
      apply (Permutation_in _ (Permutation_sym Hp)) in Hi. pose proof (find_none _ _ H _ Hi) as Hn. congruence.
    + destruct (find bad l1) as [y|] eqn:E; [|reflexivity]. apply find_some in E. destruct E as [Hi Hb].
      apply (Permutation_in _ Hp) in Hi. pose proof (find_none _ _ H _ Hi) as Hn. congruence.
  - intros x Hx. apply find_some in Hx. destruct Hx as [Hi Hb].
    destruct (find bad l2) as [y|] eqn:E.
    + exists y. apply find_some in E. destruct E as [Hy Hby]. split; [reflexivity|]. split; [exact Hby|].
      apply (Permutation_in _ (Permutation_sym Hp)). exact Hy.
    + apply (Permutation_in _ Hp) in Hi. pose proof (find_none _ _ E _ Hi) as Hn. congruence.
Qed.
(* the key list of a map used only inside a message text / a dead branch: the names listed are the same *)
Lemma keys_listed_perm {A} (l1 l2 : list A) : Permutation l1 l2 -> forall x, In x l1 <-> In x l2.
Proof. intros Hp x. split; apply Permutation_in; [exact Hp|apply Permutation_sym; exact Hp]. Qed.
(* a value that is never used (assigned, then read only under `if false`) *)
Lemma unused_value {A} (l1 l2 : list A) : (fun _ : list A => tt) l1 = (fun _ : list A => tt) l2.
Proof. reflexivity. Qed.


(* ---- each remaining loop body as a function of the iteration order (model/CmpbOrder.v), with what is order-free *)
Lemma forallb_perm {A} (g : A -> bool) l1 l2 : Permutation l1 l2 -> forallb g l1 = forallb g l2.
Proof.
  induction 1 as [|x l l' _ IH|x y l|l l' l'' _ IH1 _ IH2]; cbn [forallb].
  - reflexivity.
  - rewrite IH. reflexivity.
  - destruct (g x), (g y); reflexivity.
  - congruence.
Qed.

(* setJ5Ext / copyReflect: all fields have a destination -> the same filled message; else an error, in every order *)
Lemma copy_fields_spec {V} (ok : bytes -> bool) (es : list (bytes * V)) : forall m,
  copy_fields ok es m = if forallb (fun kv => ok (fst kv)) es then Some (set_all es m) else None.
Proof.
  unfold copy_fields.
  assert (Hn : forall l, fold_left (fun acc kv => match acc with
                                                   | None => None
                                                   | Some m => if ok (fst kv) then Some (map_set (fst kv) (snd kv) m) else None
                                                   end) l (@None (list (bytes * V))) = None).
  { induction l as [|x r IH]; cbn [fold_left]; [reflexivity|exact IH]. }
  induction es as [|kv r IH]; intro m; cbn [fold_left forallb]; [reflexivity|].
  destruct (ok (fst kv)); cbn [andb]; [rewrite IH; reflexivity|apply Hn].
Qed.
Theorem copy_fields_perm {V} (ok : bytes -> bool) (es1 es2 m : list (bytes * V)) :
  keys_sorted m -> NoDup (map fst es1) -> Permutation es1 es2 -> copy_fields ok es1 m = copy_fields ok es2 m.
Proof.
  intros Hm Hn Hp. rewrite !copy_fields_spec, (forallb_perm _ _ _ Hp), (set_all_perm es1 es2 m Hm Hn Hp). reflexivity.
Qed.

(* SourceSummary warnings, PrintScope log lines: the same reports up to order *)
Theorem warn_unused_perm {I W} (used : I -> bool) (warn : I -> W) l1 l2 :
  Permutation l1 l2 -> Permutation (warn_unused used warn l1) (warn_unused used warn l2).
Proof. intro H. unfold warn_unused. apply Permutation_map, filter_perm, H. Qed.
Theorem log_children_perm {C W} (line : C -> W) l1 l2 : Permutation l1 l2 -> Permutation (log_children line l1) (log_children line l2).
Proof. intro H. unfold log_children. apply Permutation_map, H. Qed.

(* LintAll: whether a report is produced does not depend on the order; the reported file is one that stops the loop *)
Theorem lint_all_perm {File} (stops : File -> bool) l1 l2 : Permutation l1 l2 ->
  (lint_all stops l1 = None <-> lint_all stops l2 = None)
  /\ (forall x, lint_all stops l1 = Some x -> exists y, lint_all stops l2 = Some y /\ stops y = true /\ In y l1).
Proof. exact (first_failing_perm stops l1 l2). Qed.

(* markOptionImportsUsed: whether the link step fails on an unresolvable extension does not depend on the Range order *)
Theorem first_unresolved_perm {A} (resolves : A -> bool) l1 l2 : Permutation l1 l2 ->
  (first_unresolved resolves l1 = None <-> first_unresolved resolves l2 = None).
Proof. intro Hp. exact (proj1 (first_failing_perm (fun x => negb (resolves x)) l1 l2 Hp)). Qed.

(* map field Range: the callback reports an error for some order iff for every order *)
Lemma range_entries_none_iff {E Err} (cb : E -> option Err) l : range_entries cb l = None <-> forall e, In e l -> cb e = None.
Proof.
  unfold range_entries.
  assert (Hs : forall r err, fold_left (fun acc e => match acc with Some err => Some err | None => cb e end) r (Some err) = Some err).
  { induction r as [|x r IH]; intro err; cbn [fold_left]; [reflexivity|apply IH]. }
  induction l as [|x r IH]; cbn [fold_left].
  - split; [intros _ e []|reflexivity].
  - destruct (cb x) as [err|] eqn:Ex.
    + rewrite Hs. split; [discriminate|]. intro H. rewrite (H x (or_introl eq_refl)) in Ex. discriminate.
    + rewrite IH. split; [intros H e [<-|Hin]; [exact Ex|apply H, Hin]|intros H e Hin; apply H; right; exact Hin].
Qed.
Theorem range_entries_perm {E Err} (cb : E -> option Err) l1 l2 : Permutation l1 l2 ->
  (range_entries cb l1 = None <-> range_entries cb l2 = None).
Proof.
  intro Hp. rewrite !range_entries_none_iff. split; intros H e Hin; apply H;
    [apply (Permutation_in _ (Permutation_sym Hp))|apply (Permutation_in _ Hp)]; exact Hin.
Qed.

(* findFileByPath: the decision and the file found do not depend on the key order; the error lists the same names *)
Theorem find_file_by_path_perm {R} (files : list (bytes * R)) k1 k2 name : Permutation k1 k2 ->
  match find_file_by_path files k1 name, find_file_by_path files k2 name with
  | inl a, inl c => a = c
  | inr x, inr y => Permutation x y
  | _, _ => False
  end.
Proof. intro Hp. unfold find_file_by_path. destruct (map_get name files); [reflexivity|exact Hp]. Qed.

(* buildFieldNode: at most one member of a oneof is populated *)
Theorem first_member_perm l1 l2 : (List.length l1 <= 1)%nat -> Permutation l1 l2 -> first_member l1 = first_member l2.
Proof. intros Hl Hp. rewrite (at_most_one_has_one_order l1 l2 Hl Hp). reflexivity. Qed.

(* SourceNode.child: the node built after the key list was taken does not mention it *)
Theorem child_ignores_options_any {A} k1 k2 (node : A) : child_ignores_options k1 node = child_ignores_options k2 node.
Proof. reflexivity. Qed.

(* allChildFields aliases / _buildSpec newAliases: insert-unless-present over a map's (distinct) keys *)
Definition new_entries {P V} (walk : bytes * P -> option V) (c : list (bytes * V)) (order : list (bytes * P)) : list (bytes * V) :=
  flat_map (fun np => match walk np, map_get (fst np) c with Some s, None => [(fst np, s)] | _, _ => [] end) order.
Lemma new_entries_keys {P V} (walk : bytes * P -> option V) c order k :
  In k (map fst (new_entries walk c order)) -> In k (map fst order).
Proof.
  unfold new_entries. induction order as [|np r IH]; cbn [flat_map map]; [tauto|].
  rewrite map_app, in_app_iff. intros [H|H]; [left|right; apply IH, H].
  destruct (walk np); [|destruct H]. destruct (map_get (fst np) c); [destruct H|]. destruct H as [<-|[]]. reflexivity.
Qed.
Lemma new_entries_nodup {P V} (walk : bytes * P -> option V) c order :
  NoDup (map fst order) -> NoDup (map fst (new_entries walk c order)).
Proof.
  unfold new_entries. induction order as [|np r IH]; cbn [flat_map map]; intro Hn; [constructor|].
  inversion Hn as [|? ? Hni Hr]; subst. rewrite map_app.
  destruct (walk np) as [s|]; [|apply IH, Hr]. destruct (map_get (fst np) c); [apply IH, Hr|].
  cbn [map fst app]. constructor; [|apply IH, Hr]. intro H. apply Hni. exact (new_entries_keys walk c r _ H).
Qed.
Lemma new_entries_other {P V} (walk : bytes * P -> option V) c n s order :
  ~ In n (map fst order) -> new_entries walk (map_set n s c) order = new_entries walk c order.
Proof.
  unfold new_entries. induction order as [|np r IH]; cbn [flat_map map]; intro Hn; [reflexivity|].
  rewrite IH by (intro H; apply Hn; right; exact H).
  rewrite map_get_set_other by (intro E; apply Hn; left; exact E). reflexivity.
Qed.
Lemma add_absent_spec {P V} (walk : bytes * P -> option V) order : forall c,
  NoDup (map fst order) -> add_absent walk order c = set_all (new_entries walk c order) c.
Proof.
  unfold add_absent. induction order as [|np r IH]; intros c Hn; cbn [fold_left]; [reflexivity|].
  cbn [map] in Hn. inversion Hn as [|? ? Hni Hr]; subst.
  unfold new_entries. cbn [flat_map]. fold (new_entries walk c r).
  destruct (walk np) as [s|]; [|cbn [app]; apply IH, Hr].
  destruct (map_get (fst np) c) eqn:G; [cbn [app]; apply IH, Hr|].
  cbn [app]. rewrite IH by exact Hr. rewrite (new_entries_other walk c (fst np) s r Hni).
  unfold set_all. reflexivity.
Qed.
Theorem add_absent_perm {P V} (walk : bytes * P -> option V) o1 o2 (c : list (bytes * V)) :
  keys_sorted c -> NoDup (map fst o1) -> Permutation o1 o2 -> add_absent walk o1 c = add_absent walk o2 c.
Proof.
  intros Hc Hn Hp.
  rewrite !add_absent_spec by (try exact Hn; apply (Permutation_NoDup (Permutation_map fst Hp)); exact Hn).
  apply set_all_perm; [exact Hc|apply new_entries_nodup; exact Hn|].
  unfold new_entries. clear Hn. induction Hp as [|x l l' _ IH|x y l|l l' l'' _ IH1 _ IH2]; cbn [flat_map].
  - reflexivity.
  - apply Permutation_app_head. exact IH.
  - rewrite !app_assoc. apply Permutation_app_tail. apply Permutation_app_comm.
  - etransitivity; eassumption.
Qed.

(* listChildren / listAttributes / listBlocks: (filtered) keys, then sort.Strings *)
Theorem list_fields_perm {V} (can : V -> bool) (l1 l2 : list (bytes * V)) : Permutation l1 l2 -> list_fields can l1 = list_fields can l2.
Proof. intro Hp. unfold list_fields. apply sort_strings_perm. apply Permutation_map, filter_perm, Hp. Qed.

(* checkDuplicateExports: the keys are sorted before the first duplicate is looked for *)
Theorem check_duplicate_exports_perm {V} (pkg_exports : list (bytes * V)) k1 k2 :
  Permutation k1 k2 -> check_duplicate_exports pkg_exports k1 = check_duplicate_exports pkg_exports k2.
Proof. intro Hp. unfold check_duplicate_exports. rewrite (sort_strings_perm k1 k2 Hp). reflexivity. Qed.

(* ... and on a valid bundle it never fires, whatever the listing order put before the file: checkDuplicateExports is not a
   step of [load] for that reason *)
Lemma nodup_app_disjoint {A} (l1 l2 : list A) x : NoDup (l1 ++ l2) -> In x l1 -> In x l2 -> False.
Proof.
  induction l1 as [|a r IH]; cbn [app In]; intros Hn H1 H2; [destruct H1|].
  inversion Hn as [|? ? Hni Hr]; subst. destruct H1 as [->|H1]; [apply Hni, in_or_app; right; exact H2|exact (IH Hr H1 H2)].
Qed.
Theorem check_duplicate_exports_valid {F} (pre post : list (@srcfile F)) f :
  valid_pkg (pre ++ f :: post) -> check_duplicate_exports (collect_exports pre) (f_exports f) = None.
Proof.
  intros [Hn _]. unfold check_duplicate_exports.
  destruct (find _ (sort_strings (f_exports f))) as [n|] eqn:E; [exfalso|reflexivity].
  apply find_some in E. destruct E as [Hin Hg].
  apply (Permutation_in _ (isort_perm (fun x => x) bleb (f_exports f))) in Hin.
  assert (Hpre : In n (map fst (all_exports pre))).
  { destruct (in_dec (list_eq_dec N.eq_dec) n (map fst (all_exports pre))) as [H|H]; [exact H|].
    rewrite collect_exports_as_set_all, (set_all_get_notin _ _ _ H) in Hg. discriminate. }
  assert (Eall : all_exports (pre ++ f :: post) = (all_exports pre ++ (file_exports f ++ all_exports post))%list)
    by (unfold all_exports; rewrite map_app, concat_app; reflexivity).
  rewrite Eall, map_app, map_app in Hn.
  apply (nodup_app_disjoint _ _ n Hn Hpre). apply in_or_app. left.
  unfold file_exports. rewrite map_map. cbn [fst]. rewrite map_id. exact Hin.
Qed.

(* every one of these model functions RUN on two iteration orders of the same collection *)
Definition loop_probes_statement : Prop :=
  let e := [([98], 2); ([97], 1); ([99], 3)] in
  let ok := fun k : bytes => negb (beqb k [122]) in
  copy_fields ok e [] = copy_fields ok (rev e) [] /\ copy_fields ok e [] = Some [([97], 1); ([98], 2); ([99], 3)]
  /\ copy_fields ok (([122], 9) :: e) [] = None /\ copy_fields ok (e ++ [([122], 9)]) [] = None
  /\ warn_unused (fun i : N => N.eqb i 2) (fun i => [i]) [1; 2; 3] = [[1]; [3]] /\ warn_unused (fun i : N => N.eqb i 2) (fun i => [i]) [3; 2; 1] = [[3]; [1]]
  /\ log_children (fun c : N => N.add c 1) [1; 2] = [2; 3] /\ log_children (fun c : N => N.add c 1) [2; 1] = [3; 2]
  /\ lint_all (fun f : N => N.ltb 5 f) [1; 7; 9] = Some 7 /\ lint_all (fun f : N => N.ltb 5 f) [9; 7; 1] = Some 9 /\ lint_all (fun f : N => N.ltb 5 f) [1; 2] = None
  /\ first_unresolved (fun x : N => N.ltb x 5) [1; 7; 9] = Some 7 /\ first_unresolved (fun x : N => N.ltb x 5) [9; 1; 7] = Some 9
  /\ range_entries (fun x : N => if N.ltb 5 x then Some x else None) [1; 7; 9] = Some 7
  /\ range_entries (fun x : N => if N.ltb 5 x then Some x else None) [9; 7; 1] = Some 9
  /\ range_entries (fun x : N => if N.ltb 5 x then Some x else None) [2; 1] = None
  /\ find_file_by_path [([97], 1)] [[97]; [98]] [97] = inl 1 /\ find_file_by_path [([97], 1)] [[98]; [97]] [97] = inl 1
  /\ find_file_by_path [([97], 1)] [[98]; [97]] [99] = inr [[98]; [97]]
  /\ first_member [[120]] = [120] /\ first_member [] = []
  /\ child_ignores_options [[97]; [98]] 5 = child_ignores_options [[98]; [97]] 5
  /\ add_absent (fun np : bytes * N => if N.eqb (snd np) 0 then None else Some (snd np)) [([98], 2); ([97], 0); ([99], 3)] [([99], 7)]
     = [([98], 2); ([99], 7)]
  /\ add_absent (fun np : bytes * N => if N.eqb (snd np) 0 then None else Some (snd np)) [([99], 3); ([97], 0); ([98], 2)] [([99], 7)]
     = [([98], 2); ([99], 7)]
  /\ list_fields (fun v : N => N.ltb 1 v) e = [[98]; [99]] /\ list_fields (fun v : N => N.ltb 1 v) (rev e) = [[98]; [99]]
  /\ check_duplicate_exports e [[99]; [120]; [97]] = Some [97] /\ check_duplicate_exports e [[97]; [99]; [120]] = Some [97]
  /\ check_duplicate_exports e [[121]; [120]] = None.
Lemma loop_probes_compute : loop_probes_statement.
Proof. unfold loop_probes_statement. cbv zeta. repeat split; vm_compute; reflexivity. Qed.

(* how each unordered iteration of the compile/print path is accounted for. EVERY row carries a proved
   statement about the shape of loop body named in [expected_bodies] (which is compared with the shapes
   regenerated from the Go source): an order parameter of the model with its irrelevance theorem, a
   commuting / at-most-once body, or a body whose output never reaches a descriptor or a printed file and
   is the same up to order.  That the Go loop IS an instance of the modelled shape is checked only through
   the regenerated shape string. *)
Inductive site_class :=
| Modelled (param : string) (P : Prop) (pf : P)   (* an order parameter of model/CmpbOrder.v with its irrelevance theorem *)
| Insensitive (why : string) (P : Prop) (pf : P)  (* the loop body commutes / runs at most once: the lemma that says so *)
| Unobserved (why : string) (P : Prop) (pf : P).  (* feeds only lint reports, error texts or logs, none of which C14 observes:
                                                     the lemma says its output is order-independent up to permutation *)

Definition model_order_sites : list ((string * string * string * string * string) * site_class) :=
  [ (("j5convert", "fields.go", "RangeField", "protoreflect.Message.Range", "pt"),
      Insensitive "setJ5Ext copies each populated field of the Ext message to the same-named field of a fresh message"
        _ (@copy_fields_perm bytes));
    (("j5convert", "summary_walk.go", "SourceSummary", "range-map", "importMap.vals"),
      Unobserved "one `import not used` warning per unused import (ErrCollector: the lint report); the summary is built from slices before the loop"
        _ (@warn_unused_perm bytes bytes));
    (("optionreflect", "builder.go", "Builder.OptionsFor", "protoreflect.Message.Range", "srcReflect"),
      Modelled "options_for / field_options" _ (conj options_for_perm field_options_perm));
    (("optionreflect", "walk.go", "walkOptionMap", "protoreflect.Map.Range", "mp"),
      Modelled "map_entries" _ map_entries_perm);
    (("protobuild", "linker.go", "markOptionImportsUsed", "proto.RangeExtensions", "opts"),
      Insensitive "marks imports as used; stops at the first extension whose file is not imported: whether it stops does not depend on the order (first_unresolved_perm); it never stops when every extension resolves (first_unresolved_none; C07_links_in_isolation for what the converter emits)"
        _ (conj (@first_unresolved_perm opt) (@first_unresolved_none opt)));
    (("protobuild", "lint.go", "LintAll", "range-map", "pkg.Files"),
      Unobserved "LintAll links each file and returns the report of the first one with errors: lint path only (C14 observes CompilePackage and PrintFile)"
        _ (@lint_all_perm bytes));
    (("protobuild", "packages.go", "Package.includeIO", "range-map", "summary.Exports"),
      Modelled "include_io" _ (@include_io_perm bytes));
    (("protobuild", "packages.go", "Package.checkDuplicateExports", "maps.Keys", "file.Summary.Exports"),
      Modelled "check_duplicate_exports (keys, sort.Strings, first name already exported)" _ (@check_duplicate_exports_perm bytes));
    (("protobuild", "packages.go", "PackageSet.findFileByPath", "maps.Keys", "pkg.Files"),
      Unobserved "the keys are joined into the text of a `file not found` error; found / not found is decided before"
        _ (@find_file_by_path_perm bytes));
    (("protobuild", "packages.go", "PackageSet.resolveDependencies", "range-map", "deps"),
      Modelled "range_deps (load)" _ (@compile_total_deterministic));
    (("protobuild", "packages.go", "PackageSet.CompilePackage", "range-map", "pkg.Files"),
      Modelled "range_files (compile_package) / sort_names" _ sort_names_perm);
    (("sourcewalk", "property.go", "buildFieldNode", "protoreflect.Message.Range", "tn"),
      Insensitive "ranges over the populated members of the Field.type oneof: at most one iteration"
        _ first_member_perm);
    (("sourcewalk", "sourcewalk.go", "SourceNode.child", "maps.Keys", "walk.Source.Children"),
      Unobserved "assigned to a variable that is read only by a log line under `if false`"
        _ (@child_ignores_options_any bytes));
    (* the front end (internal/bcl/**, lib/j5reflect), scanned since the audit *)
    (("j5reflect", "property_set.go", "copyReflect", "protoreflect.Message.Range", "a"),
      Insensitive "copies each populated field of a into the same field of b (panic when b lacks it): assignments to distinct fields"
        _ (@copy_fields_perm bytes));
    (("j5reflect", "type_map.go", "mutableMapField.Range", "protoreflect.Map.Range", "mapField.value"),
      Unobserved "reader API of map fields: calls the callback per entry and stops at its first error (encoder side; the walker only sets map entries)"
        _ (@range_entries_perm bytes bytes));
    (("j5reflect", "type_map.go", "leafMapField.Range", "protoreflect.Map.Range", "mapField.value"),
      Unobserved "reader API of map fields: calls the callback per entry and stops at its first error (encoder side; the walker only sets map entries)"
        _ (@range_entries_perm bytes bytes));
    (("walker/schema", "container_set.go", "containerSet.allChildFields", "range-map", "blockSchema.spec.Aliases"),
      Insensitive "inserts each alias under its own name unless present: the keys of the ranged map are distinct, no key is written twice"
        _ (@add_absent_perm bytes bytes));
    (("walker/schema", "container_set.go", "containerSet.listChildren", "maps.Keys", "fields"),
      Modelled "list_fields (all keys, then sort.Strings)" _ (@list_fields_perm bytes));
    (("walker/schema", "container_set.go", "containerSet.listAttributes", "range-map", "fields"),
      Modelled "list_fields (filtered keys, then sort.Strings)" _ (@list_fields_perm bytes));
    (("walker/schema", "container_set.go", "containerSet.listBlocks", "range-map", "fields"),
      Modelled "list_fields (filtered keys, then sort.Strings)" _ (@list_fields_perm bytes));
    (("walker/schema", "schemaset.go", "SchemaSet._buildSpec", "range-map", "newAliases"),
      Insensitive "copies each new alias into blockSpec.Aliases unless present: distinct keys, no key written twice"
        _ (@add_absent_perm bytes bytes));
    (("walker/schema", "scope.go", "Scope.PrintScope", "range-map", "sw.blockSet.allChildFields()"),
      Unobserved "one debug log line per child field (verbose mode only)"
        _ (@log_children_perm bytes bytes)) ].

(* every unordered iteration found by the translator is classified, and nothing else is claimed:
   equality as SETS (moving a loop inside its file does not matter; a new loop, or one that
   disappeared, does) *)
Definition okey := (string * string * string * string * string)%type.
Definition okey_eqb (a b : okey) : bool :=
  match a, b with
  | (a1, a2, a3, a4, a5), (b1, b2, b3, b4, b5) =>
      String.eqb a1 b1 && String.eqb a2 b2 && String.eqb a3 b3 && String.eqb a4 b4 && String.eqb a5 b5
  end.
Definition okeys_subset (a b : list okey) : bool := forallb (fun k => existsb (okey_eqb k) b) a.
Definition order_sites_same_set : bool :=
  okeys_subset (map fst model_order_sites) MapRangeGen.sites && okeys_subset MapRangeGen.sites (map fst model_order_sites).
Lemma order_sites_agree : order_sites_same_set = true.
Proof. vm_compute. reflexivity. Qed.

(* the SHAPE of each loop body, as regenerated from the Go source (MapRangeGen.bodies: statement kinds in order,
   and whether a sort call follows in the function), is the one the classification above was written for: a
   body that starts to do something else (a map write in a report loop, a sort that disappears after a key
   collection) breaks this lemma *)
Definition expected_bodies : list (okey * string * bool) :=
  [ (("j5convert", "fields.go", "RangeField", "protoreflect.Message.Range", "pt"), "assign;return", false);
    (("j5convert", "summary_walk.go", "SourceSummary", "range-map", "importMap.vals"), "if(cond){continue};assign;call:ec.WarnPos", false);
    (("j5reflect", "property_set.go", "copyReflect", "protoreflect.Message.Range", "a"), "assign;if(cond){call:panic};call:b.Set;return", false);
    (("j5reflect", "type_map.go", "mutableMapField.Range", "protoreflect.Map.Range", "mapField.value"), "assign;assign;assign;return", false);
    (("j5reflect", "type_map.go", "leafMapField.Range", "protoreflect.Map.Range", "mapField.value"), "assign;assign;assign;return", false);
    (("optionreflect", "builder.go", "Builder.OptionsFor", "protoreflect.Message.Range", "srcReflect"), "append;return", true);
    (("optionreflect", "walk.go", "walkOptionMap", "protoreflect.Map.Range", "mp"), "assign;assign;assign;assign;assign;append;return", true);
    (("protobuild", "linker.go", "markOptionImportsUsed", "proto.RangeExtensions", "opts"), "assign;assign;assign;if(cond){assign;return};return", false);
    (("protobuild", "lint.go", "LintAll", "range-map", "pkg.Files"), "assign;if(cond){return};if(cond){if(cond){assign;if(cond){return};return}else{return}}", false);
    (("protobuild", "packages.go", "Package.includeIO", "range-map", "summary.Exports"), "mapset", false);
    (("protobuild", "packages.go", "Package.checkDuplicateExports", "maps.Keys", "file.Summary.Exports"), "assigned", true);
    (("protobuild", "packages.go", "PackageSet.findFileByPath", "maps.Keys", "pkg.Files"), "arg of strings.Join", false);
    (("protobuild", "packages.go", "PackageSet.resolveDependencies", "range-map", "deps"), "assign;if(cond){return};mapset", false);
    (("protobuild", "packages.go", "PackageSet.CompilePackage", "range-map", "pkg.Files"), "append", true);
    (("sourcewalk", "property.go", "buildFieldNode", "protoreflect.Message.Range", "tn"), "assign;return", false);
    (("sourcewalk", "sourcewalk.go", "SourceNode.child", "maps.Keys", "walk.Source.Children"), "assigned", false);
    (("walker/schema", "container_set.go", "containerSet.allChildFields", "range-map", "blockSchema.spec.Aliases"), "assign;if(cond){continue};if(cond){mapset}", false);
    (("walker/schema", "container_set.go", "containerSet.listChildren", "maps.Keys", "fields"), "assigned", true);
    (("walker/schema", "container_set.go", "containerSet.listAttributes", "range-map", "fields"), "if(cond){append}", true);
    (("walker/schema", "container_set.go", "containerSet.listBlocks", "range-map", "fields"), "if(cond){append}", true);
    (("walker/schema", "schemaset.go", "SchemaSet._buildSpec", "range-map", "newAliases"), "if(cond){mapset}", false);
    (("walker/schema", "scope.go", "Scope.PrintScope", "range-map", "sw.blockSet.allChildFields()"), "call:logf", false) ].
Definition body_eqb (a b : okey * string * bool) : bool :=
  match a, b with (k1, s1, b1), (k2, s2, b2) => okey_eqb k1 k2 && String.eqb s1 s2 && Bool.eqb b1 b2 end.
Definition order_bodies_same_set : bool :=
  forallb (fun r => existsb (body_eqb r) expected_bodies) MapRangeGen.bodies
  && forallb (fun r => existsb (body_eqb r) MapRangeGen.bodies) expected_bodies.
Lemma order_bodies_agree : order_bodies_same_set = true.
Proof. vm_compute. reflexivity. Qed.
(* a key collection that is only ever used sorted really is followed by a sort *)
Definition collected_keys_are_sorted : bool :=
  forallb (fun r => match r with ((p, f, fn, k, e), body, sorted) =>
     negb (String.eqb body "append" || String.eqb body "if(cond){append}" || String.eqb body "append;return"
           || String.eqb body "assign;assign;assign;assign;assign;append;return"
           || (String.eqb body "assigned" && (String.eqb fn "containerSet.listChildren" || String.eqb fn "Package.checkDuplicateExports"))) || sorted end)
    MapRangeGen.bodies.
Lemma collected_keys_sorted : collected_keys_are_sorted = true.
Proof. vm_compute. reflexivity. Qed.

(* the extensions j5convert sets, grouped by the options message they are set on: for the blocks
   printed in OptionsFor order (message, service, method, enum options) the indexes are pairwise
   distinct, so options_for_perm applies; for field-like blocks (re-sorted by name) the names are *)
Definition site_ext_dest (r : string * string * string * string * string * string * list string * bool) :=
  match r with (_, _, _, x, _, dst, _, _) => (x, dst) end.
Definition ext_index_name (x : string) : option (nat * string) :=
  match find (fun r => match r with (v, _, _, _, _, _) => String.eqb v x end) SetExtGen.exts with
  | Some (_, n, _, _, _, i) => Some (i, n)
  | None => None
  end.
Fixpoint nodup_str (l : list string) : list string :=
  match l with
  | [] => []
  | x :: r => if existsb (String.eqb x) r then nodup_str r else x :: nodup_str r
  end.
Definition exts_on (dst : string) : list string :=
  nodup_str (map fst (filter (fun p => String.eqb (snd p) dst) (map site_ext_dest SetExtGen.sites))).
Fixpoint distinct_nat (l : list nat) : bool :=
  match l with [] => true | x :: r => negb (existsb (Nat.eqb x) r) && distinct_nat r end.
Fixpoint distinct_str (l : list string) : bool :=
  match l with [] => true | x :: r => negb (existsb (String.eqb x) r) && distinct_str r end.
Definition indexes_on (dst : string) : list nat :=
  map (fun x => match ext_index_name x with Some (i, _) => i | None => 0%nat end) (exts_on dst).
Definition names_on (dst : string) : list string :=
  map (fun x => match ext_index_name x with Some (_, n) => n | None => "" end) (exts_on dst).

Lemma emitted_option_indexes_distinct :
  forallb (fun dst => distinct_nat (indexes_on dst))
    ["*descriptorpb.MessageOptions"; "*descriptorpb.ServiceOptions"; "*descriptorpb.MethodOptions"; "*descriptorpb.EnumOptions"] = true.
Proof. vm_compute. reflexivity. Qed.
Lemma emitted_option_names_distinct :
  forallb (fun dst => distinct_str (names_on dst))
    ["*descriptorpb.FieldOptions"; "*descriptorpb.EnumValueOptions"] = true.
Proof. vm_compute. reflexivity. Qed.
(* ... whereas on fields the indexes do tie ((buf.validate.field) and (j5.list.v1.field) are both
   the third extension of their files): without the re-sort by name fields would be order-dependent *)
Lemma field_option_indexes_tie : distinct_nat (indexes_on "*descriptorpb.FieldOptions") = false.
Proof. vm_compute. reflexivity. Qed.

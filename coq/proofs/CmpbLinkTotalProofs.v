(* CmpbLinkTotalProofs.v — CompilePackage as a whole is TOTAL on a well-formed bundle: load totality
   (CmpbOrderProofs.load_total) composed with link totality (CmpbComposeProofs.link_all_total).
   The missing piece was an invariant of the package cache: loading a package loads every package it
   depends on, so the set of loaded packages is closed under dependencies ([cache_closed]) and the
   link phase, which looks files up among the LOADED packages only (findFileByPath), finds every import
   of every file it reaches.  Together with compile_and_link_spec this gives: every call returns, and
   returns the same linked files, whatever the orders, fuels and histories. *)
From Coq Require Import String List NArith Arith Bool Permutation Lia.
From J5V.model Require Import CmpbOrder.
From J5V.proofs Require Import CmpbOrderProofs CmpbComposeProofs.
Import ListNotations.

Section Present.
  Context {V : Type}.
  Definition present (c : list (bytes * V)) (n : bytes) : Prop := map_get n c <> None.
  Lemma present_set k (v : V) c x : present (map_set k v c) x <-> x = k \/ present c x.
  Proof.
    unfold present. destruct (list_eq_dec N.eq_dec x k) as [E|E].
    - subst. rewrite map_get_set_same. split; [left; reflexivity|discriminate].
    - rewrite map_get_set_other by exact E. split; [right; assumption|intros [H|H]; [contradiction|exact H]].
  Qed.
End Present.

Section LoadClosed.
  Context {F D : Type}.
  Variable convert : env -> @srcfile F -> bytes -> D.
  Variable list_files : bytes -> list (@srcfile F) -> list (@srcfile F).
  Variable range_deps : bytes -> list bytes -> list bytes.
  Hypothesis list_files_perm : forall n l, Permutation (list_files n l) l.
  Hypothesis range_deps_perm : forall n l, Permutation (range_deps n l) l.
  Notation load := (CmpbOrder.load convert list_files range_deps).
  Notation dstep := (dep_step convert list_files range_deps).
  Notation pcache := (list (bytes * @pkg D)).

  (* every loaded package of the bundle has its direct dependencies loaded *)
  Definition cache_closed (b : @bundle F) (c : pcache) : Prop :=
    forall q files, present c q -> find_pkg q b = Some files -> forall d, In d (dep_names q files) -> present c d.
  Definition grows (c c' : pcache) : Prop := forall k, present c k -> present c' k.

  Lemma cache_closed_nil b : cache_closed b [].
  Proof. intros q files H. exfalso. apply H. reflexivity. Qed.

  Lemma dep_loop_closed fuel b :
    (forall c n c' p, cache_closed b c -> load fuel b c n = Some (c', p) -> cache_closed b c' /\ grows c c' /\ present c' n) ->
    forall deps c ds c' ds', cache_closed b c ->
      fold_left (dstep fuel b) deps (Some (c, ds)) = Some (c', ds') ->
      cache_closed b c' /\ grows c c' /\ forall d, In d deps -> present c' d.
  Proof.
    intro IH. induction deps as [|d r IHd]; intros c ds c' ds' Hc Hf; cbn [fold_left] in Hf.
    - inversion Hf; subst. split; [exact Hc|]. split; [intros k H; exact H|intros d []].
    - cbn [dep_step] in Hf. destruct (load fuel b c d) as [[c1 pd]|] eqn:El; [|rewrite dep_step_none in Hf; discriminate].
      destruct (IH _ _ _ _ Hc El) as (Hc1 & Hg1 & Hp1).
      destruct (IHd _ _ _ _ Hc1 Hf) as (Hc' & Hg' & Hp'). split; [exact Hc'|]. split.
      + intros k H. apply Hg', Hg1, H.
      + intros x [<-|Hx]; [apply Hg', Hp1|apply Hp', Hx].
  Qed.

  Theorem load_closed b : forall fuel c n c' p,
    cache_closed b c -> load fuel b c n = Some (c', p) -> cache_closed b c' /\ grows c c' /\ present c' n.
  Proof.
    induction fuel as [|fuel IH]; intros c n c' p Hc Hl.
    - cbn [CmpbOrder.load] in Hl. destruct (map_get n c) as [p0|] eqn:G; [|discriminate].
      inversion Hl; subst. split; [exact Hc|]. split; [intros k H; exact H|]. unfold present. rewrite G. discriminate.
    - cbn [CmpbOrder.load] in Hl. destruct (map_get n c) as [p0|] eqn:G.
      { inversion Hl; subst. split; [exact Hc|]. split; [intros k H; exact H|]. unfold present. rewrite G. discriminate. }
      destruct (find_pkg n b) as [files0|] eqn:Ef; [|discriminate].
      fold (dstep fuel b) in Hl.
      assert (Edeps : collect_deps n (list_files n files0) = collect_deps n files0) by (apply collect_deps_perm, list_files_perm).
      rewrite Edeps in Hl. fold (dep_names n files0) in Hl.
      destruct (fold_left (dstep fuel b) (range_deps n (dep_names n files0)) (Some (c, []))) as [[c1 ds]|] eqn:Efold; [|discriminate].
      destruct (dep_loop_closed fuel b IH _ _ _ _ _ Hc Efold) as (Hc1 & Hg1 & Hp1).
      inversion Hl; subst c' p. clear Hl. split; [|split].
      + intros q files Hq Hfq d Hd. apply present_set. apply present_set in Hq. destruct Hq as [->|Hq].
        * right. rewrite Ef in Hfq. inversion Hfq; subst files. apply Hp1.
          apply (Permutation_in _ (Permutation_sym (range_deps_perm n _))). exact Hd.
        * right. exact (Hc1 q files Hq Hfq d Hd).
      + intros k H. apply present_set. right. apply Hg1, H.
      + apply present_set. left. reflexivity.
  Qed.
End LoadClosed.

Section Total.
  Context {F D L : Type}.
  Variable convert : env -> @srcfile F -> bytes -> D.
  Variable owner : bytes -> bytes.
  Variable is_local : bytes -> bool.
  Variable ext_file : bytes -> option D.
  Variable deps_of : D -> list bytes.
  Variable link1 : D -> list L -> L.
  Notation spec_files b q := (p_files (spec_pkg convert b q)).

  (* a produced file is a local path and packageForFile answers the package it was stored under *)
  Definition owner_ok (b : @bundle F) : Prop :=
    forall q o d, map_get o (spec_files b q) = Some d -> owner o = q /\ is_local o = true.
  (* every local import of a produced file is a produced file of the same package or of a direct dependency of the
     package, every import can be found (a non-local one by the dependency resolver), and the import relation between
     files is well founded; files of the dependency set import only files of the dependency set *)
  Definition imports_wf (b : @bundle F) (frank : bytes -> nat) : Prop :=
    (forall q files o d, find_pkg q b = Some files -> map_get o (spec_files b q) = Some d ->
      forall dep, In dep (deps_of d) ->
        (is_local dep = true -> owner dep = q \/ In (owner dep) (dep_names q files))
        /\ spec_lookup convert owner is_local ext_file b dep <> None /\ (frank dep < frank o)%nat)
    /\ (forall n d, is_local n = false -> ext_file n = Some d ->
          forall dep, In dep (deps_of d) -> is_local dep = false /\ ext_file dep <> None /\ (frank dep < frank n)%nat).

  Lemma spec_files_empty b q : find_pkg q b = None -> spec_files b q = [].
  Proof. intro H. unfold spec_pkg. rewrite H. reflexivity. Qed.

  (* among the loaded packages, closed under dependencies, findFileByPath finds every import *)
  Lemma lookup_in_wf b frank pc : cache_ok convert b pc -> cache_closed b pc -> imports_wf b frank ->
    forall n d, lookup_in owner is_local ext_file pc n = Some d ->
      forall dep, In dep (deps_of d) -> lookup_in owner is_local ext_file pc dep <> None /\ (frank dep < frank n)%nat.
  Proof.
    intros [Hs Hc] Hcl [Hw Hx] n d Hl dep Hdep. unfold lookup_in in Hl.
    destruct (is_local n) eqn:Ln.
    - destruct (map_get (owner n) pc) as [p|] eqn:G; [|discriminate].
      pose proof (Hc _ _ G) as Ep. subst p.
      destruct (find_pkg (owner n) b) as [files|] eqn:Ef; [|rewrite (spec_files_empty _ _ Ef) in Hl; discriminate].
      destruct (Hw _ _ _ _ Ef Hl dep Hdep) as (Ho & Hsl & Hr). split; [|exact Hr].
      unfold lookup_in. unfold spec_lookup in Hsl. destruct (is_local dep) eqn:Ld; [|exact Hsl].
      assert (Hp : present pc (owner dep)).
      { destruct (Ho eq_refl) as [->|Hin]; [unfold present; rewrite G; discriminate|].
        apply (Hcl (owner n) files); [unfold present; rewrite G; discriminate|exact Ef|exact Hin]. }
      unfold present in Hp. destruct (map_get (owner dep) pc) as [p'|] eqn:G'; [|contradiction].
      rewrite (Hc _ _ G'). exact Hsl.
    - destruct (Hx n d Ln Hl dep Hdep) as (Ld & He & Hr). split; [|exact Hr]. unfold lookup_in. rewrite Ld. exact He.
  Qed.

  (* CompilePackage returns: the packages it needs can be loaded (present, acyclic), the files it links import
     only what loading has made available (imports_wf), fuels above the ranks *)
  Theorem compile_and_link_total : forall lf rd rf,
    (forall n l, Permutation (lf n l) l) -> (forall n l, Permutation (rd n l) l) -> (forall n l, Permutation (rf n l) l) ->
    forall b rank frank, valid b -> well_founded_deps b rank -> owner_ok b -> imports_wf b frank ->
    forall fuel lfuel pc lc n, cache_ok convert b pc -> cache_closed b pc ->
      find_pkg n b <> None -> (rank n < fuel)%nat ->
      (forall o, In o (map fst (spec_files b n)) -> (frank o < lfuel)%nat) ->
      exists pc' lc' out, compile_and_link convert lf rd rf owner is_local ext_file deps_of link1 fuel lfuel b pc lc n = Some (pc', lc', out)
                          /\ cache_closed b pc'.
  Proof.
    intros lf rd rf P1 P2 P3 b rank frank Hv Hw Ho Hi fuel lfuel pc lc n Hpc Hcl Hf Hr Hlf.
    unfold compile_and_link.
    destruct (compile_package_total convert lf rd rf P1 P2 P3 b rank Hv Hw fuel pc n Hpc Hf Hr) as [pc1 Ec].
    rewrite Ec.
    assert (Hpc1 : cache_ok convert b pc1) by exact (proj2 (compile_package_spec convert lf rd rf P1 P2 P3 b Hv _ _ _ _ _ Hpc Ec)).
    assert (Hcl1 : cache_closed b pc1 /\ present pc1 n).
    { unfold compile_package in Ec. destruct (load convert lf rd fuel b pc n) as [[c1 p]|] eqn:El; [|discriminate].
      inversion Ec; subst c1. destruct (load_closed convert lf rd P1 P2 b _ _ _ _ _ Hcl El) as (A & _ & B). split; assumption. }
    destruct Hcl1 as [Hcl1 Hn1].
    destruct (link_all_total (lookup_in owner is_local ext_file pc1) deps_of link1 frank (lookup_in_wf b frank pc1 Hpc1 Hcl1 Hi)
                             lfuel (map fst (spec_files b n)) lc) as [lc1 [ls El]].
    { intros o Hin. split; [|apply Hlf, Hin].
      destruct (map_get_some_in o (spec_files b n) Hin) as [d Hd].
      unfold lookup_in. destruct (Ho _ _ _ Hd) as [Eo ->]. rewrite Eo. unfold present in Hn1.
      destruct (map_get n pc1) as [p|] eqn:G; [|contradiction]. rewrite (proj2 Hpc1 _ _ G), Hd. discriminate. }
    rewrite El. eauto.
  Qed.

  (* total AND deterministic: on such a bundle there is ONE list of linked files that every call returns, whatever
     the orders, the fuels (above the ranks) and the consistent, dependency-closed caches it starts from *)
  Theorem compile_and_link_total_deterministic :
    forall b rank frank, valid b -> well_founded_deps b rank -> owner_ok b -> imports_wf b frank ->
    forall n, find_pkg n b <> None ->
    exists out, forall lf rd rf,
      (forall n l, Permutation (lf n l) l) -> (forall n l, Permutation (rd n l) l) -> (forall n l, Permutation (rf n l) l) ->
      forall fuel lfuel pc lc, both_ok convert owner is_local ext_file deps_of link1 b pc lc -> cache_closed b pc ->
        (rank n < fuel)%nat -> (forall o, In o (map fst (spec_files b n)) -> (frank o < lfuel)%nat) ->
        exists pc' lc', compile_and_link convert lf rd rf owner is_local ext_file deps_of link1 fuel lfuel b pc lc n = Some (pc', lc', out).
  Proof.
    intros b rank frank Hv Hw Ho Hi n Hf.
    (* the reference call: identity orders, empty caches *)
    set (idf := fun (_ : bytes) (l : list (@srcfile F)) => l). set (idb := fun (_ : bytes) (l : list bytes) => l).
    assert (Pf : forall n l, Permutation (idf n l) l) by (intros; apply Permutation_refl).
    assert (Pb : forall n l, Permutation (idb n l) l) by (intros; apply Permutation_refl).
    set (lfuel0 := S (list_max (map frank (map fst (spec_files b n))))).
    assert (Hl0 : forall o, In o (map fst (spec_files b n)) -> (frank o < lfuel0)%nat).
    { intros o Hin. unfold lfuel0. pose proof (proj1 (list_max_le (map frank (map fst (spec_files b n))) _) (le_n _)) as Hall.
      rewrite Forall_forall in Hall. specialize (Hall (frank o) (in_map frank _ _ Hin)). lia. }
    destruct (compile_and_link_total idf idb idb Pf Pb Pb b rank frank Hv Hw Ho Hi (S (rank n)) lfuel0 [] [] n
                (cache_ok_nil convert b) (cache_closed_nil b) Hf (Nat.lt_succ_diag_r _) Hl0) as (pc0 & lc0 & out & E0 & _).
    exists out. intros lf rd rf P1 P2 P3 fuel lfuel pc lc Hok Hcl Hr Hlf.
    destruct (compile_and_link_total lf rd rf P1 P2 P3 b rank frank Hv Hw Ho Hi fuel lfuel pc lc n (proj1 Hok) Hcl Hf Hr Hlf)
      as (pc' & lc' & out' & E & _).
    exists pc', lc'. rewrite E. f_equal. f_equal.
    eapply (compile_and_link_deterministic convert owner is_local ext_file deps_of link1 lf rd rf idf idb idb P1 P2 P3 Pf Pb Pb b Hv);
      [exact Hok|apply both_ok_nil|exact E|exact E0].
  Qed.
End Total.

(* ---- histories: every CompilePackage call leaves the loaded packages closed under dependencies *)
Section Histories.
  Context {F D L : Type}.
  Variable convert : env -> @srcfile F -> bytes -> D.
  Variable owner : bytes -> bytes.
  Variable is_local : bytes -> bool.
  Variable ext_file : bytes -> option D.
  Variable deps_of : D -> list bytes.
  Variable link1 : D -> list L -> L.

  Lemma compile_and_link_closed : forall lf rd rf,
    (forall n l, Permutation (lf n l) l) -> (forall n l, Permutation (rd n l) l) ->
    forall b fuel lfuel pc lc n pc' lc' out, cache_closed b pc ->
      compile_and_link convert lf rd rf owner is_local ext_file deps_of link1 fuel lfuel b pc lc n = Some (pc', lc', out) -> cache_closed b pc'.
  Proof.
    intros lf rd rf P1 P2 b fuel lfuel pc lc n pc' lc' out Hcl H. unfold compile_and_link, compile_package in H.
    destruct (load convert lf rd fuel b pc n) as [[c1 p]|] eqn:El; [|discriminate].
    destruct (link_all _ _ _ _ _ _) as [[lc1 ls]|]; [|discriminate]. inversion H; subst.
    exact (proj1 (load_closed convert lf rd P1 P2 b _ _ _ _ _ Hcl El)).
  Qed.
  Lemma compile_link_seq_closed : forall lf rd rf,
    (forall n l, Permutation (lf n l) l) -> (forall n l, Permutation (rd n l) l) ->
    forall b fuel lfuel calls pc lc, cache_closed b pc ->
      cache_closed b (fst (compile_link_seq convert lf rd rf owner is_local ext_file deps_of link1 fuel lfuel b pc lc calls)).
  Proof.
    intros lf rd rf P1 P2 b fuel lfuel. induction calls as [|n r IH]; intros pc lc Hcl; cbn [compile_link_seq]; [exact Hcl|].
    destruct (compile_and_link convert lf rd rf owner is_local ext_file deps_of link1 fuel lfuel b pc lc n) as [[[pc1 lc1] o]|] eqn:E.
    - apply IH. exact (compile_and_link_closed lf rd rf P1 P2 _ _ _ _ _ _ _ _ _ Hcl E).
    - apply IH. exact Hcl.
  Qed.

  (* the C14 statement for CompilePackage as a whole, TOTAL form: on a valid bundle whose package dependencies and file
     imports are present and acyclic there is ONE list of linked files such that every call returns it — any file
     listing and map iteration orders, any fuels above the ranks, after ANY history of earlier CompilePackage calls
     on the same PackageSet (the history runs with the call's own orders and fuels; two calls with different
     histories, orders and fuels both return [out], which does not depend on any of them) *)
  Theorem compile_package_linked_total : 
    forall b rank frank, valid b -> well_founded_deps b rank -> owner_ok convert owner is_local b -> imports_wf convert owner is_local ext_file deps_of b frank ->
    forall n, find_pkg n b <> None ->
    exists out, forall lf rd rf,
      (forall n l, Permutation (lf n l) l) -> (forall n l, Permutation (rd n l) l) -> (forall n l, Permutation (rf n l) l) ->
      forall fuel lfuel earlier, (rank n < fuel)%nat ->
        (forall o, In o (map fst (p_files (spec_pkg convert b n))) -> (frank o < lfuel)%nat) ->
        let h := compile_link_seq convert lf rd rf owner is_local ext_file deps_of link1 fuel lfuel b [] [] earlier in
        exists pc' lc', compile_and_link convert lf rd rf owner is_local ext_file deps_of link1 fuel lfuel b (fst h) (snd h) n = Some (pc', lc', out).
  Proof.
    intros b rank frank Hv Hw Ho Hi n Hf.
    destruct (compile_and_link_total_deterministic convert owner is_local ext_file deps_of link1 b rank frank Hv Hw Ho Hi n Hf) as [out H].
    exists out. intros lf rd rf P1 P2 P3 fuel lfuel earlier Hr Hlf h. apply H; try assumption.
    - apply compile_link_seq_ok; try assumption. apply both_ok_nil.
    - apply compile_link_seq_closed; try assumption. apply cache_closed_nil.
  Qed.
End Histories.

(* ---- non-vacuity: a two-package bundle that satisfies every hypothesis of compile_package_linked_total.
   Package f = files a (outputs a, as; imports x, a file of the dependency set, which imports y), b (output b, imports a);
   package g = file c (output c, imports a and b; depends on package f).  A descriptor is its import list; linking counts the linked files below + 1. *)
Local Open Scope N_scope.
Section ExampleTotal.
  Let fa := mkFile [97] [[65]] [] [[97]; [97;115]] [[120]].
  Let fb := mkFile [98] [[66]] [] [[98]] [[97]].
  Let fc := mkFile [99] [[67]] [[102]] [[99]] [[97]; [98]].
  Definition ex_bundle : @bundle (list bytes) := [([102], [fa; fb]); ([103], [fc])].
  Definition ex_conv (e : env) (f : @srcfile (list bytes)) (o : bytes) : list bytes := f_body f.
  Definition ex_owner (o : bytes) : bytes := match o with [99] => [103] | _ => [102] end.
  (* x and y are files of the dependency set: x imports y *)
  Definition ex_is_local (o : bytes) : bool := negb (beqb o [120] || beqb o [121]).
  Definition ex_ext (o : bytes) : option (list bytes) := if beqb o [120] then Some [[121]] else if beqb o [121] then Some [] else None.
  Definition ex_rank (n : bytes) : nat := match n with [103] => 1%nat | _ => 0%nat end.
  Definition ex_frank (o : bytes) : nat := match o with [121] => 0%nat | [120] => 1%nat | [98] => 3%nat | [99] => 4%nat | _ => 2%nat end.
  Definition ex_link1 (d : list bytes) (ls : list N) : N := (1 + fold_left N.add ls 0).

  Lemma map_get_in_pair {V} k (m : list (bytes * V)) v : map_get k m = Some v -> In (k, v) m.
  Proof.
    induction m as [|[k' v'] r IH]; cbn [map_get]; [discriminate|].
    destruct (beqb k k') eqn:E; [|intro H; right; apply IH, H].
    apply beqb_eq in E. subst. intro H. inversion H. left. reflexivity.
  Qed.

  Ltac which_pkg H q :=
    cbn [ex_bundle find_pkg] in H;
    destruct (beqb q [102]) eqn:?E1;
    [apply beqb_eq in E1; subst q
    |destruct (beqb q [103]) eqn:?E2; [apply beqb_eq in E2; subst q|]].

  Lemma ex_valid : valid ex_bundle.
  Proof.
    intros n fs H. which_pkg H n; try discriminate; inversion H; subst fs; split; vm_compute;
      repeat (constructor; [cbn; intuition discriminate|]); constructor.
  Qed.
  Lemma ex_wf : well_founded_deps ex_bundle ex_rank.
  Proof.
    intros n files H d Hd. which_pkg H n; try discriminate; inversion H; subst files; vm_compute in Hd.
    - destruct Hd.
    - destruct Hd as [<-|[]]. split; [vm_compute; discriminate|vm_compute; lia].
  Qed.
  Lemma ex_files q o d : map_get o (p_files (spec_pkg ex_conv ex_bundle q)) = Some d ->
    (q = [102] /\ In (o, d) [([97], [[120]]); ([97;115], [[120]]); ([98], [[97]])]) \/ (q = [103] /\ (o, d) = ([99], [[97]; [98]])).
  Proof.
    intro H. apply map_get_in_pair in H. unfold spec_pkg in H.
    destruct (find_pkg q ex_bundle) as [files|] eqn:Ef; [|destruct H].
    which_pkg Ef q; try discriminate; inversion Ef; subst files; vm_compute in H.
    - left. split; [reflexivity|]. vm_compute. tauto.
    - right. split; [reflexivity|]. destruct H as [H|[]]. symmetry. exact H.
  Qed.
  Lemma ex_owner_ok : owner_ok ex_conv ex_owner ex_is_local ex_bundle.
  Proof.
    intros q o d H. destruct (ex_files q o d H) as [[-> Hin]|[-> E]].
    - destruct Hin as [E|[E|[E|[]]]]; inversion E; split; reflexivity.
    - inversion E. split; reflexivity.
  Qed.
  Lemma ex_imports_wf : imports_wf ex_conv ex_owner ex_is_local ex_ext (fun d : list bytes => d) ex_bundle ex_frank.
  Proof.
    split.
    - intros q files o d Hf H dep Hdep. destruct (ex_files q o d H) as [[-> Hin]|[-> E]].
      + cbn [ex_bundle find_pkg] in Hf. vm_compute in Hf. inversion Hf; subst files. clear Hf.
        destruct Hin as [E|[E|[E|[]]]]; inversion E; subst o d; destruct Hdep as [<-|[]];
          (split; [intro Hl; try discriminate Hl; left; reflexivity|split; [vm_compute; discriminate|vm_compute; lia]]).
      + vm_compute in Hf. inversion Hf; subst files. clear Hf. inversion E; subst o d.
        destruct Hdep as [<-|[<-|[]]]; (split; [intros _; right; vm_compute; tauto|split; [vm_compute; discriminate|vm_compute; lia]]).
    - intros n d Hl He dep Hdep. unfold ex_ext in He.
      destruct (beqb n [120]) eqn:E1.
      { apply beqb_eq in E1. subst n. inversion He; subst d. destruct Hdep as [<-|[]].
        split; [reflexivity|split; [vm_compute; discriminate|vm_compute; lia]]. }
      destruct (beqb n [121]) eqn:E2; [|discriminate]. inversion He; subst d. destruct Hdep.
  Qed.

  (* the theorem applies: package g compiles and links to the same result under every order, fuel and history *)
  Lemma ex_total : exists out, forall lf rd rf,
      (forall n l, Permutation (lf n l) l) -> (forall n l, Permutation (rd n l) l) -> (forall n l, Permutation (rf n l) l) ->
      forall fuel lfuel earlier, (1 < fuel)%nat -> (4 < lfuel)%nat ->
        let h := compile_link_seq ex_conv lf rd rf ex_owner ex_is_local ex_ext (fun d => d) ex_link1 fuel lfuel ex_bundle [] [] earlier in
        exists pc' lc', compile_and_link ex_conv lf rd rf ex_owner ex_is_local ex_ext (fun d => d) ex_link1 fuel lfuel ex_bundle (fst h) (snd h) [103]
                        = Some (pc', lc', out).
  Proof.
    destruct (compile_package_linked_total ex_conv ex_owner ex_is_local ex_ext (fun d => d) ex_link1 ex_bundle ex_rank ex_frank
                ex_valid ex_wf ex_owner_ok ex_imports_wf [103]) as [out H]; [vm_compute; discriminate|].
    exists out. intros lf rd rf P1 P2 P3 fuel lfuel earlier Hf Hl. apply H; try assumption.
    intros o Ho. vm_compute in Ho. destruct Ho as [<-|[]]. exact Hl.
  Qed.
  (* and it computes: y links to 1, x (imports y) to 2, a (imports x) to 3, b (imports a) to 4, c (imports a and b) to 8 *)
  Lemma ex_total_value :
    exists pc lc, compile_and_link ex_conv (fun _ l => rev l) (fun _ l => rev l) (fun _ l => rev l) ex_owner ex_is_local ex_ext (fun d => d) ex_link1
                                   5%nat 6%nat ex_bundle [] [] [103] = Some (pc, lc, [([99], 8)]).
  Proof. eexists. eexists. vm_compute. reflexivity. Qed.
End ExampleTotal.

(* ConcFullProofs.v — the full statement of C10 for the guarded discipline and for the
   discipline the code follows; its refutation for the unguarded discipline. *)
From Coq Require Import String List NArith Bool Arith Lia.
From J5V.model Require Import Conc ConcSites ConcCorr ConcRace ConcStatement ConcState.
From J5V.gen Require ConcGen ConcStateGen.
From J5V.proofs Require Import ConcProofs ConcInvProofs ConcTermProofs ConcMainProofs ConcRetProofs ConcRaceProofs.
Import ListNotations.

Lemma logic_guarded : C10_logic_statement Guarded.
Proof.
  intros k g calls Hok. split; [|split; [|split; [|split]]].
  - intros sched t. apply guarded_results. exact Hok.
  - intros sched H. destruct (guarded_progress k g calls sched Hok H) as (t & H1 & H2 & H3). exists t. split; [|split]; assumption.
  - intros rounds. apply guarded_fair_complete. exact Hok.
  - intros sched t1 t2 n c1 c2. apply guarded_ret_canonical. exact Hok.
  - intros sched t n c. apply guarded_ret_linked. exact Hok.
Qed.

Lemma memory_guarded : C10_memory_statement Guarded.
Proof. intros pk k g calls sched Hok. apply guarded_race_free. exact Hok. Qed.

Lemma full_for_code : C10_full_statement code_disc.
Proof. rewrite code_disc_guarded. split; [exact logic_guarded | exact memory_guarded]. Qed.

Lemma full_unguarded_refuted : ~ C10_logic_statement Unguarded /\ ~ C10_memory_statement Unguarded.
Proof.
  split.
  - intros H. destruct (H 3 w1_graph w1_calls w1_calls_ok) as (H1 & _).
    destruct (H1 w1_sched 1) as (j & Hj).
    destruct unguarded_refuted_root as (E & Es & _). rewrite E in Hj.
    change (nth 1 w1_calls []) with [1%N] in Hj.
    destruct j as [|j]; [discriminate Hj|].
    change (firstn (S j) [1%N]) with (1%N :: firstn j []) in Hj. cbn [map] in Hj.
    rewrite Es in Hj. discriminate Hj.
  - intros H. apply unguarded_has_race. apply (H (fun _ => 0%N)). exact w1_calls_ok.
Qed.

(* the cache is the only mutable state a codec call reaches: the go/types census passes
   every check of model/ConcState.v, and the codec's entry points are the expected ones *)
Lemma no_other_state :
  census_ok = true /\ ConcGen.codec_entry_points = expected_codec_entry_points.
Proof. exact (conj census_holds codec_entry_points_agree). Qed.

(* exposed oneofs: what a caller sees is a view (ConcCorr.view: members regrouped under their
   oneof, cut to the depth of observation) of the machine's result — a function of it, so
   equal results give equal views *)
Lemma guarded_results_view ex k g calls sched t : calls_ok calls ->
  exists j, map (view ex k) (nth t (results (run Guarded k g calls sched)) []) =
            map (fun n => view ex k (result_solo k g n)) (firstn j (nth t calls [])).
Proof.
  intros H. destruct (guarded_results k g calls sched t H) as (j & E). exists j.
  rewrite E, map_map. reflexivity.
Qed.

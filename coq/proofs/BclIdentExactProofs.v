(* BclIdentExactProofs.v — the exact token type an identifier-shaped text is read back with:
   BOOL for the spellings true / false, IDENT otherwise (relex_ident only says "IDENT or BOOL"). *)
From Coq Require Import String List NArith ZArith Bool Lia ZifyN ZifyNat ZifyBool.
From J5V.lib Require Import Text Outcome.
From J5V.model Require Import BclLexer.
From J5V.proofs Require Import BclPosProofs BclLexerProofs BclFmtLitProofs.
Import ListNotations.
Local Open Scope N_scope.

Definition ident_type (l : list N) : ttype :=
  if (list_N_eqb l lit_true || list_N_eqb l lit_false)%bool then BOOL else IDENT.

Theorem relex_ident_exact c r tail s :
  ident_start c -> forallb ident_char r = true -> not_extending ident_char tail ->
  rest s = (c :: r) ++ tail -> lexes_to s (ident_type (c :: r)) (c :: r) tail.
Proof.
  intros (Hop & H47 & H34 & H124 & H10 & Hsp & Hdg & Hlt) Hr Ht Hs. cbn [app] in Hs.
  unfold lexes_to, next_token. cbn [next_token_fuel].
  destruct (next_cons s _ _ Hs) as [Hc Hn]. rewrite Hc, Hop.
  replace (N.eqb c 47) with false by lia. replace (N.eqb c 34) with false by lia.
  replace (N.eqb c 124) with false by lia. replace (N.eqb c 10) with false by lia.
  rewrite Hsp, Hdg, Hlt. unfold lex_ident.
  destruct (ident_loop_inverse r (S (length (rest (next s)))) (next s) (ch_list (next s)) tail Hr Ht Hn) as (s' & E & Hs'); [lia|].
  rewrite E. unfold ch_list. rewrite Hc. cbn [app]. unfold ident_type.
  destruct (list_N_eqb (c :: r) lit_true || list_N_eqb (c :: r) lit_false)%bool; eauto 8.
Qed.

(* RulesReadCorr.v — correspondence cases for C04: the annotations the real
   compiler emitted for an object's properties and the schema the real reflector
   read back, checked against write_object / read_object by vm_compute. *)
From Coq Require Import String List NArith ZArith Bool.
From J5V.lib Require Import Outcome Corr.
From J5V.model Require Import RulesDecl RulesWrite RulesRead RulesEnum RulesCorr RulesNested RulesInlineEnum RulesCompile Regex.
From J5V.model Require ProtoPrintFile ProtoPrintFileWf RulesView RulesTextModel RulesClientNames.
Import ListNotations.

Definition oZ_eq_dec : forall a b : option Z, {a = b} + {a <> b}.
Proof. decide equality; apply Z.eq_dec. Defined.
Definition int_rules_eq_dec : forall a b : int_rules, {a = b} + {a <> b}.
Proof. decide equality; try apply obool_eq_dec; apply oZ_eq_dec. Defined.
Definition str_rules_eq_dec : forall a b : str_rules, {a = b} + {a <> b}.
Proof. decide equality; try apply oN_eq_dec; apply ostr_eq_dec. Defined.
Definition len_rules_eq_dec : forall a b : len_rules, {a = b} + {a <> b}.
Proof. decide equality; apply oN_eq_dec. Defined.
Definition enum_rules_eq_dec : forall a b : enum_rules, {a = b} + {a <> b}.
Proof. decide equality; apply list_eq_dec; apply str_eq_dec. Defined.
Definition kfmt_eq_dec : forall a b : kfmt, {a = b} + {a <> b}.
Proof. decide equality; apply str_eq_dec. Defined.
Definition arr_rules_eq_dec : forall a b : arr_rules, {a = b} + {a <> b}.
Proof. decide equality; try apply obool_eq_dec; apply oN_eq_dec. Defined.
Definition ekey_eq_dec : forall a b : ekey, {a = b} + {a <> b}.
Proof. decide equality; try apply str_eq_dec; apply bool_dec. Defined.
Definition entity_key_eq_dec : forall a b : entity_key, {a = b} + {a <> b}.
Proof. decide equality; [apply ostr_eq_dec | decide equality; apply ekey_eq_dec]. Defined.
Definition ts_rules_eq_dec : forall a b : ts_rules, {a = b} + {a <> b}.
Proof. decide equality; try apply obool_eq_dec; apply oZ_eq_dec. Defined.
Definition obj_rules_eq_dec : forall a b : obj_rules, {a = b} + {a <> b}.
Proof. decide equality; apply oN_eq_dec. Defined.
Definition olpay_eq_dec : forall a b : option lpay, {a = b} + {a <> b}.
Proof. decide equality; apply lpay_eq_dec. Defined.
Definition fty_eq_dec : forall a b : fty, {a = b} + {a <> b}.
Proof.
  decide equality; try apply olpay_eq_dec; try apply bool_dec; try apply ikind_eq_dec;
    try apply ostr_eq_dec; try apply str_eq_dec; try (apply list_eq_dec; apply str_eq_dec);
    try (decide equality; first [apply int_rules_eq_dec | apply str_rules_eq_dec | apply len_rules_eq_dec
                                | apply enum_rules_eq_dec | apply kfmt_eq_dec | apply entity_key_eq_dec
                                | apply txt_rules_eq_dec | apply obool_eq_dec
                                | apply ts_rules_eq_dec | apply obj_rules_eq_dec]).
Defined.
Definition map_rules_eq_dec : forall a b : map_rules, {a = b} + {a <> b}.
Proof. decide equality; apply oN_eq_dec. Defined.
Definition pty_eq_dec : forall a b : pty, {a = b} + {a <> b}.
Proof.
  decide equality; try apply fty_eq_dec; try apply ostr_eq_dec.
  - decide equality; apply arr_rules_eq_dec.
  - decide equality; apply map_rules_eq_dec.
Defined.
Definition prop_eq_dec : forall a b : prop, {a = b} + {a <> b}.
Proof. decide equality; try apply str_eq_dec; try apply bool_dec; apply pty_eq_dec. Defined.
Definition rprop_eq_dec : forall a b : rprop, {a = b} + {a <> b}.
Proof. decide equality; [apply list_eq_dec; apply N.eq_dec | apply prop_eq_dec]. Defined.

Definition rprop_eqb (a b : rprop) : bool := if rprop_eq_dec a b then true else false.
Definition rxprop_eq_dec : forall a b : rxprop, {a = b} + {a <> b}.
Proof. decide equality; [decide equality; apply ostr_eq_dec | apply oZ_eq_dec | apply rprop_eq_dec]. Defined.
Definition rxprop_eqb (a b : rxprop) : bool := if rxprop_eq_dec a b then true else false.

Fixpoint list_eqb2 {A B} (f : A -> B -> bool) (a : list A) (b : list B) : bool :=
  match a, b with
  | [], [] => true
  | x :: r, y :: s => f x y && list_eqb2 f r s
  | _, _ => false
  end.

(* an object: environment, declared properties, the annotations emitted for
   them, and what the reflector read back (None: a reflected property the
   declaration language cannot express) *)
Definition oinfo_eq_dec : forall a b : oinfo, {a = b} + {a <> b}.
Proof. apply list_eq_dec. decide equality; apply str_eq_dec. Defined.
Definition infofield_eq_dec : forall a b : infofield, {a = b} + {a <> b}.
Proof. decide equality; [apply str_eq_dec | decide equality; apply str_eq_dec]. Defined.
Definition value3_eq_dec : forall a b : str * Z * str * oinfo, {a = b} + {a <> b}.
Proof.
  decide equality; [apply oinfo_eq_dec|].
  decide equality; [apply str_eq_dec | decide equality; [apply Z.eq_dec | apply str_eq_dec]].
Defined.
Definition enum_out_eq_dec : forall a b : enum_out, {a = b} + {a <> b}.
Proof. decide equality; [apply list_eq_dec; apply infofield_eq_dec | apply list_eq_dec; apply value3_eq_dec | apply str_eq_dec]. Defined.
Definition renum_eq_dec : forall a b : renum, {a = b} + {a <> b}.
Proof. decide equality; try apply str_eq_dec; apply list_eq_dec; first [apply value3_eq_dec | apply infofield_eq_dec]. Defined.

(* what the real reflector returned for a message and the messages nested in it *)
Inductive otree := OT (k : rkind) (name desc : str) (props : list (option rprop)) (inner : list otree).

Inductive c04case :=
| C04Case (env : enum_env) (xs : list xprop) (obs : list fout) (refl : outcome (list (option rxprop)))
          (same : list bool)   (* per property: the direct oracle found declared = reflected *)
(* the link step: the declared properties and whether the real compiler accepted the object *)
| C04Link (env : enum_env) (xs : list xprop) (compiles : bool)
(* an enum: declaration, the compiled enum, the reflected enum schema *)
| C04Enum (e : enum_decl) (obs : enum_out) (refl : outcome renum)
(* the printed text: annotations of the in-memory fields, annotations of the
   fields after print + parse, and whether the two reflected schemas were equal *)
| C04Text (mem txt : list fout) (same_schema : bool)
(* the head of a root schema: declared kind / name / description; name, leading comment
   and (j5.ext.v1.message) arm of the compiled message; kind / name / description reflected *)
| C04Root (k : rkind) (name desc : str) (obs_name obs_comment : str) (obs_opt : option rkind)
          (refl : option (rkind * str * str))
(* the decoder of C04_text_concrete: a compiled field as a descriptor of the file
   model of family tool (label, type, names, comment, option trees), and the
   annotation record this harness dumps for the same field *)
| C04View (df : ProtoPrintFile.dfield) (fo : fout)
(* a whole compiled file as a descriptor of the file model, the types of its imports, the
   name of the root message, and what the real reflector read from the really printed
   and re-parsed text of that file *)
| C04File (env : enum_env) (imp : ProtoPrintFile.xsymtab) (d : ProtoPrintFile.dfile) (name : str)
          (text_refl : outcome (list (option rprop)))
(* a declaration tree with inline schemas (name of the root, tree), the tree of messages
   the real compiler emitted, and the root schema the real reflector returned for every
   message of that tree (None: reflection failed somewhere) *)
| C04Tree (env : enum_env) (name : str) (s : nschema) (obs : mtree) (refl : option otree)
(* a field with an inline enum: path of the declaring schema, position, property, inline
   declaration; the emitted field, the nested enum (simple name, values); the reflected
   property and the reflected enum root (schema name, enum) *)
| C04InlineEnum (here : list str) (idx : N) (d : prop) (i : ienum) (obs : fout) (obs_name : str) (obs_enum : enum_out)
                (refl : option rprop) (refl_enum : option (str * renum))
(* client property names through flatten levels (/repo 96a1ec3): the other objects of the package
   (name, client property names), the compiled tree of messages, and whether the real reader
   refused the package with its "property name is used twice" error *)
| C04Names (fixed : RulesClientNames.refs) (obs : mtree) (clash : bool).

(* options on the value field of a map entry (the key annotation) are not part of the file model *)
Definition drop_map_key (o : fout) : fout :=
  match fo_kind o with
  | KdMapEntry _ => FO (fo_json o) (fo_name o) (fo_number o) (fo_kind o) (fo_rep o) (fo_opt o) (fo_pres o)
                       (fo_val o) (fo_ext o) (fo_list o) None (fo_desc o)
  | _ => o
  end.

Definition rkind_eqb (a b : rkind) : bool :=
  match a, b with RObject, RObject | ROneof, ROneof => true | _, _ => false end.

Fixpoint mtree_eqb (a b : mtree) : bool :=
  match a, b with
  | MT o1 n1, MT o2 n2 =>
      str_eqb (ro_name o1) (ro_name o2) && str_eqb (ro_comment o1) (ro_comment o2)
      && match ro_msgopt o1, ro_msgopt o2 with Some x, Some y => rkind_eqb x y | None, None => true | _, _ => false end
      && list_eqb (fun x y => fout_eqb (c04_proj x) (c04_proj y)) (ro_fields o1) (ro_fields o2)
      && (fix go (l1 l2 : list mtree) : bool :=
            match l1, l2 with
            | [], [] => true
            | x :: r1, y :: r2 => mtree_eqb x y && go r1 r2
            | _, _ => false
            end) n1 n2
  end.

Fixpoint rtree_matches (a : rtree) (b : otree) : bool :=
  match a, b with
  | RT r i1, OT k n d ps i2 =>
      rkind_eqb (rr_kind r) k && str_eqb (rr_name r) n && str_eqb (rr_desc r) d
      && list_eqb2 (fun p q => match q with Some q => rprop_eqb p q | None => false end) (rr_props r) ps
      && (fix go (l1 : list rtree) (l2 : list otree) : bool :=
            match l1, l2 with
            | [], [] => true
            | x :: r1, y :: r2 => rtree_matches x y && go r1 r2
            | _, _ => false
            end) i1 i2
  end.

(* per property: is the reflected property the declared one (RulesCompile.norm_xprop)? *)
Fixpoint declared_eq (env : enum_env) (idx : N) (ds : list xprop) (rs : list (option rxprop)) : list bool :=
  match ds, rs with
  | d :: dr, r :: rr =>
      (match r with Some r => rxprop_eqb (norm_xprop env idx d) r | None => false end)
      :: declared_eq env (idx + 1)%N dr rr
  | _, _ => []
  end.

Definition c04_check (c : c04case) : bool :=
  match c with
  | C04Case env xs obs refl same =>
      (* whether a property reads back as declared: the Go oracle's verdict (declared
         vs reflected schema_j5pb values), the Coq specification norm_xprop compared with
         what the real reflector returned, and the fragment rt_ok the exactness theorem
         predicts — all three coincide. The compiler is compile_object: front checks
         (regexp.Compile = the RE2-fragment parser), write_prop, map annotation, link step *)
      match refl with
      | Ok rs => list_eqb Bool.eqb (map xrt_ok xs) same
                 && list_eqb Bool.eqb (declared_eq env 0%N xs rs) same
      | _ => true
      end &&
      forallb x_wf xs &&
      match compile_object re_frag_ok env xs with
      | Ok os => list_eqb (fun a b => fout_eqb (c04_proj a) (c04_proj b)) os obs
      | _ => false
      end &&
      match read_xprops env obs, refl with
      | Ok ps, Ok rs =>
          list_eqb2 (fun p r => match r with Some r => rxprop_eqb p r | None => false end) ps rs
      | Err _, Err _ => true
      | Panic _, Panic _ => true
      | _, _ => false
      end
  | C04Link env xs compiles =>
      Bool.eqb (match compile_object re_frag_ok env xs with Ok _ => true | _ => false end) compiles
  | C04Text mem txt same_schema =>
      (* the text clause: where the reader's view of the fields is the same, the
         reflected schemas are (C04_text_clause) *)
      implb (list_eqb (fun a b => fout_eqb (c04_proj a) (c04_proj b)) mem txt) same_schema
  | C04Root k name desc obs_name obs_comment obs_opt refl =>
      (* write_root / read_root / norm_root on an object without properties: the head only *)
      let rk_eqb (a b : rkind) := match a, b with RObject, RObject | ROneof, ROneof => true | _, _ => false end in
      match write_root (EE [] None []) (RD k name desc []) with
      | Ok o => str_eqb (ro_name o) obs_name && str_eqb (ro_comment o) obs_comment
                && match ro_msgopt o, obs_opt with Some a, Some b => rk_eqb a b | None, None => true | _, _ => false end
      | _ => false
      end &&
      match read_root (EE [] None []) (RO obs_name obs_comment obs_opt []), refl with
      | Ok r, Some (k', n', d') => rk_eqb (rr_kind r) k' && str_eqb (rr_name r) n' && str_eqb (rr_desc r) d'
      | Err _, None => true
      | _, _ => false
      end
  | C04View df fo =>
      fout_eqb (c04_proj (RulesView.view_field df)) (c04_proj (drop_map_key fo))
  | C04File env imp d name text_refl =>
      (* the hypotheses of C04_text_checked hold of the real descriptor, and the model chain
         print -> parse -> decode -> read yields what the real text path yields *)
      ProtoPrintFileWf.wf_dfile_b imp d && RulesTextModel.file_in_order_b d &&
      match RulesTextModel.read_msg_text env imp name d, text_refl with
      | Some (Ok ps), Ok rs =>
          list_eqb2 (fun p r => match r with Some r => rprop_eqb p r | None => false end) ps rs
      | Some (Err _), Err _ => true
      | _, _ => false
      end
  | C04Tree env name s obs refl =>
      (* inline schemas: the emitted tree of messages, the reflected tree of schemas, and the
         declared tree (norm_schema) against the reflected one: equal exactly on the fragment *)
      match write_schema env [] name s with
      | Ok m => mtree_eqb m obs
      | _ => false
      end &&
      match read_tree env [] obs, refl with
      | Ok t, Some o => rtree_matches t o
      | Err _, None => true
      | _, _ => false
      end &&
      Bool.eqb (tree_rt s) (match refl with Some o => rtree_matches (norm_schema env [] name s) o | None => false end)
  | C04Names fixed obs clash =>
      Bool.eqb (negb (RulesClientNames.tree_names_ok fixed [] obs)) clash
  | C04InlineEnum here idx d i obs obs_name obs_enum refl refl_enum =>
      let env := env_of_decl (ie_decl (p_name d) i) in
      let same (x : rprop * (str * renum)) : bool :=
        match refl, refl_enum with
        | Some rp, Some (rn, re) =>
            rprop_eqb (fst x) rp && str_eqb (fst (snd x)) rn && (if renum_eq_dec (snd (snd x)) re then true else false)
        | _, _ => false
        end in
      match write_inline_enum idx d i with
      | Ok (o, (n, eo)) =>
          fout_eqb (c04_proj o) (c04_proj obs) && str_eqb n obs_name
          && (if enum_out_eq_dec eo obs_enum then true else false)
      | _ => false
      end &&
      match read_inline_enum env here (obs, (obs_name, obs_enum)) with
      | Ok x => same x
      | Err _ => match refl, refl_enum with Some _, Some _ => false | _, _ => true end
      | _ => false
      end &&
      (* the declared schema against the real reflector: equal exactly on the fragment *)
      Bool.eqb (inline_enum_rt d i) (same (norm_inline_enum here idx d i))
  | C04Enum e obs refl =>
      (* the declared enum (norm_enum, from the declaration alone) against the real reflector:
         equal exactly on the fragment enum_rt (C04_enum_exact) *)
      match refl with
      | Ok b => Bool.eqb (enum_rt e) (if renum_eq_dec (norm_enum e) b then true else false)
      | _ => true
      end &&
      (if enum_out_eq_dec (write_enum e) obs then true else false) &&
      match read_enum obs, refl with
      | Ok a, Ok b => if renum_eq_dec a b then true else false
      | Err _, Err _ => true
      | Panic _, Panic _ => true
      | _, _ => false
      end
  end.

(* CmpbOrder.v — order-parameterised model for C14 (compilation and printing are deterministic).

   Determinism of a Gallina function is vacuous, so every place where the Go code iterates a map,
   ranges over protobuf extension fields / map entries, or depends on the order in which the file
   source lists files and packages, is an EXPLICIT ORDER PARAMETER here: the functions below take
   the sequence in the order the runtime happened to deliver it, and the theorems
   (proofs/CmpbOrderProofs.v) say the result is the same for every permutation.

   Modelled (the order-relevant skeleton of the compile and print path):
     ensure_import      builders.go fileContext.ensureImport        (dedupe, append, sort.Strings)
     sort_names         packages.go CompilePackage                  (range pkg.Files; sort.Strings)
     include_io         packages.go Package.includeIO               (range summary.Exports into a map)
     options_for        optionreflect/builder.go OptionsFor         (Message.Range; sort by Desc.Index)
     field_options      protoprint/options.go optionsFor            (then SortFunc by qualified name)
     map_entries        optionreflect/walk.go walkOptionMap         (Map.Range; sort by printed key)
     load / compile     packages.go loadPackage / resolveDependencies / CompilePackage on a PackageSet
                        (package cache, dependency iteration order, file listing order, call order)
   The conversion of one file (C02/C07) and protocompile's link step are parameters of the skeleton:
   functions of the file and of the resolved exports, applied at the places the Go code applies them.
   Byte strings are lists of N (sort.Strings compares bytewise). No proofs here. *)
From Coq Require Import List NArith Bool.
Import ListNotations.
Local Open Scope N_scope.

Definition bytes := list N.

(* bytewise lexicographic order, as Go's string comparison *)
Fixpoint bleb (a b : bytes) : bool :=
  match a, b with
  | [], _ => true
  | _ :: _, [] => false
  | x :: r, y :: s => if x <? y then true else if y <? x then false else bleb r s
  end.
Fixpoint beqb (a b : bytes) : bool :=
  match a, b with
  | [], [] => true
  | x :: r, y :: s => (x =? y) && beqb r s
  | _, _ => false
  end.

(* ---- generic insertion sort by a key (the result of any correct sort is characterised in the
   proofs; insertion sort is the executable representative) *)
Section Sort.
  Context {A K : Type}.
  Variable key : A -> K.
  Variable leb : K -> K -> bool.
  Fixpoint insert (x : A) (l : list A) : list A :=
    match l with
    | [] => [x]
    | y :: r => if leb (key x) (key y) then x :: l else y :: insert x r
    end.
  Fixpoint isort (l : list A) : list A :=
    match l with
    | [] => []
    | x :: r => insert x (isort r)
    end.
End Sort.

Definition sort_strings (l : list bytes) : list bytes := isort (fun x => x) bleb l.

(* ---- builders.go ensureImport: return when already present, else append and sort.Strings *)
Definition ensure_import (deps : list bytes) (p : bytes) : list bytes :=
  if existsb (beqb p) deps then deps else sort_strings (deps ++ [p]).
(* the Dependency list after a sequence of ensureImport calls, in call order *)
Definition ensure_all (calls : list bytes) : list bytes := fold_left ensure_import calls [].

(* ---- packages.go CompilePackage: `for filename := range pkg.Files` (map order), then sort.Strings *)
Definition sort_names (range_order : list bytes) : list bytes := sort_strings range_order.

(* ---- packages.go includeIO: `for _, exp := range summary.Exports { pkg.Exports[exp.Name] = exp }`
   a Go map as an association list kept sorted by key; assignment replaces *)
Section Maps.
  Context {V : Type}.
  Fixpoint map_set (k : bytes) (v : V) (m : list (bytes * V)) : list (bytes * V) :=
    match m with
    | [] => [(k, v)]
    | (k', v') :: r =>
        if beqb k k' then (k, v) :: r
        else if bleb k k' then (k, v) :: m
        else (k', v') :: map_set k v r
    end.
  Fixpoint map_get (k : bytes) (m : list (bytes * V)) : option V :=
    match m with
    | [] => None
    | (k', v) :: r => if beqb k k' then Some v else map_get k r
    end.
  Definition include_io (exports : list (bytes * V)) (m : list (bytes * V)) : list (bytes * V) :=
    fold_left (fun acc kv => map_set (fst kv) (snd kv) acc) exports m.
End Maps.

(* ---- printing of options *)
(* one option found on a descriptor: the source line it was written on (0 = unknown: everything the
   j5s converter emits, and options of parsed .proto files whose location cannot be identified), the
   extension's index in its defining file, the extension's full name, its qualified name as printed *)
Record opt := mkOpt { o_line : N; o_index : N; o_full : bytes; o_name : bytes }.

(* lexicographic order on (N, K) pairs *)
Definition lexN {K} (leb : K -> K -> bool) (x y : N * K) : bool :=
  if fst x <? fst y then true else if fst y <? fst x then false else leb (snd x) (snd y).

(* optionreflect optionsByLocation.Less (after the repair of finding 28): options with a known line
   first, by line; the others by extension index; ties by full name *)
Definition opt_key (o : opt) : N * (N * (N * bytes)) :=
  (if o_line o =? 0 then 1 else 0, (o_line o, (if o_line o =? 0 then o_index o else 0, o_full o))).
Definition opt_key_leb : N * (N * (N * bytes)) -> N * (N * (N * bytes)) -> bool := lexN (lexN (lexN bleb)).

(* OptionsFor: the options in protobuf Range order, sorted *)
Definition options_for (range_order : list opt) : list opt := isort opt_key opt_key_leb range_order.
(* protoprint optionsFor (fields and enum values): re-sorted by qualified name *)
Definition field_options (range_order : list opt) : list opt := isort o_name bleb (options_for range_order).
(* walkOptionMap: entries in Map.Range order, sorted by the printed key (after the repair) *)
Definition map_entries (range_order : list (bytes * bytes)) : list (bytes * bytes) :=
  isort (fun kv => fst kv) bleb range_order.

(* ---- linker.go markOptionImportsUsed: proto.RangeExtensions over an options message, stopping at the
   first extension that does not resolve through the file's imports; the result is that error, if any *)
Definition first_unresolved {A} (resolves : A -> bool) (range_order : list A) : option A :=
  find (fun x => negb (resolves x)) range_order.

(* ---- the loop bodies of the remaining unordered iterations (MapRangeGen.sites): each takes the sequence in the
   order the runtime delivered it; proofs/CmpbOrderProofs.v proves what each leaves independent of that order and
   runs each on two orders ---------------------------------------------------------------------------------- *)
(* j5convert setJ5Ext through RangeField, j5reflect copyReflect: for every populated field of the source message, in
   Range order: find the destination field of that name; none / another kind -> stop with an error (copyReflect: panic);
   else dest.Set(field, value).  None = the error (its text names the field: not observed), Some = the filled message *)
Definition copy_fields {V} (dest_has : bytes -> bool) (range_order : list (bytes * V)) (dest : list (bytes * V))
  : option (list (bytes * V)) :=
  fold_left (fun acc kv => match acc with
                           | None => None
                           | Some m => if dest_has (fst kv) then Some (map_set (fst kv) (snd kv) m) else None
                           end) range_order (Some dest).
(* j5convert SourceSummary: `for _, ref := range importMap.vals { if ref.used { continue }; ec.WarnPos(...) }` *)
Definition warn_unused {I W} (used : I -> bool) (warn : I -> W) (range_order : list I) : list W :=
  map warn (filter (fun i => negb (used i)) range_order).
(* walker/schema PrintScope: one log line per child field *)
Definition log_children {C W} (line : C -> W) (range_order : list C) : list W := map line range_order.
(* protobuild LintAll: the package's files in map order; the first one whose link fails, or after which the error
   collector is not empty, ends the loop with that file's report *)
Definition lint_all {File} (stops : File -> bool) (range_order : list File) : option File := find stops range_order.
(* j5reflect mutableMapField.Range / leafMapField.Range: the callback per entry, stopping at its first error *)
Definition range_entries {E Err} (cb : E -> option Err) (range_order : list E) : option Err :=
  fold_left (fun acc e => match acc with Some err => Some err | None => cb e end) range_order None.
(* protobuild findFileByPath: found / not found is the map lookup; maps.Keys(pkg.Files) only feeds the error text *)
Definition find_file_by_path {R} (files : list (bytes * R)) (keys_order : list bytes) (name : bytes) : R + list bytes :=
  match map_get name files with Some r => inl r | None => inr keys_order end.
(* sourcewalk buildFieldNode: `tn.Range(func(fd, v) bool { name = fd.Name(); return false })`: the first populated
   member of the Field.type oneof wrapper (a oneof: at most one is populated) *)
Definition first_member (range_order : list bytes) : bytes := match range_order with x :: _ => x | [] => [] end.
(* sourcewalk SourceNode.child: `options := maps.Keys(...)` is read only under `if false`: the node built next does
   not mention it *)
Definition child_ignores_options {A} (keys_order : list bytes) (node : A) : A := node.
(* walker/schema allChildFields (aliases) and _buildSpec (newAliases): `if _, ok := m[name]; !ok { m[name] = ... }`,
   in allChildFields after `schema, err := WalkToProperty(path...); if err != nil { continue }` *)
Definition add_absent {P V} (walk : bytes * P -> option V) (range_order : list (bytes * P)) (children : list (bytes * V))
  : list (bytes * V) :=
  fold_left (fun acc np => match walk np with
                           | None => acc
                           | Some s => match map_get (fst np) acc with Some _ => acc | None => map_set (fst np) s acc end
                           end) range_order children.
(* walker/schema listChildren / listAttributes / listBlocks: the (filtered) keys in map order, then sort.Strings *)
Definition list_fields {V} (can : V -> bool) (range_order : list (bytes * V)) : list bytes :=
  sort_strings (map fst (filter (fun kv => can (snd kv)) range_order)).

(* protobuild Package.checkDuplicateExports (fix 5b3591a; called by loadLocalPackage for every file before includeIO):
   `names := maps.Keys(file.Summary.Exports); sort.Strings(names)`, then the first name the package already exports
   ends loading with an error positioned in this file.  On a valid bundle (no type exported twice in a package) it
   never fires *)
Definition check_duplicate_exports {V} (pkg_exports : list (bytes * V)) (keys_order : list bytes) : option bytes :=
  find (fun n => match map_get n pkg_exports with Some _ => true | None => false end) (sort_strings keys_order).

(* ---- package loading on a PackageSet ------------------------------------------------------- *)
(* A bundle: packages by name, each a list of source files; a file has a name, the type names it
   exports and the packages it depends on. [F] is whatever else a file carries (its content),
   [D] a produced descriptor. *)
Section Load.
  Context {F D : Type}.
  (* f_outputs: the names of the descriptors the file produces (a .j5s yields its main file and, when it
     declares services / topics, the sub-package files; FileSummary.ProducesFiles) *)
  Record srcfile := mkFile { f_name : bytes; f_exports : list bytes; f_deps : list bytes; f_outputs : list bytes; f_body : F }.
  Definition bundle := list (bytes * list srcfile).

  (* what a file's conversion may look at: the exports of its own package and of the package's
     direct dependencies (name -> defining file), as Go maps *)
  Definition exports := list (bytes * bytes).
  Record env := mkEnv { e_own : exports; e_deps : list (bytes * exports) }.
  (* conversion + link of one file into the descriptor of a given output name: a parameter of the skeleton *)
  Variable convert : env -> srcfile -> bytes -> D.
  Definition file_outputs (e : env) (f : srcfile) : list (bytes * D) := map (fun o => (o, convert e f o)) (f_outputs f).

  (* a loaded package (protobuild.Package): Exports, DirectDependencies (their exports), Files *)
  Record pkg := mkPkg { p_exports : exports; p_deps : list (bytes * exports); p_files : list (bytes * D) }.

  (* ORDER PARAMETERS: how the file source lists the files of a package; the iteration order of the
     `deps` map in resolveDependencies; the iteration order of pkg.Files in CompilePackage.
     Each is an arbitrary reordering of what it is given (the theorems quantify over all of them
     that permute their argument). *)
  Variable list_files : bytes -> list srcfile -> list srcfile.
  Variable range_deps : bytes -> list bytes -> list bytes.
  Variable range_files : bytes -> list bytes -> list bytes.

  Fixpoint find_pkg (n : bytes) (b : bundle) : option (list srcfile) :=
    match b with
    | [] => None
    | (n', fs) :: r => if beqb n n' then Some fs else find_pkg n r
    end.

  (* includeIO over the files in listing order: exports map and the `deps` set (a Go map used as a set) *)
  Definition file_exports (f : srcfile) : exports := map (fun x => (x, f_name f)) (f_exports f).
  Definition collect_exports (files : list srcfile) : exports :=
    fold_left (fun acc f => include_io (file_exports f) acc) files [].
  Definition collect_deps (own : bytes) (files : list srcfile) : list (bytes * unit) :=
    let all := fold_left (fun acc f => include_io (map (fun d => (d, tt)) (f_deps f)) acc) files [] in
    filter (fun kv => negb (beqb (fst kv) own)) all.          (* delete(deps, pkg.Name) *)

  (* loadPackage with the PackageSet cache; fuel bounds the dependency depth (the Go code detects
     cycles through the resolveBaton chain and returns an error; out of fuel = that error) *)
  Fixpoint load (fuel : nat) (b : bundle) (cache : list (bytes * pkg)) (name : bytes)
    : option (list (bytes * pkg) * pkg) :=
    match map_get name cache with
    | Some p => Some (cache, p)
    | None =>
      match fuel with
      | O => None
      | S fuel' =>
        match find_pkg name b with
        | None => None
        | Some files0 =>
          let files := list_files name files0 in
          let own := collect_exports files in
          let deps := range_deps name (map fst (collect_deps name files)) in
          (* resolveDependencies: load each dependency in map-iteration order, threading the cache *)
          let step := fun (acc : option (list (bytes * pkg) * list (bytes * exports))) (d : bytes) =>
            match acc with
            | None => None
            | Some (c, ds) =>
                match load fuel' b c d with
                | None => None
                | Some (c', pd) => Some (c', map_set d (p_exports pd) ds)
                end
            end in
          match fold_left step deps (Some (cache, [])) with
          | None => None
          | Some (c, ds) =>
              let e := mkEnv own ds in
              (* pkg.Files[desc.GetName()] = ... for every descriptor of every source file, in listing order *)
              let produced := fold_left (fun acc f => include_io (file_outputs e f) acc) files [] in
              let p := mkPkg own ds produced in
              Some (map_set name p c, p)
          end
        end
      end
    end.

  (* CompilePackage: load, then the file names in map order, sorted, each resolved *)
  Definition compile_package (fuel : nat) (b : bundle) (cache : list (bytes * pkg)) (name : bytes)
    : option (list (bytes * pkg) * list (bytes * D)) :=
    match load fuel b cache name with
    | None => None
    | Some (c, p) =>
        let names := sort_names (range_files name (map fst (p_files p))) in
        Some (c, flat_map (fun n => match map_get n (p_files p) with Some d => [(n, d)] | None => [] end) names)
    end.

  (* a sequence of CompilePackage calls on one PackageSet (call order / reuse) *)
  Fixpoint compile_seq (fuel : nat) (b : bundle) (cache : list (bytes * pkg)) (calls : list bytes)
    : list (bytes * pkg) :=
    match calls with
    | [] => cache
    | n :: r => match compile_package fuel b cache n with
                | Some (c, _) => compile_seq fuel b c r
                | None => compile_seq fuel b cache r
                end
    end.
End Load.

(* ---- the link phase of CompilePackage (linker.go resolveAll / resolveFile / linkResult) -------- *)
(* After loading, CompilePackage links each of the package's files (sorted names) with a fresh
   searchLinker: resolveFile finds the descriptor (findFileByPath over the loaded packages), returns
   the cached SearchResult.Linked when present, else links the file's Dependency list first, in
   order, recursively, then the file itself (linker.Link + InterpretOptions), and caches the result
   in the SearchResult, which lives in the PackageSet across CompilePackage calls.
   Parameters: [lookup] = findFileByPath (by C14_compile_package_spec a function of the bundle),
   [deps_of] = a descriptor's Dependency list, [link1] = linking one file given its linked
   dependencies.  The per-call symbol table (linker.Symbols) only detects duplicate symbols, which a
   valid bundle does not have: it is not modelled. *)
Section Link.
  Context {D L : Type}.
  Variable lookup : bytes -> option D.
  Variable deps_of : D -> list bytes.
  Variable link1 : D -> list L -> L.

  Fixpoint link_file (fuel : nat) (cache : list (bytes * L)) (name : bytes) : option (list (bytes * L) * L) :=
    match map_get name cache with
    | Some l => Some (cache, l)                       (* result.Linked != nil *)
    | None =>
      match fuel with
      | O => None                                     (* the Go code reports a circular file import *)
      | S fuel' =>
        match lookup name with
        | None => None
        | Some d =>
          let step := fun (acc : option (list (bytes * L) * list L)) (dep : bytes) =>
            match acc with
            | None => None
            | Some (c, ls) =>
                match link_file fuel' c dep with
                | None => None
                | Some (c', l) => Some (c', ls ++ [l])
                end
            end in
          match fold_left step (deps_of d) (Some (cache, [])) with
          | None => None
          | Some (c, ls) => let l := link1 d ls in Some (map_set name l c, l)
          end
        end
      end
    end.

  (* resolveAll: the package's files in sorted-name order, threading the cache *)
  Fixpoint link_all (fuel : nat) (cache : list (bytes * L)) (names : list bytes) : option (list (bytes * L) * list L) :=
    match names with
    | [] => Some (cache, [])
    | n :: r =>
        match link_file fuel cache n with
        | None => None
        | Some (c, l) => match link_all fuel c r with
                         | None => None
                         | Some (c', ls) => Some (c', l :: ls)
                         end
        end
    end.

  (* what linking a file IS, without any cache *)
  Fixpoint spec_link (fuel : nat) (name : bytes) : option L :=
    match fuel with
    | O => None
    | S fuel' =>
      match lookup name with
      | None => None
      | Some d =>
        match fold_right (fun dep acc => match spec_link fuel' dep, acc with
                                         | Some l, Some ls => Some (l :: ls)
                                         | _, _ => None
                                         end) (Some []) (deps_of d) with
        | Some ls => Some (link1 d ls)
        | None => None
        end
      end
    end.
End Link.

(* ---- CompilePackage as a whole: load, sort the file names, link them ------------------------ *)
(* The link phase looks files up through PackageSet.findFileByPath: the package is a function of the path
   (sourceResolver.packageForFile / SplitPackageFromFilename: [owner]), the file is taken from that package's
   Files map if the package has been loaded.  Both caches live in the PackageSet across calls: the loaded
   packages ([pc]) and the SearchResult.Linked results ([lc]). *)
Section Compose.
  Context {F D L : Type}.
  Variable convert : env -> @srcfile F -> bytes -> D.
  Variable list_files : bytes -> list (@srcfile F) -> list (@srcfile F).
  Variable range_deps : bytes -> list bytes -> list bytes.
  Variable range_files : bytes -> list bytes -> list bytes.
  Variable owner : bytes -> bytes.
  (* a path outside the bundle's local prefixes (hasAPrefix(filename, localPrefixes) false) is not looked up among the
     loaded packages but handed to the dependency resolver (dependencies.go findFileByPath: built-in files and the files
     of the dependency set, by path; its resultCache only memoises a function of the dependency set, and keeps the
     SearchResult - hence its Linked cache - alive across calls) *)
  Variable is_local : bytes -> bool.
  Variable ext_file : bytes -> option D.
  Variable deps_of : D -> list bytes.
  Variable link1 : D -> list L -> L.

  Definition lookup_in (pc : list (bytes * @pkg D)) (path : bytes) : option D :=
    if is_local path then
      match map_get (owner path) pc with
      | Some p => map_get path (p_files p)
      | None => None
      end
    else ext_file path.

  Definition compile_and_link (fuel lfuel : nat) (b : @bundle F) (pc : list (bytes * @pkg D)) (lc : list (bytes * L))
             (name : bytes) : option (list (bytes * @pkg D) * list (bytes * L) * list (bytes * L)) :=
    match compile_package convert list_files range_deps range_files fuel b pc name with
    | None => None
    | Some (pc', out) =>
        match link_all (lookup_in pc') deps_of link1 lfuel lc (map fst out) with
        | None => None
        | Some (lc', ls) => Some (pc', lc', combine (map fst out) ls)
        end
    end.

  (* a history of CompilePackage calls on one PackageSet: both caches are threaded; a failed call leaves them *)
  Fixpoint compile_link_seq (fuel lfuel : nat) (b : @bundle F) (pc : list (bytes * @pkg D)) (lc : list (bytes * L))
           (calls : list bytes) : list (bytes * @pkg D) * list (bytes * L) :=
    match calls with
    | [] => (pc, lc)
    | n :: r => match compile_and_link fuel lfuel b pc lc n with
                | Some (pc', lc', _) => compile_link_seq fuel lfuel b pc' lc' r
                | None => compile_link_seq fuel lfuel b pc lc r
                end
    end.
End Compose.

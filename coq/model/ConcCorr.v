(* ConcCorr.v — correspondence cases for C10: a forced schedule run on the real
   SchemaCache / Codec (harness/cmd/run_conc), checked against the model by vm_compute. *)
From Coq Require Import String List NArith Bool.
From J5V.lib Require Import Corr.
From J5V.model Require Import Conc ConcSites.
Import ListNotations.

Fixpoint utree_eqb (a b : utree) : bool :=
  match a, b with
  | UNode n ks, UNode m ls =>
      N.eqb n m &&
      (fix go (xs ys : list utree) : bool :=
         match xs, ys with
         | [], [] => true
         | x :: xr, y :: yr => utree_eqb x y && go xr yr
         | _, _ => false
         end) ks ls
  | UCut n, UCut m => N.eqb n m
  | UUnlinked n, UUnlinked m => N.eqb n m
  | UBad, UBad => true
  | _, _ => false
  end.

Definition result_eqb (a b : result) : bool :=
  match a, b with
  | RErr, RErr => true
  | RUnlinked, RUnlinked => true
  | RNil, RNil => true
  | ROk x, ROk y => utree_eqb x y
  | _, _ => false
  end.

(* what the harness saw of one completed call *)
Inductive obs :=
| ORes (r : result) (id : N)
    (* SchemaCache.Schema: error / nil / the unfolding of the returned schema, and which object
       was returned: id = the index, in order of first appearance over (thread, call), of the
       returned pointer among all schemas returned in this case (0 when no schema) *)
| OCall (cls solo_cls : N) (same : bool).
    (* a codec call (encode / decode / query-decode): its class (0 returned normally, 1 returned an
       error, 2 panicked), the class of the same call run alone on a fresh codec, and whether it
       returned exactly what it returns alone (encode output bytes / decoded message / error text) *)

(* depth, type universe, calls per thread, schedule (incl. the drain), the hook each
   scheduled thread was at after its step, the results of the completed calls *)
Inductive c10case :=
| C10Case (k : N) (g : graph) (calls : list (list name)) (sched : list N) (trace : list N) (res : list (list obs)).

Definition obs_ok (d : disc) (k : nat) (g : graph) (n : name) (m : result) (o : obs) : bool :=
  match o with
  | ORes r _ => result_eqb m r
  | OCall cls solo_cls same =>
      if result_eqb m (result_solo k g n) then
        N.eqb cls solo_cls &&
        match m, d with
        | RErr, Unguarded => true   (* without the lock the TEXT of a build error (the path to the failing
                                       field) depends on what other threads have registered meanwhile,
                                       which the model does not track; the class is still compared *)
        | _, _ => same
        end
      else match m with
           | RErr | RUnlinked => negb same && N.eqb cls 1    (* NewRoot got another error, or an error where alone it gets a schema *)
           | RNil => negb same && negb (N.eqb cls 0)
           | ROk _ => true      (* a schema with an unlinked part: depends on the message *)
           end
  end.

Fixpoint obs_list_ok (d : disc) (k : nat) (g : graph) (ns : list name) (ms : list result) (os : list obs) : bool :=
  match ms, os with
  | [], [] => true
  | m :: mr, o :: or =>
      match ns with
      | n :: nr => obs_ok d k g n m o && obs_list_ok d k g nr mr or
      | [] => false
      end
  | _, _ => false
  end.

Fixpoint threads_ok (d : disc) (k : nat) (g : graph) (calls : list (list name)) (ms : list (list result)) (os : list (list obs)) : bool :=
  match calls, ms, os with
  | [], [], [] => true
  | c :: cr, m :: mr, o :: or => obs_list_ok d k g c m o && threads_ok d k g cr mr or
  | _, _, _ => false
  end.

(* ---- identity of the returned objects ------------------------------------------------- *)
(* the cells handed to thread t, in order *)
Definition cells_of (t : tid) (rs : list (tid * name * cellid)) : list cellid :=
  map (fun x => snd x) (filter (fun x => Nat.eqb (fst (fst x)) t) rs).

(* per result of a thread, the cell it handed out (None: no schema) *)
Fixpoint cells_for (ms : list result) (cs : list cellid) : list (option cellid) :=
  match ms with
  | [] => []
  | ROk _ :: r =>
      match cs with
      | c :: cr => Some c :: cells_for r cr
      | [] => None :: cells_for r []
      end
  | _ :: r => None :: cells_for r cs
  end.

Fixpoint id_pairs (cs : list (option cellid)) (os : list obs) : list (cellid * N) :=
  match cs, os with
  | Some c :: cr, ORes (ROk _) id :: or => (c, id) :: id_pairs cr or
  | _ :: cr, _ :: or => id_pairs cr or
  | _, _ => []
  end.

(* the same object in the model iff the same pointer in the implementation *)
Definition ids_consistent (ps : list (cellid * N)) : bool :=
  forallb (fun a => forallb (fun b => Bool.eqb (Nat.eqb (fst a) (fst b)) (N.eqb (snd a) (snd b))) ps) ps.

Fixpoint all_id_pairs (t : tid) (rs : list (tid * name * cellid)) (ms : list (list result)) (os : list (list obs)) : list (cellid * N) :=
  match ms, os with
  | m :: mr, o :: or => id_pairs (cells_for m (cells_of t rs)) o ++ all_id_pairs (S t) rs mr or
  | _, _ => []
  end.

Definition c10_check_with (d : disc) (c : c10case) : bool :=
  match c with
  | C10Case k g calls sched trace res =>
      let k' := N.to_nat k in
      let sch := map N.to_nat sched in
      (* the forced schedules of the harness run on a real sync.Mutex with every other
         goroutine parked: Unlock wakes the longest-waiting goroutine, which takes the lock
         and runs up to its cache.lookup hook before the harness regains control — the
         first-come-first-served hand-off policy over the machine of Conc.v *)
      let (st, tr) := hrun_trace fifo_grant d k' g calls sch in
      let rs := rets d k' g calls (expand fifo_grant d k' g sch (init calls)) in
      nlist_eqb tr trace && threads_ok d k' g calls (results st) res &&
      ids_consistent (all_id_pairs 0 rs (results st) res)
  end.

(* the model is evaluated under the discipline the Go source follows now *)
Definition c10_check (c : c10case) : bool := c10_check_with code_disc c.

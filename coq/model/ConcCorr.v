(* ConcCorr.v — correspondence cases for C10: a forced schedule run on the real
   SchemaCache / Codec (harness/cmd/run_conc), checked against the model by vm_compute. *)
From Coq Require Import String List NArith Bool.
From J5V.lib Require Import Corr.
From J5V.model Require Import Conc ConcSites.
Import ListNotations.

Fixpoint utree_eqb (a b : utree) : bool :=
  match a, b with
  | UNode n ks, UNode m ls =>
      N.eqb n m &&
      (fix go (xs ys : list utree) : bool :=
         match xs, ys with
         | [], [] => true
         | x :: xr, y :: yr => utree_eqb x y && go xr yr
         | _, _ => false
         end) ks ls
  | UCut n, UCut m => N.eqb n m
  | UUnlinked n, UUnlinked m => N.eqb n m
  | UBad, UBad => true
  | _, _ => false
  end.

Definition result_eqb (a b : result) : bool :=
  match a, b with
  | RErr, RErr => true
  | RNil, RNil => true
  | ROk x, ROk y => utree_eqb x y
  | _, _ => false
  end.

(* what the harness saw of one completed call *)
Inductive obs :=
| ORes (r : result)   (* SchemaCache.Schema: error, or the unfolding of the returned schema *)
| OSame (b : bool).   (* a codec call: did it return what it returns when run alone *)

(* depth, type universe, calls per thread, schedule (incl. the drain), the hook each
   scheduled thread was at after its step, the results of the completed calls *)
Inductive c10case :=
| C10Case (k : N) (g : graph) (calls : list (list name)) (sched : list N) (trace : list N) (res : list (list obs)).

Definition obs_ok (k : nat) (g : graph) (n : name) (m : result) (o : obs) : bool :=
  match o with
  | ORes r => result_eqb m r
  | OSame b =>
      if result_eqb m (result_solo k g n) then b
      else match m with
           | RErr | RNil => negb b   (* the codec call fails: NewRoot got no schema *)
           | ROk _ => true      (* a schema with an unlinked part: depends on the message *)
           end
  end.

Fixpoint obs_list_ok (k : nat) (g : graph) (ns : list name) (ms : list result) (os : list obs) : bool :=
  match ms, os with
  | [], [] => true
  | m :: mr, o :: or =>
      match ns with
      | n :: nr => obs_ok k g n m o && obs_list_ok k g nr mr or
      | [] => false
      end
  | _, _ => false
  end.

Fixpoint threads_ok (k : nat) (g : graph) (calls : list (list name)) (ms : list (list result)) (os : list (list obs)) : bool :=
  match calls, ms, os with
  | [], [], [] => true
  | c :: cr, m :: mr, o :: or => obs_list_ok k g c m o && threads_ok k g cr mr or
  | _, _, _ => false
  end.

Definition c10_check_with (d : disc) (c : c10case) : bool :=
  match c with
  | C10Case k g calls sched trace res =>
      let k' := N.to_nat k in
      (* the forced schedules of the harness run on a real sync.Mutex with every other
         goroutine parked: Unlock wakes the longest-waiting goroutine, which takes the lock
         and runs up to its cache.lookup hook before the harness regains control — the
         first-come-first-served hand-off policy over the machine of Conc.v *)
      let (st, tr) := hrun_trace fifo_grant d k' g calls (map N.to_nat sched) in
      nlist_eqb tr trace && threads_ok k' g calls (results st) res
  end.

(* the model is evaluated under the discipline the Go source follows now *)
Definition c10_check (c : c10case) : bool := c10_check_with code_disc c.

(* ConcCorr.v — correspondence cases for C10: a forced schedule run on the real
   SchemaCache / Codec (harness/cmd/run_conc), checked against the model by vm_compute. *)
From Coq Require Import String List NArith Bool.
From J5V.lib Require Import Corr.
From J5V.model Require Import Conc ConcKey ConcSites.
Import ListNotations.

Fixpoint utree_eqb (a b : utree) : bool :=
  match a, b with
  | UNode n ks, UNode m ls =>
      N.eqb n m &&
      (fix go (xs ys : list utree) : bool :=
         match xs, ys with
         | [], [] => true
         | x :: xr, y :: yr => utree_eqb x y && go xr yr
         | _, _ => false
         end) ks ls
  | UCut n, UCut m => N.eqb n m
  | UUnlinked n, UUnlinked m => N.eqb n m
  | UBad, UBad => true
  | _, _ => false
  end.

Definition result_eqb (a b : result) : bool :=
  match a, b with
  | RErr, RErr => true
  | RUnlinked, RUnlinked => true
  | RNil, RNil => true
  | ROk x, ROk y => utree_eqb x y
  | _, _ => false
  end.

(* what the harness saw of one completed call *)
Inductive obs :=
| ORes (r : result) (id : N)
    (* SchemaCache.Schema: error / nil / the unfolding of the returned schema, and which object
       was returned: id = the index, in order of first appearance over (thread, call), of the
       returned pointer among all schemas returned in this case (0 when no schema) *)
| OCall (cls solo_cls : N) (same : bool).
    (* a codec call (encode / decode / query-decode): its class (0 returned normally, 1 returned an
       error, 2 panicked), the class of the same call run alone on a fresh codec, and whether it
       returned exactly what it returns alone (encode output bytes / decoded message / error text) *)

(* ---- exposed oneofs -------------------------------------------------------------------- *)
(* A proto oneof with (j5.ext.v1.oneof).expose of message M is reflected as a schema of its
   own, named M_<oneof>.  messageProperties registers it through refTo BEFORE the fields of M
   and links it at once (refto.lookup, refto.insert, ref.linked — exactly what the machine
   does for a reference to a type without references); the member fields are then processed
   in M's own field loop, in field order, and appended to the oneof's properties.  So in the
   type universe handed to the machine M refers first to its exposed oneofs (leaf nodes),
   then to all its field types, and the machine performs the cache operations of the real
   build in the real order.  What a caller sees — the members grouped under the oneof
   property, which stands where the first member stood — is this view of the machine's
   result.  (Not modelled: the error "placeholder already exists" when the name M_<oneof>
   is already registered, which needs a message of that very name in the same package.)
   expo: per message, in order of declaration, (name of the oneof, position of its first
   member among the fields of M, number of members); members are consecutive fields. *)
Definition expo := list (name * list (name * N * N)).

Fixpoint expo_of (ex : expo) (n : name) : list (name * N * N) :=
  match ex with
  | [] => []
  | (m, gs) :: r => if N.eqb m n then gs else expo_of r n
  end.

(* the oneof whose first member is field p, with its position among the oneofs of the message *)
Fixpoint group_at (gs : list (name * N * N)) (i : nat) (p : nat) : option (nat * nat) :=
  match gs with
  | [] => None
  | (_, start, len) :: r => if Nat.eqb (N.to_nat start) p then Some (i, N.to_nat len) else group_at r (S i) p
  end.

(* fields from position p on; os = the subtrees of the message's oneof cells *)
Fixpoint assemble (fuel : nat) (gs : list (name * N * N)) (os fs : list utree) (p : nat) : list utree :=
  match fuel with
  | O => []
  | S fuel' =>
      match fs with
      | [] => []
      | f :: fr =>
          match group_at gs 0 p with
          | Some (i, len) =>
              (match nth i os UBad with
               | UNode o _ => UNode o (firstn len fs)      (* linked: its properties are the members *)
               | other => other                             (* cut / not linked: nothing below it is seen *)
               end) :: assemble fuel' gs os (skipn len fs) (p + len)
          | None => f :: assemble fuel' gs os fr (S p)
          end
      end
  end.

Fixpoint regroup (ex : expo) (t : utree) : utree :=
  match t with
  | UNode n kids =>
      let kids' := map (regroup ex) kids in
      match expo_of ex n with
      | [] => UNode n kids'
      | gs =>
          let e := length gs in
          UNode n (assemble (S (length kids')) gs (firstn e kids') (skipn e kids') 0)
      end
  | other => other
  end.

(* the unfolding to depth k of a tree given to a greater depth *)
Fixpoint cut (k : nat) (t : utree) {struct t} : utree :=
  match t with
  | UNode n kids =>
      match k with
      | O => UCut n
      | S k' => UNode n (map (cut k') kids)
      end
  | other => other
  end.

(* what the caller sees of a result of the machine *)
Definition view (ex : expo) (k : nat) (r : result) : result :=
  match r with
  | ROk t => ROk (cut k (regroup ex t))
  | other => other
  end.

(* depth, type universe (nodes = descriptors, with the exposed oneofs), the cache keys of the descriptors
   that do not have a key of their own (two messages with one schema name: ConcKey.v), calls per thread,
   schedule (incl. the drain), the hook each scheduled thread was at after its step, the results of the
   completed calls *)
Inductive c10case :=
| C10Case (k : N) (g : graph) (ex : expo) (km : keymap) (calls : list (list name)) (sched : list N) (trace : list N) (res : list (list obs)).

Definition obs_ok (pol : hitpol) (d : disc) (ex : expo) (km : keymap) (k : nat) (g : graph) (n : name) (m : result) (o : obs) : bool :=
  match o with
  | ORes r _ => result_eqb (view ex k m) r
  | OCall cls solo_cls same =>
      if result_eqb m (kresult_solo pol (key_of km) k g n) then
        N.eqb cls solo_cls &&
        match m, d with
        | RErr, Unguarded => true   (* without the lock the TEXT of a build error (the path to the failing
                                       field) depends on what other threads have registered meanwhile,
                                       which the model does not track; the class is still compared *)
        | RErr, Guarded =>
            (* with two descriptors under one key the TEXT of the error of a type that fails alone as well
               ("schema name N is used by both A and B": which of the two is named first, at which field the
               build stops) depends on which descriptor was registered first; the class is still compared *)
            match km with [] => same | _ :: _ => true end
        | _, _ => same
        end
      else match m with
           | RErr | RUnlinked => negb same && N.eqb cls 1    (* NewRoot got another error, or an error where alone it gets a schema *)
           | RNil => negb same && negb (N.eqb cls 0)
           | ROk _ => true      (* a schema with an unlinked part: depends on the message *)
           end
  end.

Fixpoint obs_list_ok (pol : hitpol) (d : disc) (ex : expo) (km : keymap) (k : nat) (g : graph) (ns : list name) (ms : list result) (os : list obs) : bool :=
  match ms, os with
  | [], [] => true
  | m :: mr, o :: or =>
      match ns with
      | n :: nr => obs_ok pol d ex km k g n m o && obs_list_ok pol d ex km k g nr mr or
      | [] => false
      end
  | _, _ => false
  end.

Fixpoint threads_ok (pol : hitpol) (d : disc) (ex : expo) (km : keymap) (k : nat) (g : graph) (calls : list (list name)) (ms : list (list result)) (os : list (list obs)) : bool :=
  match calls, ms, os with
  | [], [], [] => true
  | c :: cr, m :: mr, o :: or => obs_list_ok pol d ex km k g c m o && threads_ok pol d ex km k g cr mr or
  | _, _, _ => false
  end.

(* ---- identity of the returned objects ------------------------------------------------- *)
(* the cells handed to thread t, in order *)
Definition cells_of (t : tid) (rs : list (tid * name * cellid)) : list cellid :=
  map (fun x => snd x) (filter (fun x => Nat.eqb (fst (fst x)) t) rs).

(* per result of a thread, the cell it handed out (None: no schema) *)
Fixpoint cells_for (ms : list result) (cs : list cellid) : list (option cellid) :=
  match ms with
  | [] => []
  | ROk _ :: r =>
      match cs with
      | c :: cr => Some c :: cells_for r cr
      | [] => None :: cells_for r []
      end
  | _ :: r => None :: cells_for r cs
  end.

Fixpoint id_pairs (cs : list (option cellid)) (os : list obs) : list (cellid * N) :=
  match cs, os with
  | Some c :: cr, ORes (ROk _) id :: or => (c, id) :: id_pairs cr or
  | _ :: cr, _ :: or => id_pairs cr or
  | _, _ => []
  end.

(* the same object in the model iff the same pointer in the implementation *)
Definition ids_consistent (ps : list (cellid * N)) : bool :=
  forallb (fun a => forallb (fun b => Bool.eqb (Nat.eqb (fst a) (fst b)) (N.eqb (snd a) (snd b))) ps) ps.

Fixpoint all_id_pairs (t : tid) (rs : list (tid * name * cellid)) (ms : list (list result)) (os : list (list obs)) : list (cellid * N) :=
  match ms, os with
  | m :: mr, o :: or => id_pairs (cells_for m (cells_of t rs)) o ++ all_id_pairs (S t) rs mr or
  | _, _ => []
  end.

Definition c10_check_with (pol : hitpol) (d : disc) (c : c10case) : bool :=
  match c with
  | C10Case k g ex km calls sched trace res =>
      let key := key_of km in
      let k' := N.to_nat k in
      let sch := map N.to_nat sched in
      (* the forced schedules of the harness run on a real sync.Mutex with every other
         goroutine parked: Unlock wakes the longest-waiting goroutine, which takes the lock
         and runs up to its cache.lookup hook before the harness regains control — the
         first-come-first-served hand-off policy over the machine of Conc.v *)
      let (st, tr) := khrun_trace pol key fifo_grant d k' g calls sch in
      let rs := krets pol key d k' g calls (kexpand pol key fifo_grant d k' g sch (init calls)) in
      nlist_eqb tr trace && threads_ok pol d ex km k' g calls (results st) res &&
      ids_consistent (all_id_pairs 0 rs (results st) res)
  end.

(* the model is evaluated under the discipline the Go source follows now, and with the treatment of a
   cache hit registered for another descriptor that the Go source has now; it is the keyed machine of
   ConcKey.v, which on a universe without shared keys (km = []) is the machine of Conc.v
   (ConcKeyProofs.krun_id) *)
Definition c10_check (c : c10case) : bool := c10_check_with code_hitpol code_disc c.

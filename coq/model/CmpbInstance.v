(* CmpbInstance.v — the C14 loading skeleton (model/CmpbOrder.v) instantiated with a concrete per-file
   converter: cmpa's Gallina model of ConvertJ5File (model/J5sConvert.v cv_file, over the AST of
   model/J5sAst.v, with lib/Strcase.v for the name conversions).  The converter is a Gallina FUNCTION of the
   file's AST and of a resolver, so "the same file converts to the same descriptor" holds by construction;
   what the skeleton adds is that the RESOLVER handed to it — the exports of the file's own package and of the
   package's direct dependencies, as Package.ResolveType reads them — is the same whatever the listing and
   map-iteration orders were.  No proofs here.

   Conversion of cmpa's bundle to the skeleton's: one package per distinct j5s package (in order of first
   appearance), its .j5s files in bundle order; a file exports the names cmpa's summary walk finds
   (exp_bfile), depends on the packages its imports name, and produces its main .proto and, when it declares
   services / topics, the sub-package files.  Hand-written .proto files of the bundle are not carried over. *)
From Coq Require Import String List NArith Bool.
From J5V.lib Require Import Outcome Strcase.
From J5V.model Require Import Desc J5sAst J5sWalk J5sConvert CmpbOrder.
Import ListNotations.
Local Open Scope bool_scope.

Definition is_service (e : element) : bool := match e with EService _ => true | _ => false end.
Definition is_topic (e : element) : bool := match e with ETopic _ => true | _ => false end.

Definition import_pkg (i : import) : bytes :=
  if contains_slash (i_path i) then package_from_filename (i_path i) else i_path i.

Definition of_jfile (f : jfile) : @srcfile jfile :=
  mkFile (j5s_path f)
         (map tr_name (exp_bfile to_camel (BJ f)))
         (map import_pkg (jf_imports f))
         (main_proto_path f
          :: (if existsb is_service (jf_elements f) then [sub_proto_path f (b "service")] else [])
          ++ (if existsb is_topic (jf_elements f) then [sub_proto_path f (b "topic")] else []))
         f.

Fixpoint jfiles (bd : J5sAst.bundle) : list jfile :=
  match bd with
  | [] => []
  | BJ j :: r => j :: jfiles r
  | BP _ :: r => jfiles r
  end.
Fixpoint dedupe_str (l : list bytes) : list bytes :=
  match l with
  | [] => []
  | x :: r => if existsb (str_eqb x) r then dedupe_str r else x :: dedupe_str r
  end.
Definition of_bundle (bd : J5sAst.bundle) : @CmpbOrder.bundle jfile :=
  map (fun p => (p, map of_jfile (filter (fun j => str_eqb (j5s_pkg j) p) (jfiles bd))))
      (rev (dedupe_str (rev (map j5s_pkg (jfiles bd))))).

(* the TypeRefs behind an exports map (name -> defining source file): looked up in that file's summary *)
Definition refs_of (bd : J5sAst.bundle) (ex : exports) : list typeref :=
  flat_map (fun nf => match find (fun bf => str_eqb (bfile_path bf) (snd nf)) bd with
                      | Some bf => filter (fun t => str_eqb (tr_name t) (fst nf)) (exp_bfile to_camel bf)
                      | None => []
                      end) ex.

(* Package.ResolveType: the package's own exports, or those of a DIRECT dependency *)
Definition resolver (bd : J5sAst.bundle) (own : bytes) (e : env) (pkg : bytes) : option (list typeref) :=
  if str_eqb pkg own then Some (refs_of bd (e_own e))
  else match map_get pkg (e_deps e) with
       | Some ex => Some (refs_of bd ex)
       | None => None
       end.

(* conversion of one source file into the descriptor named [o]; None when the conversion fails or does not
   produce that file *)
Definition cmpa_convert (bd : J5sAst.bundle) (e : env) (f : @srcfile jfile) (o : bytes) : option dfile :=
  match cv_file to_snake to_camel to_screaming_snake (resolver bd (j5s_pkg (f_body f)) e) (f_body f) with
  | Ok ds => find (fun d => str_eqb (fl_path d) o) ds
  | _ => None
  end.

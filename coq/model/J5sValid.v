(* J5sValid.v — which packages count as valid for C02/C13: the documented restrictions of the
   language, as boolean (hence decidable, executable) checks.  Nothing here looks at what the
   compiler produces.
   - names are ASCII identifiers (types start with a capital, fields with a letter);
   - sibling names are distinct (fields of a message by proto name and JSON name; nested
     types of a message; declarations of a package);
   - a reference names a declaration of the right kind through the documented import rule;
   - arrays and maps do not nest; oneof members are plain (not repeated, not optional), and
     none is called "type" (the wrapper's proto oneof); a oneof has at least one member;
   - a property is not both required and optional;
   - no two declarations of a package generate the same proto symbol;
   - path parameters of a method name request fields; several messages of one topic are named. *)
From Coq Require Import String List NArith Bool.
From J5V.lib Require Import Outcome.
From J5V.model Require Import J5sAst Desc J5sWalk J5sLink J5sContract J5sSymbols.
Import ListNotations.
Local Open Scope N_scope.

Definition is_upper (c : N) : bool := (65 <=? c) && (c <=? 90).
Definition is_lower (c : N) : bool := (97 <=? c) && (c <=? 122).
Definition is_digit (c : N) : bool := (48 <=? c) && (c <=? 57).
Definition is_alnum (c : N) : bool := is_upper c || is_lower c || is_digit c.

Definition type_ident (s : str) : bool :=
  match s with c :: r => is_upper c && forallb is_alnum r | [] => false end.
Definition field_ident (s : str) : bool :=
  match s with c :: r => is_lower c && forallb (fun x => is_alnum x || (x =? 95)) r | [] => false end.
Definition option_ident (s : str) : bool :=
  match s with c :: r => is_upper c && forallb (fun x => is_upper x || is_digit x || (x =? 95)) r | [] => false end.

Fixpoint distinct (l : list str) : bool :=
  match l with
  | [] => true
  | x :: r => negb (existsb (str_eqb x) r) && distinct r
  end.

(* a package segment: lower-case identifier *)
Definition type_ident_or_seg (s : str) : bool :=
  match s with c :: r => is_lower c && forallb (fun x => is_lower x || is_digit x) r | [] => false end.

Definition name_opt_ok (s : str) : bool := match s with [] => true | _ => type_ident s end.

(* enum: option names (that the value names they generate are new in their scope is part of the
   symbol clause of [valid_bundle]) *)
Definition wf_enum (e : enum) : bool :=
  forallb option_ident (e_opts e) && distinct (e_opts e) &&
  match e_prefix e with [] => true | p => option_ident p end.

Section Valid.
Variables snake camel screaming : str -> str.
Variable ev : env.

Definition ref_is (r : ref) (want_enum : bool) : bool :=
  match resolve ev r with
  | Ok t => Bool.eqb (tr_enum t) want_enum
  | _ => false
  end.

(* proto names, JSON names and nested type names are distinct inside one message *)
Definition sibling_ok (ps : props) : bool :=
  distinct (map (fun p => snake (prop_name p)) (props_list ps)) &&
  distinct (map prop_name (props_list ps)) &&
  distinct (flat_map (prop_msg_names snake camel) (props_list ps) ++
            flat_map (prop_enum_names camel) (props_list ps)).

Fixpoint wf_item (f : field) {struct f} : bool :=
  match f with
  | FScalar _ => true
  | FObjRef r | FOneofRef r => ref_is r false
  | FEnumRef r => ref_is r true
  | FObjInline nm ps => name_opt_ok nm && wf_props false ps && sibling_ok ps
  | FOneofInline nm ps =>
      name_opt_ok nm && wf_props true ps && sibling_ok ps &&
      match ps with PNil => false | _ => true end
  | FEnumInline e => name_opt_ok (e_name e) && wf_enum e
  | FArray _ | FMap _ => false
  end
with wf_props (inoneof : bool) (ps : props) {struct ps} : bool :=
  match ps with
  | PNil => true
  | PCons p r => wf_property inoneof p && wf_props inoneof r
  end
with wf_property (inoneof : bool) (p : property) {struct p} : bool :=
  match p with
  | Property n rq op f =>
      field_ident n && negb (rq && op) &&
      (if inoneof then negb (is_repeated f) && negb (str_eqb (snake n) (b "type")) else true) &&
      match f with
      | FArray it | FMap it => wf_item it
      | _ => wf_item f
      end
  end.

Fixpoint wf_nested (n : nested) {struct n} : bool :=
  match n with
  | NObject nm ps subs =>
      type_ident nm && wf_props false ps && wf_nesteds subs &&
      distinct (map (fun p => snake (prop_name p)) (props_list ps)) &&
      distinct (map prop_name (props_list ps)) &&
      distinct (flat_map (prop_msg_names snake camel) (props_list ps) ++
                flat_map (prop_enum_names camel) (props_list ps) ++
                flat_map nested_msg_name (nesteds_list subs) ++ flat_map nested_enum_name (nesteds_list subs))
  | NOneof nm ps subs =>
      type_ident nm && wf_props true ps && wf_nesteds subs &&
      match ps with PNil => false | _ => true end &&
      distinct (map (fun p => snake (prop_name p)) (props_list ps)) &&
      distinct (map prop_name (props_list ps)) &&
      distinct (flat_map (prop_msg_names snake camel) (props_list ps) ++
                flat_map (prop_enum_names camel) (props_list ps) ++
                flat_map nested_msg_name (nesteds_list subs) ++ flat_map nested_enum_name (nesteds_list subs))
  | NEnum e => type_ident (e_name e) && wf_enum e
  end
with wf_nesteds (ns : nesteds) {struct ns} : bool :=
  match ns with
  | NNil => true
  | NCons n r => wf_nested n && wf_nesteds r
  end.

(* a root-level virtual object: request, response, topic message *)
Definition wf_virtual (ps : props) : bool := wf_props false ps && sibling_ok ps.

Fixpoint has_prop_b (name : str) (ps : props) : bool :=
  match ps with
  | PNil => false
  | PCons p r => str_eqb (prop_name p) name || has_prop_b name r
  end.

Fixpoint params_ok (req : props) (segs : list str) : bool :=
  match segs with
  | [] => true
  | s :: r =>
      match s with
      | c :: nm => if c =? 58 then has_prop_b nm req && params_ok req r else params_ok req r
      | [] => params_ok req r
      end
  end.

Definition wf_method (base : option str) (m : method) : bool :=
  type_ident (m_name m) && wf_virtual (m_request m) &&
  match m_response m with Some ps => wf_virtual ps | None => true end &&
  params_ok (m_request m)
    (split 47 (match base with Some bp => path_join bp (m_path m) | None => m_path m end)).

Definition wf_service (s : service) : bool :=
  type_ident (sv_name s) && forallb (wf_method (sv_base s)) (sv_methods s) &&
  distinct (map m_name (sv_methods s)).

(* a topic message: the implicit leading field [virt] followed by the declared fields *)
Definition wf_tmsg (single : bool) (virt : props) (t : tmsg) : bool :=
  wf_virtual (papp virt (tm_fields t)) &&
  match tm_name t with Some n => type_ident n | None => single end.

Definition is_single_b {A} (l : list A) : bool := match l with [_] => true | _ => false end.

Definition wf_topic (t : topic) : bool :=
  match t with
  | TPublish name msgs =>
      type_ident name && forallb (wf_tmsg (is_single_b msgs) PNil) msgs
  | TReqRes name req reply =>
      type_ident name &&
      forallb (wf_tmsg (is_single_b req) virt_request) req &&
      forallb (wf_tmsg (is_single_b reply) virt_request) reply
  | TUpsert name _ msg => type_ident name && wf_tmsg true virt_upsert msg
  | TEvent name _ msg => type_ident name && wf_tmsg true PNil msg
  end.

Definition wf_element (e : element) : bool :=
  match e with
  | EObject nm ps subs => wf_nested (NObject nm ps subs)
  | EOneof nm ps subs => wf_nested (NOneof nm ps subs)
  | EEnum en => wf_nested (NEnum en)
  | EService s => wf_service s
  | ETopic t => wf_topic t
  end.

End Valid.

Section ValidBundle.
Variables snake camel screaming : str -> str.

(* every .j5s file of the bundle is well formed in its own environment, and the exported
   names of every package are distinct *)
Definition valid_file (bd : bundle) (f : jfile) : bool :=
  (* file_lists_ok: service.go checkListMethod (fix cec4e3a) - a method whose request holds a
     j5.list.v1.QueryRequest has a response with exactly one array, of objects *)
  forallb type_ident_or_seg (jf_dir f) && file_lists_ok f &&
  match import_map (jf_imports f) [] with
  | Ok im =>
      forallb (wf_element snake camel (mkEnv (j5s_pkg f) im (pkg_exports camel bd))) (jf_elements f)
  | _ => false
  end.

Definition bundle_pkgs (bd : bundle) : list str := map bfile_pkg bd.

(* no two declarations of a package generate the same proto symbol (message, field, enum, enum
   value - in the scope enclosing its enum -, service, method; the request / response / topic
   message types in the .service / .topic sub-packages included): the list of declared symbols
   (J5sSymbols, read off the source) has no duplicates *)
Definition symbols_ok (bd : bundle) (pkg : str) : bool :=
  nodup_str (decl_package_symbols snake camel screaming bd pkg).

(* package names: not empty (a file outside every package directory belongs to the package ""
   which the compiler cannot load: "no files for package at"), and the sub-package names are
   reserved *)
Definition subpackages_free (bd : bundle) (pkg : str) : bool :=
  match pkg with [] => false | _ => true end &&
  negb (existsb (str_eqb (pkg ++ b ".service")) (bundle_pkgs bd)) &&
  negb (existsb (str_eqb (pkg ++ b ".topic")) (bundle_pkgs bd)).

Definition valid_bundle (bd : bundle) : bool :=
  forallb (fun f => match f with BJ j => valid_file bd j | BP _ => true end) bd &&
  forallb (fun pkg => match pkg_exports camel bd pkg with
                      | Some ex => distinct (map tr_name ex)
                      | None => true
                      end) (bundle_pkgs bd) &&
  forallb (fun pkg => symbols_ok bd pkg && subpackages_free bd pkg) (bundle_pkgs bd) &&
  distinct (map bfile_path bd).

End ValidBundle.

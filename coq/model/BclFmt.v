(* BclFmt.v — model of internal/bcl/internal/parser/{fmt.go,description.go} and
   internal/bcl/genlsp/format.go: tokenSource, the fmter (one FmtDiff per
   fragment), reformatDescription, Fmt (joining with single blank lines),
   FmtDiffs (merge of fragments that share a line, gap edits, suppression of
   unchanged ranges; lines[from:to] is a Go slice expression and can panic),
   and the application of line edits as an LSP client does it.
   Texts produced by the formatter are rune lists; the document and the edits
   that FmtDiffs compares / returns are bytes (Go strings).  No proofs here. *)
From Coq Require Import String List NArith ZArith Bool.
From J5V.lib Require Import Text Outcome.
From J5V.model Require Import BclLexer BclParser.
Import ListNotations.
Local Open Scope bool_scope.

(* ---- tokenSource ------------------------------------------------------------ *)
(* stringEscaper: backslash, quote and newline get a backslash in front *)
Fixpoint escape_string (l : list N) : list N :=
  match l with
  | [] => []
  | c :: r => if N.eqb c 92 || N.eqb c 34 || N.eqb c 10 then 92%N :: c :: escape_string r
              else c :: escape_string r
  end.
(* strings.ReplaceAll(lit, "/", "//") *)
Fixpoint double_slash (l : list N) : list N :=
  match l with
  | [] => []
  | c :: r => if N.eqb c 47 then 47%N :: 47%N :: double_slash r else c :: double_slash r
  end.

Definition token_source (t : token) : list N :=
  match ty t with
  | STRING => 34%N :: escape_string (lit t) ++ [34%N]
  | REGEX => 47%N :: double_slash (lit t) ++ [47%N]
  | DESCRIPTION => 124%N :: 32%N :: lit t
  | COMMENT => 47%N :: 47%N :: lit t
  | BLOCK_COMMENT => 47%N :: 42%N :: lit t ++ [42%N; 47%N]
  | _ => lit t
  end.

Definition sp : list N := [32%N].

(* referenceTokens, rendered *)
Definition reference_text (r : reference) : list N := join_with 46 (map token_source r).

(* valueTokens, rendered *)
Fixpoint value_text (v : value) : list N :=
  match v with
  | VTok t _ _ => token_source t
  | VArr vs _ _ =>
    91%N :: (fix elems (vs : list value) (first : bool) : list N :=
               match vs with
               | [] => []
               | x :: r => (if first then [] else [44%N; 32%N]) ++ value_text x ++ elems r false
               end) vs true ++ [93%N]
  end.

(* tagString, rendered *)
Definition tag_text (t : tag) : list N :=
  (match tmark t, tmark_tok t with
   | MarkNone, _ => []
   | _, Some mt => token_source mt ++ sp
   | _, None => sp
   end) ++
  match tbody t with
  | TagVal (VTok tok _ _) => token_source tok
  | TagVal (VArr _ _ _) => []                 (* Value.token of an array value is the zero Token *)
  | TagRef r => reference_text r
  end.

Definition inline_comment (c : option comment) : list N :=
  match c with
  | Some c => 32%N :: 47%N :: 47%N :: cvalue c
  | None => []
  end.

(* ---- FmtDiff ---------------------------------------------------------------------- *)
Record fdiff := mkFD { fd_from : Z; fd_to : Z; fd_text : list N }.

Definition tabs (indent : nat) : list N := repeat 9%N indent.

(* singleLineTokens(src, parts...) with the parts already rendered *)
Definition single_line (indent : nat) (s e : pos) (c : option comment) (parts : list N) : fdiff :=
  mkFD (fst s) (fst e + 1) (tabs indent ++ parts ++ inline_comment c ++ [10%N]).

Definition header_text (h : header) : list N :=
  reference_text (htype h)
  ++ flat_map (fun t => sp ++ tag_text t) (htags h)
  ++ flat_map (fun t => 58%N :: tag_text t) (hquals h)
  ++ (if hopen h then [32%N; 123%N] else [])
  ++ match hdesc h with
     | Some d => sp ++ flat_map token_source (dtoks d)
     | None => []
     end.

Definition assign_text (a : assign) : list N :=
  reference_text (akey a)
  ++ (if aappend a then [32%N; 43%N; 61%N; 32%N] else [32%N; 61%N; 32%N])
  ++ value_text (avalue a).

(* ---- description.go ------------------------------------------------------------------ *)
(* strings.Fields on runes *)
Fixpoint fields_loop (l : list N) (cur : list N) : list (list N) :=
  match l with
  | [] => match cur with [] => [] | _ => [cur] end
  | c :: r => if is_space c
              then match cur with [] => fields_loop r [] | _ => cur :: fields_loop r [] end
              else fields_loop r (cur ++ [c])
  end.
Definition fields (l : list N) : list (list N) := fields_loop l [].
Definition all_space (l : list N) : bool := forallb is_space l.

(* the word loop: pend, linesOut (in order) *)
Fixpoint flow_words (maxw : Z) (ws : list (list N)) (pend : list N) (out : list (list N))
  : list N * list (list N) :=
  match ws with
  | [] => (pend, out)
  | w :: r =>
    match pend with
    | [] => flow_words maxw r w out
    | _ => if Z.ltb maxw (Z.of_N (utf8_len pend) + Z.of_N (utf8_len w))
           then flow_words maxw r w (out ++ [pend])
           else flow_words maxw r (pend ++ 32%N :: w) out
    end
  end.

Fixpoint reformat_loop (maxw : Z) (lines : list (list N)) (pend : list N) (last_empty : bool)
                       (out : list (list N)) : list (list N) :=
  match lines with
  | [] => match pend with [] => out | _ => out ++ [pend] end
  | line :: r =>
    if all_space line then
      let out1 := match pend with [] => out | _ => out ++ [pend] end in
      let out2 := if last_empty then out1 else out1 ++ [[]] in
      reformat_loop maxw r [] true out2
    else
      let '(pend', out') := flow_words maxw (fields line) pend out in
      reformat_loop maxw r pend' false out'
  end.

Definition reformat_description (input : list N) (maxw : Z) : list (list N) :=
  reformat_loop maxw (split_on 10 input) [] true [].

(* multiLineToken: prefix each line, trim trailing ASCII spaces *)
Definition multi_line (indent : nat) (s e : pos) (lines : list (list N)) : fdiff :=
  let full := tabs indent ++ [124%N; 32%N] in
  mkFD (fst s) (fst e + 1)
       (join_with 10 (map (fun l => trim_right (N.eqb 32) (full ++ l)) lines) ++ [10%N]).

Definition description_diff (indent : nat) (d : descr) : fdiff :=
  let out := reformat_description (dvalue d) (80 - Z.of_nat indent * 4) in
  multi_line indent (dsstart d) (dsend d) (match out with [] => [[]] | _ => out end).

(* ---- diffFile ---------------------------------------------------------------------------- *)
Fixpoint diff_file (fs : list fragment) (indent : nat) : list fdiff :=
  match fs with
  | [] => []
  | f :: r =>
    match f with
    | FHeader h =>
      single_line indent (hstart h) (hend h) (hcomment h) (header_text h)
      :: diff_file r (if hopen h then S indent else indent)
    | FClose t =>
      let indent' := Nat.pred indent in
      single_line indent' (tstart t) (tend t) None (token_source t) :: diff_file r indent'
    | FAssign a =>
      single_line indent (astart a) (aend a) (acomment a) (assign_text a) :: diff_file r indent
    | FDesc d => description_diff indent d :: diff_file r indent
    | FComment t =>
      single_line indent (tstart t) (tend t) None (token_source t) :: diff_file r indent
    end
  end.

(* collectFmtFragments: lexer and walker in fail-fast mode; any diagnostic is an error *)
Definition collect_fragments (data : list N) : outcome (list fragment) :=
  match all_tokens true data with
  | LexFuel => OutOfFuel
  | LexErrs _ => Err "lexer diagnostics"
  | LexOk toks =>
    match walk_fragments true toks with
    | WalkFuel => OutOfFuel
    | WalkPanic p => Panic p
    | WalkOk _ (_ :: _) => Err "walker diagnostics"
    | WalkOk fs [] => Ok fs
    end
  end.

Definition collect_fmt (data : list N) : outcome (list fdiff) :=
  omap (fun fs => diff_file fs 0) (collect_fragments data).

(* ---- Fmt ------------------------------------------------------------------------------------ *)
Fixpoint fmt_join (ds : list fdiff) (first : bool) (last_end : Z) : list N :=
  match ds with
  | [] => []
  | d :: r =>
    (if negb first && Z.ltb last_end (fd_from d) then [10%N] else [])
    ++ fd_text d ++ fmt_join r false (fd_to d)
  end.

(* Fmt(input), as runes *)
Definition fmt_runes (data : list N) : outcome (list N) :=
  omap (fun ds => fmt_join ds true (-1)) (collect_fmt data).
(* Fmt(input) on a Go string *)
Definition fmt_bytes (input : list N) : outcome (list N) :=
  omap utf8_encode (fmt_runes (utf8_decode input)).

(* ---- FmtDiffs ---------------------------------------------------------------------------- *)
(* an edit as returned: line range and the new text in bytes *)
Record edit := mkEdit { e_from : Z; e_to : Z; e_text : list N }.

(* fragments that start on a line an earlier one already covers are replaced together *)
Fixpoint merge_loop (ds : list fdiff) (cur : option fdiff) : list fdiff :=
  match ds with
  | [] => match cur with Some c => [c] | None => [] end
  | d :: r =>
    match cur with
    | None => merge_loop r (Some d)
    | Some c =>
      if Z.ltb (fd_from d) (fd_to c)
      then merge_loop r (Some (mkFD (fd_from c) (Z.max (fd_to c) (fd_to d)) (fd_text c ++ fd_text d)))
      else c :: merge_loop r (Some d)
    end
  end.
Definition merge_diffs (ds : list fdiff) : list fdiff := merge_loop ds None.

(* lineSet.rangeLines: strings.Join(lines[from:to], "\n") + "\n" *)
Definition range_lines (lines : list (list N)) (from to : Z) : outcome (list N) :=
  if (from <? 0)%Z || (to <? from)%Z || (Z.of_nat (length lines) <? to)%Z
  then Panic "slice bounds out of range (rangeLines)"
  else Ok (join_with 10 (firstn (Z.to_nat (to - from)) (skipn (Z.to_nat from) lines)) ++ [10%N]).

Fixpoint diffs_loop (lines : list (list N)) (ds : list fdiff) (first : bool) (last_end : Z)
  : outcome (list edit) :=
  match ds with
  | [] => Ok []
  | d :: r =>
    obind (if first then
             Ok (if (0 <? fd_from d)%Z then [mkEdit 0 (fd_from d) []] else [])
           else if (last_end <? fd_from d)%Z then
             obind (range_lines lines last_end (fd_from d)) (fun gap =>
               Ok (if list_N_eqb gap [10%N] then [] else [mkEdit last_end (fd_from d) [10%N]]))
           else Ok []) (fun pre =>
    obind (range_lines lines (fd_from d) (fd_to d)) (fun existing =>
      let text := utf8_encode (fd_text d) in
      let own := if list_N_eqb existing text then [] else [mkEdit (fd_from d) (fd_to d) text] in
      obind (diffs_loop lines r false (fd_to d)) (fun rest => Ok (pre ++ own ++ rest))))
  end.

Definition fmt_diffs_of (input : list N) (ds : list fdiff) : outcome (list edit) :=
  diffs_loop (split_on 10 input) (merge_diffs ds) true (-1).

(* FmtDiffs(input) on a Go string *)
Definition fmt_diffs (input : list N) : outcome (list edit) :=
  obind (collect_fmt (utf8_decode input)) (fmt_diffs_of input).

(* ---- applying line edits (genlsp maps each to a TextEdit from (FromLine,0) to (ToLine,0)) ---- *)
(* the lines a text stands for: "" -> none, "a\nb\n" -> a, b *)
Definition text_lines (t : list N) : list (list N) := removelast (split_on 10 t).

(* ascending, non-overlapping edits applied to the original document; [cur] = lines consumed so far *)
Fixpoint apply_edits (lines : list (list N)) (cur : Z) (es : list edit) : list (list N) :=
  match es with
  | [] => skipn (Z.to_nat cur) lines
  | e :: r =>
    firstn (Z.to_nat (e_from e - cur)) (skipn (Z.to_nat cur) lines)
    ++ text_lines (e_text e) ++ apply_edits lines (e_to e) r
  end.

Definition blank_line (l : list N) : bool := forallb is_space (utf8_decode l).
Definition strip_trailing_blank (ls : list (list N)) : list (list N) :=
  rev (drop_while blank_line (rev ls)).

(* ---- genlsp/format.go: astFormatter.Format ------------------------------------------------- *)
(* protocol.Position{Line: uint32(diff.FromLine), Character: 0} etc.; int -> uint32 wraps *)
Record lsp_pos := mkLP { lp_line : Z; lp_char : Z }.
Record text_edit := mkTE { te_start : lsp_pos; te_end : lsp_pos; te_text : list N }.
Definition uint32 (z : Z) : Z := Z.modulo z 4294967296.
Definition to_text_edit (e : edit) : text_edit :=
  mkTE (mkLP (uint32 (e_from e)) 0) (mkLP (uint32 (e_to e)) 0) (e_text e).
Definition lsp_format (input : list N) : outcome (list text_edit) :=
  omap (map to_text_edit) (fmt_diffs input).

(* an editor applying TextEdits whose positions all have character 0, to the document whose
   lines (strings.Split on "\n") are [lines]: position (L,0) is the offset just after the L-th
   newline, or the end of the document when there are fewer lines.  [seg a b] is the text
   between the positions (a,0) and (b,0), a <= b *)
Definition seg (lines : list (list N)) (a b : Z) : list N :=
  if (b <? Z.of_nat (length lines))%Z
  then flat_map (fun l => l ++ [10%N]) (firstn (Z.to_nat (b - a)) (skipn (Z.to_nat a) lines))
  else join_with 10 (skipn (Z.to_nat a) lines).
(* ascending, non-overlapping edits, all relative to the original document *)
Fixpoint lsp_apply (lines : list (list N)) (cur : Z) (tes : list text_edit) : list N :=
  match tes with
  | [] => seg lines cur (Z.of_nat (length lines))
  | te :: r => seg lines cur (lp_line (te_start te)) ++ te_text te ++ lsp_apply lines (lp_line (te_end te)) r
  end.

(* PipelineCompile.v — what the j5s compiler is taken to emit for a declared package (C16): the
   descriptor view of services, methods and topics that structure.APIFromImage reads
   (j5convert/service.go, sourcewalk/service.go, sourcewalk/topic.go: <Name>Service / <Name>Topic,
   <Method>Request / <Method>Response, the http rule with {snake_name} segments, proto field name =
   ToSnake(json name)) and the request / response objects it adds to the schema set.
   Compared with the real compiler's output on every run by the compile stream of
   model/PipelineCompileCorr.v. No proofs in this file. *)
From Coq Require Import String Ascii List NArith Bool.
From J5V.lib Require Import Outcome Corr.
From J5V.model Require Import Pipeline.
Import ListNotations.
Local Open Scope N_scope.
Local Open Scope bool_scope.

Section Compile.
Variable to_snake : str -> str.

Definition fields_of (props : list str) : list field_names :=
  map (fun n => {| f_proto := to_snake n; f_json := n |}) props.

(* what the compiler emits for one declared method (j5convert/service.go, sourcewalk/service.go) *)
Record decl_method := {
  dm_name : str; dm_verb : N; dm_parts : list str;   (* declared path = join "/" parts *)
  dm_props : list str;                               (* request property names *)
  dm_raw : bool                                      (* no response declared: google.api.HttpBody *)
}.

Definition decl_path (d : decl_method) : str := join_with SLASH (dm_parts d).

Definition compile_method (d : decl_method) : meth_desc :=
  {| md_name := dm_name d; md_in_same_pkg := true;
     md_in_name := dm_name d ++ bytes_of "Request";
     md_out_name := if dm_raw d then bytes_of "HttpBody" else dm_name d ++ bytes_of "Response";
     md_out_full := if dm_raw d then HTTPBODY else bytes_of "p." ++ dm_name d ++ bytes_of "Response";
     md_http := Some (dm_verb d, to_http_path to_snake (decl_path d));
     md_in_fields := fields_of (dm_props d) |}.

Record decl_service := { ds_name : str; ds_methods : list decl_method }.

Definition compile_service (s : decl_service) : svc_desc :=
  {| sd_sub := bytes_of "service"; sd_name := ds_name s ++ bytes_of "Service";
     sd_methods := map compile_method (ds_methods s) |}.


(* topics: <Name>Topic services whose methods take <M>Message and return google.protobuf.Empty *)
Record decl_topic := { dt_name : str; dt_msgs : list str }.

Definition compile_topic_method (m : str) : meth_desc :=
  {| md_name := m; md_in_same_pkg := true; md_in_name := m ++ bytes_of "Message";
     md_out_name := bytes_of "Empty"; md_out_full := EMPTY; md_http := None; md_in_fields := [] |}.

Definition compile_topic (t : decl_topic) : svc_desc :=
  {| sd_sub := bytes_of "topic"; sd_name := dt_name t ++ bytes_of "Topic";
     sd_methods := map compile_topic_method (dt_msgs t) |}.


(* a declared package and what the compiler emits for it *)
Record decl_full := {
  df_name : str; df_verb : N; df_parts : list str;
  df_req : list prop;                 (* request properties, in order *)
  df_resp : option (list prop)        (* None: no response body (google.api.HttpBody) *)
}.

Definition df_decl (d : decl_full) : decl_method :=
  {| dm_name := df_name d; dm_verb := df_verb d; dm_parts := df_parts d;
     dm_props := map p_json (df_req d); dm_raw := match df_resp d with None => true | Some _ => false end |}.

Record decl_package := {
  dp_pkg : str;
  dp_services : list (str * list decl_full);   (* service name without the Service suffix *)
  dp_topics : list decl_topic;                  (* topic name without the Topic suffix, message names *)
  dp_schemas : env                              (* the declared objects, oneofs and enums (and topic messages) *)
}.

Definition SERVICE : str := bytes_of "service".

Definition method_schemas (pkg : str) (d : decl_full) : env :=
  ((pkg ++ DOT :: SERVICE, df_name d ++ bytes_of "Request"), SObject (df_req d))
  :: match df_resp d with
     | Some ps => [((pkg ++ DOT :: SERVICE, df_name d ++ bytes_of "Response"), SObject ps)]
     | None => []
     end.

Definition all_methods (P : decl_package) : list decl_full := flat_map snd (dp_services P).

Definition compile_image (P : decl_package) : image :=
  {| im_pkg := dp_pkg P;
     im_services := map (fun s => compile_service {| ds_name := fst s; ds_methods := map df_decl (snd s) |})
                        (dp_services P)
                    ++ map compile_topic (dp_topics P);
     im_schemas := flat_map (method_schemas (dp_pkg P)) (all_methods P) ++ dp_schemas P;
     im_roots := [] |}.

End Compile.

(* ---------- a topic as the j5s source declares it ---------------------------------------------------
   sourcewalk/topic.go acceptTopic: the service is ToCamel(topic name) ++ "Topic"; a method is named after its
   message, a single unnamed message after the topic (the name as written, NOT camel-cased), and takes
   <method name>Message.  to_camel: the model of strcase.ToCamel (lib/Strcase.v) at the use site. *)
Record src_topic := { st_name : str; st_named : list str }.

Definition topic_of_source (to_camel : str -> str) (t : src_topic) : decl_topic :=
  {| dt_name := to_camel (st_name t);
     dt_msgs := match st_named t with [] => [st_name t] | l => l end |}.

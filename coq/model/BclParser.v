(* BclParser.v — model of internal/bcl/internal/parser/parser.go (Walker,
   walkFragments and every production, recoverError, fragmentsToFile, ParseFile)
   and expressions.go (NewReference).  The walker state is (remaining tokens,
   previous token): ww.tokens[ww.offset:] and ww.tokens[ww.offset-1].
   Go panics that the code could hit are explicit: popToken on an empty token
   slice (tokens[len-1] with len 0) and NewReference(nil) (idents[0]).
   No proofs in this file. *)
From Coq Require Import String List NArith ZArith Bool.
From J5V.lib Require Import Text Outcome.
From J5V.gen Require TokensGen.
From J5V.model Require Import BclLexer.
Import ListNotations.
Local Open Scope bool_scope.

(* ---- syntax ------------------------------------------------------------------ *)
(* Ident: Token (BOOL re-typed IDENT), Value = Token.Lit, SourceNode = token range *)
Definition reference := list token.

Inductive value :=
| VTok (t : token)                                  (* Value.token, SourceNode = (s, e) *) (s e : pos)
| VArr (vs : list value) (s e : pos).               (* Value.array (non-nil) *)

Definition value_start (v : value) : pos := match v with VTok _ s _ => s | VArr _ s _ => s end.
Definition value_end (v : value) : pos := match v with VTok _ _ e => e | VArr _ _ e => e end.

Inductive mark := MarkNone | MarkBang | MarkQuestion.
(* TagValue: exactly one of Reference / Value is set by popTag *)
Inductive tagbody := TagRef (r : reference) | TagVal (v : value).
Record tag := mkTag { tmark : mark; tmark_tok : option token; tbody : tagbody; tgstart : pos; tgend : pos }.

(* SourceNode.Comment of a statement: Value + its own range *)
Record comment := mkComment { cvalue : list N; cstart : pos; cend : pos }.

Record descr := mkDescr { dtoks : list token; dvalue : list N; dsstart : pos; dsend : pos }.

Record header := mkHeader {
  htype : reference; htags : list tag; hquals : list tag; hdesc : option descr; hopen : bool;
  hstart : pos; hend : pos; hcomment : option comment }.

Record assign := mkAssign {
  akey : reference; aappend : bool; avalue : value; astart : pos; aend : pos; acomment : option comment }.

Inductive fragment :=
| FHeader (h : header)
| FAssign (a : assign)
| FDesc (d : descr)
| FComment (t : token)
| FClose (t : token).

Definition frag_start (f : fragment) : pos :=
  match f with
  | FHeader h => hstart h | FAssign a => astart a | FDesc d => dsstart d
  | FComment t => tstart t | FClose t => tstart t
  end.
Definition frag_end (f : fragment) : pos :=
  match f with
  | FHeader h => hend h | FAssign a => aend a | FDesc d => dsend d
  | FComment t => tend t | FClose t => tend t
  end.

(* ---- walker monad -------------------------------------------------------------- *)
Record wstate := mkW { wrest : list token; wprev : option token }.

(* what an unexpectedTokenError carries besides the token: the expected types, or the fixed text *)
Inductive werr := Expected (l : list ttype) | TooDeep.
(* the expected sets are the arguments of the unexpectedToken / popType calls, read by the translator
   (TokensGen.walker_expected: per function, in source order) *)
Definition exp_of (fn : string) (i : nat) : list ttype :=
  map ttype_of_code (nth i (match assoc_s TokensGen.walker_expected fn with Some l => l | None => [] end) []).
Definition exp_ident := exp_of "popIdent" 0.
Definition exp_elems := exp_of "popValue" 0.
Definition exp_value := exp_of "popValue" 1.
Definition exp_tag := exp_of "popTag" 0.
Definition exp_end := exp_of "endStatement" 0.
Definition exp_assign := exp_of "walkValueAssign" 0.
Definition exp_plus_assign := exp_of "walkStatement" 0.
Definition exp_header := exp_of "walkStatement" 1.
Definition exp_fragment := exp_of "nextFragment" 0.

Inductive wres (A : Type) :=
| WOk (a : A) (s : wstate)
| WErr (t : token) (e : werr) (s : wstate)   (* *unexpectedTokenError: the offending token and what was expected *)
| WPanic (site : string)
| WFuel.
Arguments WOk {A} a s.
Arguments WErr {A} t e s.
Arguments WPanic {A} site.
Arguments WFuel {A}.

Definition wbind {A B} (m : wres A) (k : A -> wstate -> wres B) : wres B :=
  match m with
  | WOk a s => k a s
  | WErr t e s => WErr t e s
  | WPanic p => WPanic p
  | WFuel => WFuel
  end.

Definition next_type (s : wstate) : ttype := match wrest s with [] => EOF | t :: _ => ty t end.
Definition peek_type (n : nat) (s : wstate) : ttype :=
  match nth_error (wrest s) n with Some t => ty t | None => EOF end.
Definition current_pos (s : wstate) : pos := match wprev s with None => pos0 | Some t => tend t end.

Definition pop_token (s : wstate) : wres token :=
  match wrest s with
  | t :: r => WOk t (mkW r (Some t))
  | [] =>
    match wprev s with
    | None => WPanic "popToken: index out of range [-1]"
    | Some p => if tt_eqb (ty p) EOF then WOk p s
                else WOk (mkTok EOF [] (tend p) (tend p)) s
    end
  end.

(* expressions.go NewReference: idents[0] panics on an empty slice *)
Definition ref_start (r : reference) : pos := match r with [] => pos0 | t :: _ => tstart t end.
Definition ref_end (r : reference) : pos := tend (last r (mkTok INVALID [] pos0 pos0)).

Definition as_ident (t : token) : option token :=
  match ty t with
  | IDENT => Some t
  | BOOL => Some (mkTok IDENT (lit t) (tstart t) (tend t))
  | _ => None
  end.

Definition pop_ident (s : wstate) : wres token :=
  wbind (pop_token s) (fun t s1 =>
    match as_ident t with
    | Some i => WOk i s1
    | None => WErr t (Expected exp_ident) s1
    end).

(* popReference *)
Fixpoint pop_reference_loop (fuel : nat) (acc : reference) (s : wstate) : wres reference :=
  match fuel with
  | O => WFuel
  | S f =>
    match pop_ident s with
    | WOk i s1 =>
      let acc' := acc ++ [i] in
      if tt_eqb (next_type s1) DOT
      then wbind (pop_token s1) (fun _ s2 => pop_reference_loop f acc' s2)
      else WOk acc' s1
    | WErr t e s1 =>
      match acc with
      | [] => WPanic "NewReference: index out of range [0] with length 0"
      | _ => WErr t e s1
      end
    | WPanic p => WPanic p
    | WFuel => WFuel
    end
  end.
Definition pop_reference (s : wstate) : wres reference :=
  pop_reference_loop (S (length (wrest s))) [] s.

Definition ref_string (r : reference) : list N := join_with 46 (map lit r).

(* popValue: the element loop of an array, over the recursive value parser [pv] *)
Fixpoint pop_elems (pv : wstate -> wres value) (fuel2 : nat) (opener : token) (acc : list value)
                   (s : wstate) : wres value :=
  match fuel2 with
  | O => WFuel
  | S f2 =>
    wbind (pv s) (fun v s2 =>
      let acc' := acc ++ [v] in
      if tt_eqb (next_type s2) COMMA then
        wbind (pop_token s2) (fun _ s3 => pop_elems pv f2 opener acc' s3)
      else if tt_eqb (next_type s2) RBRACK then
        wbind (pop_token s2) (fun _ s3 => WOk (VArr acc' (tstart opener) (current_pos s3)) s3)
      else wbind (pop_token s2) (fun t s3 => WErr t (Expected exp_elems) s3))
  end.

(* maxValueDepth: popValue refuses to open an array nested deeper than this (it recurses once per
   bracket; the bound keeps the recursion, hence the goroutine stack, bounded) *)
(* const maxValueDepth, as the translator reads it from parser.go *)
Definition max_value_depth : N := TokensGen.max_value_depth.

Fixpoint pop_value (fuel : nat) (depth : N) (s : wstate) : wres value :=
  match fuel with
  | O => WFuel
  | S f =>
    if tt_eqb (next_type s) IDENT then
      wbind (pop_reference s) (fun r s1 =>
        WOk (VTok (mkTok STRING (ref_string r) (ref_start r) (ref_end r)) (ref_start r) (ref_end r)) s1)
    else if is_literal (next_type s) then
      wbind (pop_token s) (fun t s1 => WOk (VTok t (tstart t) (tend t)) s1)
    else if tt_eqb (next_type s) LBRACK then
      wbind (pop_token s) (fun opener s1 =>
        if N.leb max_value_depth depth then WErr opener TooDeep s1
        else if tt_eqb (next_type s1) RBRACK then
          wbind (pop_token s1) (fun _ s2 => WOk (VArr [] (tstart opener) (current_pos s2)) s2)
        else pop_elems (pop_value f (N.succ depth)) (S (length (wrest s1))) opener [] s1)
    else wbind (pop_token s) (fun t s1 => WErr t (Expected exp_value) s1)
  end.
Definition pop_value_top (s : wstate) : wres value := pop_value (S (length (wrest s))) 0%N s.

(* popDescription *)
Fixpoint pop_description_loop (fuel : nat) (acc : list token) (s : wstate) : wres descr :=
  match fuel with
  | O => WFuel
  | S f =>
    wbind (pop_token s) (fun t s1 =>
      let acc' := acc ++ [t] in
      if tt_eqb (peek_type 0 s1) EOL && tt_eqb (peek_type 1 s1) DESCRIPTION
      then wbind (pop_token s1) (fun _ s2 => pop_description_loop f acc' s2)
      else WOk (mkDescr acc' (join_with 10 (map lit acc'))
                        (ref_start acc') (ref_end acc')) s1)
  end.
Definition pop_description (s : wstate) : wres descr :=
  pop_description_loop (S (length (wrest s))) [] s.

(* popTag *)
Definition pop_tag (s : wstate) : wres tag :=
  let after_mark (mk : mark) (mt : option token) (s : wstate) : wres tag :=
    match next_type s with
    | IDENT | BOOL =>
      wbind (pop_reference s) (fun r s1 => WOk (mkTag mk mt (TagRef r) (ref_start r) (ref_end r)) s1)
    | STRING =>
      wbind (pop_value_top s) (fun v s1 => WOk (mkTag mk mt (TagVal v) (value_start v) (value_end v)) s1)
    | _ => wbind (pop_token s) (fun t s1 => WErr t (Expected exp_tag) s1)
    end in
  match next_type s with
  | BANG => wbind (pop_token s) (fun t s1 => after_mark MarkBang (Some t) s1)
  | QUESTION => wbind (pop_token s) (fun t s1 => after_mark MarkQuestion (Some t) s1)
  | _ => after_mark MarkNone None s
  end.

(* endStatement *)
Definition end_statement (s : wstate) : wres (option comment) :=
  wbind (pop_token s) (fun t s1 =>
    match ty t with
    | COMMENT =>
      let c := Some (mkComment (lit t) (tstart t) (tend t)) in
      wbind (pop_token s1) (fun t2 s2 =>
        match ty t2 with
        | EOL | EOF => WOk c s2
        | _ => WErr t2 (Expected exp_end) s2
        end)
    | EOL | EOF => WOk None s1
    | _ => WErr t (Expected exp_end) s1
    end).

(* walkValueAssign *)
Definition walk_value_assign (r : reference) (app : bool) (s : wstate) : wres fragment :=
  wbind (pop_token s) (fun t s1 =>
    if negb (tt_eqb (ty t) ASSIGN) then WErr t (Expected exp_assign) s1 else
    wbind (pop_value_top s1) (fun v s2 =>
      wbind (end_statement s2) (fun c s3 =>
        WOk (FAssign (mkAssign r app v (ref_start r) (value_end v) c)) s3))).

Fixpoint tags_loop (fuel : nat) (acc : list tag) (s : wstate) : wres (list tag) :=
  match fuel with
  | O => WFuel
  | S f =>
    if can_start_tag (next_type s)
    then wbind (pop_tag s) (fun t s1 => tags_loop f (acc ++ [t]) s1)
    else WOk acc s
  end.
Fixpoint quals_loop (fuel : nat) (acc : list tag) (s : wstate) : wres (list tag) :=
  match fuel with
  | O => WFuel
  | S f =>
    if tt_eqb (next_type s) COLON
    then wbind (pop_token s) (fun _ s1 => wbind (pop_tag s1) (fun t s2 => quals_loop f (acc ++ [t]) s2))
    else WOk acc s
  end.

(* walkStatement *)
Definition walk_statement (s : wstate) : wres fragment :=
  wbind (pop_reference s) (fun r s1 =>
    let start := ref_start r in
    if tt_eqb (next_type s1) ASSIGN then walk_value_assign r false s1
    else if tt_eqb (next_type s1) PLUS then
      wbind (pop_token s1) (fun _ s2 =>
        if negb (tt_eqb (next_type s2) ASSIGN) then wbind (pop_token s2) (fun t s3 => WErr t (Expected exp_plus_assign) s3)
        else walk_value_assign r true s2)
    else
      wbind (tags_loop (S (length (wrest s1))) [] s1) (fun tags s2 =>
      wbind (quals_loop (S (length (wrest s2))) [] s2) (fun quals s3 =>
        match next_type s3 with
        | LBRACE =>
          wbind (pop_token s3) (fun _ s4 =>
            let e := current_pos s4 in
            wbind (end_statement s4) (fun c s5 =>
              WOk (FHeader (mkHeader r tags quals None true start e c)) s5))
        | DESCRIPTION =>
          wbind (pop_token s3) (fun t s4 =>
            let d := mkDescr [t] (lit t) (tstart t) (tend t) in
            WOk (FHeader (mkHeader r tags quals (Some d) false start (current_pos s4) None)) s4)
        | COMMENT =>
          let e := current_pos s3 in
          wbind (end_statement s3) (fun c s4 =>
            WOk (FHeader (mkHeader r tags quals None false start e c)) s4)
        | EOL | EOF =>
          WOk (FHeader (mkHeader r tags quals None false start (current_pos s3) None)) s3
        | _ => wbind (pop_token s3) (fun t s4 => WErr t (Expected exp_header) s4)
        end))).

(* nextFragment (None = no fragment: an empty line) *)
Definition next_fragment (s : wstate) : wres (option fragment) :=
  match next_type s with
  | EOF | EOL => wbind (pop_token s) (fun _ s1 => WOk None s1)
  | RBRACE => wbind (pop_token s) (fun t s1 => WOk (Some (FClose t)) s1)
  | COMMENT | BLOCK_COMMENT => wbind (pop_token s) (fun t s1 => WOk (Some (FComment t)) s1)
  | DESCRIPTION => wbind (pop_description s) (fun d s1 => WOk (Some (FDesc d)) s1)
  | IDENT | BOOL => wbind (walk_statement s) (fun f s1 => WOk (Some f) s1)
  | _ => wbind (pop_token s) (fun t s1 => WErr t (Expected exp_fragment) s1)
  end.

(* recoverError (collect-all): skip to and including the next EOL (or EOF) *)
Fixpoint skip_to_eol (fuel : nat) (s : wstate) : wres unit :=
  match fuel with
  | O => WFuel
  | S f =>
    if tt_eqb (next_type s) EOL || tt_eqb (next_type s) EOF
    then wbind (pop_token s) (fun _ s1 => WOk tt s1)
    else wbind (pop_token s) (fun _ s1 => skip_to_eol f s1)
  end.

(* Token.String(): literals print their text cut to 20 bytes, operators their rune *)
Definition tok_string (t : token) : list N :=
  if is_literal (ty t) then
    let b := utf8_encode (lit t) in
    let short := if N.ltb (nth 0 TokensGen.token_string_ints 0%N) (N.of_nat (length b))
                 then firstn (N.to_nat (nth 1 TokensGen.token_string_ints 0%N)) b ++ slit "token.go:String" 0 else b in
    sprintf (slit "token.go:String" 1) [tt_text (ty t); short]
  else if is_operator (ty t) then sprintf (slit "token.go:String" 3) [tt_text (ty t)]
  else tt_text (ty t).
(* unexpectedTokenError.msg() *)
Definition walker_msg (t : token) (e : werr) : list N :=
  match e with
  | TooDeep => sprintf (slit "parser.go:popValue" 0) [N_to_dec max_value_depth]
  | Expected [x] => sprintf (slit "errors.go:msg" 0) [tok_string t; tt_text x]
  | Expected l => sprintf (slit "errors.go:msg" 1) [tok_string t; join_bytes (slit "errors.go:msg" 2) (map tt_text l)]
  end.
Definition diag_of_tok (t : token) (e : werr) : diag := mkDiag (tstart t) (tend t) (walker_msg t e).

(* walkFragments: (fragments, diagnostics) *)
Inductive walkout :=
| WalkOk (fs : list fragment) (ds : list diag)
| WalkPanic (site : string)
| WalkFuel.

Fixpoint walk_fragments_loop (fuel : nat) (ff : bool) (s : wstate) : walkout :=
  match fuel with
  | O => WalkFuel
  | S f =>
    if tt_eqb (next_type s) EOF then WalkOk [] [] else
    match next_fragment s with
    | WOk fo s1 =>
      match walk_fragments_loop f ff s1 with
      | WalkOk fs ds => WalkOk (match fo with Some fr => fr :: fs | None => fs end) ds
      | o => o
      end
    | WErr t e s1 =>
      if ff then WalkOk [] [diag_of_tok t e] else
      match skip_to_eol (S (length (wrest s1))) s1 with
      | WOk _ s2 =>
        match walk_fragments_loop f ff s2 with
        | WalkOk fs ds => WalkOk fs (diag_of_tok t e :: ds)
        | o => o
        end
      | WErr _ _ _ => WalkPanic "skip_to_eol cannot fail"
      | WPanic p => WalkPanic p
      | WFuel => WalkFuel
      end
    | WPanic p => WalkPanic p
    | WFuel => WalkFuel
    end
  end.

Definition walk_fragments (ff : bool) (toks : list token) : walkout :=
  walk_fragments_loop (S (length toks)) ff (mkW toks None).

(* ---- fragmentsToFile ------------------------------------------------------------- *)
Inductive stmt :=
| SBlock (h : header) (body : list stmt)
| SAssign (a : assign)
| SDesc (d : descr).

(* the open-block stack: innermost first; each level holds its header and the
   statements collected so far (in order) *)
Definition close_level (h : header) (body : list stmt) (parent : list stmt) : list stmt :=
  parent ++ [SBlock h body].

Definition msg_close : list N := slit "parser.go:fragmentsToFile" 0.
Definition msg_unclosed : list N := slit "parser.go:fragmentsToFile" 1.

Fixpoint to_file_loop (fs : list fragment) (cur : list stmt) (stack : list (header * list stmt))
                      (errs : list diag) : list stmt * list (header * list stmt) * list diag :=
  match fs with
  | [] => (cur, stack, errs)
  | f :: r =>
    match f with
    | FHeader h =>
      if hopen h then to_file_loop r [] ((h, cur) :: stack) errs
      else to_file_loop r (cur ++ [SBlock h []]) stack errs
    | FAssign a => to_file_loop r (cur ++ [SAssign a]) stack errs
    | FDesc d => to_file_loop r (cur ++ [SDesc d]) stack errs
    | FComment _ => to_file_loop r cur stack errs
    | FClose t =>
      match stack with
      | [] => to_file_loop r cur stack (errs ++ [mkDiag (tstart t) (tend t) msg_close])
      | (h, parent) :: st => to_file_loop r (close_level h cur parent) st errs
      end
    end
  end.

(* unwind the still-open blocks at EOF (the tree holds them, with what they collected) *)
Fixpoint unwind (cur : list stmt) (stack : list (header * list stmt)) : list stmt :=
  match stack with
  | [] => cur
  | (h, parent) :: st => unwind (close_level h cur parent) st
  end.

Definition fragments_to_file (fs : list fragment) : list stmt * list diag :=
  let '(cur, stack, errs) := to_file_loop fs [] [] [] in
  let errs' := match stack with
               | [] => errs
               | _ => match last (map Some fs) None with
                      | Some lf => errs ++ [mkDiag (frag_start lf) (frag_end lf) msg_unclosed]
                      | None => errs
                      end
               end in
  (unwind cur stack, errs').

(* ---- ParseFile ---------------------------------------------------------------------- *)
(* what ParseFile returns: the tree (nil or not) and the diagnostics carried by the error *)
Record presult := mkP { ptree : option (list stmt); pdiags : list diag }.

Definition parse_runes (ff : bool) (data : list N) : outcome presult :=
  match all_tokens ff data with
  | LexFuel => OutOfFuel
  | LexErrs ds => Ok (mkP None ds)
  | LexOk toks =>
    match walk_fragments ff toks with
    | WalkFuel => OutOfFuel
    | WalkPanic p => Panic p
    | WalkOk fs (d :: ds) => Ok (mkP (Some []) (d :: ds))       (* &File{Errors: ww.errors}, HadErrors *)
    | WalkOk fs [] =>
      let '(body, errs) := fragments_to_file fs in
      Ok (mkP (Some body) errs)
    end
  end.

Definition parse_file (input : list N) (ff : bool) : outcome presult :=
  parse_runes ff (utf8_decode input).

(* ---- flattened position dumps (the observables of the correspondence) ----------- *)
(* node kinds: 1 header/block 2 assign 3 desc 4 comment-fragment 5 close 6 reference 7 ident
   8 tag 9 value(scalar) 10 value(array) 11 trailing comment 12 header description
   15 TagValue.MarkToken 16 Description.Tokens[i] 17 Value.token (13/14 bracket a block body) *)
Definition pnode : Type := (N * pos * pos)%type.

Definition ref_nodes (r : reference) : list pnode :=
  (6%N, ref_start r, ref_end r) :: map (fun t => (7%N, tstart t, tend t)) r.

Fixpoint value_nodes (v : value) : list pnode :=
  match v with
  | VTok t s e => [(9%N, s, e); (17%N, tstart t, tend t)]       (* the value, and Value.token *)
  | VArr vs s e => (10%N, s, e) :: flat_map value_nodes vs
  end.

(* TagValue.MarkToken, when there is a mark *)
Definition mark_nodes (t : tag) : list pnode :=
  match tmark_tok t with Some mt => [(15%N, tstart mt, tend mt)] | None => [] end.
Definition tag_nodes (t : tag) : list pnode :=
  (8%N, tgstart t, tgend t) :: mark_nodes t ++
  match tbody t with TagRef r => ref_nodes r | TagVal v => value_nodes v end.

(* a description (kind 3 as a statement, 12 in a header) and its Tokens *)
Definition desc_nodes (k : N) (d : descr) : list pnode :=
  (k, dsstart d, dsend d) :: map (fun t => (16%N, tstart t, tend t)) (dtoks d).

Definition comment_nodes (c : option comment) : list pnode :=
  match c with Some c => [(11%N, cstart c, cend c)] | None => [] end.

Definition header_nodes (h : header) : list pnode :=
  (1%N, hstart h, hend h) :: ref_nodes (htype h) ++ flat_map tag_nodes (htags h) ++ flat_map tag_nodes (hquals h)
  ++ (match hdesc h with Some d => desc_nodes 12 d | None => [] end) ++ comment_nodes (hcomment h).

Definition assign_nodes (a : assign) : list pnode :=
  (2%N, astart a, aend a) :: ref_nodes (akey a) ++ value_nodes (avalue a) ++ comment_nodes (acomment a).

Definition frag_nodes (f : fragment) : list pnode :=
  match f with
  | FHeader h => header_nodes h
  | FAssign a => assign_nodes a
  | FDesc d => desc_nodes 3 d
  | FComment t => [(4%N, tstart t, tend t)]
  | FClose t => [(5%N, tstart t, tend t)]
  end.

Fixpoint stmt_nodes (s : stmt) : list pnode :=
  match s with
  | SBlock h body => header_nodes h ++ (13%N, pos0, pos0) :: flat_map stmt_nodes body ++ [(14%N, pos0, pos0)]
  | SAssign a => assign_nodes a
  | SDesc d => desc_nodes 3 d
  end.

(* ConcCodec.v — a codec call on a shared cache, composed from the machine of Conc.v and the
   sequential codec models (CodecEnc.encode, CodecDec.decode_bytes, CodecDecQuery.decode_query: pure functions of a schema
   environment and the input).

   What the encoder / decoder walks is the schema OBJECT that SchemaCache.Schema handed to the
   reflector: the RefSchema cells reachable from it, as they are in the heap AT THE TIME OF THE
   WALK — after Schema has returned and released the lock, while other goroutines build or roll
   back.  [env_seen] is that environment: the unfolding of the cell in the current heap
   (Conc.unfold), every linked node n contributing the schema [denote n] that its own descriptor
   yields (properties, scalar kinds, JSON names, the names of the types its fields refer to — a
   function of the descriptor alone), a placeholder with To == nil contributing nothing (the walk
   would find no schema there).  [encode_call] / [decode_call] apply the sequential models to it.

   What this composition ASSUMES, and what discharges it elsewhere: that the Go walk is a function of
   these cells, its input, and nothing else that another goroutine can change — the census
   obligations of ConcState.v (no lock-free function writes a field of a shared type or a
   package-level variable; the fields it reads are written only inside Schema, on objects of the
   critical section in progress; C10_lockfree_functions_write_nothing, C10_codec_walk_reads_frozen)
   and the oracle (exact bytes / message / error text against the solo call).

   No proofs in this file. *)
From Coq Require Import String List NArith Bool.
From J5V.lib Require Import Outcome Json.
From J5V.model Require Import Conc CodecTypes CodecEnc CodecDecScalar CodecDec CodecDecQuery.
Import ListNotations.

Section Walk.
Variable nm : name -> bytes.          (* the full name of a type of the universe *)
Variable denote : name -> schema.     (* what the reflector builds from the descriptor of a type *)

Fixpoint env_of_tree (t : utree) : env :=
  match t with
  | UNode n kids => (nm n, denote n) :: concat (map env_of_tree kids)
  | UCut n => [(nm n, denote n)]
  | UUnlinked _ | UBad => []
  end.

(* the schema environment reachable, to depth K, from cell c in heap h *)
Definition env_seen (K : nat) (h : list cell) (c : cellid) : env := env_of_tree (unfold K h c).

(* the same read off the type universe: what a call alone on a fresh cache is handed
   (Conc.result_solo = ROk (gunfold K g n) for a reflectable type: C10_solo_char) *)
Definition env_of_type (K : nat) (g : graph) (n : name) : env := env_of_tree (gunfold K g n).

Definition encode_call (fmt_float : bool -> N -> bytes) (any_inner : bytes -> bytes -> outcome bytes)
           (K : nat) (h : list cell) (c : cellid) (n : name) (m : msg) : outcome bytes :=
  encode fmt_float any_inner (env_seen K h c) (nm n) m.

Definition decode_call (orc : oracles) (K : nat) (h : list cell) (c : cellid) (n : name) (doc : bytes) : outcome msg :=
  decode_bytes orc (env_seen K h c) (nm n) doc.

(* Codec.QueryToProto: the (key, values) pairs in the order the loop visits them *)
Definition query_call (orc : oracles) (K : nat) (h : list cell) (c : cellid) (n : name) (kvs : list (bytes * list bytes)) : outcome msg :=
  decode_query orc (env_seen K h c) (nm n) kvs.

Definition query_solo (orc : oracles) (K : nat) (g : graph) (n : name) (kvs : list (bytes * list bytes)) : outcome msg :=
  decode_query orc (env_of_type K g n) (nm n) kvs.

Definition encode_solo fmt_float any_inner (K : nat) (g : graph) (n : name) (m : msg) : outcome bytes :=
  encode fmt_float any_inner (env_of_type K g n) (nm n) m.

Definition decode_solo (orc : oracles) (K : nat) (g : graph) (n : name) (doc : bytes) : outcome msg :=
  decode_bytes orc (env_of_type K g n) (nm n) doc.

End Walk.

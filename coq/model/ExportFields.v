(* ExportFields.v — the round trip against the code's own list of fields.

   gen/ReflectGen.v [schema_structs] is every struct of gen/j5/schema/v1/schema_j5pb/schema.pb.go that
   carries proto fields (the messages of j5/schema/v1/schema.proto and their oneof wrappers) with its
   members, regenerated from /repo on every run.  This file says, for EVERY such struct, how the export
   (ToJ5Field / ToJ5Root / ...) and the import (PackageSetFromSourceAPI) treat it, and the checks below
   (evaluated by vm_compute in proofs/ExportProofs.v, lemma export_import_cover_schema_proto) hold the
   classification against the generated tables:
     Built  the export builds it with a composite literal, member by member, and the import reads it
            member by member: every member must be set by an export literal of that type and read by
            a selector expression of the import ([import_reads]), or be on an explicit dropped list;
     Whole  carried as one value (rules, list rules, ext, entity payloads; the whole scalar Field):
            the export copies the pointer ([s.Rules], [s.Proto]), the import copies it back
            ([st.Object.Rules], [Proto: schema]); its members are never looked at;
     Never  never produced by the export of reflected schemas (inline alternatives of a schema oneof,
            InlineObject, the entity join of an object field).
   A new field in schema.proto, a member the export stops setting or the import stops reading, breaks
   a named obligation.  No proofs here. *)
From Coq Require Import String List Bool.
From J5V.gen Require ReflectGen.
Import ListNotations.
Local Open Scope string_scope.

Inductive sclass := Built | Whole | Never.

Definition struct_class : list (string * sclass) := [
  ("AnyField", Built); ("ArrayField", Built); ("ArrayField_Ext", Whole); ("ArrayField_Rules", Whole);
  ("BoolField", Whole); ("BoolField_Rules", Whole); ("BytesField", Whole); ("BytesField_Rules", Whole);
  ("DateField", Whole); ("DateField_Rules", Whole); ("DecimalField", Whole); ("DecimalField_Rules", Whole);
  ("EntityKey", Whole); ("EntityKey_ForeignKey", Whole); ("EntityKey_PrimaryKey", Whole);
  ("EntityObject", Whole); ("EntityRef", Whole);
  ("Enum", Built); ("EnumField", Built); ("EnumField_Enum", Never); ("EnumField_Ref", Built); ("EnumField_Rules", Whole);
  ("Enum_Option", Built); ("Enum_OptionInfoField", Whole);
  ("Field", Built); ("Field_Any", Built); ("Field_Array", Built);
  ("Field_Bool", Whole); ("Field_Bytes", Whole); ("Field_Date", Whole); ("Field_Decimal", Whole);
  ("Field_Enum", Built); ("Field_Float", Whole); ("Field_Integer", Whole); ("Field_Key", Whole);
  ("Field_Map", Built); ("Field_Object", Built); ("Field_Oneof", Built); ("Field_String_", Whole); ("Field_Timestamp", Whole);
  ("FloatField", Whole); ("FloatField_Rules", Whole); ("InlineObject", Never);
  ("IntegerField", Whole); ("IntegerField_Rules", Whole); ("KeyField", Whole);
  ("KeyFormat", Whole); ("KeyFormat_Custom", Whole); ("KeyFormat_Custom_", Whole); ("KeyFormat_Id62", Whole);
  ("KeyFormat_Informal_", Whole); ("KeyFormat_Uuid", Whole);
  ("MapField", Built); ("MapField_Ext", Whole); ("MapField_Rules", Whole);
  ("Object", Built); ("ObjectField", Built); ("ObjectField_EntityJoin", Never); ("ObjectField_Object", Never);
  ("ObjectField_Ref", Built); ("ObjectField_Rules", Whole); ("ObjectProperty", Built);
  ("Oneof", Built); ("OneofField", Built); ("OneofField_Oneof", Never); ("OneofField_Ref", Built);
  ("Ref", Built); ("RootSchema", Built); ("RootSchema_Enum", Built); ("RootSchema_Object", Built); ("RootSchema_Oneof", Built);
  ("StringField", Whole); ("StringField_Rules", Whole); ("TimestampField", Whole); ("TimestampField_Rules", Whole)
].

(* members of a Built struct the export never sets / the import never reads, with the reason *)
Definition export_dropped : list (string * string * string) := [
  ("ObjectField", "Entity", "the reader's ObjectField has no entity join (reflection never produces one)")
].
Definition import_dropped : list (string * string * string) := [
  ("ObjectField", "Entity", "as for the export");
  ("MapField", "KeySchema", "the export sets the constant string schema, the import ignores it (J5 map keys are strings)")
].

(* the expression through which the import reads a Built struct: "function: prefix" of [import_reads] *)
Definition import_access : list (string * list string) := [
  ("AnyField", ["schemaFromDesc: st.Any."]); ("ArrayField", ["schemaFromDesc: st.Array."]);
  ("Enum", ["enumSchemaFromDesc: sch."]); ("EnumField", ["schemaFromDesc: st.Enum."]);
  ("EnumField_Ref", ["schemaFromDesc: inner."]); ("Enum_Option", ["enumSchemaFromDesc: src."]);
  ("Field", ["schemaFromDesc: schema."]);
  ("Field_Any", ["schemaFromDesc: st."]); ("Field_Array", ["schemaFromDesc: st."]); ("Field_Enum", ["schemaFromDesc: st."]);
  ("Field_Map", ["schemaFromDesc: st."]); ("Field_Object", ["schemaFromDesc: st."]); ("Field_Oneof", ["schemaFromDesc: st."]);
  ("MapField", ["schemaFromDesc: st.Map."]); ("Object", ["objectSchemaFromDesc: sch."]);
  ("ObjectField", ["schemaFromDesc: st.Object."]); ("ObjectField_Ref", ["schemaFromDesc: inner."]);
  ("ObjectProperty", ["objectPropertyFromDesc: prop."]); ("Oneof", ["oneofSchemaFromDesc: sch."]);
  ("OneofField", ["schemaFromDesc: st.Oneof."]); ("OneofField_Ref", ["schemaFromDesc: inner."]);
  ("Ref", ["schemaFromDesc: inner.Ref."]); ("RootSchema", ["buildRoot: schema."]);
  ("RootSchema_Enum", ["buildRoot: st."]); ("RootSchema_Object", ["buildRoot: st."]); ("RootSchema_Oneof", ["buildRoot: st."])
].

Definition str_in (x : string) (l : list string) : bool := existsb (String.eqb x) l.
Definition class_of (m : string) : option sclass :=
  match find (fun c => String.eqb (fst c) m) struct_class with Some (_, c) => Some c | None => None end.
Definition is_built (m : string) : bool := match class_of m with Some Built => true | _ => false end.

(* members some export literal of type [m] sets *)
Definition export_sets (m : string) : list string :=
  flat_map (fun s => match s with (_, ty, kvs) => if String.eqb ty m then map fst kvs else [] end) ReflectGen.export_rhs.
Definition dropped_in (l : list (string * string * string)) (m f : string) : bool :=
  existsb (fun d => match d with (m', f', _) => String.eqb m' m && String.eqb f' f end) l.
Definition import_reads_member (m f : string) : bool :=
  match find (fun a => String.eqb (fst a) m) import_access with
  | Some (_, pres) => existsb (fun pre => str_in (pre ++ f) ReflectGen.import_reads) pres
  | None => false
  end.

(* 1. every struct of schema.pb.go is classified, and nothing else is *)
Definition classes_cover : bool :=
  (fix eq (a b : list string) : bool :=
     match a, b with
     | [], [] => true
     | x :: r, y :: s => String.eqb x y && eq r s
     | _, _ => false
     end) (map fst struct_class) (map fst ReflectGen.schema_structs).

(* 2. export: every member of a Built struct is set by a literal of that type or deliberately dropped (not both),
      and the literals of that type set nothing else *)
Definition export_covers : bool :=
  forallb (fun sm => match sm with (m, ms) =>
    if is_built m then
      forallb (fun f => xorb (str_in f (export_sets m)) (dropped_in export_dropped m f)) ms &&
      forallb (fun k => str_in k ms) (export_sets m)
    else true end) ReflectGen.schema_structs.

(* 3. import: every member of a Built struct is read by a selector of the import or deliberately dropped (not both) *)
Definition import_covers : bool :=
  forallb (fun sm => match sm with (m, ms) =>
    if is_built m then forallb (fun f => xorb (import_reads_member m f) (dropped_in import_dropped m f)) ms
    else true end) ReflectGen.schema_structs.

(* 4. the dropped lists name members of Built structs *)
Definition dropped_exact : bool :=
  forallb (fun d => match d with (m, f, _) =>
    is_built m && existsb (fun sm => String.eqb (fst sm) m && str_in f (snd sm)) ReflectGen.schema_structs end)
    (export_dropped ++ import_dropped).

(* 5. no export literal builds a struct classified Whole or Never (schema_j5pb types only) *)
Definition export_builds_only_built : bool :=
  forallb (fun s => match s with (_, ty, _) =>
    match class_of ty with Some Built => true | Some _ => false | None => true end end) ReflectGen.export_rhs.

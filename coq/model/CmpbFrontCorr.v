(* CmpbFrontCorr.v — correspondence cases for the C07 front end (model/CmpbFront.v, model/CmpbWalker.v).
   What the real j5s front end did on a source text, against (a) C11's parser model run on the same bytes
   (the walker's position contract: every point it recorded or reported is an end of a node of the syntax
   tree), (b) the model of sourcewalk's child / GetPos and addError (the exact position of every conversion
   error, computed on the REAL location tree), and (c) the coverage obligation of the walker crash stream. *)
From Coq Require Import String List NArith ZArith Bool.
From J5V.lib Require Import Text Outcome Corr.
From J5V.model Require Import BclLexer BclParser Entity CmpbFields CmpbDecls CmpbFieldsCorr CmpbFront CmpbWalker CmpbPackage CmpbEntity.
Import ListNotations.
Local Open Scope bool_scope.

Definition span_eqb (a b : span) : bool := pos_eqb (fst a) (fst b) && pos_eqb (snd a) (snd b).

Definition lkind_eqb (a b : lkind) : bool :=
  N.eqb (fst a) (fst b) &&
  match snd a, snd b with
  | None, None => true
  | Some (f, sp), Some (g, sq) => N.eqb f g && span_eqb sp sq
  | _, _ => false
  end.

Inductive c07fcase :=
(* j5parse.ParseFile returned a file: every span of its SourceLocation tree *)
| CFrontFile (input : list N) (tree_spans : list span)
(* j5parse.ParseFile returned errors. from_parser: they are the BCL lexer / parser diagnostics (the tree had
   errors); otherwise they come from the walker or from protovalidate on the walked message *)
| CFrontErrs (input : list N) (from_parser : bool) (es : list span)
(* a file whose conversion failed: the real location tree, the declarations with the SourceNode paths
   sourcewalk gives them, and the positions of the conversion errors in the order they were returned *)
| CConvPos (t : loc) (lf : list ldecl) (observed : list span)
(* a conversion error below a declaration the converter model keeps abstract (a property of a service method's
   request / response, a field of a topic message): the real location tree, the SourceNode path sourcewalk gives the
   failing node (supplied by the harness, per error), and the observed positions.  Only the model of child / GetPos
   is exercised: the position of each error is the span recorded for its path, or for the nearest recorded ancestor *)
| CChildPos (t : loc) (paths : list (list string)) (observed : list span)
(* functions of the walker packages executed by the crash stream (go build -cover counters) *)
| CWalkCov (covered : list fkey)
(* package loading: a bundle of well-formed files (their real texts) with the given import graph (missing packages,
   cycles), every reference with the span the REAL location tree records for its import statement;
   CompilePackage of [name]: kind 0 = compiled, 1 = circular dependency, 2 = no files for package, 3 = other
   error; at_pos: the file and span of the position the error leaf carried (None: no position) *)
| CPkgLoad (b : bundle) (name : pkgid) (kind : N) (at_pos : option (fileid * span))
(* an entity declaration alone in a file (Entity.v term of the `ent` family + its text): the verdict and, when it
   compiles, the import sets of the three output files restricted to the converter's constant imports *)
| CEntityFile (e : entity) (v : verdict) (main service topic : list string).

Definition c07f_check (c : c07fcase) : bool :=
  match c with
  | CFrontFile input sps =>
      match parse_file input true with
      | Ok p => match pdiags p, ptree p with
                | [], Some body => forallb (span_from body) sps
                | _, _ => false
                end
      | _ => false
      end
  | CFrontErrs input from_parser es =>
      match parse_file input true with
      | Ok p => match pdiags p, ptree p with
                | [], Some body => negb from_parser && negb (match es with [] => true | _ => false end)
                                   && forallb (err_span_from body) es
                | d :: ds, _ => from_parser && list_eqb span_eqb (map diag_span (d :: ds)) es
                | _, _ => false
                end
      | _ => false
      end
  | CConvPos t lf observed =>
      forallb ldecl_wf lf && list_eqb span_eqb (map snd (conv_errors t lf)) observed
  | CChildPos t paths observed => list_eqb span_eqb (map (fun p => child_span p t) paths) observed
  | CWalkCov covered => coverage_ok covered
  | CPkgLoad b name kind at_pos =>
      (* resolveDependencies ranges over a map: any outcome some iteration order produces is admissible; the two
         loader errors are positioned at the import statement of the importing file (fix 3f76693).  The hypothesis
         of the package theorem (imports_located) is evaluated on the real data: every import span joins two end
         points of nodes of the parser model's tree of the file's text *)
      existsb (lkind_eqb (kind, at_pos)) (package_kinds b name)
      && forallb (fun f => match sf_imports f with
                           | [] => true
                           | imps => match parse_file (sf_input f) true with
                                     | Ok p => match ptree p with
                                               | Some body => forallb (fun i => span_from body (snd i)) imps
                                               | None => false
                                               end
                                     | _ => false
                                     end
                           end) (all_files b)
  | CEntityFile e v main service topic =>
      match expand e with
      | Ok cs =>
          let pok := query_params_ok e && command_params_ok e in
          let tds := entity_decls pok cs in
          let consts (t : target) := map imp_path (filter (fun i => negb (imp_eqb i IRefFile)) (d_imps (tstate t tds))) in
          verdict_eqb (entity_verdict pok cs) v &&
          match v with
          | VOk => set_eq (consts FMain) main && set_eq (consts FService) service && set_eq (consts FTopic) topic
          | _ => true
          end
      | Err _ => verdict_eqb VConvErr v
      | _ => false
      end
  end.

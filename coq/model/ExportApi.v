(* ExportApi.v — model of the package bookkeeping of structure.APIFromImage
     internal/structure/build_package.go  APIFromImage (selector, wantPackages), addSchemas,
        getSchemaSet, getPackage, getSubPackage, splitPackageParts
   and of the way PackageSetFromSourceAPI names the packages it rebuilds
     lib/j5schema/schema_from_desc.go  PackageSetFromSourceAPI: apiPackage.Name and
        fmt.Sprintf("%s.%s", apiPackage.Name, subPkg.Name).
   The API is a list of packages (listed ones first, then the "indirect" ones created on demand),
   each with its schemas and its sub-packages.  addStructure (services / topics) is modelled as far
   as it decides the outcome of APIFromImage and the sub-packages of the API: splitPackageParts of
   every service's package, the listed-package test, getSubPackage, the dispatch on the service name,
   and every error of buildService / buildMethod / buildTopic / buildTopicMethod; the Service / Topic
   values themselves are not part of the schema round trip (PackageSetFromSourceAPI does not read
   them) and are not modelled.  No proofs here. *)
From Coq Require Import String List NArith ZArith Bool.
From J5V.lib Require Import Outcome.
From J5V.model Require Import ReflectDesc ReflectSchema Reflect ExportForm Export ReflectOwn ReflectNames.
Import ListNotations.
Local Open Scope bool_scope.

(* ---------------------------------------------------------------- splitPackageParts *)
Definition dot : N := 46%N.

(* strings.Split(s, ".") *)
Fixpoint split_dots (s : str) : list str :=
  match s with
  | [] => [[]]
  | c :: r =>
      if N.eqb c dot then [] :: split_dots r
      else match split_dots r with
           | h :: t => (c :: h) :: t
           | [] => [[c]]
           end
  end.
(* strings.Join(parts, ".") *)
Fixpoint join_dots (l : list str) : str :=
  match l with
  | [] => []
  | [x] => x
  | x :: r => x ++ dot :: join_dots r
  end.

(* reVersion = ^v[0-9]+$ *)
Definition is_digit (c : N) : bool := N.leb 48 c && N.leb c 57.
Definition is_version (p : str) : bool :=
  match p with
  | 118%N :: d :: ds => forallb is_digit (d :: ds)
  | _ => false
  end.

(* the parts up to and including the first version part, and the parts after it *)
Fixpoint find_version (parts : list str) : option (list str * list str) :=
  match parts with
  | [] => None
  | p :: r =>
      if is_version p then Some ([p], r)
      else match find_version r with
           | Some (a, b) => Some (p :: a, b)
           | None => None
           end
  end.

(* packageID: package name, optional sub-package *)
Definition split_package (pkg : str) : res (str * option str) :=
  match find_version (split_dots pkg) with
  | None => RErr "no version part found"
  | Some (pre, suf) =>
      if existsb is_version suf then RErr "multiple path parts matched version regex"
      else match suf with
           | [] => ROk (pkg, None)
           | [s] => ROk (join_dots pre, Some s)
           | _ => RErr "multiple sub version path parts"
           end
  end.

(* the name PackageSetFromSourceAPI gives a sub-package: Sprintf("%s.%s", package, sub) *)
Definition sub_full_name (p s : str) : str := p ++ dot :: s.

(* ---------------------------------------------------------------- source_j5pb.API *)
Inductive xsub := XSub (name : str) (schemas : list (str * xroot)).
Inductive xpackage := XPackage (name : str) (indirect : bool) (schemas : list (str * xroot)) (subs : list xsub).
Definition xapi := list xpackage.
Definition sub_name s := match s with XSub n _ => n end.
Definition pk_name p := match p with XPackage n _ _ _ => n end.

(* ss[name] = root on a Go map *)
Fixpoint put_schema (l : list (str * xroot)) (n : str) (x : xroot) : list (str * xroot) :=
  match l with
  | [] => [(n, x)]
  | (n', x') :: r => if str_eqb n' n then (n, x) :: r else (n', x') :: put_schema r n x
  end.

(* getSubPackage + assignment *)
Fixpoint put_sub (subs : list xsub) (s n : str) (x : xroot) : list xsub :=
  match subs with
  | [] => [XSub s [(n, x)]]
  | XSub s' l :: r => if str_eqb s' s then XSub s' (put_schema l n x) :: r else XSub s' l :: put_sub r s n x
  end.

(* getPackage: the first package of that name, or a new indirect one appended *)
Fixpoint put_pkg (api : xapi) (p : str) (f : xpackage -> xpackage) : xapi :=
  match api with
  | [] => [f (XPackage p true [] [])]
  | pk :: r => if str_eqb (pk_name pk) p then f pk :: r else pk :: put_pkg r p f
  end.

(* getSchemaSet(schemaPkg.Name) then ss[name] = schema.To.ToJ5Root() *)
Definition route (api : xapi) (k : ref) (x : xroot) : res xapi :=
  rbind (split_package (fst k)) (fun id =>
  ROk (put_pkg api (fst id) (fun pk =>
         match pk with XPackage pn ind l subs =>
           match snd id with
           | None => XPackage pn ind (put_schema l (snd k) x) subs
           | Some s => XPackage pn ind l (put_sub subs s (snd k) x)
           end
         end))).

Fixpoint route_all (api : xapi) (entries : list (ref * xroot)) : res xapi :=
  match entries with
  | [] => ROk api
  | (k, x) :: rest => rbind (route api k x) (fun api1 => route_all api1 rest)
  end.

(* the packages the image lists *)
Definition api_init (wanted : list str) : xapi := map (fun w => XPackage w false [] []) wanted.

(* ---------------------------------------------------------------- addStructure *)
(* the (google.api.http) rule of a method: its pattern *)
Inductive httprule := HNone | HGet (path : str) | HPost (path : str) | HPut (path : str) | HDelete (path : str)
                    | HPatch (path : str) | HOther.
(* a method: name; input message (package, name, field names); output message (name, full name);
   http rule; (j5.ext.v1.method).state_query = Some (get, list, list_events) *)
Inductive methd := Meth (name in_pkg in_name : str) (in_fields : list str) (out_name out_full : str)
                        (http : httprule) (state_query : option (bool * bool * bool)).
(* (j5.ext.v1.service).type *)
Inductive svckind := SKNone | SKStateQuery | SKStateCommand.
Inductive svcd := Svc (pkg name : str) (kind : svckind) (methods : list methd).

Definition s_Service := bytes "Service".
Definition s_Sandbox := bytes "Sandbox".
Definition s_Events := bytes "Events".
Definition s_Topic := bytes "Topic".
Definition s_Request := bytes "Request".
Definition s_Response := bytes "Response".
Definition s_Message := bytes "Message".
Definition s_HttpBody := bytes "google.api.HttpBody".
Definition s_Empty := bytes "google.protobuf.Empty".
Definition slash : N := 47%N.

(* strings.Split(s, "/") *)
Fixpoint split_slash (s : str) : list str :=
  match s with
  | [] => [[]]
  | c :: r =>
      if N.eqb c slash then [] :: split_slash r
      else match split_slash r with
           | h :: t => (c :: h) :: t
           | [] => [[c]]
           end
  end.

(* one part of the http path: "{field}" must name a field of the input; any other part must not
   contain one of the characters of "{}*:" *)
Definition path_part_ok (in_fields : list str) (part : str) : bool :=
  match part with
  | [] => true
  | c :: _ =>
      if N.eqb c 123 && N.eqb (last part 0%N) 125 then
        (* part[1 : len(part)-1] *)
        existsb (str_eqb (removelast (tl part))) in_fields
      else negb (existsb (fun ch => N.eqb ch 123 || N.eqb ch 125 || N.eqb ch 42 || N.eqb ch 58) part)
  end.

(* buildMethod *)
Definition build_method (svc_pkg : str) (kind : svckind) (m : methd) : res unit :=
  match m with Meth name in_pkg in_name in_fields out_name out_full http sq =>
    if negb (str_eqb in_pkg svc_pkg && str_eqb in_name (name ++ s_Request)) then RErr "j5 service input message must be <method>Request"
    else if negb (str_eqb out_name (name ++ s_Response)) && negb (str_eqb out_full s_HttpBody) then RErr "j5 service output message must be <method>Response"
    else
      rbind (match http with
             | HNone => RErr "missing http rule"
             | HOther => RErr "unsupported http method"
             | HGet p | HPost p | HPut p | HDelete p | HPatch p => ROk p
             end) (fun path =>
      if negb (forallb (path_part_ok in_fields) (split_slash path)) then RErr "path field not found in input / invalid path part"
      else match sq with
           | None => ROk tt
           | Some (get, list, list_events) =>
               match kind with
               | SKStateQuery => if get || list || list_events then ROk tt else RErr "invalid state query part"
               | _ => RErr "service is not a state query service, but has state query annotations"
               end
           end)
  end.

(* buildTopicMethod *)
Definition build_topic_method (svc_pkg : str) (m : methd) : res unit :=
  match m with Meth name in_pkg in_name _ _ out_full _ _ =>
    if negb (str_eqb in_pkg svc_pkg && str_eqb in_name (name ++ s_Message)) then RErr "j5 topic input message must be <method>Message in the same package"
    else if negb (str_eqb out_full s_Empty) then RErr "j5 topic output message must be google.protobuf.Empty"
    else ROk tt
  end.

Fixpoint all_ok {A} (f : A -> res unit) (l : list A) : res unit :=
  match l with
  | [] => ROk tt
  | x :: r => rbind (f x) (fun _ => all_ok f r)
  end.

(* getSubPackage alone: the sub-package is created when it is not there *)
Fixpoint touch_sub (subs : list xsub) (s : str) : list xsub :=
  match subs with
  | [] => [XSub s []]
  | XSub s' l :: r => if str_eqb s' s then XSub s' l :: r else XSub s' l :: touch_sub r s
  end.

(* one service of addStructure *)
Definition add_service (wanted : list str) (api : xapi) (sv : svcd) : res xapi :=
  match sv with Svc pkg name kind methods =>
    rbind (split_package pkg) (fun id =>
    if negb (existsb (str_eqb (fst id)) wanted) then ROk api
    else match snd id with
         | None => RErr "missing sub-package name"
         | Some sub =>
             let api1 := put_pkg api (fst id) (fun pk => match pk with XPackage pn ind l subs => XPackage pn ind l (touch_sub subs sub) end) in
             if has_suffix s_Service name || has_suffix s_Sandbox name then
               rbind (all_ok (build_method pkg kind) methods) (fun _ => ROk api1)
             else if has_suffix s_Events name then ROk api1
             else if has_suffix s_Topic name then
               rbind (all_ok (build_topic_method pkg) methods) (fun _ => ROk api1)
             else RErr "unsupported service name"
         end)
  end.

(* addStructure over the services of every file of the image, in the order they are visited *)
Fixpoint add_structure (wanted : list str) (api : xapi) (svcs : list svcd) : res xapi :=
  match svcs with
  | [] => ROk api
  | sv :: r => rbind (add_service wanted api sv) (fun api1 => add_structure wanted api1 r)
  end.

(* the selector of APIFromImage: files whose package name has a listed package as a prefix *)
Definition selected (D : desc) (wanted : list str) : list filed :=
  filter (fun f => match f with File _ pkg _ _ => existsb (fun w => has_prefix w pkg) wanted end) (d_files D).

(* addSchemas on the reflected set, into the API addStructure left *)
Definition api_of_set_from (api0 : xapi) (S : sset) : outcome xapi :=
  obind (export_set S) (fun X => lift (route_all api0 X)).
Definition api_of_set (wanted : list str) (S : sset) : outcome xapi := api_of_set_from (api_init wanted) S.

(* APIFromImage: addStructure over the services [svcs] of the image, then addSchemas for the selected
   files visited in the order [fs]; the reflection is the reader as the code is, with the ownership
   of schema names (ReflectOwn.v: two descriptors asking for one name are an error) *)
Definition api_from_image (D : desc) (svcs : list svcd) (wanted : list str) (fs : list filed) : outcome xapi :=
  obind (lift (add_structure wanted (api_init wanted) svcs)) (fun api0 =>
  obind (omap fst (ReflectNames.o_reflect_checked D fs)) (api_of_set_from api0)).

(* what PackageSetFromSourceAPI walks: every schema of every package and sub-package under the
   name it files it under *)
Definition api_entries (api : xapi) : list (ref * xroot) :=
  flat_map (fun pk => match pk with XPackage pn _ l subs =>
              map (fun nx => ((pn, fst nx), snd nx)) l ++
              flat_map (fun sp => match sp with XSub sn sl =>
                          map (fun nx => ((sub_full_name pn sn, fst nx), snd nx)) sl end) subs
            end) api.

Definition import_packages (api : xapi) : res sset := import_api (api_entries api).

(* package names, indirect flags and sub-package names *)
Definition api_shape (api : xapi) : list (str * bool * list str) :=
  map (fun pk => match pk with XPackage pn ind _ subs => (pn, ind, map sub_name subs) end) api.

(* ExportApi.v — model of the package bookkeeping of structure.APIFromImage
     internal/structure/build_package.go  APIFromImage (selector, wantPackages), addSchemas,
        getSchemaSet, getPackage, getSubPackage, splitPackageParts
   and of the way PackageSetFromSourceAPI names the packages it rebuilds
     lib/j5schema/schema_from_desc.go  PackageSetFromSourceAPI: apiPackage.Name and
        fmt.Sprintf("%s.%s", apiPackage.Name, subPkg.Name).
   The API is a list of packages (listed ones first, then the "indirect" ones created on demand),
   each with its schemas and its sub-packages.  Services / topics (addStructure) are not modelled:
   the generated descriptor sets have none.  No proofs here. *)
From Coq Require Import String List NArith ZArith Bool.
From J5V.lib Require Import Outcome.
From J5V.model Require Import ReflectDesc ReflectSchema Reflect ExportForm Export.
Import ListNotations.
Local Open Scope bool_scope.

(* ---------------------------------------------------------------- splitPackageParts *)
Definition dot : N := 46%N.

(* strings.Split(s, ".") *)
Fixpoint split_dots (s : str) : list str :=
  match s with
  | [] => [[]]
  | c :: r =>
      if N.eqb c dot then [] :: split_dots r
      else match split_dots r with
           | h :: t => (c :: h) :: t
           | [] => [[c]]
           end
  end.
(* strings.Join(parts, ".") *)
Fixpoint join_dots (l : list str) : str :=
  match l with
  | [] => []
  | [x] => x
  | x :: r => x ++ dot :: join_dots r
  end.

(* reVersion = ^v[0-9]+$ *)
Definition is_digit (c : N) : bool := N.leb 48 c && N.leb c 57.
Definition is_version (p : str) : bool :=
  match p with
  | 118%N :: d :: ds => forallb is_digit (d :: ds)
  | _ => false
  end.

(* the parts up to and including the first version part, and the parts after it *)
Fixpoint find_version (parts : list str) : option (list str * list str) :=
  match parts with
  | [] => None
  | p :: r =>
      if is_version p then Some ([p], r)
      else match find_version r with
           | Some (a, b) => Some (p :: a, b)
           | None => None
           end
  end.

(* packageID: package name, optional sub-package *)
Definition split_package (pkg : str) : res (str * option str) :=
  match find_version (split_dots pkg) with
  | None => RErr "no version part found"
  | Some (pre, suf) =>
      if existsb is_version suf then RErr "multiple path parts matched version regex"
      else match suf with
           | [] => ROk (pkg, None)
           | [s] => ROk (join_dots pre, Some s)
           | _ => RErr "multiple sub version path parts"
           end
  end.

(* the name PackageSetFromSourceAPI gives a sub-package: Sprintf("%s.%s", package, sub) *)
Definition sub_full_name (p s : str) : str := p ++ dot :: s.

(* ---------------------------------------------------------------- source_j5pb.API *)
Inductive xsub := XSub (name : str) (schemas : list (str * xroot)).
Inductive xpackage := XPackage (name : str) (indirect : bool) (schemas : list (str * xroot)) (subs : list xsub).
Definition xapi := list xpackage.
Definition sub_name s := match s with XSub n _ => n end.
Definition pk_name p := match p with XPackage n _ _ _ => n end.

(* ss[name] = root on a Go map *)
Fixpoint put_schema (l : list (str * xroot)) (n : str) (x : xroot) : list (str * xroot) :=
  match l with
  | [] => [(n, x)]
  | (n', x') :: r => if str_eqb n' n then (n, x) :: r else (n', x') :: put_schema r n x
  end.

(* getSubPackage + assignment *)
Fixpoint put_sub (subs : list xsub) (s n : str) (x : xroot) : list xsub :=
  match subs with
  | [] => [XSub s [(n, x)]]
  | XSub s' l :: r => if str_eqb s' s then XSub s' (put_schema l n x) :: r else XSub s' l :: put_sub r s n x
  end.

(* getPackage: the first package of that name, or a new indirect one appended *)
Fixpoint put_pkg (api : xapi) (p : str) (f : xpackage -> xpackage) : xapi :=
  match api with
  | [] => [f (XPackage p true [] [])]
  | pk :: r => if str_eqb (pk_name pk) p then f pk :: r else pk :: put_pkg r p f
  end.

(* getSchemaSet(schemaPkg.Name) then ss[name] = schema.To.ToJ5Root() *)
Definition route (api : xapi) (k : ref) (x : xroot) : res xapi :=
  rbind (split_package (fst k)) (fun id =>
  ROk (put_pkg api (fst id) (fun pk =>
         match pk with XPackage pn ind l subs =>
           match snd id with
           | None => XPackage pn ind (put_schema l (snd k) x) subs
           | Some s => XPackage pn ind l (put_sub subs s (snd k) x)
           end
         end))).

Fixpoint route_all (api : xapi) (entries : list (ref * xroot)) : res xapi :=
  match entries with
  | [] => ROk api
  | (k, x) :: rest => rbind (route api k x) (fun api1 => route_all api1 rest)
  end.

(* the packages the image lists *)
Definition api_init (wanted : list str) : xapi := map (fun w => XPackage w false [] []) wanted.

(* the selector of APIFromImage: files whose package name has a listed package as a prefix *)
Definition selected (D : desc) (wanted : list str) : list filed :=
  filter (fun f => match f with File _ pkg _ _ => existsb (fun w => has_prefix w pkg) wanted end) (d_files D).

(* addSchemas on the reflected set *)
Definition api_of_set (wanted : list str) (S : sset) : outcome xapi :=
  obind (export_set S) (fun X => lift (route_all (api_init wanted) X)).

(* APIFromImage for the selected files visited in the order [fs] *)
Definition api_from_image (D : desc) (wanted : list str) (fs : list filed) : outcome xapi :=
  obind (reflect D fs) (api_of_set wanted).

(* what PackageSetFromSourceAPI walks: every schema of every package and sub-package under the
   name it files it under *)
Definition api_entries (api : xapi) : list (ref * xroot) :=
  flat_map (fun pk => match pk with XPackage pn _ l subs =>
              map (fun nx => ((pn, fst nx), snd nx)) l ++
              flat_map (fun sp => match sp with XSub sn sl =>
                          map (fun nx => ((sub_full_name pn sn, fst nx), snd nx)) sl end) subs
            end) api.

Definition import_packages (api : xapi) : res sset := import_api (api_entries api).

(* package names, indirect flags and sub-package names *)
Definition api_shape (api : xapi) : list (str * bool * list str) :=
  map (fun pk => match pk with XPackage pn ind _ subs => (pn, ind, map sub_name subs) end) api.

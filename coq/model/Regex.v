(* Regex.v — a fragment of RE2 (the syntax Go's regexp and CEL's matches() accept):
   abstract syntax, DECLARATIVE matching semantics ([mt], [search]), a parser for
   the concrete syntax (three outcomes: parsed / ill-formed / outside the fragment)
   and an executable matcher by derivatives ([searchb]).
   Proved in proofs/RegexProofs.v: searchb r s = true <-> search r s.
   Characters are Unicode code points (N). No flags: case-sensitive, ^ and $ are
   begin / end of text, . is any character but \n, matching is unanchored search. *)
From Coq Require Import List NArith Bool.
Import ListNotations.
Local Open Scope N_scope.

(* ---- character sets ------------------------------------------------------------ *)
Record cset := CS { cs_neg : bool; cs_ranges : list (N * N) }.
Definition in_ranges (rs : list (N * N)) (c : N) : bool :=
  existsb (fun r => (fst r <=? c) && (c <=? snd r)) rs.
Definition cs_mem (s : cset) (c : N) : bool := xorb (cs_neg s) (in_ranges (cs_ranges s) c).

Definition cs_any : cset := CS true [].                    (* every character *)
Definition cs_dot : cset := CS true [(10, 10)].            (* . : every character but \n *)
Definition rs_digit : list (N * N) := [(48, 57)].
Definition rs_word : list (N * N) := [(48, 57); (65, 90); (95, 95); (97, 122)].
Definition rs_space : list (N * N) := [(9, 10); (12, 13); (32, 32)].

(* ---- abstract syntax ------------------------------------------------------------ *)
Inductive re :=
| RNone                 (* matches nothing *)
| REps                  (* the empty string *)
| RSet (s : cset)       (* one character of the set *)
| RBol                  (* ^ : at the beginning of the text *)
| REol                  (* $ : at the end of the text *)
| RCat (a b : re)
| RAlt (a b : re)
| RStar (a : re).

Definition isnil {A} (l : list A) : bool := match l with [] => true | _ => false end.

(* ---- declarative semantics -------------------------------------------------------- *)
(* [mt r b e s]: the string s matches r, where b says that s starts at the beginning
   of the text and e that it ends at the end of the text *)
Inductive mt : re -> bool -> bool -> list N -> Prop :=
| MEps b e : mt REps b e []
| MSet s c b e : cs_mem s c = true -> mt (RSet s) b e [c]
| MBol e : mt RBol true e []
| MEol b : mt REol b true []
| MCat a r b e s1 s2 :
    mt a b (e && isnil s2) s1 -> mt r (b && isnil s1) e s2 -> mt (RCat a r) b e (s1 ++ s2)
| MAltL a r b e s : mt a b e s -> mt (RAlt a r) b e s
| MAltR a r b e s : mt r b e s -> mt (RAlt a r) b e s
| MStar0 a b e : mt (RStar a) b e []
| MStarS a b e s1 s2 :
    s1 <> [] -> mt a b (e && isnil s2) s1 -> mt (RStar a) false e s2 -> mt (RStar a) b e (s1 ++ s2).

(* the pattern finds a match somewhere in the text *)
Definition search (r : re) (text : list N) : Prop :=
  exists pre s post, text = pre ++ s ++ post /\ mt r (isnil pre) (isnil post) s.

(* ---- the matcher: Brzozowski derivatives with begin / end context ----------------- *)
Fixpoint nullable (b e : bool) (r : re) : bool :=
  match r with
  | RNone => false
  | REps => true
  | RSet _ => false
  | RBol => b
  | REol => e
  | RCat a r2 => nullable b e a && nullable b e r2
  | RAlt a r2 => nullable b e a || nullable b e r2
  | RStar _ => true
  end.

Definition mk_cat (a r : re) : re :=
  match a with
  | RNone => RNone
  | _ => match r with RNone => RNone | _ => RCat a r end
  end.
Definition mk_alt (a r : re) : re :=
  match a with
  | RNone => r
  | _ => match r with RNone => a | _ => RAlt a r end
  end.

(* [deriv b r c]: what must match the rest after reading c; b: c is the first character of the text *)
Fixpoint deriv (b : bool) (r : re) (c : N) : re :=
  match r with
  | RNone | REps | RBol | REol => RNone
  | RSet s => if cs_mem s c then REps else RNone
  | RCat a r2 => mk_alt (mk_cat (deriv b a c) r2) (if nullable b false a then deriv b r2 c else RNone)
  | RAlt a r2 => mk_alt (deriv b a c) (deriv b r2 c)
  | RStar a => mk_cat (deriv b a c) (RStar a)
  end.

(* s, running to the end of the text, matches r *)
Fixpoint matchb (b : bool) (r : re) (s : list N) : bool :=
  match s with
  | [] => nullable b true r
  | c :: s' => matchb false (deriv b r c) s'
  end.

Definition searchb (r : re) (text : list N) : bool :=
  matchb true (RCat (RStar (RSet cs_any)) (RCat r (RStar (RSet cs_any)))) text.

(* ---- concrete syntax -------------------------------------------------------------- *)
Inductive pres := Parsed (r : re) | IllFormed | Unsupported.

(* r{n} *)
Fixpoint rep_n (n : nat) (r : re) : re :=
  match n with O => REps | S k => RCat r (rep_n k r) end.
(* (r?){n} *)
Fixpoint opt_n (n : nat) (r : re) : re :=
  match n with O => REps | S k => RCat (RAlt r REps) (opt_n k r) end.

Definition is_digit (c : N) : bool := (48 <=? c) && (c <=? 57).
Definition is_alpha (c : N) : bool := ((65 <=? c) && (c <=? 90)) || ((97 <=? c) && (c <=? 122)).
Definition is_punct (c : N) : bool :=
  (c <? 128) && (32 <? c) && negb (is_digit c) && negb (is_alpha c).

(* a decimal number of at most 4 digits; None: no digit here *)
Fixpoint parse_num (fuel : nat) (s : list N) (acc : N) (seen : bool) : option (N * list N) :=
  match fuel, s with
  | S f, c :: r => if is_digit c then parse_num f r (acc * 10 + (c - 48)) true
                   else if seen then Some (acc, s) else None
  | _, _ => if seen then Some (acc, s) else None
  end.

(* an escape after the backslash: a set / a literal; or ill-formed / unsupported *)
Inductive esc := EscSet (s : cset) | EscBad | EscUnsup.
Definition parse_escape (c : N) : esc :=
  if c =? 100 then EscSet (CS false rs_digit)            (* \d *)
  else if c =? 68 then EscSet (CS true rs_digit)         (* \D *)
  else if c =? 119 then EscSet (CS false rs_word)        (* \w *)
  else if c =? 87 then EscSet (CS true rs_word)          (* \W *)
  else if c =? 115 then EscSet (CS false rs_space)       (* \s *)
  else if c =? 83 then EscSet (CS true rs_space)         (* \S *)
  else if c =? 110 then EscSet (CS false [(10, 10)])     (* \n *)
  else if c =? 116 then EscSet (CS false [(9, 9)])       (* \t *)
  else if c =? 114 then EscSet (CS false [(13, 13)])     (* \r *)
  else if is_punct c then EscSet (CS false [(c, c)])     (* escaped punctuation: the character *)
  else if (49 <=? c) && (c <=? 57) then EscBad           (* \1 .. \9: backreferences do not exist *)
  else EscUnsup.                                         (* \b \A \z \p \x \Q \0 ... : valid or not, not modelled *)

(* class items up to the closing bracket; [first]: nothing read yet *)
Inductive citems := CItems (rs : list (N * N)) (rest : list N) | CBad | CUnsup.
Fixpoint parse_class (fuel : nat) (s : list N) (first : bool) : citems :=
  match fuel with
  | O => CBad
  | S f =>
    match s with
    | [] => CBad                                          (* missing closing ] *)
    | 93 :: r => if first then CUnsup else CItems [] r    (* ] ; a leading ] is a literal in RE2: not modelled *)
    | 91 :: _ => CUnsup                                   (* [ inside a class ([:alpha:] ...) *)
    | 92 :: e :: r =>                                     (* escape inside a class *)
        match parse_escape e with
        | EscSet (CS false rs) =>
            match parse_class f r false with
            | CItems rs2 rest => CItems (rs ++ rs2) rest
            | x => x
            end
        | EscSet (CS true _) => CUnsup                    (* \D \W \S inside a class *)
        | EscBad => CBad
        | EscUnsup => CUnsup
        end
    | 92 :: [] => CBad
    | lo :: 45 :: 93 :: r => CItems [(lo, lo); (45, 45)] r        (* a trailing - is a literal *)
    | _ :: 45 :: 92 :: _ => CUnsup                                (* a-\x *)
    | lo :: 45 :: hi :: r =>
        if hi <? lo then CBad                                     (* invalid character class range *)
        else match parse_class f r false with
             | CItems rs2 rest => CItems ((lo, hi) :: rs2) rest
             | x => x
             end
    | c :: r =>
        match parse_class f r false with
        | CItems rs2 rest => CItems ((c, c) :: rs2) rest
        | x => x
        end
    end
  end.

(* a quantifier after an atom *)
Inductive quant := QNone | QStar | QPlus | QOpt | QRep (n : N) (m : option N) (* {n} {n,} {n,m} *) | QBad | QUnsup.
Definition parse_quant (s : list N) : quant * list N :=
  match s with
  | 42 :: r => (QStar, r)
  | 43 :: r => (QPlus, r)
  | 63 :: r => (QOpt, r)
  | 123 :: r =>                                           (* { *)
      match parse_num 5 r 0 false with
      | Some (n, 125 :: r2) => if 1000 <? n then (QBad, r2) else (QRep n (Some n), r2)
      | Some (n, 44 :: 125 :: r2) => if 1000 <? n then (QBad, r2) else (QRep n None, r2)
      | Some (n, 44 :: r2) =>
          match parse_num 5 r2 0 false with
          | Some (m, 125 :: r3) =>
              if (1000 <? n) || (1000 <? m) || (m <? n) then (QBad, r3) else (QRep n (Some m), r3)
          | _ => (QUnsup, s)                              (* { that is no repetition: a literal in RE2 *)
          end
      | _ => (QUnsup, s)
      end
  | _ => (QNone, s)
  end.

Definition starts_quant (s : list N) : bool :=
  match s with 42 :: _ | 43 :: _ | 63 :: _ | 123 :: _ => true | _ => false end.

Definition apply_quant (q : quant) (r : re) : re :=
  match q with
  | QStar => RStar r
  | QPlus => RCat r (RStar r)
  | QOpt => RAlt r REps
  | QRep n None => RCat (rep_n (N.to_nat n) r) (RStar r)
  | QRep n (Some m) => RCat (rep_n (N.to_nat n) r) (opt_n (N.to_nat (m - n)) r)
  | _ => r
  end.

(* does the expression contain a counted repetition's expansion? we only need: was a
   counted repetition used inside (nested counts multiply: RE2 bounds the product) *)
Inductive pr := POk (r : re) (counted : bool) (rest : list N) | PBad | PUnsup.

(* alternation / concatenation / atoms, by mutual recursion on fuel;
   [depth] > 0: inside a group (a closing parenthesis ends the alternation) *)
Fixpoint parse_alt (fuel : nat) (s : list N) (ingroup : bool) : pr :=
  match fuel with
  | O => PUnsup
  | S f =>
    let fix parse_cat (fuel2 : nat) (s : list N) (acc : re) (counted : bool) : pr :=
      match fuel2 with
      | O => PUnsup
      | S f2 =>
        match s with
        | [] => POk acc counted []
        | 124 :: _ => POk acc counted s                   (* | *)
        | 41 :: _ => if ingroup then POk acc counted s else PBad   (* unexpected ) *)
        | _ =>
          (* one atom *)
          let atom : pr :=
            match s with
            | 40 :: 63 :: 58 :: r =>                      (* (?: *)
                match parse_alt f r true with
                | POk g c (41 :: r2) => POk g c r2
                | POk _ _ _ => PBad                       (* missing ) *)
                | x => x
                end
            | 40 :: 63 :: 61 :: _ | 40 :: 63 :: 33 :: _ => PBad   (* (?= (?! *)
            | 40 :: 63 :: _ => PUnsup                     (* flags, named groups *)
            | 40 :: r =>                                  (* ( *)
                match parse_alt f r true with
                | POk g c (41 :: r2) => POk g c r2
                | POk _ _ _ => PBad
                | x => x
                end
            | 91 :: 94 :: r =>                            (* [^ *)
                match parse_class (S (length r)) r true with
                | CItems rs rest => POk (RSet (CS true rs)) false rest
                | CBad => PBad
                | CUnsup => PUnsup
                end
            | 91 :: r =>                                  (* [ *)
                match parse_class (S (length r)) r true with
                | CItems rs rest => POk (RSet (CS false rs)) false rest
                | CBad => PBad
                | CUnsup => PUnsup
                end
            | 92 :: e :: r =>                             (* \x *)
                match parse_escape e with
                | EscSet cs => POk (RSet cs) false r
                | EscBad => PBad
                | EscUnsup => PUnsup
                end
            | 92 :: [] => PBad                            (* trailing backslash *)
            | 46 :: r => POk (RSet cs_dot) false r        (* . *)
            | 94 :: r => if starts_quant r then PUnsup else POk RBol false r     (* ^ *)
            | 36 :: r => if starts_quant r then PUnsup else POk REol false r     (* $ *)
            | 42 :: _ | 43 :: _ | 63 :: _ => PBad         (* nothing to repeat *)
            | 123 :: _ | 125 :: _ | 93 :: _ => PUnsup     (* { } ] as literals *)
            | c :: r => POk (RSet (CS false [(c, c)])) false r
            | [] => PUnsup
            end in
          match atom with
          | POk a c1 r =>
              match parse_quant r with
              | (QBad, _) => PBad
              | (QUnsup, _) => PUnsup
              | (QNone, r2) => parse_cat f2 r2 (RCat acc a) (counted || c1)
              | (q, r2) =>
                  let isrep := match q with QRep _ _ => true | _ => false end in
                  if isrep && c1 then PUnsup                (* a counted repetition of a counted repetition *)
                  else
                  match r2 with
                  | 63 :: r3 =>                             (* lazy quantifier: the same language; whether a match exists does not depend on greed *)
                      if starts_quant r3 then PUnsup        (* a*?* ...: not judged *)
                      else parse_cat f2 r3 (RCat acc (apply_quant q a)) (counted || c1 || isrep)
                  | 42 :: _ | 43 :: _ => PBad               (* ** *)
                  | 123 :: _ => match parse_quant r2 with
                                | (QRep _ _, _) | (QBad, _) => PBad    (* a{2}{3} *)
                                | _ => PUnsup
                                end
                  | _ => parse_cat f2 r2 (RCat acc (apply_quant q a)) (counted || c1 || isrep)
                  end
              end
          | x => x
          end
        end
      end in
    match parse_cat fuel s REps false with
    | POk a c (124 :: r) =>
        match parse_alt f r ingroup with
        | POk b c2 rest => POk (RAlt a b) (c || c2) rest
        | x => x
        end
    | x => x
    end
  end.

Definition re_parse (p : list N) : pres :=
  match parse_alt (S (length p)) p false with
  | POk r _ [] => Parsed r
  | POk _ _ _ => IllFormed
  | PBad => IllFormed
  | PUnsup => Unsupported
  end.

(* the engine: compiles? finds a match? (only meaningful inside the fragment) *)
Definition re_frag_ok (p : list N) : bool :=
  match re_parse p with IllFormed => false | _ => true end.
Definition re_frag_match (p s : list N) : bool :=
  match re_parse p with Parsed r => searchb r s | _ => false end.
Definition re_in_fragment (p : list N) : bool :=
  match re_parse p with Unsupported => false | _ => true end.

(* CodecSharedHolder.v — the "shared-holder oneof" shape of the reflector (the exposed oneof of a
   FLATTENED object) seen as an exposed oneof of the parent.

   ClientProperties hoists the properties of a flattened child c into the parent with the proto
   path of c in front.  An exposed oneof x of the child (a virtual property, path [] in the child)
   is hoisted to a oneof property whose path is the path of c itself: the child message is the
   "holder" of the oneof's members AND of the other hoisted leaves (whose paths continue the path of
   c).  The codec reads and writes the members of x through that holder.

   [hoist_env] rewrites such a property the way the reflector presents an exposed oneof of the parent
   itself: path [], its members addressed from the parent (holder path ++ member path), in a oneof
   schema of its own (name: '#' holder-path '#' original name).  On every message in which an existing
   holder has a populated member of x (the encoder writes "x":{} for a holder without one; an exposed
   oneof of the parent is omitted then) the codec behaves on the hoisted environment as on the
   original one; this is checked against the real codec case by case (CodecEncCorr.CRound), and the
   hoisted environment is inside the static hypotheses of the round-trip theorem (env_static_b). *)
From Coq Require Import String List NArith ZArith Bool.
From J5V.lib Require Import Json.
From J5V.model Require Import CodecTypes CodecEnc.
Import ListNotations.
Local Open Scope N_scope.
Local Open Scope bool_scope.

(* p is a proper prefix of q *)
Fixpoint proper_prefix_b (p q : list N) : bool :=
  match p, q with
  | [], _ :: _ => true
  | x :: p', y :: q' => (x =? y) && proper_prefix_b p' q'
  | _, _ => false
  end.

(* a oneof property that lives in a sub-message which other properties of the same list live in too *)
Definition shared_holder_b (ps : list property) (p : property) : bool :=
  match p_ty p, p_path p with
  | FOneof _, _ :: _ => existsb (fun q => proper_prefix_b (p_path p) (p_path q)) ps
  | _, _ => false
  end.

Definition hoisted_name (path : list N) (r : bytes) : bytes := 35 :: path ++ 35 :: r.

Definition prefix_path (pre : list N) (q : property) : property :=
  mkProp (p_json q) (pre ++ p_path q) (p_required q) (p_explicit q) (p_siblings q) (p_ty q).

Definition hoist_prop (ps : list property) (p : property) : property :=
  if shared_holder_b ps p then
    match p_ty p with
    | FOneof r => mkProp (p_json p) [] (p_required p) false [] (FOneof (hoisted_name (p_path p) r))
    | _ => p
    end
  else p.

Definition hoist_props (ps : list property) : list property := map (hoist_prop ps) ps.

Definition hoisted_schemas (e : env) (ps : list property) : env :=
  flat_map (fun p =>
    if shared_holder_b ps p then
      match p_ty p with
      | FOneof r =>
          match lookup e r with
          | Some (SOneof qs) => [(hoisted_name (p_path p) r, SOneof (map (prefix_path (p_path p)) qs))]
          | _ => []
          end
      | _ => []
      end
    else []) ps.

Definition hoist_env (e : env) : env :=
  map (fun ns => match snd ns with
                 | SObject ps => (fst ns, SObject (hoist_props ps))
                 | _ => ns
                 end) e ++
  flat_map (fun ns => match snd ns with SObject ps => hoisted_schemas e ps | _ => [] end) e.

(* the environment has the shape at all *)
Definition env_shared_holder_b (e : env) : bool :=
  existsb (fun ns => match snd ns with SObject ps => existsb (shared_holder_b ps) ps | _ => false end) e.

(* ---------------------------------------------------------------- holders have members
   On which messages does the hoisted view describe the codec?  Exactly (checked per case by CRound,
   both directions) on those in which every EXISTING holder of a shared-holder oneof has a populated
   member of that oneof, at every level (objects, oneof members, array items, map values; Any payloads
   belong to another environment).  Fuel: as the encoder's, 4 per message level. *)
Definition has_walk (path : list N) (m : msg) : bool := match walk path m with Some _ => true | None => false end.

Fixpoint hm_value (e : env) (fuel : nat) (t : field_ty) (v : pval) {struct fuel} : bool :=
  match fuel with
  | O => false
  | S f =>
    match t, v with
    | FObject r, VMsg m => match lookup e r with Some (SObject ps) => hm_props e f ps m | _ => true end
    | FOneof r, VMsg m => match lookup e r with Some (SOneof ps) => hm_props e f ps m | _ => true end
    | FArray it, VList l => forallb (hm_value e f it) l
    | FMap it, VMap es => forallb (fun kv => hm_value e f it (snd kv)) es
    | _, _ => true
    end
  end
with hm_props (e : env) (fuel : nat) (ps : list property) (m : msg) {struct fuel} : bool :=
  match fuel with
  | O => false
  | S f =>
    forallb (fun p =>
      match p_path p with
      | [] => match p_ty p with
              | FOneof r => match lookup e r with Some (SOneof qs) => hm_props e f qs m | _ => true end
              | _ => true
              end
      | path =>
          match walk path m with
          | None => true
          | Some v =>
              (if shared_holder_b ps p then
                 match p_ty p, v with
                 | FOneof r, VMsg child =>
                     match lookup e r with
                     | Some (SOneof qs) => existsb (fun q => has_walk (p_path q) child) qs
                     | _ => true
                     end
                 | _, _ => true
                 end
               else true) && hm_value e f (p_ty p) v
          end
      end) ps
  end.

Definition holders_have_members_b (e : env) (root : bytes) (m : msg) : bool :=
  match lookup e root with
  | Some (SObject ps) | Some (SOneof ps) => hm_props e (4 * pval_depth (VMsg m) + 4) ps m
  | _ => true
  end.


(* ProtoPrintFileWf.v — the hypotheses of the file theorem of C05 (wf_dfile, proofs/ProtoPrintFile*Proofs.v)
   as a computable test, so that the correspondence can report for every real descriptor of a run whether
   it is inside the theorem (proofs/ProtoPrintFileWfProofs.v: wf_dfile_b imp d = true -> wf_dfile imp d).
   No proofs in this file. *)
From Coq Require Import String List NArith ZArith Bool.
From J5V.lib Require Import Outcome Corr.
From J5V.model Require Import ProtoPrintLit ProtoPrint ProtoPrintFile ProtoParseFile.
Import ListNotations.
Local Open Scope N_scope.
Local Open Scope bool_scope.

Definition is_nil {A} (l : list A) : bool := match l with [] => true | _ => false end.

Fixpoint wf_raw_b (v : rawval) : bool :=
  match v with
  | RScalar t => is_scalar_token t
  | RMsg fs => (fix go (l : list (ident * rawval)) : bool :=
                  match l with [] => true | (_, x) :: r => wf_raw_b x && go r end) fs
  | RList items => (fix go (l : list rawval) : bool :=
                      match l with [] => true | x :: r => wf_raw_b x && go r end) items
  end.

Definition wf_dopt_b (o : dopt) : bool :=
  qname_eqb (o_full o) (pn_name (o_name o)) && negb (is_nil (pn_name (o_name o))) && wf_raw_b (o_val o).

Definition wf_ref_b (st : symtab) (pkg ref : qname) : bool :=
  forallb (fun k => is_type st (pkg ++ firstn k ref)) (seq 1 (length ref)).

Definition wf_target_b (st : symtab) (pkg rp path : qname) : bool :=
  if qname_eqb pkg rp then wf_ref_b st pkg path
  else negb (is_nil rp) && existsb (qname_eqb rp) (st_pkgs st) && is_type st (rp ++ path).

Definition entry_eqb (a b : qname * qname) : bool := qname_eqb (fst a) (fst b) && qname_eqb (snd a) (snd b).

Definition wf_tref_b (x : xsymtab) (pkg rp path : qname) : bool :=
  negb (is_nil path) && wf_target_b (to_symtab x) pkg rp path
  && existsb (entry_eqb (rp, path)) (x_types x).

Definition wf_dvt_b (x : xsymtab) (pkg : qname) (t : dvt) : bool :=
  match t with DScalar k => is_scalar_kind k | DRef rp path => wf_tref_b x pkg rp path end.

Definition wf_dtype_b (x : xsymtab) (pkg : qname) (fname : ident) (t : dtype) : bool :=
  match t with
  | DSingle v => wf_dvt_b x pkg v
  | DMapT k entry v => is_scalar_kind k && ident_eqb entry (map_entry_name fname) && wf_dvt_b x pkg v
  end.

Definition wf_dfield_b (x : xsymtab) (pkg : qname) (f : dfield) : bool :=
  wf_dtype_b x pkg (f_name f) (f_type f) && forallb wf_dopt_b (f_opts f).

Definition wf_dvalue_b (v : dvalue) : bool := negb (ident_eqb (v_name v) kw_option) && forallb wf_dopt_b (v_opts v).

Definition wf_dmethod_b (x : xsymtab) (pkg : qname) (m : dmethod) : bool :=
  wf_tref_b x pkg (fst (m_in m)) (snd (m_in m)) && wf_tref_b x pkg (fst (m_out m)) (snd (m_out m))
  && forallb wf_dopt_b (m_opts m).

Fixpoint wf_delem_b (x : xsymtab) (pkg : qname) (e : delem) : bool :=
  match e with
  | DField f => wf_dfield_b x pkg f
  | DOneof _ _ _ o fs => forallb wf_dopt_b o && forallb (wf_dfield_b x pkg) fs
  | DMsg _ _ _ o body =>
      forallb wf_dopt_b o
      && (fix go (l : list delem) : bool := match l with [] => true | y :: r => wf_delem_b x pkg y && go r end) body
  | DEnum _ _ _ o vs => forallb wf_dopt_b o && forallb wf_dvalue_b vs
  | DService _ _ _ o ms => forallb wf_dopt_b o && forallb (wf_dmethod_b x pkg) ms
  end.

Definition flat_unique_b (x : xsymtab) : bool :=
  forallb (fun e1 => forallb (fun e2 => negb (qname_eqb (flat_name e1) (flat_name e2)) || entry_eqb e1 e2) (x_types x))
          (x_types x).

Definition is_dtop_b (e : delem) : bool :=
  match e with DMsg _ _ _ _ _ | DEnum _ _ _ _ _ | DService _ _ _ _ _ => true | _ => false end.

Definition wf_dext_b (x : xsymtab) (pkg : qname) (xf : qname * dfield) : bool :=
  negb (is_nil (fst xf)) && wf_dfield_b x pkg (snd xf) && bytes_eqb (f_json (snd xf)) (default_json (f_name (snd xf))).

Definition wf_dfile_b (imp : xsymtab) (d : dfile) : bool :=
  let x := dfile_symtab imp d in
  negb (is_nil (d_pkg d)) && flat_unique_b x && forallb (fun o => is_scalar_token (snd o)) (d_fopts d)
  && forallb (wf_dext_b x (d_pkg d)) (d_exts d)
  && forallb (wf_delem_b x (d_pkg d)) (d_body d) && forallb is_dtop_b (d_body d).

(* ------------------------------------------------------------------ where the model's string handling is the code's *)
(* json_name is written with strconv.Quote and file-level string options raw between quotes; the model writes
   both as quote ++ text ++ quote, which is what the code does for printable ASCII other than the double quote
   (34) and the backslash (92).
   The file correspondence evaluates this on every real descriptor as well. *)
Definition plain_char (c : N) : bool := (32 <=? c) && (c <=? 126) && negb (c =? 34) && negb (c =? 92).
Definition plain_text (s : list N) : bool := forallb plain_char s.

Definition field_strings_plain (f : dfield) : bool := plain_text (f_json f).

Fixpoint elem_strings_plain (e : delem) : bool :=
  match e with
  | DField f => field_strings_plain f
  | DOneof _ _ _ _ fs => forallb field_strings_plain fs
  | DMsg _ _ _ _ body =>
      (fix go (l : list delem) : bool := match l with [] => true | y :: r => elem_strings_plain y && go r end) body
  | _ => true
  end.

Definition fopt_plain (o : ident * token) : bool :=
  match snd o with
  | TLit (q :: r) => plain_text (removelast r)
  | _ => true
  end.

Definition strings_plain (d : dfile) : bool :=
  forallb fopt_plain (d_fopts d) && forallb (fun xf => field_strings_plain (snd xf)) (d_exts d)
  && forallb elem_strings_plain (d_body d).

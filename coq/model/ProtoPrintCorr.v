(* ProtoPrintCorr.v — correspondence cases for C05: the literal layer and the scope shortening of
   the real printer, and the real protocompile resolver on the shortened names. *)
From Coq Require Import String Ascii List NArith ZArith Bool.
From J5V.lib Require Import Outcome Corr.
From J5V.model Require Import ProtoPrintLit ProtoPrint.
Import ListNotations.
Local Open Scope N_scope.
Local Open Scope bool_scope.

Inductive c05case :=
(* prototextString s = lit; the model parser reads lit back as s *)
| CStr (s lit : list N)
| CInt (z : Z) (lit : list N)
| CUint (n : N) (lit : list N)
(* contextRefName on a field of message pkg.ctx referring to refpkg.ref printed [printed];
   the real linker resolved the printed name (inside pkg.ctx) to [resolved] (None: link error) *)
| CScope (pkg other : qname) (types : list qname) (ctx refpkg ref : qname) (printed : list N) (resolved : option qname).

(* a Coq string literal as bytes: the harness writes printable ASCII runs of its byte strings this way *)
Fixpoint sb (s : string) : list N :=
  match s with
  | EmptyString => []
  | String a r => N_of_ascii a :: sb r
  end.

Definition bytes_eqb := list_eqb N.eqb.

Definition c05_check (c : c05case) : bool :=
  match c with
  | CStr s lit =>
      bytes_eqb (print_string_lit s) lit && bytes_eqb (print_string_lit_go s) lit
      && option_eqb bytes_eqb (parse_string_lit lit) (Some s)
  | CInt z lit =>
      bytes_eqb (print_int z) lit && match parse_int lit with Some z' => Z.eqb z z' | None => false end
  | CUint n lit =>
      bytes_eqb (print_uint n) lit && match parse_uint lit with Some n' => N.eqb n n' | None => false end
  | CScope pkg other types ctx refpkg ref printed resolved =>
      let st := {| st_types := types; st_pkgs := [pkg; other] |} in
      let p := context_ref_name_safe st pkg ctx refpkg ref in
      bytes_eqb (printed_text p) printed
      && option_eqb qname_eqb (resolve_printed st pkg ctx p) resolved
  end.

(* ---- option values: the real option printer's text, tokenised by the harness, against print_raw /
        parse_raw on the value tree the printer walked (optionreflect.OptionField) *)
Definition token_eqb (a b : token) : bool :=
  match a, b with
  | TIdent x, TIdent y | TLit x, TLit y | TDetached x, TDetached y | TLeading x, TLeading y => bytes_eqb x y
  | TColon, TColon | TLBrace, TLBrace | TRBrace, TRBrace | TLBrack, TLBrack | TRBrack, TRBrack | TComma, TComma
  | TSemi, TSemi | TEq, TEq | TLParen, TLParen | TRParen, TRParen | TLt, TLt | TGt, TGt | TDot, TDot => true
  | _, _ => false
  end.

Fixpoint rawval_eqb (a b : rawval) {struct a} : bool :=
  match a, b with
  | RScalar x, RScalar y => token_eqb x y
  | RMsg fa, RMsg fb =>
      (fix go (l : list (ident * rawval)) (m : list (ident * rawval)) : bool :=
         match l, m with
         | [], [] => true
         | (k, x) :: r, (k', y) :: s => bytes_eqb k k' && rawval_eqb x y && go r s
         | _, _ => false
         end) fa fb
  | RList la, RList lb =>
      (fix go (l : list rawval) (m : list rawval) : bool :=
         match l, m with
         | [], [] => true
         | x :: r, y :: s => rawval_eqb x y && go r s
         | _, _ => false
         end) la lb
  | _, _ => false
  end.

Inductive c05opt := COpt (r : rawval) (toks : list token).

Definition c05_opt_check (c : c05opt) : bool :=
  match c with
  | COpt r toks =>
      list_eqb token_eqb (print_raw r) toks
      && match parse_raw (S (length toks)) toks with
         | Some (r', []) => rawval_eqb r r'
         | _ => false
         end
  end.

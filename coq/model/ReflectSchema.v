(* ReflectSchema.v — the J5 schema values the reader builds (lib/j5schema: RootSchema /
   FieldSchema / ObjectProperty), which is also the shape of their export
   (ToJ5Root / ToJ5Field: schema_j5pb.RootSchema / Field).  References are by
   (package, name) into the schema set.  No proofs here. *)
From Coq Require Import List NArith ZArith Bool.
From J5V.model Require Import ReflectDesc.
Import ListNotations.

Definition ref := (str * str)%type.   (* package, schema name *)

(* minimum, maximum, exclusive_minimum, exclusive_maximum *)
Inductive zbounds := ZBounds (minimum maximum : option Z) (exmin exmax : option bool).
Inductive tsbounds := TsBounds (minimum maximum : option (Z * Z)) (exmin exmax : option bool).
Inductive strlen := StrLen (pattern : option str) (minlen maxlen : option N).
Inductive keyformat := KFInformal | KFCustom (pattern : str) | KFUuid | KFId62.
Inductive entitykey := EKNone | EKPrimary | EKForeign (t : tok).
Inductive entityk := EntityK (k : entitykey) (tenant : option str).

(* the scalar alternatives of schema_j5pb.Field (ScalarSchema.Proto) *)
Inductive sproto :=
| PBool (rules : option (option bool)) (lr : option tok)
| PInteger (format : N) (rules : option zbounds) (lr : option tok)
| PFloat (format : N) (rules : option zbounds) (lr : option tok)
| PBytes (rules : option (option N * option N))
| PString (format : option str) (rules : option strlen) (lr : option tok)
| PKey (format : option keyformat) (entity : option entityk) (lr : option tok)
| PTimestamp (rules : option tsbounds) (lr : option tok)
| PDate (rules : option strbounds) (lr : option tok)
| PDecimal (rules : option strbounds) (lr : option tok).

Inductive fschema :=
| FScalar (kw : option (kind * str)) (p : sproto)   (* Kind and WellKnownTypeName: not part of the export *)
| FAny (only_defined : bool) (types : list str) (lr : option tok)
| FEnum (r : ref) (rules : option (list str * list str)) (lr : option tok) (ext : option tok)
| FObject (r : ref) (flatten : bool) (rules : option tok) (ext : option tok)
| FOneof (r : ref) (rules : option tok) (lr : option tok) (ext : option tok)
| FMap (item : fschema) (rules : option (option N * option N)) (ext : option (option str))
| FArray (item : fschema) (rules : option (option N * option N * option bool)) (ext : option (option str)).

(* ObjectProperty: JSON name, proto field path, required, explicitly optional, description, schema *)
Inductive prop := Prop_ (json : str) (path : list N) (required explicitly_optional : bool) (description : str) (s : fschema).
Definition p_json p := match p with Prop_ j _ _ _ _ _ => j end.
Definition p_path p := match p with Prop_ _ pa _ _ _ _ => pa end.
Definition p_schema p := match p with Prop_ _ _ _ _ _ s => s end.

Inductive enumoption := EnumOption (name : str) (num : Z) (description : str) (info : option (list (str * str))).

Inductive root :=
| RObject (name description : str) (entity : option (str * N)) (any_member : list str) (props : list prop)
| ROneof (name description : str) (props : list prop)
| REnum (name description prefix : str) (options : list enumoption) (info : list (str * str * str)).

Definition root_name r :=
  match r with RObject n _ _ _ _ => n | ROneof n _ _ => n | REnum n _ _ _ _ => n end.
Definition root_props r :=
  match r with RObject _ _ _ _ ps => ps | ROneof _ _ ps => ps | REnum _ _ _ _ _ => [] end.

(* an entry of Package.Schemas: a RefSchema whose To is nil (placeholder) or linked.
   (The linked root's own package and name always equal the key: both come from
   splitDescriptorName of the same descriptor, so ref.check never fails.) *)
Inductive entry := Placeholder | Linked (r : root).

(* the schema set: (package, name) -> entry, newest first *)
Definition sset := list (ref * entry).

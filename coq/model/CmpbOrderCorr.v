(* CmpbOrderCorr.v — correspondence cases for C14: orders the real compiler/printer produced,
   checked against the order model by vm_compute.  Observables: the raw Dependency list of a generated
   file, the order of the files CompilePackage returns, the order in which options are printed, the
   order of printed map-option entries. *)
From Coq Require Import Ascii String List NArith Bool.
From J5V.lib Require Import Outcome Corr.
From J5V.gen Require SetExtGen.
From J5V.model Require Import CmpbFields CmpbFieldsCorr CmpbOrder.
From J5V.model Require CmpbBytes.
Import ListNotations.
Local Open Scope N_scope.

Fixpoint bytes_of_string (s : string) : bytes :=
  match s with
  | EmptyString => []
  | String c r => N_of_ascii c :: bytes_of_string r
  end.

Definition blist_eqb (a b : list bytes) : bool := list_eqb beqb a b.

(* index of an extension in its defining file, by proto full name, from the regenerated table *)
Definition index_of_ext (full : string) : option N :=
  match find (fun r => match r with (_, n, _, _, _, _) => String.eqb n full end) SetExtGen.exts with
  | Some (_, _, _, _, _, i) => Some (N.of_nat i)
  | None => None
  end.

Inductive c14case :=
(* a one-property file (C07's model gives the ensureImport call sequence): the generated file's
   Dependency list, in the order the converter left it *)
| CImportsIso (p : prop) (ref_path : string) (observed : list string)
(* the output files of a package, as listed in an arbitrary order, and as CompilePackage returned them *)
| CFileOrder (names : list string) (observed : list string)
(* options found on one descriptor: (extension full name, printed qualified name) in any order;
   fieldlike = printed through printFieldStyle (fields, enum values); observed = printed order *)
| COptions (fieldlike : bool) (opts : list (string * string)) (observed : list string)
(* a map-valued option: its keys as printed (escaped) in any order, and in printed order *)
| CMapEntries (keys : list string) (observed : list string)
(* package loading: the bundle as the implementation summarised each source file — per package, per file:
   (file as named in exports, exported type names, packages depended on, names of the descriptors produced) —
   and what the real PackageSet held for package n after compiling under SHUFFLED listings and call order:
   Exports (name -> file), DirectDependencies (name -> that package's Exports), the keys of Files *)
| CLoad (b : list (string * list (string * list string * list string * list string))) (n : string)
        (exports : list (string * string)) (deps : list (string * list (string * string))) (files : list string)
(* CompilePackage as a whole (compile_and_link): the same bundle summary; the local prefixes of the source resolver;
   packageForFile of every local path that occurs (computed by the harness's re-implementation of
   SplitPackageFromFilename); the Dependency list of every file of every local package (what the model's converter
   parameter returns for that output); the files of the dependency set reached through imports with THEIR imports
   (the dependency resolver); observed: the files CompilePackage returned for package n, in order, each with the number
   of files in the unfolding of its import tree (1 + the sum over its imports), read off the real linked descriptor *)
| CLink (b : list (string * list (string * list string * list string * list string))) (n : string)
        (prefixes : list string) (owners : list (string * string))
        (outs : list (string * list string)) (exts : list (string * list string)) (observed : list (string * N)).

Definition to_srcfile (f : string * list string * list string * list string) : @srcfile unit :=
  match f with
  | (name, exps, ds, outs) => mkFile (bytes_of_string name) (map bytes_of_string exps) (map bytes_of_string ds) (map bytes_of_string outs) tt
  end.
Definition to_bundle (b : list (string * list (string * list string * list string * list string))) : @bundle unit :=
  map (fun p => (bytes_of_string (fst p), map to_srcfile (snd p))) b.
Definition pairs_eqb (a b : list (bytes * bytes)) : bool :=
  list_eqb (fun x y => beqb (fst x) (fst y) && beqb (snd x) (snd y)) a b.
Definition bpairs (l : list (string * string)) : list (bytes * bytes) :=
  map (fun p => (bytes_of_string (fst p), bytes_of_string (snd p))) l.

Definition mk_opts (opts : list (string * string)) : option (list opt) :=
  fold_right (fun fp acc =>
    match acc, index_of_ext (fst fp) with
    | Some l, Some i => Some (mkOpt 0 i (bytes_of_string (fst fp)) (bytes_of_string (snd fp)) :: l)
    | _, _ => None
    end) (Some []) opts.

Fixpoint bprefix (p s : bytes) : bool :=
  match p, s with
  | [], _ => true
  | x :: p', y :: s' => N.eqb x y && bprefix p' s'
  | _ :: _, [] => false
  end.
Definition btable (t : list (string * list string)) : list (bytes * list bytes) :=
  map (fun kv => (bytes_of_string (fst kv), map bytes_of_string (snd kv))) t.
Definition bfind {V} (t : list (bytes * V)) (k : bytes) : option V :=
  match find (fun kv => beqb (fst kv) k) t with Some kv => Some (snd kv) | None => None end.

Definition c14_check (c : c14case) : bool :=
  match c with
  | CImportsIso p ref_path observed =>
      let o := compile_iso p in
      match o_verdict o with
      | VOk => blist_eqb (ensure_all (map (fun i => bytes_of_string (imp_path_with ref_path i)) (o_imps o)))
                         (map bytes_of_string observed)
      | _ => false
      end
  | CFileOrder names observed =>
      blist_eqb (sort_names (map bytes_of_string names)) (map bytes_of_string observed)
  | COptions fieldlike opts observed =>
      match mk_opts opts with
      | Some l =>
          blist_eqb (map o_name (if fieldlike then field_options l else options_for l)) (map bytes_of_string observed)
      | None => false
      end
  | CMapEntries keys observed =>
      blist_eqb (map fst (map_entries (map (fun k => (bytes_of_string k, [])) keys))) (map bytes_of_string observed)
  | CLoad b n exports deps files =>
      (* the model runs with the canonical orders; the implementation ran with shuffled ones *)
      match load (fun _ _ _ => tt) (fun _ l => l) (fun _ l => l) (S (length b)) (to_bundle b) [] (bytes_of_string n) with
      | Some (_, p) =>
          pairs_eqb (p_exports p) (bpairs exports)
          && list_eqb (fun x y => beqb (fst x) (fst y) && pairs_eqb (snd x) (snd y)) (p_deps p)
                      (map (fun d => (bytes_of_string (fst d), bpairs (snd d))) deps)
          && blist_eqb (map fst (p_files p)) (map bytes_of_string files)
      | None => false
      end
  | CLink b n prefixes owners outs exts observed =>
      let outs' := btable outs in
      let exts' := btable exts in
      let owners' := map (fun kv => (bytes_of_string (fst kv), bytes_of_string (snd kv))) owners in
      let pre := map bytes_of_string prefixes in
      (* a produced file the harness has no Dependency list for imports a path nobody can find: the case fails *)
      let conv := fun (_ : env) (_ : @srcfile unit) (o : bytes) => match bfind outs' o with Some d => d | None => [[0]] end in
      (* file-to-package attribution: NOT the harness's tables but the model's own functions (model/CmpbBytes.v), so that the
         real CompilePackage result below is compared with a run that uses split_owner (SplitPackageFromFilename) and
         is_local_of (hasAPrefix over localPrefixes).  The local packages are those of the summary whose prefix the real
         sourceResolver holds; the real prefixes must be exactly local_prefixes of them; the harness's packageForFile table
         must agree with split_owner; every file the real loader put into a local package lies directly in its directory *)
      let bb := to_bundle b in
      let local_pkgs := filter (fun q => existsb (beqb (CmpbBytes.pkg_root q ++ [47])) pre) (map fst bb) in
      let is_local := CmpbBytes.is_local_of local_pkgs in
      let owner := CmpbBytes.split_owner in
      forallb (fun x => existsb (beqb x) (CmpbBytes.local_prefixes local_pkgs)) pre
      && forallb (fun kv => match snd kv with [] => true | q => beqb (CmpbBytes.split_owner (fst kv)) q end) owners'
      && forallb (fun kv => Bool.eqb (is_local (fst kv)) (existsb (fun x => bprefix x (fst kv)) pre)) (owners' ++ map (fun kv => (fst kv, [])) (outs' ++ exts'))
      && forallb (fun pf => negb (existsb (beqb (fst pf)) local_pkgs)
                            || forallb (fun f => beqb (CmpbBytes.dir_of (f_name f)) (CmpbBytes.pkg_root (fst pf))) (snd pf)) bb
      && match compile_and_link conv (fun _ l => l) (fun _ l => l) (fun _ l => l) owner is_local (bfind exts') (fun d : list bytes => d)
                             (fun _ ls => 1 + fold_left N.add ls 0)
                             (S (length b)) (S (length outs + length exts)) bb [] [] (bytes_of_string n) with
      | Some (_, _, out) =>
          list_eqb (fun x y => beqb (fst x) (fst y) && N.eqb (snd x) (snd y)) out
                   (map (fun kv => (bytes_of_string (fst kv), snd kv)) observed)
      | None => false
      end
  end.

(* CmpbOrderCorr.v — correspondence cases for C14: orders the real compiler/printer produced,
   checked against the order model by vm_compute.  Observables: the raw Dependency list of a generated
   file, the order of the files CompilePackage returns, the order in which options are printed, the
   order of printed map-option entries. *)
From Coq Require Import Ascii String List NArith Bool.
From J5V.lib Require Import Outcome Corr.
From J5V.gen Require SetExtGen.
From J5V.model Require Import CmpbFields CmpbFieldsCorr CmpbOrder.
Import ListNotations.
Local Open Scope N_scope.

Fixpoint bytes_of_string (s : string) : bytes :=
  match s with
  | EmptyString => []
  | String c r => N_of_ascii c :: bytes_of_string r
  end.

Definition blist_eqb (a b : list bytes) : bool := list_eqb beqb a b.

(* index of an extension in its defining file, by proto full name, from the regenerated table *)
Definition index_of_ext (full : string) : option N :=
  match find (fun r => match r with (_, n, _, _, _, _) => String.eqb n full end) SetExtGen.exts with
  | Some (_, _, _, _, _, i) => Some (N.of_nat i)
  | None => None
  end.

Inductive c14case :=
(* a one-property file (C07's model gives the ensureImport call sequence): the generated file's
   Dependency list, in the order the converter left it *)
| CImportsIso (p : prop) (ref_path : string) (observed : list string)
(* the output files of a package, as listed in an arbitrary order, and as CompilePackage returned them *)
| CFileOrder (names : list string) (observed : list string)
(* options found on one descriptor: (extension full name, printed qualified name) in any order;
   fieldlike = printed through printFieldStyle (fields, enum values); observed = printed order *)
| COptions (fieldlike : bool) (opts : list (string * string)) (observed : list string)
(* a map-valued option: its keys as printed (escaped) in any order, and in printed order *)
| CMapEntries (keys : list string) (observed : list string).

Definition mk_opts (opts : list (string * string)) : option (list opt) :=
  fold_right (fun fp acc =>
    match acc, index_of_ext (fst fp) with
    | Some l, Some i => Some (mkOpt 0 i (bytes_of_string (fst fp)) (bytes_of_string (snd fp)) :: l)
    | _, _ => None
    end) (Some []) opts.

Definition c14_check (c : c14case) : bool :=
  match c with
  | CImportsIso p ref_path observed =>
      let o := compile_iso p in
      match o_verdict o with
      | VOk => blist_eqb (ensure_all (map (fun i => bytes_of_string (imp_path_with ref_path i)) (o_imps o)))
                         (map bytes_of_string observed)
      | _ => false
      end
  | CFileOrder names observed =>
      blist_eqb (sort_names (map bytes_of_string names)) (map bytes_of_string observed)
  | COptions fieldlike opts observed =>
      match mk_opts opts with
      | Some l =>
          blist_eqb (map o_name (if fieldlike then field_options l else options_for l)) (map bytes_of_string observed)
      | None => false
      end
  | CMapEntries keys observed =>
      blist_eqb (map fst (map_entries (map (fun k => (bytes_of_string k, [])) keys))) (map bytes_of_string observed)
  end.

(* CmpbPackage.v — C07 at the level of a PACKAGE: protobuild.PackageSet.loadPackage /
   loadLocalPackage / resolveDependencies (packages.go) with the resolveBaton chain that detects
   import cycles, around the per-file front end (model/CmpbFront.v).  What is modelled: which error
   comes back, from which stage, for which file, with or without a position.  No proofs here.

   Not modelled here: the PackageSet cache (C14's model, CmpbOrder.v; it changes what is recomputed, not
   what comes back), external dependency descriptors (a package that is not local has "no files"), the
   link step (protocompile) and its own errors. resolveDependencies ranges over a Go map: when several
   dependencies fail, which failure is returned first is not fixed by the code; the model takes them in
   import order.

   Since fix 3f76693 a failure to load a dependency is reported AT THE IMPORT STATEMENT of the importing
   file (dependencySource.locate in packages.go: FileSummary.DependencyPositions of the first file, in
   listing order, that names the package), unless the error already carries a position (an error from
   further down the import chain, or from the dependency's own source text, is kept as it is). *)
From Coq Require Import String List NArith ZArith Bool Arith.
From J5V.lib Require Import Text Outcome.
From J5V.model Require Import BclLexer BclParser CmpbFields CmpbDecls CmpbFront.
Import ListNotations.
Local Open Scope bool_scope.

Definition pkgid := N.
Definition fileid := N.

(* a local source file: its text and the packages its references name, in reference order
   (FileSummary.TypeDependencies), each with the span of the import statement that brings the package in
   (FileSummary.DependencyPositions: sourcedef SourceFile.source_locations, child "imports", child <index>;
   since a7259e7 the recorded span of the first reference itself when no import statement names the package) *)
Record sfile := mkSF { sf_id : fileid; sf_input : list N; sf_imports : list (pkgid * span) }.
Definition sf_deps (f : sfile) : list pkgid := map fst (sf_imports f).
(* the local packages of the bundle with their files in listing order *)
Definition bundle := list (pkgid * list sfile).

Inductive estage :=
| ENoFiles            (* "no files for package at ..." (dependencies.go listPackageFiles): the package is not local and no dependency has it *)
| EPkgCycle           (* NewCircularDependencyError (resolveBaton.cloneFor) *)
| EFront (st : stage) (* the file's own front end: parse / walk (getFile -> parseJ5s) or convert (ConvertJ5File) *)
| EConverterPanic.    (* the converter's SetExtension panic (list request): not an error value, the process panics *)
Record perr := mkPE { pe_stage : estage; pe_file : option fileid; pe_pos : option span }.

(* what the front end says about one file *)
Inductive fileres :=
| FREarly (es : list perr)     (* parse / walk errors: returned by getFile, before dependencies are loaded *)
| FRLate (es : list perr)      (* conversion errors: returned by ConvertJ5File, after dependencies are loaded *)
| FRPanic
| FRFine.

Fixpoint find_pkg (n : pkgid) (b : bundle) : option (list sfile) :=
  match b with
  | [] => None
  | (m, fs) :: r => if N.eqb n m then Some fs else find_pkg n r
  end.
Definition mem_pkg (n : pkgid) (l : list pkgid) : bool := existsb (N.eqb n) l.
Fixpoint dedupe_pkgs (l : list pkgid) : list pkgid :=
  match l with
  | [] => []
  | x :: r => if mem_pkg x r then dedupe_pkgs r else x :: dedupe_pkgs r
  end.

(* packageDependencies.add: the first file (listing order) that names the package, the first import of it there *)
Fixpoint import_span (d : pkgid) (l : list (pkgid * span)) : option span :=
  match l with
  | [] => None
  | (x, sp) :: r => if N.eqb d x then Some sp else import_span d r
  end.
Fixpoint dep_source (d : pkgid) (files : list sfile) : option (fileid * span) :=
  match files with
  | [] => None
  | f :: r => match import_span d (sf_imports f) with
              | Some sp => Some (sf_id f, sp)
              | None => dep_source d r
              end
  end.
(* dependencySource.locate: an error that has a position keeps it *)
Definition locate (src : option (fileid * span)) (e : perr) : perr :=
  match pe_pos e, src with
  | None, Some (fid, sp) => mkPE (pe_stage e) (Some fid) (Some sp)
  | _, _ => e
  end.

Section Load.
  Variable fres : sfile -> fileres.

  (* the first file whose parse / walk fails decides (for _, filename := range fileNames { getFile ... return }) *)
  Fixpoint first_early (fs : list sfile) : option (list perr) :=
    match fs with
    | [] => None
    | f :: r => match fres f with FREarly es => Some es | _ => first_early r end
    end.
  Fixpoint first_late (fs : list sfile) : outcome (list perr) :=
    match fs with
    | [] => Ok []
    | f :: r => match fres f with
                | FRLate es => Ok es
                | FRPanic => Panic "converter: proto.SetExtension"
                | _ => first_late r
                end
    end.

  (* loadPackage: [] = loaded.  chain = the packages being loaded (resolveBaton.chain) *)
  Fixpoint load (fuel : nat) (b : bundle) (chain : list pkgid) (name : pkgid) : outcome (list perr) :=
    match fuel with
    | O => OutOfFuel
    | S f =>
        if mem_pkg name chain then Ok [mkPE EPkgCycle None None]
        else match find_pkg name b with
             | None => Ok [mkPE ENoFiles None None]
             | Some files =>
                 match first_early files with
                 | Some es => Ok es
                 | None =>
                     let deps := filter (fun d => negb (N.eqb d name)) (dedupe_pkgs (flat_map sf_deps files)) in
                     match (fix load_deps (ds : list pkgid) : outcome (list perr) :=
                              match ds with
                              | [] => Ok []
                              | d :: r => match load f b (name :: chain) d with
                                          | Ok [] => load_deps r
                                          | Ok es => Ok (map (locate (dep_source d files)) es)
                                          | o => o
                                          end
                              end) deps with
                     | Ok [] => first_late files
                     | o => o
                     end
                 end
             end
    end.

  (* PackageSet.CompilePackage up to the link step *)
  Definition load_package (b : bundle) (name : pkgid) : outcome (list perr) := load (S (length b)) b [] name.
End Load.

(* resolveDependencies ranges over a Go MAP: when several imports fail, which failure comes back is not
   fixed.  [load_kinds]: every outcome some iteration order can produce, for a bundle of well-formed files
   (kind 0 = loaded, 1 = import cycle, 2 = no files for package) with the file and span the error is
   positioned at; [load] above is the import-order instance *)
Definition lkind : Type := (N * option (fileid * span))%type.
Definition locate_kind (src : option (fileid * span)) (k : lkind) : lkind :=
  match snd k with
  | None => (fst k, src)
  | Some _ => k
  end.
Fixpoint load_kinds (fuel : nat) (b : bundle) (chain : list pkgid) (name : pkgid) : list lkind :=
  match fuel with
  | O => []
  | S f =>
      if mem_pkg name chain then [(1%N, None)]
      else match find_pkg name b with
           | None => [(2%N, None)]
           | Some files =>
               let deps := filter (fun d => negb (N.eqb d name)) (dedupe_pkgs (flat_map sf_deps files)) in
               match flat_map (fun d => map (locate_kind (dep_source d files))
                                            (filter (fun k => negb (N.eqb (fst k) 0)) (load_kinds f b (name :: chain) d))) deps with
               | [] => [(0%N, None)]
               | ks => ks
               end
           end
  end.
Definition package_kinds (b : bundle) (name : pkgid) : list lkind := load_kinds (S (length b)) b [] name.

(* the per-file result from the front end of model/CmpbFront.v *)
Definition front_fres (walk : list stmt -> outcome walk_out) (f : sfile) : fileres :=
  match front_end walk true (sf_input f) with
  | Ok (FEErrors SConvert es) => FRLate (map (fun sp => mkPE (EFront SConvert) (Some (sf_id f)) (Some sp)) es)
  | Ok (FEErrors st es) => FREarly (map (fun sp => mkPE (EFront st) (Some (sf_id f)) (Some sp)) es)
  | Ok (FEConverted _ _) => FRFine
  | _ => FRPanic
  end.

Definition all_files (b : bundle) : list sfile := flat_map snd b.


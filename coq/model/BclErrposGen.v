(* BclErrposGen.v — humanString (errpos/print.go) for diagnostics of ANY producer: err.Pos may be nil, the
   position may carry a file name (Position.Filename, set by AddSourceFile / setFilenames), the error may carry a
   context path (err.Ctx, printed as "Context: a.b.c") and err.Err may be nil (no "Message:" line).
   Built on the guard skeleton (BclErrpos.human_string) and the parser-level text (BclErrposText.render), which
   is the case: position without file name, no context, a message.  No proofs here. *)
From Coq Require Import String List NArith ZArith Bool.
From J5V.lib Require Import Text Outcome.
From J5V.model Require Import BclLexer BclErrpos BclErrposText.
Import ListNotations.
Local Open Scope Z_scope.

(* *Position: file name (nil or a string), Start, End *)
Definition gposition : Type := (option (list N) * pos * pos)%type.
(* *Err: Pos (nil or a position), Ctx (nil or a path), Err (nil or its Error() text) *)
Record gdiag := mkG { g_pos : option gposition; g_ctx : option (list (list N)); g_msg : option (list N) }.

(* Point.isEmpty *)
Definition point_empty (p : pos) : bool := (fst p <? 0) && (snd p <? 0).

(* the closure in humanString: everything up to "Context:" *)
Definition pos_text (lines : list (list N)) (context : Z) (g : gdiag) : outcome (list N) :=
  match g_pos g with
  | None => Ok (bytes_of "<no position information>" ++ nl1)
  | Some (fn, s, e) =>
    let d := mkDiag s e [] in
    match fn with
    | None => omap (render lines d) (human_string lines context d)
    | Some f =>
      (* Position.isEmpty is false; Position.String() = f ++ ":" ++ (Start empty ? "" : "L:C") *)
      if point_empty s then Ok (bytes_of "Position: " ++ f ++ [58%N] ++ nl1)
      else omap (fun h => bytes_of "Position: " ++ f ++ [58%N] ++ skipn (length (bytes_of "Position: ")) (render lines d h))
                (human_string lines context d)
    end
  end.

Definition ctx_text (g : gdiag) : list N :=
  match g_ctx g with Some c => bytes_of "Context: " ++ join_with 46 c ++ nl1 | None => [] end.
Definition msg_text (g : gdiag) : list N :=
  match g_msg g with Some m => bytes_of "Message: " ++ m ++ nl1 | None => [] end.

Definition human_text_g (lines : list (list N)) (context : Z) (g : gdiag) : outcome (list N) :=
  omap (fun p => p ++ ctx_text g ++ msg_text g) (pos_text lines context g).

Fixpoint human_text_g_all (lines : list (list N)) (context : Z) (gs : list gdiag) : outcome (list N) :=
  match gs with
  | [] => Ok []
  | [g] => human_text_g lines context g
  | g :: r => obind (human_text_g lines context g) (fun t =>
              obind (human_text_g_all lines context r) (fun ts => Ok (t ++ nl1 ++ bytes_of "-----" ++ nl1 ++ ts)))
  end.
Definition human_text_g_bytes (input : list N) (context : Z) (gs : list gdiag) : outcome (list N) :=
  match gs with
  | [] => Ok (bytes_of "<ErrorsWithWource[]>")
  | _ => human_text_g_all (split_on 10 input) context gs
  end.

(* a parser diagnostic as a general one *)
Definition gdiag_of (d : diag) : gdiag := mkG (Some (None, dstart d, dend d)) None (Some (dmsg d)).

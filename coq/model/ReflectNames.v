(* ReflectNames.v — the reader with the CLIENT property name check of the prepared repair
   notes/schb-fix.patch (lib/j5schema: checkClientPropertyNames).

   f075449 made two properties of ONE object / oneof with one JSON name a reflection error.  The client
   sees more than an object's own properties: ObjectSchema.ClientProperties replaces every flattened
   object field by the client properties of the object it refers to, at any depth, so a name of a
   flattened child can still meet the name of a sibling or of another flattened child.  The check
   cannot sit in buildObjectSchema next to checkFlattenCycle: A may flatten B while B is still being
   built (B refers to A through an ordinary field), and then B's properties are not known when A is
   finished.  The repair therefore runs when a top-level build is complete and every ref is linked:

   * SchemaSetFromFiles: after the message loop and the enum loop, over SchemaSet.registered, the refs
     of the set in the order they were created (refTo and messageSchema append to it; the maps are
     never ranged);
   * SchemaCache.Schema: at the end of schemaLocked (only Schema calls it; nested builds do not go through
     it), over sc.registered, the refs THIS call added (the list the roll-back uses); Schema rolls the
     call back on a clash like on any other build error.

   For each ref whose schema is an object: checkPropertyNames(object.ClientProperties()).

   The schema set of the model is newest first, so creation order is [rev].  ClientProperties is the
   function of Reflect.v (its type assertion and its fuel are kept: Panic / OutOfFuel are outcomes of
   the check, proofs/ReflectNamesProofs.v shows when they cannot happen).  No proofs here. *)
From Coq Require Import String List NArith Bool.
From J5V.lib Require Import Outcome.
From J5V.model Require Import ReflectDesc ReflectSchema Reflect ReflectOwn.
Import ListNotations.
Local Open Scope bool_scope.

Definition e_client_name : string := "client property name is used twice".

(* checkPropertyNames(object.ClientProperties()) for one ref; a ref to a oneof or an enum, and a ref
   without a schema, is skipped (ref.To.( *ObjectSchema) is not ok) *)
Definition names_check_entry (S : sset) (e : entry) : outcome unit :=
  match e with
  | Linked (RObject _ _ _ _ ps) =>
      obind (client_props (length S + 1) S ps) (fun cps =>
        if names_unique_b cps then Ok tt else Err e_client_name)
  | _ => Ok tt
  end.

(* checkClientPropertyNames(refs): the first failure is the answer *)
Fixpoint names_check (S : sset) (es : list (ref * entry)) : outcome unit :=
  match es with
  | [] => Ok tt
  | (_, e) :: rest => obind (names_check_entry S e) (fun _ => names_check S rest)
  end.

(* SchemaSetFromFiles with the repair *)
Definition o_reflect_checked (D : desc) (fs : list filed) : outcome ost :=
  obind (o_reflect D fs) (fun s =>
  obind (names_check (fst s) (rev (fst s))) (fun _ => Ok s)).

(* the refs a Schema call registered: the entries of the new state whose name the old state did not
   have, oldest first *)
Definition registered (old new : sset) : list (ref * entry) :=
  filter (fun ke => match lookup old (fst ke) with None => true | Some _ => false end) (rev new).

(* SchemaCache.Schema with the repair: a name clash is a failed build, the cache stays as it was *)
Definition o_cache_schema_checked (D : desc) (fuel : nat) (s : ost) (m : msgd) : ost * outcome root :=
  match o_message_schema D fuel s m with
  | Ok (s1, r) =>
      match names_check (fst s1) (registered (fst s) (fst s1)) with
      | Ok _ => (s1, Ok r)
      | Err c => (s, Err c)
      | Panic p => (s, Panic p)
      | OutOfFuel => (s, OutOfFuel)
      end
  | Err c => (s, Err c)
  | Panic p => (s, Panic p)
  | OutOfFuel => (s, OutOfFuel)
  end.

(* J5sValidDecl.v — `valid` without the model's resolver.  J5sValid.valid_bundle evaluates, for
   every reference, ref_is = "the resolver returns a declaration of the wanted kind".  Here the
   same validity is split into
     * the STRUCTURAL part: J5sValid's checks with every reference check taken out (ws_*:
       identifiers, sibling names, no nested containers, oneof members, required / optional,
       path parameters, topic message names) - boolean, source only;
     * the REFERENCE part: every reference written in the file, with the kind its place wants
       (krefs_*: object / oneof places want a message, enum places an enum), is
       J5sRefSpec.ref_declared - a declarative condition on the source.
   J5sValidDeclProofs: valid_bundle bd = true <-> valid_decl bd. *)
From Coq Require Import String List NArith Bool.
From J5V.lib Require Import Outcome.
From J5V.model Require Import J5sAst Desc J5sWalk J5sLink J5sContract J5sSymbols J5sValid J5sRefSpec.
Import ListNotations.
Local Open Scope N_scope.

(* ------------------------------------------------------------------ references with the kind wanted *)
Fixpoint krefs_field (f : field) {struct f} : list (ref * bool) :=
  match f with
  | FObjRef r | FOneofRef r => [(r, false)]
  | FEnumRef r => [(r, true)]
  | FObjInline _ ps | FOneofInline _ ps => krefs_props ps
  | FArray it | FMap it => krefs_field it
  | _ => []
  end
with krefs_props (ps : props) {struct ps} : list (ref * bool) :=
  match ps with PNil => [] | PCons p r => krefs_property p ++ krefs_props r end
with krefs_property (p : property) {struct p} : list (ref * bool) :=
  match p with Property _ _ _ f => krefs_field f end.

Fixpoint krefs_nested (n : nested) {struct n} : list (ref * bool) :=
  match n with
  | NObject _ ps subs | NOneof _ ps subs => krefs_props ps ++ krefs_nesteds subs
  | NEnum _ => []
  end
with krefs_nesteds (ns : nesteds) {struct ns} : list (ref * bool) :=
  match ns with NNil => [] | NCons n r => krefs_nested n ++ krefs_nesteds r end.

Definition krefs_method (m : method) : list (ref * bool) :=
  krefs_props (m_request m) ++ match m_response m with Some ps => krefs_props ps | None => [] end.
Definition krefs_tmsgs (virt : props) (l : list tmsg) : list (ref * bool) :=
  flat_map (fun t => krefs_props (papp virt (tm_fields t))) l.
Definition krefs_topic (t : topic) : list (ref * bool) :=
  match t with
  | TPublish _ msgs => krefs_tmsgs PNil msgs
  | TReqRes _ rq rp => krefs_tmsgs virt_request rq ++ krefs_tmsgs virt_request rp
  | TUpsert _ _ m => krefs_tmsgs virt_upsert [m]
  | TEvent _ _ m => krefs_tmsgs PNil [m]
  end.
Definition krefs_element (e : element) : list (ref * bool) :=
  match e with
  | EObject nm ps subs => krefs_nested (NObject nm ps subs)
  | EOneof nm ps subs => krefs_nested (NOneof nm ps subs)
  | EEnum _ => []
  | EService s => flat_map krefs_method (sv_methods s)
  | ETopic t => krefs_topic t
  end.
Definition krefs_file (f : jfile) : list (ref * bool) := flat_map krefs_element (jf_elements f).

(* ------------------------------------------------------------------ the structural part *)
Section Struct.
Variables snake camel : str -> str.

Fixpoint ws_item (f : field) {struct f} : bool :=
  match f with
  | FScalar _ | FObjRef _ | FOneofRef _ | FEnumRef _ => true
  | FObjInline nm ps => name_opt_ok nm && ws_props false ps && sibling_ok snake camel ps
  | FOneofInline nm ps =>
      name_opt_ok nm && ws_props true ps && sibling_ok snake camel ps &&
      match ps with PNil => false | _ => true end
  | FEnumInline e => name_opt_ok (e_name e) && wf_enum e
  | FArray _ | FMap _ => false
  end
with ws_props (inoneof : bool) (ps : props) {struct ps} : bool :=
  match ps with
  | PNil => true
  | PCons p r => ws_property inoneof p && ws_props inoneof r
  end
with ws_property (inoneof : bool) (p : property) {struct p} : bool :=
  match p with
  | Property n rq op f =>
      field_ident n && negb (rq && op) &&
      (if inoneof then negb (is_repeated f) && negb (str_eqb (snake n) (b "type")) else true) &&
      match f with
      | FArray it | FMap it => ws_item it
      | _ => ws_item f
      end
  end.

Fixpoint ws_nested (n : nested) {struct n} : bool :=
  match n with
  | NObject nm ps subs =>
      type_ident nm && ws_props false ps && ws_nesteds subs &&
      distinct (map (fun p => snake (prop_name p)) (props_list ps)) &&
      distinct (map prop_name (props_list ps)) &&
      distinct (flat_map (prop_msg_names snake camel) (props_list ps) ++
                flat_map (prop_enum_names camel) (props_list ps) ++
                flat_map nested_msg_name (nesteds_list subs) ++ flat_map nested_enum_name (nesteds_list subs))
  | NOneof nm ps subs =>
      type_ident nm && ws_props true ps && ws_nesteds subs &&
      match ps with PNil => false | _ => true end &&
      distinct (map (fun p => snake (prop_name p)) (props_list ps)) &&
      distinct (map prop_name (props_list ps)) &&
      distinct (flat_map (prop_msg_names snake camel) (props_list ps) ++
                flat_map (prop_enum_names camel) (props_list ps) ++
                flat_map nested_msg_name (nesteds_list subs) ++ flat_map nested_enum_name (nesteds_list subs))
  | NEnum e => type_ident (e_name e) && wf_enum e
  end
with ws_nesteds (ns : nesteds) {struct ns} : bool :=
  match ns with
  | NNil => true
  | NCons n r => ws_nested n && ws_nesteds r
  end.

Definition ws_virtual (ps : props) : bool := ws_props false ps && sibling_ok snake camel ps.

Definition ws_method (base : option str) (m : method) : bool :=
  type_ident (m_name m) && ws_virtual (m_request m) &&
  match m_response m with Some ps => ws_virtual ps | None => true end &&
  params_ok (m_request m)
    (split 47 (match base with Some bp => path_join bp (m_path m) | None => m_path m end)).

Definition ws_service (s : service) : bool :=
  type_ident (sv_name s) && forallb (ws_method (sv_base s)) (sv_methods s) &&
  distinct (map m_name (sv_methods s)).

Definition ws_tmsg (single : bool) (virt : props) (t : tmsg) : bool :=
  ws_virtual (papp virt (tm_fields t)) &&
  match tm_name t with Some n => type_ident n | None => single end.

Definition ws_topic (t : topic) : bool :=
  match t with
  | TPublish name msgs =>
      type_ident name && forallb (ws_tmsg (is_single_b msgs) PNil) msgs
  | TReqRes name req reply =>
      type_ident name &&
      forallb (ws_tmsg (is_single_b req) virt_request) req &&
      forallb (ws_tmsg (is_single_b reply) virt_request) reply
  | TUpsert name _ msg => type_ident name && ws_tmsg true virt_upsert msg
  | TEvent name _ msg => type_ident name && ws_tmsg true PNil msg
  end.

Definition ws_element (e : element) : bool :=
  match e with
  | EObject nm ps subs => ws_nested (NObject nm ps subs)
  | EOneof nm ps subs => ws_nested (NOneof nm ps subs)
  | EEnum en => ws_nested (NEnum en)
  | EService s => ws_service s
  | ETopic t => ws_topic t
  end.

Definition ws_file (f : jfile) : bool :=
  forallb type_ident_or_seg (jf_dir f) && file_lists_ok f &&
  match import_map (jf_imports f) [] with Ok _ => true | _ => false end &&
  forallb ws_element (jf_elements f).

End Struct.

Section Decl.
Variables snake camel screaming : str -> str.

(* everything of valid_bundle that does not look at references: per-file structure, distinct
   exported names per package, the symbol clause, the reserved sub-package names, distinct file
   paths - a boolean check on the source *)
Definition valid_struct (bd : bundle) : bool :=
  forallb (fun f => match f with BJ j => ws_file snake camel j | BP _ => true end) bd &&
  forallb (fun pkg => match pkg_exports camel bd pkg with
                      | Some ex => distinct (map tr_name ex)
                      | None => true
                      end) (bundle_pkgs bd) &&
  forallb (fun pkg => symbols_ok snake camel screaming bd pkg && subpackages_free bd pkg) (bundle_pkgs bd) &&
  distinct (map bfile_path bd).

(* ... and every reference written anywhere in the bundle names a declaration of the right
   kind, by the documented import rule (no resolver) *)
Definition refs_declared (bd : bundle) : Prop :=
  forall f, In (BJ f) bd -> forall r we, In (r, we) (krefs_file f) ->
    ref_declared (j5s_pkg f) (jf_imports f) (pkg_exports camel bd) r we.

Definition valid_decl (bd : bundle) : Prop := valid_struct bd = true /\ refs_declared bd.

End Decl.

(* Reflect.v — executable model of the schema reader
     lib/j5schema/schema_from_proto.go  (SchemaSetFromFiles, messageSchema, isOneofWrapper,
        buildOneofSchema, buildObjectSchema, checkFlattenCycle, findPSMOptions, messageProperties,
        getProtoFieldExtensions, buildSchemaProperty, buildSchema, buildScalarType, buildEnum,
        wktSchema, buildMessageFieldSchema, buildEnumFieldSchema, buildFromStringProto)
     lib/j5schema/schema_cache.go       (SchemaCache.Schema with its roll-back of failed builds)
     lib/j5schema/root_schema.go        (ObjectSchema.ClientProperties)
     lib/j5reflect/property_set.go      (newPropSet, buildProperty, newMessageFieldFactory, newFieldFactory)
   over the abstract descriptors of ReflectDesc.v.  Go panics are [Panic site]; recursion through
   message references runs on fuel and is cut by the placeholder registered before a message is
   built.  Functions without a Go panic site return [res] (no Panic constructor).  No proofs here. *)
From Coq Require Import String Ascii List NArith ZArith Bool.
From J5V.lib Require Import Outcome.
From J5V.model Require Import ReflectDesc ReflectSchema.
Import ListNotations.
Local Open Scope bool_scope.

(* ---------------------------------------------------------------- strings *)
Fixpoint bytes (s : string) : str :=
  match s with
  | EmptyString => []
  | String c r => N_of_ascii c :: bytes r
  end.

Fixpoint str_eqb (a b : str) : bool :=
  match a, b with
  | [], [] => true
  | x :: r, y :: s => N.eqb x y && str_eqb r s
  | _, _ => false
  end.

Fixpoint has_prefix (p s : str) : bool :=
  match p, s with
  | [], _ => true
  | x :: r, y :: t => N.eqb x y && has_prefix r t
  | _ :: _, [] => false
  end.
Definition drop_prefix (p s : str) : str :=   (* strings.TrimPrefix *)
  if has_prefix p s then skipn (length p) s else s.
Definition has_suffix (suf s : str) : bool := has_prefix (rev suf) (rev s).
Definition drop_suffix (suf s : str) : str :=  (* strings.TrimSuffix *)
  if has_suffix suf s then firstn (length s - length suf) s else s.

Fixpoint join_us (parts : list str) : str :=   (* strings.Join(path, "_") *)
  match parts with
  | [] => []
  | [p] => p
  | p :: r => p ++ 95%N :: join_us r
  end.

Definition ref_eqb (a b : ref) : bool := str_eqb (fst a) (fst b) && str_eqb (snd a) (snd b).

(* checkPropertyNames: no JSON name twice among the properties of one object / oneof *)
Fixpoint nodup_str (l : list str) : bool :=
  match l with
  | [] => true
  | x :: r => negb (existsb (str_eqb x) r) && nodup_str r
  end.
Definition names_unique_b (ps : list prop) : bool := nodup_str (map p_json ps).

Definition kind_eqb (a b : kind) : bool :=
  match a, b with
  | KBool, KBool | KEnum, KEnum | KInt32, KInt32 | KSint32, KSint32 | KUint32, KUint32
  | KInt64, KInt64 | KSint64, KSint64 | KUint64, KUint64 | KSfixed32, KSfixed32 | KFixed32, KFixed32
  | KFloat, KFloat | KSfixed64, KSfixed64 | KFixed64, KFixed64 | KDouble, KDouble
  | KString, KString | KBytes, KBytes | KMessage, KMessage | KGroup, KGroup | KInvalid, KInvalid => true
  | _, _ => false
  end.

(* ---------------------------------------------------------------- results without a panic site *)
Inductive res (A : Type) := ROk (a : A) | RErr (class : string).
Arguments ROk {A} a.
Arguments RErr {A} class.
Definition lift {A} (r : res A) : outcome A :=
  match r with ROk a => Ok a | RErr c => Err c end.
Definition rbind {A B} (r : res A) (f : A -> res B) : res B :=
  match r with ROk a => f a | RErr c => RErr c end.

(* ---------------------------------------------------------------- the schema set *)
Fixpoint lookup (st : sset) (k : ref) : option entry :=
  match st with
  | [] => None
  | (k', e) :: r => if ref_eqb k' k then Some e else lookup r k
  end.
Fixpoint update (st : sset) (k : ref) (e : entry) : sset :=
  match st with
  | [] => []
  | (k', e') :: r => if ref_eqb k' k then (k', e) :: r else (k', e') :: update r k e
  end.
(* RootSet.refTo: the existing ref, or a new unlinked one *)
Definition ref_to (st : sset) (k : ref) : sset * bool :=
  match lookup st k with
  | Some _ => (st, true)
  | None => ((k, Placeholder) :: st, false)
  end.

(* ---------------------------------------------------------------- constants *)
Definition s_type := bytes "type".
Definition s_keys := bytes "keys".
Definition s_Keys := bytes "Keys".
Definition s_State := bytes "State".
Definition s_Event := bytes "Event".
Definition s_Data := bytes "Data".
Definition s_UNSPECIFIED := bytes "UNSPECIFIED".
Definition s_google_protobuf := bytes "google.protobuf.".
Definition s_Timestamp := bytes "google.protobuf.Timestamp".
Definition s_Duration := bytes "google.protobuf.Duration".
Definition s_Struct := bytes "google.protobuf.Struct".
Definition s_PbAny := bytes "google.protobuf.Any".
Definition s_J5Any := bytes "j5.types.any.v1.Any".
Definition s_Date := bytes "j5.types.date.v1.Date".
Definition s_Decimal := bytes "j5.types.decimal.v1.Decimal".
Definition s_duration := bytes "duration".
Definition s_uuid := bytes "uuid".
Definition s_id62 := bytes "id62".
Definition s_natural_key := bytes "natural_key".
Definition s_email := bytes "email".
Definition s_hostname := bytes "hostname".
Definition s_ipv4 := bytes "ipv4".
Definition s_ipv6 := bytes "ipv6".
Definition s_uri := bytes "uri".
Definition s_date := bytes "date".
Definition s_number := bytes "number".
(* wellKnownStringPatterns *)
Definition pat_date := bytes "^\d{4}-\d{2}-\d{2}$".
Definition pat_number := bytes "^\d(.?\d)?$".
Definition pat_id62 := bytes "^[0-9A-Za-z]{22}$".

(* ---------------------------------------------------------------- descriptor lookups *)
Section WithDesc.
Variable D : desc.

Definition find_msg (full : str) : option msgd :=
  find (fun m => str_eqb (m_full m) full) (d_msgs D).
Definition find_enum (full : str) : option enumd :=
  find (fun e => str_eqb (e_full e) full) (d_enums D).
Definition find_file (path : str) : option filed :=
  find (fun f => match f with File p _ _ _ => str_eqb p path end) (d_files D).

(* splitDescriptorName *)
Definition msg_key (m : msgd) : ref := (m_pkg m, join_us (m_path m)).
Definition enum_key (e : enumd) : ref := (e_pkg e, join_us (e_path e)).
Definition oneof_key (m : msgd) (oname : str) : ref := (m_pkg m, join_us (m_path m ++ [oname])).
Definition last_name (path : list str) : str := last path [].

(* ---------------------------------------------------------------- isOneofWrapper *)
Definition all_in_type_oneof (fs : list field) : bool :=
  forallb (fun f => match f_oneof f with Some 0%N => kind_eqb (f_kind f) KMessage | _ => false end) fs.

Definition is_oneof_wrapper (m : msgd) : bool :=
  let auto :=
    match m_oneofs m with
    | [Oneof name _ synthetic ext _] =>
        negb synthetic && str_eqb name s_type && (match ext with None => true | Some _ => false end)
        && all_in_type_oneof (m_fields m)
    | _ => false
    end in
  match m_opt m with
  | Some (MsgOpt true _) => true
  | Some (MsgOpt false MTOneof) => true
  | Some (MsgOpt false (MTObject _)) => false
  | Some (MsgOpt false MTNone) => auto
  | None => auto
  end.

(* ---------------------------------------------------------------- getProtoFieldExtensions *)
Definition empty_fcon := FCon None None VNone.
Definition effective_validate (o : option fcon) : fcon :=
  match o with
  | None => empty_fcon
  | Some (FCon req ign ty) =>
      match ign with
      | Some i =>
          if N.eqb i 3 then FCon req ign ty      (* IGNORE_ALWAYS *)
          else match ty with
               | VRepeated _ _ _ items => match items with Some it => it | None => empty_fcon end
               | _ => FCon req ign ty
               end
      | None => FCon req ign ty
      end
  end.
Definition fc_required (c : fcon) := match c with FCon r _ _ => r end.
Definition fc_ty (c : fcon) := match c with FCon _ _ t => t end.

(* protoFieldExtensions: validate may be nil for array items / map values *)
Record exts := { x_validate : option fcon; x_list : option lty; x_j5 : option j5ty; x_key : option psmkey }.
Definition x_vty (x : exts) : vty := match x_validate x with Some c => fc_ty c | None => VNone end.
Definition x_lty (x : exts) : lty := match x_list x with Some l => l | None => LNone end.

Definition field_exts (f : field) : exts :=
  match f_opts f with FOpts v l j k =>
    {| x_validate := Some (effective_validate v); x_list := l; x_j5 := j; x_key := k |} end.
(* array items inherit the field's list rules; map values do not *)
Definition child_exts (f : field) (v : option fcon) (inherit_list : bool) : exts :=
  match f_opts f with FOpts _ l _ k =>
    {| x_validate := v; x_list := if inherit_list then l else None; x_j5 := None; x_key := k |} end.

(* ---------------------------------------------------------------- buildScalarType *)
Definition unsupported_rule (r : numrules) : bool :=
  match r with NumRules c i n _ _ => c || i || n end.
Definition bounds_of (conv : Z -> Z) (r : numrules) : zbounds :=
  match r with NumRules _ _ _ lt gt =>
    let '(mx, emx) := match lt with BExcl v => (Some (conv v), Some true) | BIncl v => (Some (conv v), None) | _ => (None, None) end in
    let '(mn, emn) := match gt with BExcl v => (Some (conv v), Some true) | BIncl v => (Some (conv v), None) | _ => (None, None) end in
    ZBounds mn mx emn emx
  end.
(* int64(v) of a uint64 *)
Definition wrap64 (v : Z) : Z := if Z.leb 9223372036854775808 v then (v - 18446744073709551616)%Z else v.

Definition num_rules (conv : Z -> Z) (o : option numrules) : res (option zbounds) :=
  match o with
  | None => ROk None
  | Some r => if unsupported_rule r then RErr "const / in / not_in not supported" else ROk (Some (bounds_of conv r))
  end.

Definition key_format_of (fmt : option str) (cur : option keyformat) : option keyformat :=
  match fmt with
  | Some f => if str_eqb f s_uuid then Some KFUuid
              else if str_eqb f s_id62 then Some KFId62
              else if str_eqb f s_natural_key then
                (* since 240b498 the format decoded from (j5.ext.v1.field).key wins *)
                match cur with Some _ => cur | None => Some KFInformal end
              else cur
  | None => cur
  end.

(* buildFromStringProto *)
Definition build_string (x : exts) : res sproto :=
  (* validate *)
  rbind (match x_validate x with
         | Some (FCon _ _ VNone) | None => ROk (None, None, false)
         | Some (FCon _ _ (VString (StrRules mn mx pat wk))) =>
             let '(fmt0, pat') :=
               match pat with
               | Some p => if str_eqb p pat_date then (Some s_date, None)
                           else if str_eqb p pat_number then (Some s_number, None)
                           else if str_eqb p pat_id62 then (Some s_id62, None)
                           else (None, Some p)
               | None => (None, None)
               end in
             let rules := Some (StrLen pat' mn mx) in
             match wk with
             | WkNone => ROk (fmt0, rules, false)
             | WkUuid b => ROk ((if b then Some s_uuid else fmt0), rules, true)
             | WkEmail b => ROk ((if b then Some s_email else fmt0), rules, false)
             | WkHostname b => ROk ((if b then Some s_hostname else fmt0), rules, false)
             | WkIpv4 b => ROk ((if b then Some s_ipv4 else fmt0), rules, false)
             | WkIpv6 b => ROk ((if b then Some s_ipv6 else fmt0), rules, false)
             | WkUri b => ROk ((if b then Some s_uri else fmt0), rules, false)
             | WkOther => RErr "unknown string constraint"
             end
         | Some _ => RErr "constraint for string is of another type"
         end) (fun '(fmt1, rules, key1) =>
  let ls := match x_lty x with LString s => s | _ => LSNone end in
  (* list foreign keys *)
  rbind (match ls with
         | LSFkUnique t =>
             match fmt1 with Some _ => RErr "format not compatible with list.unique_string" | None => ROk (Some s_natural_key, Some t) end
         | LSFkId62 t =>
             match fmt1 with
             | Some f => if str_eqb f s_id62 then ROk (fmt1, Some t) else RErr "format not compatible with list.id62"
             | None => ROk (Some s_id62, Some t)
             end
         | LSFkUuid t =>
             match fmt1 with
             | Some f => if str_eqb f s_uuid then ROk (fmt1, Some t) else RErr "format not compatible with list.uuid"
             | None => ROk (Some s_uuid, Some t)
             end
         | _ => ROk (fmt1, None)
         end) (fun '(fmt2, fk) =>
  (* open text *)
  rbind (match ls with
         | LSOpenText t =>
             match fmt2 with
             | Some _ => RErr "open_text and format do not match"
             | None => match x_key x with Some _ => RErr "open_text and key constraint do not match" | None => ROk (Some t) end
             end
         | _ => ROk None
         end) (fun slr =>
  let keyopt := match x_j5 x with Some (JKey k) => Some k | _ => None end in
  let looks_like_key :=
    key1
    || (match fk with Some _ => true | None => false end)
    || (match x_key x with Some _ => true | None => false end)
    || (match fmt2 with Some f => str_eqb f s_id62 | None => false end)
    || (match keyopt with Some _ => true | None => false end) in
  if negb looks_like_key then ROk (PString fmt2 rules slr)
  else
    rbind (match keyopt with
           | None | Some KeyTypeNone => ROk None
           | Some (KeyPattern p) => ROk (Some (KFCustom p))
           | Some (KeyFormat f) =>
               if N.eqb f 3 then ROk (Some KFId62)
               else if N.eqb f 2 then ROk (Some KFUuid)
               else if N.eqb f 0 then ROk (Some KFInformal)   (* FORMAT_UNSPECIFIED: informal *)
               else RErr "unknown key format"
           end) (fun kf =>
    let entity :=
      match x_key x with
      | None => None
      | Some (PsmKey true _ tn) => Some (EntityK EKPrimary tn)
      | Some (PsmKey false (Some t) tn) => Some (EntityK (EKForeign t) tn)
      | Some (PsmKey false None tn) => Some (EntityK EKNone tn)
      end in
    ROk (PKey (key_format_of fmt2 kf) entity fk))))).

Definition build_scalar (k : kind) (x : exts) : res sproto :=
  match k with
  | KString => build_string x
  | KBool =>
      let rules := match x_vty x with VBool (Some b) => Some (Some b) | _ => None end in
      ROk (PBool rules (match x_lty x with LBool t => Some t | _ => None end))
  | KInt32 | KSint32 =>
      rbind (num_rules (fun v => v) (match x_vty x with VInt32 r => Some r | _ => None end)) (fun rules =>
      ROk (PInteger 1 rules (match x_lty x with LInt32 t => Some t | _ => None end)))
  | KUint32 =>
      rbind (num_rules (fun v => v) (match x_vty x with VUint32 r => Some r | _ => None end)) (fun rules =>
      ROk (PInteger 3 rules (match x_lty x with LUint32 t => Some t | _ => None end)))
  | KInt64 | KSint64 =>
      rbind (num_rules (fun v => v) (match x_vty x with VInt64 r => Some r | _ => None end)) (fun rules =>
      ROk (PInteger 2 rules (match x_lty x with LInt64 t => Some t | _ => None end)))
  | KUint64 =>
      rbind (num_rules wrap64 (match x_vty x with VUint64 r => Some r | _ => None end)) (fun rules =>
      ROk (PInteger 4 rules (match x_lty x with LUint64 t => Some t | _ => None end)))
  | KFloat =>
      rbind (num_rules (fun v => v) (match x_vty x with VFloat r => Some r | _ => None end)) (fun rules =>
      ROk (PFloat 1 rules (match x_lty x with LFloat t => Some t | _ => None end)))
  | KDouble =>
      rbind (num_rules (fun v => v) (match x_vty x with VDouble r => Some r | _ => None end)) (fun rules =>
      ROk (PFloat 2 rules (match x_lty x with LDouble t => Some t | _ => None end)))
  | KBytes =>
      ROk (PBytes (Some (match x_vty x with VBytes mn mx => (mn, mx) | _ => (None, None) end)))
  | _ => RErr "unsupported field type"
  end.

(* the kinds for which buildScalarType has an arm (compared with the Go switch, ReflectGen) *)
Definition scalar_kinds_handled : list kind :=
  [KString; KBool; KInt32; KSint32; KUint32; KInt64; KSint64; KUint64; KFloat; KDouble; KBytes].

(* ---------------------------------------------------------------- wktSchema *)
Definition ts_bounds (lt gt : tbound) : tsbounds :=
  let '(mx, emx) := match lt with TBExcl s n => (Some (s, n), Some true) | TBIncl s n => (Some (s, n), None) | _ => (None, None) end in
  let '(mn, emn) := match gt with TBExcl s n => (Some (s, n), Some true) | TBIncl s n => (Some (s, n), None) | _ => (None, None) end in
  TsBounds mn mx emn emx.

(* None: not a well-known type *)
Definition wkt_schema (full : str) (x : exts) : res (option fschema) :=
  if str_eqb full s_Timestamp then
    rbind (match x_vty x with
           | VTimestamp c w lt gt =>
               if c then RErr "const not supported for Timestamp"
               else if w then RErr "within not supported for Timestamp"
               else ROk (Some (ts_bounds lt gt))
           | _ => ROk None
           end) (fun rules =>
    ROk (Some (FScalar (Some (KInvalid, full)) (PTimestamp rules (match x_lty x with LTimestamp t => Some t | _ => None end)))))
  else if str_eqb full s_Duration then
    ROk (Some (FScalar (Some (KMessage, full)) (PString (Some s_duration) None None)))
  else if str_eqb full s_Date then
    let rules := match x_j5 x with Some (JDate (Some b)) => Some b | _ => None end in
    ROk (Some (FScalar (Some (KMessage, full)) (PDate rules (match x_lty x with LDate t => Some t | _ => None end))))
  else if str_eqb full s_Decimal then
    let rules := match x_j5 x with Some (JDecimal (Some b)) => Some b | _ => None end in
    ROk (Some (FScalar (Some (KMessage, full)) (PDecimal rules (match x_lty x with LDecimal t => Some t | _ => None end))))
  else if str_eqb full s_Struct then
    ROk (Some (FMap (FAny false [] None) None None))
  else if str_eqb full s_J5Any || str_eqb full s_PbAny then
    let '(only, types) := match x_j5 x with Some (JAny o ts) => (o, ts) | _ => (false, []) end in
    ROk (Some (FAny only types (match x_lty x with LAny t => Some t | _ => None end)))
  else ROk None.

Definition wkt_names : list str := [s_Timestamp; s_Duration; s_Date; s_Decimal; s_Struct; s_J5Any; s_PbAny].

(* ---------------------------------------------------------------- buildEnum *)
Definition enum_option_of (trim : str) (v : enumval) : enumoption :=
  match v with EnumVal name num info d => EnumOption (drop_prefix trim name) num d info end.

Definition build_enum (e : enumd) : outcome root :=
  match e with Enum _ _ path values eo d =>
    match values with
    | [] => Panic "buildEnum: sourceValues.Get(0) on an enum without values"
    | EnumVal first _ _ _ :: _ =>
        if negb (has_suffix s_UNSPECIFIED first) then Err "enum does not have an unspecified value"
        else
          let trim := drop_suffix s_UNSPECIFIED first in
          let opts := map (enum_option_of trim) values in
          let opts := match eo with Some (EnumOpt true _) => tl opts | _ => opts end in
          let info := match eo with Some (EnumOpt _ fs) => fs | None => [] end in
          Ok (REnum (join_us path) d trim opts info)
    end
  end.

Definition option_by_number (opts : list enumoption) (n : Z) : option str :=
  match find (fun o => match o with EnumOption _ num _ _ => Z.eqb num n end) opts with
  | Some (EnumOption name _ _ _) => Some name
  | None => None
  end.

Fixpoint enum_in (opts : list enumoption) (nums : list Z) : res (list str) :=
  match nums with
  | [] => ROk []
  | n :: r => match option_by_number opts n with
              | None => RErr "enum value not found"
              | Some name => rbind (enum_in opts r) (fun l => ROk (name :: l))
              end
  end.
Fixpoint enum_notin (opts : list enumoption) (nums : list Z) : res (list str) :=
  match nums with
  | [] => ROk []
  | n :: r => match option_by_number opts n with
              | None => if Z.eqb n 0 then enum_notin opts r else RErr "enum value not found"
              | Some name => rbind (enum_notin opts r) (fun l => ROk (name :: l))
              end
  end.

(* buildEnumFieldSchema, first half: newRefPlaceholder for the enum, build it when the ref is new;
   an existing ref that is not a linked enum schema (a message / oneof with the same split name,
   linked or still being built) is an error (the guard of the crash fix) *)
Definition enum_ref (st : sset) (e : enumd) : outcome sset :=
  match lookup st (enum_key e) with
  | Some (Linked (REnum _ _ _ _ _)) => Ok st
  | Some _ => Err "schema name is used by an enum and by a message or oneof"
  | None => obind (build_enum e) (fun r => Ok ((enum_key e, Linked r) :: st))
  end.

(* buildEnumFieldSchema *)
Definition build_enum_field (st : sset) (f : field) (x : exts) : outcome (sset * fschema) :=
  match f_ty f with
  | TEnum full =>
      match find_enum full with
      | None => Err "descriptor: enum not in the set"
      | Some e =>
          let k := enum_key e in
          obind (enum_ref st e) (fun st1 =>
          obind (match x_vty x with
                 | VEnum ins notins =>
                     match lookup st1 k with
                     | Some (Linked (REnum _ _ _ opts _)) =>
                         lift (rbind (enum_in opts ins) (fun i => rbind (enum_notin opts notins) (fun n => ROk (Some (i, n)))))
                     | Some (Linked _) => Panic "buildEnumFieldSchema: ref.To.(EnumSchema) on a schema of another type"
                     | _ => Panic "buildEnumFieldSchema: ref.To.(EnumSchema) on a nil RootSchema"
                     end
                 | _ => Ok None
                 end) (fun rules =>
          Ok (st1, FEnum k rules (match x_lty x with LEnum t => Some t | _ => None end) None)))
      end
  | _ => Err "descriptor: enum field without an enum type"
  end.

(* ---------------------------------------------------------------- checkFlattenCycle *)
(* walk over the flattened object fields of linked objects; [seen] bounds the walk.
   Some true: the root is reached again; None: out of fuel (excluded by ReflectProofs.flatten_cycle_fuel) *)
Definition flat_targets (ps : list prop) : list ref :=
  flat_map (fun p => match p_schema p with FObject r true _ _ => [r] | _ => [] end) ps.
Definition entry_targets (e : entry) : list ref :=
  match e with Linked (RObject _ _ _ _ ps) => flat_targets ps | _ => [] end.
Fixpoint flatten_walk (fuel : nat) (st : sset) (rootk : ref) (seen : list ref) (todo : list ref) : option bool :=
  match fuel with
  | O => None
  | S f =>
      match todo with
      | [] => Some false
      | k :: rest =>
          if ref_eqb k rootk then Some true
          else if existsb (ref_eqb k) seen then flatten_walk f st rootk seen rest
          else
            let next := match lookup st k with Some e => entry_targets e | None => [] end in
            flatten_walk f st rootk (k :: seen) (next ++ rest)
      end
  end.
Definition total_props (st : sset) : nat :=
  fold_right (fun e acc => match snd e with Linked r => length (root_props r) + acc | Placeholder => acc end)%nat O st.
Definition flatten_cycle (st : sset) (rootk : ref) (ps : list prop) : option bool :=
  flatten_walk (length ps + total_props st + length st + 1) st rootk [] (flat_targets ps).

(* ---------------------------------------------------------------- findPSMOptions *)
Definition psm_of_keys_field (m : msgd) : option psmopt :=
  match find (fun f => str_eqb (f_name f) s_keys) (m_fields m) with
  | Some f => match f_card f, f_ty f with
              | CMap _, _ => None
              | _, TMsg full =>
                  match find_msg full with
                  | Some km =>
                      (* a keys message that states its part makes the embedding message no part at all *)
                      match m_psm km with Some (PsmOpt _ (Some _)) => None | other => other end
                  | None => None
                  end
              | _, _ => None
              end
  | None => None
  end.
Definition find_psm (m : msgd) : res (option (str * N)) :=
  let psm := match m_psm m with Some p => Some p | None => psm_of_keys_field m end in
  match psm with
  | None => ROk None
  | Some (PsmOpt entity (Some part)) => ROk (Some (entity, part))
  | Some (PsmOpt entity None) =>
      let n := last_name (m_path m) in
      if has_suffix s_Keys n then ROk (Some (entity, 1%N))
      else if has_suffix s_State n then ROk (Some (entity, 2%N))
      else if has_suffix s_Event n then ROk (Some (entity, 3%N))
      else if has_suffix s_Data n then ROk (Some (entity, 4%N))
      else RErr "unknown PSM type suffix"
  end.

Definition is_enum_entry (e : entry) : bool :=
  match e with Linked (REnum _ _ _ _ _) => true | _ => false end.

(* ---------------------------------------------------------------- one level of the recursion *)
Section Step.
(* the recursive call: build the root schema of a message (buildOneofSchema / buildObjectSchema) *)
Variable rec : sset -> msgd -> outcome (sset * root).

(* buildMessageFieldSchema *)
Definition build_message_field (st : sset) (f : field) (x : exts) : outcome (sset * fschema) :=
  match f_ty f with
  | TMsg full =>
      let flatten := match x_j5 x with Some (JMessage b) => b | Some (JObject b) => b | _ => false end in
      obind (lift (wkt_schema full x)) (fun w =>
      match w with
      | Some s => Ok (st, s)
      | None =>
          if has_prefix s_google_protobuf full then Err "unsupported google type"
          else match find_msg full with
               | None => Err "descriptor: message not in the set"
               | Some m =>
                   let k := msg_key m in
                   let wrapper := is_oneof_wrapper m in
                   obind (match lookup st k with
                          (* the mirror guard (d286176): an existing ref linked to an enum schema; a nil To
                             (a message under construction) and a linked object / oneof pass *)
                          | Some e => if is_enum_entry e then Err "schema name is used by an enum and by a message or oneof"
                                      else Ok st
                          | None => obind (rec ((k, Placeholder) :: st) m) (fun '(st1, r) => Ok (update st1 k (Linked r)))
                          end) (fun st2 =>
                   Ok (st2, if wrapper then FOneof k None (match x_lty x with LOneof t => Some t | _ => None end) None
                            else FObject k flatten None None))
               end
      end)
  | _ => Err "descriptor: message field without a message type"
  end.

(* buildSchema *)
Definition build_schema (st : sset) (f : field) (x : exts) : outcome (sset * fschema) :=
  match f_kind f with
  | KMessage => build_message_field st f x
  | KEnum => build_enum_field st f x
  | k => obind (lift (build_scalar k x)) (fun p => Ok (st, FScalar (Some (k, [])) p))
  end.

(* one field of messageProperties: the property it yields *)
Definition build_field_prop (st : sset) (f : field) : outcome (sset * prop) :=
  let x := field_exts f in
  let required := match x_validate x with Some (FCon (Some true) _ _) => true | _ => false end in
  match f_card f with
  | CRepeated =>
      let '(rules, items) := match x_vty x with
                             | VRepeated mn mx un it => (Some (mn, mx, un), it)
                             | _ => (None, None)
                             end in
      let ext := match x_j5 x with Some (JArray sf) => Some sf | _ => None end in
      obind (build_schema st f (child_exts f items true)) (fun '(st1, item) =>
      Ok (st1, Prop_ (f_json f) [f_num f] required false (f_descr f) (FArray item rules ext)))
  | CMap kk =>
      if negb (kind_eqb kk KString) then Err "map keys must be strings for J5"
      else
        let '(rules, values) := match x_vty x with
                                | VMap mn mx vs => (Some (mn, mx), vs)
                                | _ => (None, None)
                                end in
        let ext := match x_j5 x with Some (JMap sf) => Some sf | _ => None end in
        obind (build_schema st f (child_exts f values false)) (fun '(st1, item) =>
        Ok (st1, Prop_ (f_json f) [f_num f] required false (f_descr f) (FMap item rules ext)))
  | c =>
      let optional := negb required && (match c with COptional => true | _ => false end) in
      obind (build_schema st f x) (fun '(st1, s) =>
      Ok (st1, Prop_ (f_json f) [f_num f] required optional (f_descr f) s))
  end.

(* exposed oneofs under construction: (oneof index, name, key, pending?, collected properties) *)
Record exposed := { ex_idx : N; ex_key : ref; ex_prop : prop; ex_pending : bool; ex_props : list prop }.

Fixpoint register_oneofs (m : msgd) (st : sset) (idx : N) (os : list oneofd) : res (sset * list exposed) :=
  match os with
  | [] => ROk (st, [])
  | Oneof name jname synthetic ext d :: r =>
      match synthetic, ext with
      | false, Some true =>
          let k := oneof_key m name in
          match lookup st k with
          | Some _ => RErr "placeholder already exists for oneof wrapper"
          | None =>
              let st1 := (k, Linked (ROneof (snd k) d [])) :: st in
              rbind (register_oneofs m st1 (N.succ idx) r) (fun '(st2, exs) =>
              ROk (st2, {| ex_idx := idx; ex_key := k;
                           ex_prop := Prop_ jname [] false false (m_descr m) (FOneof k None None None);
                           ex_pending := true; ex_props := [] |} :: exs))
          end
      | _, _ => register_oneofs m st (N.succ idx) r
      end
  end.

Fixpoint add_to_exposed (exs : list exposed) (idx : N) (p : prop) : option (list exposed * option prop) :=
  (* Some (exs', pending property to emit now) when the oneof is exposed *)
  match exs with
  | [] => None
  | e :: r =>
      if N.eqb (ex_idx e) idx then
        Some ({| ex_idx := ex_idx e; ex_key := ex_key e; ex_prop := ex_prop e; ex_pending := false;
                 ex_props := ex_props e ++ [p] |} :: r,
              if ex_pending e then Some (ex_prop e) else None)
      else match add_to_exposed r idx p with
           | Some (r', o) => Some (e :: r', o)
           | None => None
           end
  end.

Definition oneof_is_synthetic (m : msgd) (idx : N) : bool :=
  match nth_error (m_oneofs m) (N.to_nat idx) with
  | Some (Oneof _ _ s _ _) => s
  | None => true
  end.

Fixpoint fields_loop (m : msgd) (st : sset) (exs : list exposed) (fs : list field) : outcome (sset * list exposed * list prop) :=
  match fs with
  | [] => Ok (st, exs, [])
  | f :: r =>
      obind (build_field_prop st f) (fun '(st1, p) =>
      let direct := obind (fields_loop m st1 exs r) (fun '(st2, exs2, ps) => Ok (st2, exs2, p :: ps)) in
      match f_card f, f_oneof f with
      | CRepeated, _ | CMap _, _ => direct
      | _, None => direct
      | _, Some idx =>
          if oneof_is_synthetic m idx then direct
          else match add_to_exposed exs idx p with
               | None => direct
               | Some (exs1, pending) =>
                   obind (fields_loop m st1 exs1 r) (fun '(st2, exs2, ps) =>
                   Ok (st2, exs2, match pending with Some pp => pp :: ps | None => ps end))
               end
      end)
  end.

(* checkPropertyNames on the members collected for every exposed oneof *)
Definition exs_names_ok (exs : list exposed) : bool := forallb (fun e => names_unique_b (ex_props e)) exs.

Definition finish_oneofs (st : sset) (exs : list exposed) : sset :=
  fold_left (fun s e => match lookup s (ex_key e) with
                        | Some (Linked (ROneof n d _)) => update s (ex_key e) (Linked (ROneof n d (ex_props e)))
                        | _ => s
                        end) exs st.

(* messageProperties *)
Definition message_properties (st : sset) (m : msgd) : outcome (sset * list prop) :=
  obind (lift (register_oneofs m st 0 (m_oneofs m))) (fun '(st1, exs) =>
  obind (fields_loop m st1 exs (m_fields m)) (fun '(st2, exs2, ps) =>
  if existsb ex_pending exs2 then Err "oneof has not been added"
  else if negb (exs_names_ok exs2) then Err "property name is used twice (members of an exposed oneof)"
  else Ok (finish_oneofs st2 exs2, ps))).

(* the checks on the properties of the message itself: checkPropertyNames at the end of messageProperties
   (fix 07ed85e: an exposed oneof foo_bar next to a field fooBar is an error) and ObjectProperty.checkValid in
   buildObjectSchema / buildOneofSchema; both are errors, their order is not observable *)
Definition props_valid (ps : list prop) : bool :=
  forallb (fun p => match p_json p with [] => false | _ => true end) ps && names_unique_b ps.

(* buildOneofSchema / buildObjectSchema *)
Definition build_root (st : sset) (m : msgd) : outcome (sset * root) :=
  obind (message_properties st m) (fun '(st1, ps) =>
  if negb (props_valid ps) then Err "property has no JSON name, or a JSON name is used twice"
  else if is_oneof_wrapper m then Ok (st1, ROneof (snd (msg_key m)) (m_descr m) ps)
  else match flatten_cycle st1 (msg_key m) ps with
       | None => OutOfFuel
       | Some true => Err "flattened fields lead back to the object"
       | Some false =>
           obind (lift (find_psm m)) (fun entity =>
           let anym := match m_opt m with Some (MsgOpt _ (MTObject am)) => am | _ => [] end in
           Ok (st1, RObject (snd (msg_key m)) (m_descr m) entity anym ps))
       end).
End Step.

(* the recursion through message references, on fuel *)
Fixpoint build_msg (fuel : nat) (st : sset) (m : msgd) : outcome (sset * root) :=
  match fuel with
  | O => OutOfFuel
  | S f => build_root (build_msg f) st m
  end.

(* ---------------------------------------------------------------- entry points *)
(* SchemaSet.messageSchema, and SchemaCache.schemaLocked *)
Definition message_schema (fuel : nat) (st : sset) (m : msgd) : outcome (sset * root) :=
  let k := msg_key m in
  match lookup st k with
  | Some Placeholder => Err "unlinked ref"
  | Some (Linked r) => Ok (st, r)
  | None => obind (build_msg fuel ((k, Placeholder) :: st) m) (fun '(st1, r) => Ok (update st1 k (Linked r), r))
  end.

(* SchemaCache.Schema: a failed build leaves the cache as it was *)
Definition cache_schema (fuel : nat) (st : sset) (m : msgd) : sset * outcome root :=
  match message_schema fuel st m with
  | Ok (st1, r) => (st1, Ok r)
  | Err c => (st, Err c)
  | Panic s => (st, Panic s)
  | OutOfFuel => (st, OutOfFuel)
  end.

Fixpoint messages_loop (fuel : nat) (st : sset) (ms : list str) : outcome sset :=
  match ms with
  | [] => Ok st
  | full :: r =>
      match find_msg full with
      | None => Err "descriptor: message not in the set"
      | Some m => obind (message_schema fuel st m) (fun '(st1, _) => messages_loop fuel st1 r)
      end
  end.
Fixpoint enums_loop (st : sset) (es : list str) : outcome sset :=
  match es with
  | [] => Ok st
  | full :: r =>
      match find_enum full with
      | None => Err "descriptor: enum not in the set"
      | Some e =>
          let k := enum_key e in
          match lookup st k with
          | Some _ => enums_loop st r
          | None => obind (build_enum e) (fun root => enums_loop ((k, Linked root) :: st) r)
          end
      end
  end.

(* SchemaSetFromFiles with the include function selecting the given files, in that order *)
Fixpoint collect (fs : list filed) : list str * list str :=
  match fs with
  | [] => ([], [])
  | File _ _ ms es :: r => let '(m2, e2) := collect r in (ms ++ m2, es ++ e2)
  end.
Definition reflect_files (fuel : nat) (fs : list filed) : outcome sset :=
  let '(ms, es) := collect fs in
  obind (messages_loop fuel [] ms) (fun st => enums_loop st es).

Definition size : nat := length (d_msgs D) + 1.
Definition reflect (fs : list filed) : outcome sset := reflect_files size fs.

(* ---------------------------------------------------------------- ObjectSchema.ClientProperties *)
Fixpoint client_props (fuel : nat) (st : sset) (ps : list prop) : outcome (list prop) :=
  match fuel with
  | O => OutOfFuel
  | S f =>
      (fix go (ps : list prop) : outcome (list prop) :=
         match ps with
         | [] => Ok []
         | p :: r =>
             match p with
             | Prop_ _ path _ _ _ (FObject k true _ _) =>
                 match lookup st k with
                 | Some (Linked (RObject _ _ _ _ cps)) =>
                     obind (client_props f st cps) (fun children =>
                     obind (go r) (fun rest =>
                     Ok (map (fun c => match c with Prop_ j cp rq eo d s => Prop_ j (path ++ cp) rq eo d s end) children ++ rest)))
                 | _ => Panic "ObjectField.Schema: Ref.To.(ObjectSchema)"
                 end
             | _ => obind (go r) (fun rest => Ok (p :: rest))
             end
         end) ps
  end.

Definition client_props_of (st : sset) (r : root) : outcome (list prop) :=
  match r with
  | RObject _ _ _ _ ps => client_props (length st + 1) st ps
  | ROneof _ _ ps => Ok ps
  | REnum _ _ _ _ _ => Ok []
  end.

(* ---------------------------------------------------------------- j5reflect: newPropSet, buildProperty *)
Definition field_by_number (m : msgd) (n : N) : option field :=
  find (fun f => N.eqb (f_num f) n) (m_fields m).

(* newPropSet: resolve one property's ProtoField path; the last field and its message *)
Fixpoint resolve_path (fuel : nat) (m : msgd) (path : list N) : res (option field) :=
  match path with
  | [] => ROk None
  | n :: r =>
      match field_by_number m n with
      | None => RErr "newPropSet: field not found"
      | Some f =>
          match r with
          | [] => ROk (Some f)
          | _ =>
              match fuel with
              | O => RErr "path too long"
              | S fu =>
                  match f_card f, f_kind f, f_ty f with
                  | CMap _, _, _ => RErr "path continues through a map" (* Kind() of a map field is message; Message() the entry *)
                  | _, KMessage, TMsg full =>
                      match find_msg full with
                      | Some m2 => resolve_path fu m2 r
                      | None => RErr "newPropSet: field not found"   (* an opaque value type has no such field *)
                      end
                  | _, _, _ => RErr "field is not a message but has nested types"
                  end
              end
          end
      end
  end.

Definition new_prop_set (st : sset) (r : root) (m : msgd) : outcome (list (prop * option field)) :=
  obind (client_props_of st r) (fun ps =>
  (fix go (ps : list prop) : outcome (list (prop * option field)) :=
     match ps with
     | [] => Ok []
     | p :: rest =>
         obind (lift (resolve_path (length (p_path p)) m (p_path p))) (fun f =>
         obind (go rest) (fun l => Ok ((p, f) :: l)))
     end) ps).

(* the descriptor a message-typed field value has *)
Definition value_msg (f : field) : option msgd :=
  match f_ty f with TMsg full => find_msg full | _ => None end.
Definition value_full (f : field) : str :=
  match f_ty f with TMsg full => full | TEnum full => full | TNone => [] end.

Definition mutable (s : fschema) : bool :=
  match s with FScalar _ _ | FEnum _ _ _ _ => false | _ => true end.

(* newMessageFieldFactory on the value's message descriptor *)
Definition message_factory (st : sset) (s : fschema) (f : field) : outcome unit :=
  match s with
  | FObject k _ _ _ =>
      match lookup st k with
      | Some (Linked (RObject n d e a ps)) =>
          match value_msg f with
          | Some m => obind (new_prop_set st (RObject n d e a ps) m) (fun _ => Ok tt)
          | None => Err "newPropSet: field not found"
          end
      | _ => Panic "ObjectField.Schema: Ref.To.(ObjectSchema)"
      end
  | FOneof k _ _ _ =>
      match lookup st k with
      | Some (Linked (ROneof n d ps)) =>
          match value_msg f with
          | Some m => obind (new_prop_set st (ROneof n d ps) m) (fun _ => Ok tt)
          | None => Err "newPropSet: field not found"
          end
      | _ => Panic "OneofField.Schema: Ref.To.(OneofSchema)"
      end
  | FAny _ _ _ =>
      (* anyFieldFactory.buildField panics on any other value type; the reader only yields FAny for these *)
      if str_eqb (value_full f) s_PbAny || str_eqb (value_full f) s_J5Any then Ok tt
      else Panic "anyFieldFactory.buildField: unsupported Any type"
  | _ => Err "newMessageFieldFactory: unsupported schema for message field"
  end.

(* newFieldFactory *)
Definition leaf_factory (st : sset) (s : fschema) (f : field) : outcome unit :=
  match s with
  | FEnum k _ _ _ =>
      if kind_eqb (f_kind f) KEnum then
        (* reading the value goes through EnumField.Schema(), a type assertion of Ref.To to EnumSchema *)
        match lookup st k with
        | Some (Linked (REnum _ _ _ _ _)) => Ok tt
        | _ => Panic "EnumField.Schema: Ref.To.(EnumSchema)"
        end
      else Err "EnumField is of another kind"
  | FScalar (Some (k, wkt)) _ =>
      match wkt with
      | [] => if kind_eqb (f_kind f) k then Ok tt else Err "ScalarField is of another proto kind"
      | _ => if negb (kind_eqb (f_kind f) KMessage) then Err "ScalarField is not a message"
             else if str_eqb (value_full f) wkt then Ok tt else Err "ScalarField message is of another type"
      end
  | FScalar None _ => Err "exported scalar"
  | _ => Err "newFieldFactory: unsupported schema for leaf field"
  end.

(* buildProperty for a property whose value is set *)
Definition build_property (st : sset) (p : prop) (f : field) : outcome unit :=
  match p_schema p with
  | FArray item _ _ =>
      match f_card f with
      | CRepeated =>
          if mutable item then
            obind (message_factory st item f) (fun _ =>
            match item with FObject _ _ _ _ | FOneof _ _ _ _ => Ok tt | _ => Err "unsupported array item schema" end)
          else
            obind (leaf_factory st item f) (fun _ => Ok tt)
      | _ => Err "ArrayField is not a list"
      end
  | FMap item _ _ =>
      match f_card f with
      | CMap _ =>
          if mutable item then
            obind (message_factory st item f) (fun _ =>
            match item with FObject _ _ _ _ | FOneof _ _ _ _ => Ok tt | _ => Err "unsupported map item schema" end)
          else
            obind (leaf_factory st item f) (fun _ => Ok tt)
      | _ => Err "MapField is not a map"
      end
  | s =>
      if mutable s then message_factory st s f else leaf_factory st s f
  end.

(* encoding a message of type [m] in which every field is set: the property set of the root, then
   one buildProperty per client property (an exposed oneof builds the property set of the oneof on
   the same message and then its members) *)
Definition props_usable (st : sset) (m : msgd) (r : root) : outcome unit :=
  obind (new_prop_set st r m) (fun pfs =>
  (fix go (l : list (prop * option field)) : outcome unit :=
     match l with
     | [] => Ok tt
     | (p, Some f) :: rest => obind (build_property st p f) (fun _ => go rest)
     | (p, None) :: rest =>
         match p_schema p with
         | FOneof k _ _ _ =>
             match lookup st k with
             | Some (Linked (ROneof n d ops)) =>
                 obind (new_prop_set st (ROneof n d ops) m) (fun opfs =>
                 obind ((fix go2 (l2 : list (prop * option field)) : outcome unit :=
                           match l2 with
                           | [] => Ok tt
                           | (p2, Some f2) :: r2 => obind (build_property st p2 f2) (fun _ => go2 r2)
                           | (_, None) :: r2 => Err "Reflection Bug: no proto field and not a oneof"
                           end) opfs) (fun _ => go rest))
             | _ => Panic "OneofField.Schema: Ref.To.(OneofSchema)"
             end
         | _ => Err "Reflection Bug: no proto field and not a oneof"
         end
     end) pfs).

End WithDesc.

(* ---------------------------------------------------------------- names of the Go switch arms *)
Definition kind_go_name (k : kind) : string :=
  match k with
  | KBool => "BoolKind" | KEnum => "EnumKind" | KInt32 => "Int32Kind" | KSint32 => "Sint32Kind"
  | KUint32 => "Uint32Kind" | KInt64 => "Int64Kind" | KSint64 => "Sint64Kind" | KUint64 => "Uint64Kind"
  | KSfixed32 => "Sfixed32Kind" | KFixed32 => "Fixed32Kind" | KFloat => "FloatKind"
  | KSfixed64 => "Sfixed64Kind" | KFixed64 => "Fixed64Kind" | KDouble => "DoubleKind"
  | KString => "StringKind" | KBytes => "BytesKind" | KMessage => "MessageKind" | KGroup => "GroupKind"
  | KInvalid => "Kind(0)"
  end%string.
Definition all_kinds : list kind :=
  [KBool; KEnum; KInt32; KSint32; KUint32; KInt64; KSint64; KUint64; KSfixed32; KFixed32; KFloat;
   KSfixed64; KFixed64; KDouble; KString; KBytes; KMessage; KGroup; KInvalid].

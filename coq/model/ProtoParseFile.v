(* ProtoParseFile.v — the consumer of the printed file, at token level (C05): a recursive-descent parser
   for exactly the token subset model/ProtoPrintFile.v emits (this stands in for protocompile's
   parser), and the interpretation of the syntactic file as a descriptor (stands in for protocompile's
   descriptor building and linking: type names resolved from their scope with model/ProtoPrint.v
   [resolve_printed], sub paths of option names folded back into the option message, json_name,
   source positions). No proofs in this file. *)
From Coq Require Import String List NArith ZArith Bool.
From J5V.lib Require Import Outcome Corr.
From J5V.model Require Import ProtoPrintLit ProtoPrint ProtoPrintFile.
Import ListNotations.
Local Open Scope N_scope.
Local Open Scope bool_scope.

Definition ptok (A : Type) := option (A * list token).

(* ------------------------------------------------------------------ small pieces *)
Fixpoint parse_det (ts : list token) : list (list N) * list token :=
  match ts with
  | TDetached c :: r => let (cs, r') := parse_det r in (c :: cs, r')
  | _ => ([], ts)
  end.

Definition parse_cmt (ts : list token) : cmt * list token :=
  let (det, r) := parse_det ts in
  match r with
  | TLeading l :: r' => ({| c_det := det; c_lead := l |}, r')
  | _ => ({| c_det := det; c_lead := [] |}, r)
  end.

Fixpoint parse_dots (ts : list token) : list ident * list token :=
  match ts with
  | TDot :: TIdent b :: r => let (q, r') := parse_dots r in (b :: q, r')
  | _ => ([], ts)
  end.

Definition parse_qname (ts : list token) : ptok qname :=
  match ts with
  | TIdent a :: r => let (q, r') := parse_dots r in Some (a :: q, r')
  | _ => None
  end.

Definition parse_pn (ts : list token) : ptok printed_name :=
  match ts with
  | TDot :: TIdent a :: r => let (q, r') := parse_dots r in Some ({| pn_abs := true; pn_name := a :: q |}, r')
  | TIdent a :: r => let (q, r') := parse_dots r in Some ({| pn_abs := false; pn_name := a :: q |}, r')
  | _ => None
  end.

Definition parse_oname (ts : list token) : ptok oname :=
  match ts with
  | TLParen :: r =>
      match parse_pn r with
      | Some (p, TRParen :: r1) => let (sub, r2) := parse_dots r1 in Some (OExt p sub, r2)
      | _ => None
      end
  | TIdent k :: r => Some (OPlain k, r)
  | _ => None
  end.

(* a value in text-format syntax; the fuel always suffices (one unit per token) *)
Definition parse_value (ts : list token) : ptok rawval := parse_raw (S (length ts)) ts.

Definition parse_opt (ts : list token) : ptok sopt :=
  match parse_oname ts with
  | Some (n, TEq :: r) =>
      match parse_value r with Some (v, r1) => Some ((n, v), r1) | None => None end
  | _ => None
  end.

Fixpoint parse_more_opts (fuel : nat) (ts : list token) : ptok (list sopt) :=
  match fuel with
  | O => None
  | S f =>
      match ts with
      | TRBrack :: r => Some ([], r)
      | TComma :: r =>
          match parse_opt r with
          | Some (o, r1) => match parse_more_opts f r1 with Some (os, r2) => Some (o :: os, r2) | None => None end
          | None => None
          end
      | _ => None
      end
  end.

Definition parse_bracket (ts : list token) : ptok (list sopt) :=
  match ts with
  | TLBrack :: r =>
      match parse_opt r with
      | Some (o, r1) =>
          match parse_more_opts (S (length r1)) r1 with Some (os, r2) => Some (o :: os, r2) | None => None end
      | None => None
      end
  | _ => Some ([], ts)
  end.

(* does the next statement start with the keyword kw ? *)
Definition kw_head (kw : ident) (ts : list token) : option (list token) :=
  match ts with
  | TIdent k :: r => if ident_eqb k kw then Some r else None
  | _ => None
  end.

Fixpoint parse_opt_stmts (fuel : nat) (ts : list token) : ptok (list sopt) :=
  match fuel with
  | O => None
  | S f =>
      match kw_head kw_option ts with
      | Some r =>
          match parse_opt r with
          | Some (o, TSemi :: r1) =>
              match parse_opt_stmts f r1 with Some (os, r2) => Some (o :: os, r2) | None => None end
          | _ => None
          end
      | None => Some ([], ts)
      end
  end.
Definition opt_stmts (ts : list token) : ptok (list sopt) := parse_opt_stmts (S (length ts)) ts.

(* items up to the closing brace *)
Fixpoint many {A} (fuel : nat) (p : list token -> ptok A) (ts : list token) : ptok (list A) :=
  match fuel with
  | O => None
  | S f =>
      match ts with
      | TRBrace :: r => Some ([], r)
      | _ =>
          match p ts with
          | Some (x, r) => match many f p r with Some (xs, r') => Some (x :: xs, r') | None => None end
          | None => None
          end
      end
  end.

(* ------------------------------------------------------------------ fields, enum values, methods *)
Definition parse_label (ts : list token) : label * list token :=
  match ts with
  | TIdent k :: r =>
      if ident_eqb k kw_repeated then (LRepeated, r)
      else if ident_eqb k kw_optional then (LOptional, r)
      else (LNone, ts)
  | _ => (LNone, ts)
  end.

Definition map_head (ts : list token) : option (list token) :=
  match ts with
  | TIdent k :: TLt :: r => if ident_eqb k kw_map then Some r else None
  | _ => None
  end.

Definition parse_stype (ts : list token) : ptok stype :=
  match map_head ts with
  | Some r =>
      match parse_pn r with
      | Some (kp, TComma :: r1) =>
          match parse_pn r1 with
          | Some (vp, TGt :: r2) => Some (SMap kp vp, r2)
          | _ => None
          end
      | _ => None
      end
  | None => match parse_pn ts with Some (p, r) => Some (SNamed p, r) | None => None end
  end.

(* after the comments *)
Definition parse_field_body (c : cmt) (ts : list token) : ptok sfield :=
  let (lab, ts1) := parse_label ts in
  match parse_stype ts1 with
  | Some (ty, TIdent name :: TEq :: TLit num :: r) =>
      match parse_uint num with
      | Some n =>
          match parse_bracket r with
          | Some (opts, TSemi :: r1) =>
              Some ({| sf_cm := c; sf_label := lab; sf_type := ty; sf_name := name; sf_num := n; sf_opts := opts |}, r1)
          | _ => None
          end
      | None => None
      end
  | _ => None
  end.

Definition parse_field (ts : list token) : ptok sfield :=
  let (c, ts1) := parse_cmt ts in parse_field_body c ts1.

Definition parse_evalue (ts : list token) : ptok svalue :=
  let (c, ts1) := parse_cmt ts in
  match ts1 with
  | TIdent name :: TEq :: TLit num :: r =>
      match parse_int num with
      | Some z =>
          match parse_bracket r with
          | Some (opts, TSemi :: r1) => Some ({| sv_cm := c; sv_name := name; sv_num := z; sv_opts := opts |}, r1)
          | _ => None
          end
      | None => None
      end
  | _ => None
  end.

Definition parse_method (ts : list token) : ptok smethod :=
  let (c, ts1) := parse_cmt ts in
  match ts1 with
  | TIdent k :: TIdent name :: TLParen :: r =>
      if ident_eqb k kw_rpc then
        match parse_pn r with
        | Some (pin, TRParen :: TIdent k2 :: TLParen :: r1) =>
            if ident_eqb k2 kw_returns then
              match parse_pn r1 with
              | Some (pout, TRParen :: TLBrace :: r2) =>
                  match opt_stmts r2 with
                  | Some (opts, TRBrace :: r3) =>
                      Some ({| sm_cm := c; sm_name := name; sm_in := pin; sm_out := pout; sm_opts := opts |}, r3)
                  | _ => None
                  end
              | _ => None
              end
            else None
        | _ => None
        end
      else None
  | _ => None
  end.

(* ------------------------------------------------------------------ elements *)
(* "kw name {" opens a block; anything else is a field. Fuel: one unit per nesting level. *)
Definition block_head (ts : list token) : option (ident * ident * list token) :=
  match ts with
  | TIdent k :: TIdent name :: TLBrace :: r => Some (k, name, r)
  | _ => None
  end.

Fixpoint parse_elem (fuel : nat) (ts : list token) : ptok selem :=
  match fuel with
  | O => None
  | S f =>
      let (c, ts1) := parse_cmt ts in
      match block_head ts1 with
      | Some (k, name, r) =>
          match opt_stmts r with
          | Some (opts, r1) =>
              if ident_eqb k kw_message then
                match many (S (length r1)) (parse_elem f) r1 with
                | Some (body, r2) => Some (SMsg c name opts body, r2)
                | None => None
                end
              else if ident_eqb k kw_enum then
                match many (S (length r1)) parse_evalue r1 with
                | Some (vs, r2) => Some (SEnum c name opts vs, r2)
                | None => None
                end
              else if ident_eqb k kw_oneof then
                match many (S (length r1)) parse_field r1 with
                | Some (fs, r2) => Some (SOneof c name opts fs, r2)
                | None => None
                end
              else if ident_eqb k kw_service then
                match many (S (length r1)) parse_method r1 with
                | Some (ms, r2) => Some (SService c name opts ms, r2)
                | None => None
                end
              else None
          | None => None
          end
      | None => match parse_field_body c ts1 with Some (fl, r) => Some (SField fl, r) | None => None end
      end
  end.

(* the elements of the file: up to the end of the tokens *)
Fixpoint parse_top (fuel : nat) (depth : nat) (ts : list token) : option (list selem) :=
  match fuel with
  | O => None
  | S f =>
      match ts with
      | [] => Some []
      | _ =>
          match parse_elem depth ts with
          | Some (x, r) => match parse_top f depth r with Some xs => Some (x :: xs) | None => None end
          | None => None
          end
      end
  end.

(* ------------------------------------------------------------------ the head of the file *)
Definition unquote (l : list N) : option (list N) :=
  match l with
  | 34 :: r => match rev r with 34 :: m => Some (rev m) | _ => None end
  | _ => None
  end.

Definition import_head (ts : list token) : option (list N * list token) :=
  match ts with
  | TIdent k :: TLit s :: TSemi :: r => if ident_eqb k kw_import then Some (s, r) else None
  | _ => None
  end.

Fixpoint parse_imports (fuel : nat) (ts : list token) : ptok (list (list N)) :=
  match fuel with
  | O => None
  | S f =>
      match import_head ts with
      | Some (s, r) =>
          match unquote s with
          | Some p => match parse_imports f r with Some (ps, r') => Some (p :: ps, r') | None => None end
          | None => None
          end
      | None => Some ([], ts)
      end
  end.

Definition fopt_head (ts : list token) : option (ident * token * list token) :=
  match ts with
  | TIdent k :: TIdent name :: TEq :: v :: TSemi :: r =>
      if ident_eqb k kw_option && is_scalar_token v then Some (name, v, r) else None
  | _ => None
  end.

Fixpoint parse_fopts (fuel : nat) (ts : list token) : ptok (list (ident * token)) :=
  match fuel with
  | O => None
  | S f =>
      match fopt_head ts with
      | Some (name, v, r) =>
          match parse_fopts f r with Some (os, r') => Some ((name, v) :: os, r') | None => None end
      | None => Some ([], ts)
      end
  end.

Fixpoint parse_exts (fuel : nat) (ts : list token) : ptok (list sext) :=
  match fuel with
  | O => None
  | S f =>
      match kw_head kw_extend ts with
      | Some r =>
          match parse_qname r with
          | Some (x, TLBrace :: r1) =>
              match many (S (length r1)) parse_field r1 with
              | Some (fs, r2) =>
                  match parse_exts f r2 with
                  | Some (xs, r3) => Some ({| sx_extendee := x; sx_fields := fs |} :: xs, r3)
                  | None => None
                  end
              | None => None
              end
          | _ => None
          end
      | None => Some ([], ts)
      end
  end.

(* syntax = "proto3"; package *)
Definition file_head (ts : list token) : option (list token) :=
  match ts with
  | TIdent k1 :: TEq :: TLit v :: TSemi :: TIdent k2 :: r =>
      if ident_eqb k1 kw_syntax && bytes_eqb v lit_proto3 && ident_eqb k2 kw_package then Some r else None
  | _ => None
  end.

Definition parse_file (ts : list token) : option sfile :=
  match file_head (snd (parse_cmt ts)) with
  | Some r =>
      match parse_qname r with
      | Some (pkg, TSemi :: r1) =>
          match parse_imports (S (length r1)) r1 with
          | Some (imps, r2) =>
              match parse_fopts (S (length r2)) r2 with
              | Some (fopts, r3) =>
                  match parse_exts (S (length r3)) r3 with
                  | Some (exts, r4) =>
                      match parse_top (S (length r4)) (S (length r4)) r4 with
                      | Some body =>
                          Some {| s_pkg := pkg; s_imports := imps; s_fopts := fopts; s_exts := exts; s_body := body |}
                      | None => None
                      end
                  | None => None
                  end
              | None => None
              end
          | None => None
          end
      | _ => None
      end
  | None => None
  end.

(* ------------------------------------------------------------------ syntactic file -> descriptor *)
Definition sk_names : list ident :=
  [ [100;111;117;98;108;101]; [102;108;111;97;116]; [105;110;116;51;50]; [105;110;116;54;52];
    [117;105;110;116;51;50]; [117;105;110;116;54;52]; [115;105;110;116;51;50]; [115;105;110;116;54;52];
    [102;105;120;101;100;51;50]; [102;105;120;101;100;54;52]; [115;102;105;120;101;100;51;50];
    [115;102;105;120;101;100;54;52]; [98;111;111;108]; [115;116;114;105;110;103]; [98;121;116;101;115] ].
(* double float int32 int64 uint32 uint64 sint32 sint64 fixed32 fixed64 sfixed32 sfixed64 bool string bytes *)
Definition is_scalar_kind (k : ident) : bool := existsb (ident_eqb k) sk_names.

Definition lookup_type (x : xsymtab) (full : qname) : option (qname * qname) :=
  find (fun e => qname_eqb (flat_name e) full) (x_types x).

Definition interp_vt (x : xsymtab) (pkg ctx : qname) (p : printed_name) : option dvt :=
  let by_name :=
    match resolve_printed (to_symtab x) pkg ctx p with
    | Some full => match lookup_type x full with Some e => Some (DRef (fst e) (snd e)) | None => None end
    | None => None
    end in
  match p with
  | {| pn_abs := false; pn_name := [k] |} => if is_scalar_kind k then Some (DScalar k) else by_name
  | _ => by_name
  end.

(* the name protocompile gives the synthetic entry message of a map field: InitCap(JSONName(name)) + "Entry" *)
Definition init_cap (s : list N) : list N :=
  match s with c :: r => (if (97 <=? c) && (c <=? 122) then c - 32 else c) :: r | [] => [] end.
Definition map_entry_name (fname : ident) : ident := init_cap (default_json fname) ++ sfx_entry.

Definition interp_type (x : xsymtab) (pkg ctx : qname) (fname : ident) (t : stype) : option dtype :=
  match t with
  | SNamed p => option_map DSingle (interp_vt x pkg ctx p)
  | SMap kp vp =>
      match kp with
      | {| pn_abs := false; pn_name := [k] |} =>
          if is_scalar_kind k then
            let entry := map_entry_name fname in
            option_map (DMapT k entry) (interp_vt x pkg (ctx ++ [entry]) vp)
          else None
      | _ => None
      end
  end.

(* "(ext).a.b = v" sets field b of field a of the option message *)
Definition unsimplify (sub : list ident) (v : rawval) : rawval :=
  fold_right (fun k acc => RMsg [(k, acc)]) v sub.

Definition pos_key (i : N) : key := {| k_line := i; k_idx := i |}.

(* options with an extension name; the position in the list stands for the source line *)
Fixpoint interp_opts (i : N) (l : list sopt) : option (list dopt) :=
  match l with
  | [] => Some []
  | (OExt p sub, v) :: r =>
      match interp_opts (i + 1) r with
      | Some os => Some ({| o_key := pos_key i; o_full := pn_name p; o_name := p; o_val := unsimplify sub v |} :: os)
      | None => None
      end
  | (OPlain _, _) :: _ => None
  end.

(* the json_name pseudo option of a field *)
Definition is_json_opt (o : sopt) : bool :=
  match fst o with OPlain k => ident_eqb k kw_json_name | _ => false end.

Definition field_json (name : ident) (opts : list sopt) : option (list N) :=
  match filter is_json_opt opts with
  | [] => Some (default_json name)
  | [(_, RScalar (TLit q))] => unquote q
  | _ => None
  end.

Definition interp_field (x : xsymtab) (pkg ctx : qname) (i : N) (f : sfield) : option dfield :=
  match interp_type x pkg ctx (sf_name f) (sf_type f),
        field_json (sf_name f) (sf_opts f),
        interp_opts 1 (filter (fun o => negb (is_json_opt o)) (sf_opts f)) with
  | Some ty, Some json, Some opts =>
      Some {| f_key := pos_key i; f_cm := sf_cm f; f_label := sf_label f; f_type := ty; f_name := sf_name f;
              f_num := sf_num f; f_json := json; f_opts := opts |}
  | _, _, _ => None
  end.

Fixpoint interp_fields (x : xsymtab) (pkg ctx : qname) (i : N) (l : list sfield) : option (list dfield) :=
  match l with
  | [] => Some []
  | f :: r =>
      match interp_field x pkg ctx i f, interp_fields x pkg ctx (i + 1) r with
      | Some d, Some ds => Some (d :: ds)
      | _, _ => None
      end
  end.

Definition interp_value (i : N) (v : svalue) : option dvalue :=
  match interp_opts 1 (sv_opts v) with
  | Some opts => Some {| v_key := pos_key i; v_cm := sv_cm v; v_name := sv_name v; v_num := sv_num v; v_opts := opts |}
  | None => None
  end.

Fixpoint interp_values (i : N) (l : list svalue) : option (list dvalue) :=
  match l with
  | [] => Some []
  | v :: r =>
      match interp_value i v, interp_values (i + 1) r with
      | Some d, Some ds => Some (d :: ds)
      | _, _ => None
      end
  end.

Definition interp_ref (x : xsymtab) (pkg ctx : qname) (p : printed_name) : option (qname * qname) :=
  match resolve_printed (to_symtab x) pkg ctx p with
  | Some full => lookup_type x full
  | None => None
  end.

Definition interp_method (x : xsymtab) (pkg : qname) (svc : ident) (i : N) (m : smethod) : option dmethod :=
  match interp_ref x pkg [svc] (sm_in m), interp_ref x pkg [svc] (sm_out m), interp_opts 1 (sm_opts m) with
  | Some a, Some b, Some opts =>
      Some {| m_key := pos_key i; m_cm := sm_cm m; m_name := sm_name m; m_in := a; m_out := b; m_opts := opts |}
  | _, _, _ => None
  end.

Fixpoint interp_methods (x : xsymtab) (pkg : qname) (svc : ident) (i : N) (l : list smethod) : option (list dmethod) :=
  match l with
  | [] => Some []
  | m :: r =>
      match interp_method x pkg svc i m, interp_methods x pkg svc (i + 1) r with
      | Some d, Some ds => Some (d :: ds)
      | _, _ => None
      end
  end.

Fixpoint interp_elem (x : xsymtab) (pkg ctx : qname) (i : N) (e : selem) : option delem :=
  match e with
  | SField f => option_map DField (interp_field x pkg ctx i f)
  | SOneof c n opts fs =>
      match interp_opts 1 opts, interp_fields x pkg ctx 1 fs with
      | Some o, Some ds => Some (DOneof (pos_key i) c n o ds)
      | _, _ => None
      end
  | SMsg c n opts body =>
      match interp_opts 1 opts,
            (fix go (j : N) (l : list selem) : option (list delem) :=
               match l with
               | [] => Some []
               | y :: r =>
                   match interp_elem x pkg (ctx ++ [n]) j y, go (j + 1) r with
                   | Some d, Some ds => Some (d :: ds)
                   | _, _ => None
                   end
               end) 1 body with
      | Some o, Some ds => Some (DMsg (pos_key i) c n o ds)
      | _, _ => None
      end
  | SEnum c n opts vs =>
      match interp_opts 1 opts, interp_values 1 vs with
      | Some o, Some ds => Some (DEnum (pos_key i) c n o ds)
      | _, _ => None
      end
  | SService c n opts ms =>
      match interp_opts 1 opts, interp_methods x pkg n 1 ms with
      | Some o, Some ds => Some (DService (pos_key i) c n o ds)
      | _, _ => None
      end
  end.

Fixpoint interp_elems (x : xsymtab) (pkg ctx : qname) (i : N) (l : list selem) : option (list delem) :=
  match l with
  | [] => Some []
  | y :: r =>
      match interp_elem x pkg ctx i y, interp_elems x pkg ctx (i + 1) r with
      | Some d, Some ds => Some (d :: ds)
      | _, _ => None
      end
  end.

(* the types a syntactic file declares *)
Fixpoint selem_types (prefix : qname) (e : selem) : list qname :=
  match e with
  | SMsg _ n _ body =>
      (prefix ++ [n]) :: (fix go (l : list selem) : list qname :=
                            match l with [] => [] | y :: r => selem_types (prefix ++ [n]) y ++ go r end) body
  | SEnum _ n _ _ => [prefix ++ [n]]
  | _ => []
  end.
Fixpoint selems_types (prefix : qname) (l : list selem) : list qname :=
  match l with [] => [] | y :: r => selem_types prefix y ++ selems_types prefix r end.

Definition sfile_symtab (imp : xsymtab) (s : sfile) : xsymtab :=
  {| x_types := map (fun p => (s_pkg s, p)) (selems_types [] (s_body s)) ++ x_types imp;
     x_pkgs := s_pkg s :: x_pkgs imp |}.

Fixpoint interp_exts (x : xsymtab) (pkg : qname) (l : list sext) : option (list (qname * dfield)) :=
  match l with
  | [] => Some []
  | b :: r =>
      match interp_fields x pkg [] 1 (sx_fields b), interp_exts x pkg r with
      | Some fs, Some rest => Some (map (fun f => (sx_extendee b, f)) fs ++ rest)
      | _, _ => None
      end
  end.

Definition interp_file (imp : xsymtab) (s : sfile) : option dfile :=
  let x := sfile_symtab imp s in
  match interp_exts x (s_pkg s) (s_exts s), interp_elems x (s_pkg s) [] 1 (s_body s) with
  | Some exts, Some body =>
      Some {| d_pkg := s_pkg s; d_imports := s_imports s; d_fopts := s_fopts s; d_exts := exts; d_body := body |}
  | _, _ => None
  end.

Definition parse_file_tokens (imp : xsymtab) (ts : list token) : option dfile :=
  match parse_file ts with Some s => interp_file imp s | None => None end.

(* RulesOneof.v — C12 for the options of a oneof. A oneof compiles to a message whose
   fields are the members of one proto oneof (`oneof type {...}`): every member is singular
   and has presence (protoreflect HasPresence is true for members of a real oneof), also a
   scalar one, so "not set" and "set to the default value" are different messages and the
   validator skips the rules of a member that is not set. `required = true` on an option
   compiles to (buf.validate.field).required: the member must be the one that is set.
   Declared meaning of a member: it may be absent unless required; when it is set — with any
   value, the default included — its rules hold. No proofs here. *)
From Coq Require Import String List NArith ZArith Bool.
From J5V.lib Require Import Outcome.
From J5V.model Require Import RulesDecl RulesWrite RulesSpec Validate RulesSpecDec.
Import ListNotations.

(* the compiled field as a member of the oneof: it has presence *)
Definition as_member (o : fout) : fout :=
  FO (fo_json o) (fo_name o) (fo_number o) (fo_kind o) (fo_rep o) (fo_opt o) true (fo_val o)
     (fo_ext o) (fo_list o) (fo_key o) (fo_desc o).

(* options of a oneof are singular, not explicitly optional (the compiler would put a member
   in a second, synthetic oneof); entity primary keys do not occur in oneofs *)
Definition member_decl (d : prop) : bool :=
  match p_ty d with
  | PSingle t => negb (p_opt d) && negb (is_primary_ty t)
  | _ => false
  end.

(* the same property as an explicitly optional, not required one: what its rules say about a value that is set *)
Definition as_optional (d : prop) : prop := P (p_name d) false true (p_ty d) (p_desc d).

Definition write_members (env : enum_env) (ds : list prop) : outcome (list fout) :=
  obind (write_object env ds) (fun os => Ok (map as_member os)).

Section Spec.
Variable pat_sem : str -> str -> Prop.
Variable env : enum_env.
Definition member_sem (d : prop) (fv : fvalue) : Prop :=
  (fv = FAbsent -> p_req d = false) /\ rule_sem pat_sem env (as_optional d) fv.
Definition member_obj (ds : list prop) (fvs : list fvalue) : Prop := Forall2 member_sem ds fvs.
End Spec.

Section Decide.
Variable re_match : str -> str -> bool.
Variable env : enum_env.
Definition member_semb (d : prop) (fv : fvalue) : bool :=
  (match fv with FAbsent => negb (p_req d) | _ => true end) && rule_semb re_match env (as_optional d) fv.
Fixpoint member_objb (ds : list prop) (fvs : list fvalue) : bool :=
  match ds, fvs with
  | [], [] => true
  | d :: r, v :: s => member_semb d v && member_objb r s
  | _, _ => false
  end.
End Decide.

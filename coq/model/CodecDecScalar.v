(* CodecDecScalar.v — model of lib/j5reflect/value_go.go scalarReflectFromGo for the
   Go values the decoder can hand it (nil, bool, json.Number, string), with
   strconv.ParseInt/ParseUint, encoding/base64 StdEncoding.DecodeString,
   date_j5t.DateFromString modelled here; strconv.ParseFloat, time.Parse(RFC3339)
   and shopspring decimal.NewFromString are uninterpreted ("oracles").
   No proofs in this file. *)
From Coq Require Import String List NArith ZArith Bool.
From J5V.lib Require Import Outcome Json.
From J5V.model Require Import CodecTypes.
Import ListNotations.
Local Open Scope N_scope.
Local Open Scope bool_scope.

(* the dynamic Go value passed as [value interface{}] *)
Inductive goval :=
| GNil
| GBool (b : bool)
| GNum (lit : bytes)     (* json.Number *)
| GStr (s : bytes).

(* a scalar token as the Go value Decoder.Token returned (delimiters are filtered by the caller) *)
Definition goval_of_token (t : token) : goval :=
  match t with
  | TBool b => GBool b
  | TNum l => GNum l
  | TStr s => GStr s
  | _ => GNil
  end.

(* library functions that are not modelled: their results are inputs *)
Record oracles := mkOracles {
  o_float : bytes -> option N * option N;   (* (strconv.ParseFloat(s, 64) = v, nil: Float64bits v ;  strconv.ParseFloat(s, 32) = v, nil: Float32bits (float32 v)) *)
  o_time : bytes -> option (Z * Z);    (* time.Parse(time.RFC3339, s) = t, nil: (t.Unix(), t.Nanosecond()) *)
  o_decimal : bytes -> option (bytes * Z)   (* decimal.NewFromString(s) = d, nil:  (d.String(), d.Exponent()) *)
}.

(* ------------------------------------------------------------ integers *)
Fixpoint digits_value (s : bytes) (acc : N) : option N :=
  match s with
  | [] => Some acc
  | c :: r => if is_digit c then digits_value r (acc * 10 + (c - 48)) else None
  end.

(* strconv.ParseUint(s, 10, 64) without the range check: one or more ASCII digits *)
Definition parse_unsigned (s : bytes) : option N :=
  match s with
  | [] => None
  | _ => digits_value s 0
  end.

(* strconv.ParseInt(s, 10, _) without the range check: optional sign, digits *)
Definition parse_signed (s : bytes) : option Z :=
  match s with
  | [] => None
  | c :: r =>
    if c =? 43 then match parse_unsigned r with Some n => Some (Z.of_N n) | None => None end
    else if c =? 45 then match parse_unsigned r with Some n => Some (- Z.of_N n)%Z | None => None end
    else match parse_unsigned s with Some n => Some (Z.of_N n) | None => None end
  end.

Definition in_range (lo hi z : Z) : bool := (lo <=? z)%Z && (z <=? hi)%Z.
Definition min_i32 : Z := (- 2147483648)%Z.
Definition max_i32 : Z := 2147483647%Z.
Definition min_i64 : Z := (- 9223372036854775808)%Z.
Definition max_i64 : Z := 9223372036854775807%Z.
Definition max_u32 : Z := 4294967295%Z.
Definition max_u64 : Z := 18446744073709551615%Z.

Definition parse_int_bits (lo hi : Z) (s : bytes) : option Z :=
  match parse_signed s with
  | Some z => if in_range lo hi z then Some z else None
  | None => None
  end.
Definition parse_uint_bits (hi : Z) (s : bytes) : option Z :=
  match parse_unsigned s with
  | Some n => if (Z.of_N n <=? hi)%Z then Some (Z.of_N n) else None
  | None => None
  end.

(* the Field_Integer arm *)
Definition int_from_go (k : scalar_kind) (v : goval) : outcome (option pval) :=
  match v with
  | GNum lit =>
    (* UINT64: strconv.ParseUint(number, 10, 64); otherwise json.Number.Int64(),
       then the per-format switch on the uint64 / int64 *)
    if match k with KUint64 => true | _ => false end then
      match parse_uint_bits max_u64 lit with
      | Some z => Ok (Some (VInt z))
      | None => Err "strconv.ParseUint"
      end
    else
    match parse_int_bits min_i64 max_i64 lit with
    | None => Err "json.Number.Int64"
    | Some z =>
      match k with
      | KInt32 => if in_range min_i32 max_i32 z then Ok (Some (VInt z)) else Err "out of range for int32"
      | KInt64 => Ok (Some (VInt z))
      | KUint32 => if in_range 0 max_u32 z then Ok (Some (VInt z)) else Err "out of range for uint32"
      | KUint64 => if (0 <=? z)%Z then Ok (Some (VInt z)) else Err "out of range for uint64"
      | _ => Err "unsupported integer format"
      end
    end
  | GStr s =>
    let r := match k with
             | KInt32 => parse_int_bits min_i32 max_i32 s
             | KInt64 => parse_int_bits min_i64 max_i64 s
             | KUint32 => parse_uint_bits max_u32 s
             | KUint64 => parse_uint_bits max_u64 s
             | _ => None
             end in
    match r with
    | Some z => Ok (Some (VInt z))
    | None => Err "strconv"          (* fix: was swallowed (invalid Value, nil error) *)
    end
  | GNil | GBool _ => Err "type: expected int"
  end.

(* ------------------------------------------------------------ floats *)
(* the Field_Float arm: the text is parsed at the precision of the field
   (bitSize 32 for FLOAT32), so it is rounded once.  The range test that follows
   in the Go code (float32(val) infinite while val is finite) cannot fire for a
   value that ParseFloat(_, 32) produced. *)
Definition float_from_go (orc : oracles) (k : scalar_kind) (v : goval) : outcome (option pval) :=
  let text :=
    match v with
    | GNum l => Ok l
    | GStr s => Ok s
    | GNil | GBool _ => Err "type: value can't float"
    end in
  obind text (fun s =>
    match k with
    | KFloat64 => match fst (o_float orc s) with Some b => Ok (Some (VFloat b)) | None => Err "strconv.ParseFloat" end
    | KFloat32 => match snd (o_float orc s) with Some b => Ok (Some (VFloat b)) | None => Err "strconv.ParseFloat" end
    | _ => Err "unsupported float format"
    end).

(* ------------------------------------------------------------ base64 *)
Definition b64_val (c : N) : option N :=
  if (65 <=? c) && (c <=? 90) then Some (c - 65)
  else if (97 <=? c) && (c <=? 122) then Some (c - 97 + 26)
  else if (48 <=? c) && (c <=? 57) then Some (c - 48 + 52)
  else if c =? 43 then Some 62
  else if c =? 47 then Some 63
  else None.

Definition is_crlf (c : N) : bool := (c =? 10) || (c =? 13).
Fixpoint skip_crlf (s : bytes) : bytes :=
  match s with
  | c :: r => if is_crlf c then skip_crlf r else s
  | [] => []
  end.

Definition quantum_bytes (ds : list N) : bytes :=
  match ds with
  | [a; b] => [a * 4 + b / 16]
  | [a; b; c] => [a * 4 + b / 16; (b mod 16) * 16 + c / 4]
  | [a; b; c; d] => [a * 4 + b / 16; (b mod 16) * 16 + c / 4; (c mod 4) * 64 + d]
  | _ => []
  end.

(* base64.StdEncoding.DecodeString (padded, not strict): CR and LF are skipped
   wherever they occur; a quantum ends at the end of input only with 0 sextets;
   padding closes the input and nothing but CR/LF may follow it *)
Fixpoint b64_go (s : bytes) (ds : list N) : option bytes :=
  match s with
  | [] => match ds with [] => Some [] | _ => None end
  | c :: r =>
    match b64_val c with
    | Some d =>
      let ds' := ds ++ [d] in
      if (N.of_nat (length ds') =? 4) then
        match b64_go r [] with Some o => Some (quantum_bytes ds' ++ o) | None => None end
      else b64_go r ds'
    | None =>
      if is_crlf c then b64_go r ds
      else if c =? 61 then
        match ds with
        | [_; _] =>
          match skip_crlf r with
          | c2 :: r2 => if c2 =? 61 then
                          match skip_crlf r2 with [] => Some (quantum_bytes ds) | _ => None end
                        else None
          | [] => None
          end
        | [_; _; _] => match skip_crlf r with [] => Some (quantum_bytes ds) | _ => None end
        | _ => None
        end
      else None
    end
  end.
Definition b64_std_decode (s : bytes) : option bytes := b64_go s [].

(* byteValueFromString: '-' -> '+', '_' -> '/', pad with '=' to a multiple of four *)
Definition url_to_std (c : N) : N := if c =? 45 then 43 else if c =? 95 then 47 else c.
Definition bytes_from_string (s : bytes) : option bytes :=
  let s1 := map url_to_std s in
  let rem := N.of_nat (length s1) mod 4 in
  let s2 := if rem =? 0 then s1 else s1 ++ repeat 61 (N.to_nat (4 - rem)) in
  b64_std_decode s2.

(* ------------------------------------------------------------ dates *)
Fixpoint split_on (sep : N) (s : bytes) (cur : bytes) : list bytes :=
  match s with
  | [] => [rev cur]
  | c :: r => if c =? sep then rev cur :: split_on sep r [] else split_on sep r (c :: cur)
  end.

(* strconv.Atoi on a 64-bit platform *)
Definition atoi (s : bytes) : option Z := parse_int_bits min_i64 max_i64 s.

(* int32(x) for an int x: two's complement truncation *)
Definition wrap_i32 (z : Z) : Z :=
  let m := (z mod 4294967296)%Z in
  if (m <? 2147483648)%Z then m else (m - 4294967296)%Z.

(* daysIn(year, month): proleptic Gregorian calendar *)
Definition is_leap (y : Z) : bool :=
  ((y mod 4 =? 0) && (negb (y mod 100 =? 0) || (y mod 400 =? 0)))%Z.
Definition days_in (y m : Z) : Z :=
  if ((m =? 4) || (m =? 6) || (m =? 9) || (m =? 11))%Z then 30%Z
  else if (m =? 2)%Z then (if is_leap y then 29%Z else 28%Z)
  else 31%Z.

(* date_j5t.DateFromString: three '-'-separated Atoi fields; year 0..9999,
   month 1..12, day 1..daysIn (so the int32 conversions never truncate) *)
Definition date_from_string (s : bytes) : option (Z * Z * Z) :=
  match split_on 45 s [] with
  | [a; b; c] =>
    match atoi a, atoi b, atoi c with
    | Some y, Some m, Some d =>
      if ((y <? 0) || (9999 <? y) || (m <? 1) || (12 <? m) || (d <? 1) || (days_in y m <? d))%Z then None
      else Some (wrap_i32 y, wrap_i32 m, wrap_i32 d)
    | _, _, _ => None
    end
  | _ => None
  end.

(* decimalFromString: maxDecimalExponent *)
Definition max_decimal_exponent : Z := 1000%Z.

(* ------------------------------------------------------------ the switch *)
(* Ok None is "an invalid protoreflect.Value with a nil error" *)
Definition scalar_from_go (orc : oracles) (k : scalar_kind) (v : goval) : outcome (option pval) :=
  match k with
  | KBool =>
    match v with
    | GBool b => Ok (Some (VBool b))
    | GNil => Ok None
    | _ => Err "type: expected bool"
    end
  | KString | KKey =>
    match v with
    | GStr s => Ok (Some (VStr s))
    | GNil => Ok None
    | _ => Err "type: expected string"
    end
  | KInt32 | KInt64 | KUint32 | KUint64 => int_from_go k v
  | KFloat32 | KFloat64 => float_from_go orc k v
  | KBytes =>
    match v with
    | GStr s => match bytes_from_string s with Some b => Ok (Some (VBytes b)) | None => Err "base64" end
    | _ => Err "type: expected []byte"
    end
  | KTimestamp =>
    match v with
    | GStr s => match o_time orc s with Some (sec, ns) => Ok (Some (mk_timestamp sec ns)) | None => Err "time.Parse" end
    | _ => Err "type: expected timestamp"
    end
  | KDecimal =>
    match v with
    | GStr s | GNum s =>
      match o_decimal orc s with
      | Some (d, ex) =>
          if (max_decimal_exponent <? Z.abs ex)%Z then Err "decimal exponent out of range"
          else Ok (Some (mk_decimal d))
      | None => Err "decimal"
      end
    | _ => Err "type: expected decimal"
    end
  | KDate =>
    match v with
    | GStr s => match date_from_string s with Some (y, m, d) => Ok (Some (mk_date y m d)) | None => Err "date" end
    | _ => Err "type: expected date"
    end
  end.

(* ------------------------------------------------------------ the switch tables
   What the Go source's type switches look like, as this model understands them;
   proofs/CodecDecProofs.v checks them against gen/SwitchGen.v (read from the Go
   AST on every run) and against the behaviour of [scalar_from_go]. *)
Local Open Scope string_scope.
Definition switch_name (k : scalar_kind) : string :=
  match k with
  | KInt32 => "Integer/FORMAT_INT32" | KInt64 => "Integer/FORMAT_INT64"
  | KUint32 => "Integer/FORMAT_UINT32" | KUint64 => "Integer/FORMAT_UINT64"
  | KFloat32 | KFloat64 => "Float"
  | KBool => "Bool" | KString => "String_" | KBytes => "Bytes" | KKey => "Key"
  | KDate => "Date" | KDecimal => "Decimal" | KTimestamp => "Timestamp"
  end.
Definition kind_group (k : scalar_kind) : string :=
  match k with
  | KInt32 | KInt64 | KUint32 | KUint64 => "Integer"
  | _ => switch_name k
  end.

Definition int_arms : list string :=
  ["uint"; "uint16"; "uint32"; "uint64"; "int"; "int16"; "int32"; "int64"; "string"; "default"].
Definition model_value_arms : list (string * list string) := [
  ("Bool", ["bool"; "*bool"; "nil"; "default"]);
  ("Bytes", ["[]byte"; "string"; "*string"; "default"]);
  ("Date", ["*date_j5t.Date"; "string"; "*string"; "default"]);
  ("Decimal", ["string"; "json.Number"; "*string"; "*decimal_j5t.Decimal"; "*decimal.Decimal"; "decimal.Decimal"; "default"]);
  ("Float", ["json.Number"; "string"]);
  ("Integer/FORMAT_INT32", int_arms);
  ("Integer/FORMAT_INT64", int_arms);
  ("Integer/FORMAT_UINT32", int_arms);
  ("Integer/FORMAT_UINT64", int_arms);
  ("Key", ["string"; "*string"; "nil"; "default"]);
  ("String_", ["string"; "*string"; "nil"; "default"]);
  ("Timestamp", ["string"; "*string"; "*timestamppb.Timestamp"; "time.Time"; "default"])
].
Definition model_number_assert : list string := ["Integer"].

Fixpoint arms_of (tbl : list (string * list string)) (name : string) : list string :=
  match tbl with
  | [] => []
  | (n, a) :: r => if String.eqb n name then a else arms_of r name
  end.
Definition has_arm (tbl : list (string * list string)) (k : scalar_kind) (ty : string) : bool :=
  existsb (String.eqb ty) (arms_of tbl (switch_name k)).

(* behaviour: a dynamic type is "handled" when the result is not a type error *)
Definition no_oracles : oracles := mkOracles (fun _ => (None, None)) (fun _ => None) (fun _ => None).
Definition is_type_error {A} (o : outcome A) : bool :=
  match o with
  | Err c => String.prefix "type:" c
  | _ => false
  end.
Definition handles (k : scalar_kind) (v : goval) : bool := negb (is_type_error (scalar_from_go no_oracles k v)).
(* nil yields "an invalid Value with a nil error" *)
Definition nil_gives_invalid (k : scalar_kind) : bool :=
  match scalar_from_go no_oracles k GNil with Ok None => true | _ => false end.

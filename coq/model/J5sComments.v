(* J5sComments.v — the source locations (SourceCodeInfo.Location: descriptor path + leading
   comment) the compiler writes into the MAIN file of a source file: j5convert/source_location.go
   (commentSet.comment / mergeAt), builders.go (addMessage / addEnum: merge at [4,i] / [5,i] in
   the file, [3,k] / [4,k] in a message), conversion.go (visitObjectNode / visitOneofNode: one
   location for the message itself, one per property AFTER the inline type the property
   defines; visitEnumNode / enumBuilder.addValue: a location only where there is a description;
   the value path uses the value NUMBER).
   Descriptions are not part of J5sAst; they come as a table keyed by the declared name path:
   [Object] / [Object; Nested] for declarations, message path ++ [property] for properties
   (the description of a property with an inline type belongs to the property: the inline
   message has a location without comment, an inline enum none), enum path ++ [OPTION] for
   enum options.  Single-line descriptions: the comment text is " " ++ description ++ "\n".
   Executable, no proofs. *)
From Coq Require Import String List NArith Bool.
From J5V.lib Require Import Outcome.
From J5V.model Require Import J5sAst Desc J5sWalk J5sConvert.
Import ListNotations.
Local Open Scope N_scope.

Definition dtable := list (list str * str).

Fixpoint path_eqb (x y : list str) : bool :=
  match x, y with
  | [], [] => true
  | a :: r, c :: s => str_eqb a c && path_eqb r s
  | _, _ => false
  end.

Fixpoint dget (t : dtable) (p : list str) : str :=
  match t with
  | [] => []
  | (k, v) :: r => if path_eqb k p then v else dget r p
  end.

(* commentSet.comment: " " + lines joined by "\n " + "\n" (one line here) *)
Definition fmt_desc (d : str) : str := match d with [] => [] | _ => [32] ++ d ++ [10] end.

(* a location: descriptor path, the declared name path it belongs to, leading comment *)
Record loc := mkLoc { lc_path : list N; lc_name : list str; lc_text : str }.

Definition at_prefix (pre : list N) (l : list loc) : list loc :=
  map (fun x => mkLoc (pre ++ lc_path x) (lc_name x) (lc_text x)) l.

Section Comments.
Variable camel : str -> str.
Variable screaming : str -> str.
Variable t : dtable.

(* enumBuilder: the enum itself and each value only when described; value path [2; number].
   Numbers as visitEnumNode gives them: a first option that spells the zero value (enum.go
   isExplicitZero: UNSPECIFIED / <PREFIX>UNSPECIFIED) is number 0, the others count from 1 *)
Definition first_is_zero (name : str) (e : enum) : bool :=
  match e_opts e with o :: _ => explicit_zero (enum_prefix screaming name (e_prefix e)) o | [] => false end.
Definition enum_locs (epath : list str) (name : str) (e : enum) : list loc :=
  let self := match dget t epath with [] => [] | d => [mkLoc [] epath (fmt_desc d)] end in
  let fix vals (n : N) (os : list str) : list loc :=
    match os with
    | [] => []
    | o :: r => (match dget t (epath ++ [o]) with [] => [] | d => [mkLoc [2; n] (epath ++ [o]) (fmt_desc d)] end)
                ++ vals (N.succ n) r
    end in
  self ++ vals (if first_is_zero name e then 0 else 1) (e_opts e).

(* inline enums: the description sits on the property, the enum gets no location of its own *)
Definition inline_enum_locs (epath : list str) (name : str) (e : enum) : list loc :=
  (fix vals (n : N) (os : list str) : list loc :=
     match os with
     | [] => []
     | o :: r => (match dget t (epath ++ [o]) with [] => [] | d => [mkLoc [2; n] (epath ++ [o]) (fmt_desc d)] end)
                 ++ vals (N.succ n) r
     end) (if first_is_zero name e then 0 else 1) (e_opts e).

(* what the inline type of a property contributes to the enclosing message (before the
   property's own location), with the nested message / enum counters *)
Fixpoint field_locs (mpath : list str) (dflt : str) (f : field) (mi ei : N) {struct f} : list loc * N * N :=
  match f with
  | FObjInline nm ps | FOneofInline nm ps =>
      let n := inline_name dflt nm in
      (at_prefix [3; mi] (mkLoc [] (mpath ++ [n]) [] :: props_locs (mpath ++ [n]) ps 0 0 0), N.succ mi, ei)
  | FEnumInline e =>
      let n := inline_name dflt (e_name e) in
      (at_prefix [4; ei] (inline_enum_locs (mpath ++ [n]) n e), mi, N.succ ei)
  | FArray it => field_locs mpath dflt it mi ei
  | FMap it => let '(l, mi', ei') := field_locs mpath dflt it mi ei in (l, N.succ mi', ei')   (* the entry message *)
  | _ => ([], mi, ei)
  end
with props_locs (mpath : list str) (ps : props) (fi mi ei : N) {struct ps} : list loc :=
  match ps with
  | PNil => []
  | PCons p r =>
      let '(l, mi', ei') := property_locs mpath p fi mi ei in
      l ++ props_locs mpath r (N.succ fi) mi' ei'
  end
with property_locs (mpath : list str) (p : property) (fi mi ei : N) {struct p} : list loc * N * N :=
  match p with
  | Property n _ _ f =>
      let '(l, mi', ei') := field_locs mpath (camel n) f mi ei in
      (l ++ [mkLoc [2; fi] (mpath ++ [n]) (fmt_desc (dget t (mpath ++ [n])))], mi', ei')
  end.

(* the counters after a run of properties *)
Fixpoint field_counts (f : field) (mi ei : N) {struct f} : N * N :=
  match f with
  | FObjInline _ _ | FOneofInline _ _ => (N.succ mi, ei)
  | FEnumInline _ => (mi, N.succ ei)
  | FArray it => field_counts it mi ei
  | FMap it => let '(m, e) := field_counts it mi ei in (N.succ m, e)
  | _ => (mi, ei)
  end.
Fixpoint props_counts (ps : props) (mi ei : N) : N * N :=
  match ps with
  | PNil => (mi, ei)
  | PCons (Property _ _ _ f) r => let '(m, e) := field_counts f mi ei in props_counts r m e
  end.

(* a declared / explicitly nested message: itself, its properties, then its nested schemas *)
Fixpoint nested_locs (mpath : list str) (n : nested) {struct n} : list loc :=
  match n with
  | NObject nm ps subs | NOneof nm ps subs =>
      let me := mpath ++ [nm] in
      let '(mi, ei) := props_counts ps 0 0 in
      mkLoc [] me (fmt_desc (dget t me)) :: props_locs me ps 0 0 0 ++ nesteds_locs me subs mi ei
  | NEnum e => enum_locs (mpath ++ [e_name e]) (e_name e) e
  end
with nesteds_locs (mpath : list str) (ns : nesteds) (mi ei : N) {struct ns} : list loc :=
  match ns with
  | NNil => []
  | NCons n r =>
      match n with
      | NEnum _ => at_prefix [4; ei] (nested_locs mpath n) ++ nesteds_locs mpath r mi (N.succ ei)
      | _ => at_prefix [3; mi] (nested_locs mpath n) ++ nesteds_locs mpath r (N.succ mi) ei
      end
  end.

(* the main file: messages at [4; i], enums at [5; i], in declaration order *)
Fixpoint elements_locs (els : list element) (mi ei : N) : list loc :=
  match els with
  | [] => []
  | e :: r =>
      match e with
      | EObject nm ps subs => at_prefix [4; mi] (nested_locs [] (NObject nm ps subs)) ++ elements_locs r (N.succ mi) ei
      | EOneof nm ps subs => at_prefix [4; mi] (nested_locs [] (NOneof nm ps subs)) ++ elements_locs r (N.succ mi) ei
      | EEnum en => at_prefix [5; ei] (nested_locs [] (NEnum en)) ++ elements_locs r mi (N.succ ei)
      | EService _ | ETopic _ => elements_locs r mi ei
      end
  end.

Definition main_locs (f : jfile) : list loc := elements_locs (jf_elements f) 0 0.

End Comments.

(* ---- correspondence: the locations of the real main file, in order: (path, leading comment) *)
Fixpoint npath_eqb (a c : list N) : bool :=
  match a, c with
  | [], [] => true
  | p :: r, q :: s => (p =? q) && npath_eqb r s
  | _, _ => false
  end.

Fixpoint locs_eqb (m : list loc) (real : list (list N * str)) : bool :=
  match m, real with
  | [], [] => true
  | x :: r, y :: s => npath_eqb (lc_path x) (fst y) && str_eqb (lc_text x) (snd y) && locs_eqb r s
  | _, _ => false
  end.

(* CmpbWalker.v — the UNMODELLED part of the C07 front end: the schema-driven BCL walker
   (internal/bcl/parse.go ParseAST / validateFile, internal/bcl/internal/walker/...).  No model, no
   theorem: a reviewed census of every syntactic run-time panic source go/types can see in it
   (gen/WalkerGen.v: explicit panic(, index / slice expressions, explicit pointer dereferences, map
   element assignments; there is no type assertion without `, ok`), each row with the REVIEW NOTE that
   explains why it is believed unreachable, and the list of functions the walker crash stream must
   execute (measured with `go build -cover` instrumentation on every run).  The notes are not proofs.
   Not enumerable, hence not listed: nil dereferences through field selection / method calls. *)
From Coq Require Import String List Bool.
From J5V.gen Require WalkerGen.
Import ListNotations.
Local Open Scope string_scope.

Inductive wclass :=
| WGuard (why : string)     (* a length / nil test in the same function dominates the expression *)
| WFresh (why : string)     (* the slice / map was allocated in the same function with the length used *)
| WSpec (why : string)      (* depends on the static BCL schema spec / parser construction only, not on the input text *)
| WCaller (why : string)    (* relies on what the callers pass (named in the note) *)
| WOffPath (why : string).  (* no caller on the ParseFile path *)

Definition wkey := (string * string * string * string * string)%type.
Definition wkey_eqb (a b : wkey) : bool :=
  match a, b with
  | (a1, a2, a3, a4, a5), (b1, b2, b3, b4, b5) =>
      String.eqb a1 b1 && String.eqb a2 b2 && String.eqb a3 b3 && String.eqb a4 b4 && String.eqb a5 b5
  end.

Definition walker_reviewed : list (wkey * wclass) :=
  [
    (("bcl", "parse.go", "maybeString", "deref", "*s"), WGuard "`if s == nil { return """" }` precedes");
    (("bcl", "parse.go", "sourceSet.field", "mapwrite", "s.loc.Children[name]"), WGuard "`if s.loc.Children == nil { make }` precedes; s.loc is the non-nil SourceLocation ParseAST allocated or a child created here");
    (("walker", "c2.go", "popSet.popFirst", "index", "ps.items[0]"), WGuard "`if len(ps.items) == 0 { return }` precedes");
    (("walker", "c2.go", "popSet.popFirst", "slice", "ps.items[1:]"), WGuard "`if len(ps.items) == 0 { return }` precedes");
    (("walker", "c2.go", "doBlock", "deref", "*rootBlockSpec.Description"), WGuard "`if rootBlockSpec.Description == nil { return WrapErr }` precedes");
    (("walker", "c2.go", "checkBang", "deref", "*tagSpec.BangFieldName"), WGuard "`if tagSpec.BangFieldName == nil { return WrapErr }` precedes");
    (("walker", "c2.go", "checkBang", "deref", "*tagSpec.QuestionFieldName"), WGuard "`if tagSpec.QuestionFieldName == nil { return WrapErr }` precedes");
    (("walker", "c2.go", "walkTags", "deref", "*spec.Name"), WGuard "inside `if spec.Name != nil`");
    (("walker", "c2.go", "walkTags", "deref", "*spec.TypeSelect"), WGuard "inside `if spec.TypeSelect != nil`");
    (("walker", "c2.go", "walkTags", "index", "gotTags.items[0] #1"), WGuard "inside `if gotTags.hasMore()` (len(items) > 0); the scalar-split branch also checks len(items) == 1");
    (("walker", "c2.go", "walkTags", "index", "gotTags.items[0] #2"), WGuard "inside `if gotTags.hasMore()` (len(items) > 0); the scalar-split branch also checks len(items) == 1");
    (("walker", "c2.go", "walkTags", "index", "gotTags.items[0] #3"), WGuard "inside `if gotTags.hasMore()` (len(items) > 0); the scalar-split branch also checks len(items) == 1");
    (("walker", "c2.go", "walkTags", "index", "gotTags.items[len(gotTags.items)-1]"), WGuard "inside `if gotTags.hasMore()` (len(items) > 0); the scalar-split branch also checks len(items) == 1");
    (("walker", "c2.go", "walkQualifiers", "deref", "*tagSpec #1"), WGuard "tagSpec := spec.Qualifier after `if spec.Qualifier == nil { return WrapErr }`");
    (("walker", "c2.go", "walkQualifiers", "index", "gotQualifiers.items[0]"), WGuard "inside `if gotQualifiers.hasMore()`");
    (("walker", "c2.go", "walkQualifiers", "index", "gotQualifiers.items[len(gotQualifiers.items)-1]"), WGuard "inside `if gotQualifiers.hasMore()`");
    (("walker", "c2.go", "walkQualifiers", "deref", "*tagSpec #2"), WGuard "tagSpec := spec.Qualifier after `if spec.Qualifier == nil { return WrapErr }`");
    (("walker", "walk_context.go", "combinePath", "index", "pathToBlock[i]"), WFresh "pathToBlock := make(len(path)+len(ref)); both loops stay below that length");
    (("walker", "walk_context.go", "combinePath", "index", "pathToBlock[i+len(path)]"), WFresh "pathToBlock := make(len(path)+len(ref)); both loops stay below that length");
    (("walker", "walk_context.go", "walkScope", "deref", "*ident.position #1"), WGuard "inside `if ident.position != nil`");
    (("walker", "walk_context.go", "walkScope", "index", "blocks[0]"), WGuard "inside `if len(blocks) == 1`");
    (("walker", "walk_context.go", "walkScope", "deref", "*ident.position #2"), WGuard "after `if ident.position == nil { return }`");
    (("walker", "walk_context.go", "walkContext.SetDescription", "deref", "*descSpec"), WGuard "`if descSpec == nil { return }` precedes");
    (("walker", "walk_context.go", "walkContext.setAttribute", "index", "fullPath[len(fullPath)-1]"), WGuard "`if len(fullPath) == 0 { return }` precedes");
    (("walker", "walk_context.go", "walkContext.setAttribute", "slice", "fullPath[:len(fullPath)-1]"), WGuard "`if len(fullPath) == 0 { return }` precedes");
    (("walker", "walk_context.go", "walkContext.setAttribute", "deref", "*last.position"), WGuard "inside `if last.position != nil`");
    (("walker", "walk_context.go", "walkContext.setContainerFromScalar", "deref", "*bs.ScalarSplit.Delimiter"), WGuard "inside `if ss.Delimiter != nil` with ss := bs.ScalarSplit checked non-nil");
    (("walker", "walk_context.go", "walkContext.setContainerFromScalar", "index", "vals[idx]"), WFresh "vals := make(len(valStrings)); idx ranges over valStrings");
    (("walker", "walk_context.go", "walkContext.setContainerFromScalar", "slice", "setVals[:len(ss.Required)]"), WGuard "`if len(setVals) < len(ss.Required) { return }` precedes");
    (("walker", "walk_context.go", "walkContext.setContainerFromScalar", "slice", "setVals[len(ss.Required):]"), WGuard "`if len(setVals) < len(ss.Required) { return }` precedes");
    (("walker", "walk_context.go", "walkContext.setContainerFromScalar", "index", "ss.Required[idx]"), WGuard "idx ranges over intoRequired = setVals[:len(ss.Required)]");
    (("walker", "walk_context.go", "walkContext.setContainerFromScalar", "slice", "remaining[:len(ss.Optional)]"), WGuard "inside `if len(remaining) > len(ss.Optional)`");
    (("walker", "walk_context.go", "walkContext.setContainerFromScalar", "slice", "remaining[len(ss.Optional):]"), WGuard "inside `if len(remaining) > len(ss.Optional)`");
    (("walker", "walk_context.go", "walkContext.setContainerFromScalar", "index", "ss.Optional[idx]"), WGuard "idx ranges over optional, which has at most len(ss.Optional) elements");
    (("walker", "walk_context.go", "walkContext.setContainerFromScalar", "index", "remainingStr[idx]"), WFresh "remainingStr := make(len(remaining)); idx ranges over remaining");
    (("walker", "walk_context.go", "walkContext.setContainerFromScalar", "deref", "*ss.Delimiter"), WGuard "inside `if ss.Delimiter != nil`");
    (("walker", "walk_context.go", "walkContext.setContainerFromScalar", "deref", "*ss.Remainder"), WGuard "`if ss.Remainder == nil { return }` precedes");
    (("walker", "walk_context.go", "walkContext.setContainerFromScalar", "index", "remaining[0]"), WGuard "`if len(remaining) == 0 { return nil }` precedes");
    (("walker", "walk_context.go", "walkContext.setContainerFromScalar", "index", "remaining[len(remaining)-1]"), WGuard "`if len(remaining) == 0 { return nil }` precedes");
    (("walker", "walk_context.go", "walkContext.WrapErr", "panic", """WrapErr called with nil error"""), WCaller "every caller passes a freshly built error (fmt.Errorf, BadTypeError, &ErrExpectedTag) or one just tested `!= nil`");
    (("walker/schema", "bclspec.go", "ChildSpec.TagString", "index", "prefix[3] #1"), WOffPath "debug rendering, no caller on the parse path; prefix is a 4-element literal");
    (("walker/schema", "bclspec.go", "ChildSpec.TagString", "index", "prefix[3] #2"), WOffPath "debug rendering, no caller on the parse path; prefix is a 4-element literal");
    (("walker/schema", "container_field.go", "mapSchema.WalkToProperty", "slice", "name[1:]"), WOffPath "mapContainer is instantiated only for a map whose values are containers; the j5s source schema has none (no method of mapContainer / mapSchema is executed by any stream); `len(name) == 0` and `len(name) == 1` return before");
    (("walker/schema", "container_field.go", "childSourceLocation", "mapwrite", "in.Children[name]"), WGuard "`if in.Children == nil { make }` precedes; in is the root location or a child created here");
    (("walker/schema", "container_field.go", "containerField.walkPath", "index", "path[0]"), WGuard "`if len(path) == 0 { return }` precedes");
    (("walker/schema", "container_field.go", "containerField.walkPath", "slice", "path[1:]"), WGuard "`if len(path) == 0 { return }` precedes");
    (("walker/schema", "container_set.go", "containerSet.allChildFields", "mapwrite", "children[name] #1"), WFresh "children := map literal allocated at the top of the function");
    (("walker/schema", "container_set.go", "containerSet.allChildFields", "mapwrite", "children[name] #2"), WFresh "children := map literal allocated at the top of the function");
    (("walker/schema", "schemaset.go", "convertBlocks", "mapwrite", "aliases[alias.Name]"), WFresh "map literals allocated in the function (schema spec conversion, runs in NewParser)");
    (("walker/schema", "schemaset.go", "convertBlocks", "mapwrite", "givenBlocks[src.SchemaName]"), WFresh "map literals allocated in the function (schema spec conversion, runs in NewParser)");
    (("walker/schema", "schemaset.go", "SchemaSet._buildSpec", "deref", "*field.Array.Ext.SingleForm"), WGuard "inside `if ... SingleForm != nil`");
    (("walker/schema", "schemaset.go", "SchemaSet._buildSpec", "mapwrite", "newAliases[singleForm] #1"), WFresh "newAliases := map literal");
    (("walker/schema", "schemaset.go", "SchemaSet._buildSpec", "mapwrite", "newAliases[arrayName(itemSchema.Object)]"), WFresh "newAliases := map literal");
    (("walker/schema", "schemaset.go", "SchemaSet._buildSpec", "deref", "*field.Map.Ext.SingleForm"), WGuard "inside `if ... SingleForm != nil`");
    (("walker/schema", "schemaset.go", "SchemaSet._buildSpec", "mapwrite", "newAliases[singleForm] #2"), WFresh "newAliases := map literal");
    (("walker/schema", "schemaset.go", "SchemaSet._buildSpec", "mapwrite", "blockSpec.Aliases[alias]"), WGuard "`if blockSpec.Aliases == nil { make }` precedes");
    (("walker/schema", "schemaset.go", "SchemaSet.wrapContainer", "deref", "*spec"), WGuard "blockSpec returned a nil error, and then spec is the cached or freshly built non-nil *BlockSpec");
    (("walker/schema", "schemaset.go", "SchemaSet.blockSpec", "mapwrite", "ss.cachedSpecs[schemaName]"), WSpec "cachedSpecs is allocated by NewSchemaSet; concurrent use of one parser is C10 territory");
    (("walker/schema", "scope.go", "NewRootSchemaWalker", "deref", "*rootWrapped"), WGuard "wrapContainer returned a nil error, so a non-nil *containerField");
    (("walker/schema", "scope.go", "Scope.newChild", "deref", "*container #1"), WCaller "container comes from walkToChild with a nil error: the block found by findBlock or walkPath head element, both non-nil");
    (("walker/schema", "scope.go", "Scope.newChild", "deref", "*container #2"), WCaller "container comes from walkToChild with a nil error: the block found by findBlock or walkPath head element, both non-nil");
    (("walker/schema", "scope.go", "Scope.walkToChild", "deref", "*spec"), WGuard "blockSpec returned a nil error");
    (("walker/schema", "scope.go", "Scope.walkToChild", "index", "visitedFields[0]"), WCaller "walkPath returns a non-empty list whenever its error is nil");
    (("walker/schema", "scope.go", "Scope.walkToChild", "slice", "visitedFields[1:]"), WCaller "walkPath returns a non-empty list whenever its error is nil");
    (("walker/schema", "scope.go", "popLast", "slice", "list[:len(list)-1]"), WCaller "the only caller (Scope.field) returns before on `len(spec.Path) == 0`");
    (("walker/schema", "scope.go", "popLast", "index", "list[len(list)-1]"), WCaller "the only caller (Scope.field) returns before on `len(spec.Path) == 0`");
    (("walker/schema", "scope.go", "Scope.TailScope", "deref", "*sw.leafBlock"), WOffPath "BuildScope reaches it only with an empty schema path and an empty reference; a parsed reference has at least one identifier (C11: NewReference)")
  ].

Definition wkeys_subset (a b : list wkey) : bool := forallb (fun k => existsb (wkey_eqb k) b) a.
(* every generated row is reviewed and every reviewed row still exists *)
Definition walker_sites_same_set : bool :=
  wkeys_subset WalkerGen.sites (map fst walker_reviewed) && wkeys_subset (map fst walker_reviewed) WalkerGen.sites.

(* the functions the crash stream has to execute: those holding a reviewed row that is on the path *)
Definition fkey := (string * string * string)%type.
Definition fkey_eqb (a b : fkey) : bool :=
  match a, b with (a1, a2, a3), (b1, b2, b3) => String.eqb a1 b1 && String.eqb a2 b2 && String.eqb a3 b3 end.
Definition on_path (c : wclass) : bool := match c with WOffPath _ => false | _ => true end.
Definition row_func (r : wkey * wclass) : fkey := match r with ((p, f, fn, _, _), _) => (p, f, fn) end.
Fixpoint dedupe (l : list fkey) : list fkey :=
  match l with
  | [] => []
  | x :: r => if existsb (fkey_eqb x) r then dedupe r else x :: dedupe r
  end.
Definition required_funcs : list fkey := dedupe (map row_func (filter (fun r => on_path (snd r)) walker_reviewed)).
(* every required function exists in the generated function list *)
Definition required_funcs_exist : bool := forallb (fun k => existsb (fkey_eqb k) WalkerGen.funcs) required_funcs.

(* the coverage obligation evaluated on the functions the instrumented run reported as executed *)
Definition coverage_ok (covered : list fkey) : bool := forallb (fun k => existsb (fkey_eqb k) covered) required_funcs.
Definition uncovered (covered : list fkey) : list fkey := filter (fun k => negb (existsb (fkey_eqb k) covered)) required_funcs.

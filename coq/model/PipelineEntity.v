(* PipelineEntity.v — entities in the downstream chain of C16:
     internal/j5client/package_from_source.go  walkSourceSchemas / includeEntity: the objects of the package
        that carry an entity annotation are grouped by entity name; KEYS / STATE / EVENT are stored (a later
        one replaces an earlier one), DATA is ignored, any other part is an error; an entity with one of
        the three missing is an error. The objects are visited in Go map order, i.e. in any order.
     internal/j5client/j5package.go  StateEntity.ToJ5Proto: the event object must have a property "event"
        that is a oneof reference whose options are object references; collectPackageRefs walks the
        properties of the keys, state and event objects of every entity in addition to the methods.
   The image of model/Pipeline.v gets its extra walk roots from here instead of from the harness.
   No proofs in this file. *)
From Coq Require Import String Ascii List NArith Bool.
From J5V.lib Require Import Outcome Corr.
From J5V.model Require Import Pipeline.
Import ListNotations.
Local Open Scope N_scope.
Local Open Scope bool_scope.

(* (schema key, (entity name, part)); part: schema_j5pb.EntityPart 1 KEYS 2 STATE 3 EVENT 4 DATA *)
Definition ent_ann := (key * (str * N))%type.

Record ent := { en_name : str; en_keys : option key; en_state : option key; en_event : option key }.

Definition new_ent (name : str) : ent := {| en_name := name; en_keys := None; en_state := None; en_event := None |}.

(* includeEntity: the switch on obj.Entity.Part *)
Definition set_part (part : N) (k : key) (e : ent) : outcome ent :=
  if part =? 1 then Ok {| en_name := en_name e; en_keys := Some k; en_state := en_state e; en_event := en_event e |}
  else if part =? 2 then Ok {| en_name := en_name e; en_keys := en_keys e; en_state := Some k; en_event := en_event e |}
  else if part =? 3 then Ok {| en_name := en_name e; en_keys := en_keys e; en_state := en_state e; en_event := Some k |}
  else if part =? 4 then Ok e
  else Err "unknown entity part".

(* includeEntity: find the entity by name or append a new one *)
Fixpoint include_entity (name : str) (part : N) (k : key) (l : list ent) : outcome (list ent) :=
  match l with
  | [] => omap (fun e => [e]) (set_part part k (new_ent name))
  | e :: r =>
      if str_eqb (en_name e) name then omap (fun e' => e' :: r) (set_part part k e)
      else omap (cons e) (include_entity name part k r)
  end.

Definition include_all (anns : list ent_ann) : outcome (list ent) :=
  fold_left (fun acc a => obind acc (include_entity (fst (snd a)) (snd (snd a)) (fst a))) anns (Ok []).

Definition complete (e : ent) : bool :=
  match en_keys e, en_state e, en_event e with Some _, Some _, Some _ => true | _, _, _ => false end.

Definition walk_source_schemas (anns : list ent_ann) : outcome (list ent) :=
  obind (include_all anns) (fun es =>
    if forallb complete es then Ok es else Err "missing schema for entity").

Definition opt_key (o : option key) : list key := match o with Some k => [k] | None => [] end.

(* collectPackageRefs: walkRootObject on keys, state, event of every entity *)
Definition entity_roots (es : list ent) : list key :=
  flat_map (fun e => opt_key (en_keys e) ++ opt_key (en_state e) ++ opt_key (en_event e)) es.

Definition EVENT_PROP : str := bytes_of "event".

(* StateEntity.ToJ5Proto: the names of the events *)
Definition entity_events (g : env) (e : ent) : outcome (list str) :=
  match en_event e with
  | None => Panic "nil event schema"
  | Some k =>
      match lookup g k with
      | Some (SObject ps) =>
          match find (fun p => str_eqb (p_json p) EVENT_PROP) ps with
          | None => Err "missing event oneof"
          | Some p =>
              match p_ty p with
              | TRef alt ok =>
                  if String.eqb alt "oneof" then
                    match lookup g ok with
                    | Some (SOneof qs) =>
                        if forallb (fun q => match p_ty q with TRef a _ => String.eqb a "object" | _ => false end) qs
                        then Ok (map p_json qs) else Err "event property is not object"
                    | _ => Err "event oneof not linked"
                    end
                  else Err "event field is not oneof"
              | _ => Err "event field is not oneof"
              end
          end
      | _ => Err "event schema is not an object"
      end
  end.

Definition with_roots (im : image) (roots : list key) : image :=
  {| im_pkg := im_pkg im; im_services := im_services im; im_schemas := im_schemas im; im_roots := roots |}.

(* the chain with the entities of the package: the client stage fails when walkSourceSchemas or an
   entity's ToJ5Proto fails *)
Definition run_chain_ent (cc : code_config) (im : image) (anns : list ent_ann) : chain_result :=
  let src := add_structure (im_services im) {| sa_services := []; sa_topics := [] |} in
  match obind (walk_source_schemas anns) (fun es => omap (fun _ => es) (omapM (entity_events (im_schemas im)) es)) with
  | Ok es => run_client cc (with_roots im (entity_roots es)) src
  | Err e => {| cr_source := src; cr_client := obind src (fun _ => Err e); cr_swagger := obind src (fun _ => Err e) |}
  | Panic s => {| cr_source := src; cr_client := obind src (fun _ => Panic s); cr_swagger := obind src (fun _ => Panic s) |}
  | OutOfFuel => {| cr_source := src; cr_client := obind src (fun _ => OutOfFuel); cr_swagger := obind src (fun _ => OutOfFuel) |}
  end.

(* CodecDecQueryCost.v — the URL-query decoder of model/CodecDecQuery.v with a step counter, in the style of
   model/CodecDecCost.v: same arms, same order; obind on a counted call -> cbind, on anything else -> pbind;
   Ok / Err leaves -> Ok' / Err'.  Counted (one step each, on every path, errors included):
     * every iteration of decodeQuery's loop over the keys (query_loop_c), keys without values included;
     * every component of a dotted key visited by propertyAtPath, the tail included (query_at_c);
     * every iteration of the value loop of an array-of-scalar / array-of-enum parameter;
     * every step of decodeRoot's descent on the text of a container-valued parameter (object_body_c /
       oneof_body_c of model/CodecDecCost.v on that text's tokens).
   Not counted (part of the step in which they happen): the scalar conversion of a value, strcase.ToLowerCamel
   of a component, strings.Split of the key, the walk along a flattened proto path.
   proofs/CodecDecQueryCostProofs.v: the first component is CodecDecQuery's result (the counter changes
   nothing), and the count is bounded by the size of the query.  No proofs in this file. *)
From Coq Require Import String List NArith ZArith Bool.
From J5V.lib Require Import Outcome Json Strcase.
From J5V.model Require Import CodecTypes CodecDecScalar CodecDec CodecDecQuery CodecDecCost.
Import ListNotations.
Local Open Scope N_scope.
Local Open Scope bool_scope.

Section QueryCost.
  Variable orc : oracles.
  Variable e : env.

  (* the value loop of an array of scalars *)
  Fixpoint scalar_values_c (k : scalar_kind) (vs : list bytes) (acc : list pval) : cout (list pval) :=
    match vs with
    | [] => Ok' acc
    | v :: r => tick (
      pbind (scalar_from_go orc k (query_go_value (scalar_kind_eqb k KBool) v)) (fun x =>
        match x with
        | None => Err' "cannot append nil value"
        | Some _ => pbind (list_append x acc) (scalar_values_c k r)
        end))
    end.

  (* the value loop of an array of enums *)
  Fixpoint enum_values_c (prefix : bytes) (opts : list (bytes * Z)) (vs : list bytes) (acc : list pval) : cout (list pval) :=
    match vs with
    | [] => Ok' acc
    | v :: r => tick (
      match option_by_name prefix opts v with
      | Some z => enum_values_c prefix opts r (acc ++ [VEnum z])
      | None => Err' "enum value not found"
      end)
    end.

  (* decodeRoot on the text of a container-valued parameter *)
  Definition param_body_c (is_oneof : bool) (ps : list property) (v' : bytes) (sub : msg) : cout (msg * list token) :=
    let '(ts, more_at_end) := lex v' in
    let fuel := S (length ts) in
    pbind (expect TOpenObj ts) (fun r =>
      cbind (if is_oneof then oneof_body_c orc e more_at_end fuel 0 ps r sub [] [] None
             else object_body_c orc e more_at_end fuel 0 ps r sub [])
            (fun sr => pbind (expect TCloseObj (snd sr)) (fun r2 =>
               pbind (end_of_input r2 (lex_at_eof v')) (fun _ => Ok' (fst sr, r2))))).

  (* the last path component: CreateField, then the three arms of decodeQuery *)
  Definition query_final_c (props : list property) (name : bytes) (vals : list bytes) (m : msg) (st : qtree)
    : cout (msg * qtree) :=
    match find_prop props name with
    | None => Err' "unknown property"
    | Some p =>
      pbind (create_check p m (qt_seen st)) (fun _ =>
        let st1 := QT (p_json p :: qt_seen st) (qt_kids st) in
        match p_ty p with
        | FScalar k =>
          match vals with
          | [v] =>
            pbind (scalar_from_go orc k (query_go_value (scalar_kind_eqb k KBool) v)) (fun r =>
              pbind (with_holder (p_path p) m (fun n h =>
                       match r with
                       | None => Ok (msg_del n h, tt)
                       | Some x => Ok (msg_set (p_explicit p) (p_siblings p) n x h, tt)
                       end))
                    (fun mr => Ok' (fst mr, st1)))
          | [] => Err' "no value"
          | _ => Err' "multiple values provided for non-repeated field"
          end
        | FEnum ref =>
          match vals with
          | [v] =>
            match lookup e ref with
            | Some (SEnum prefix opts) =>
              match option_by_name prefix opts v with
              | Some z =>
                pbind (with_holder (p_path p) m (fun n h =>
                         Ok (msg_set (p_explicit p) (p_siblings p) n (VEnum z) h, tt)))
                      (fun mr => Ok' (fst mr, st1))
              | None => Err' "enum value not found"
              end
            | _ => Err' "schema"
            end
          | [] => Err' "no value"
          | _ => Err' "multiple values provided for non-repeated field"
          end
        | FArray (FScalar k) =>
          cbind (with_holder_c (p_path p) m (fun n h =>
                   let existing := match msg_get n h with Some (VList l) => l | _ => [] end in
                   cbind (scalar_values_c k vals existing)
                         (fun l => Ok' (msg_set true (p_siblings p) n (VList l) h, tt))))
                (fun mr => Ok' (fst mr, st1))
        | FArray (FEnum ref) =>
          match lookup e ref with
          | Some (SEnum prefix opts) =>
            cbind (with_holder_c (p_path p) m (fun n h =>
                     let existing := match msg_get n h with Some (VList l) => l | _ => [] end in
                     cbind (enum_values_c prefix opts vals existing)
                           (fun l => Ok' (msg_set true (p_siblings p) n (VList l) h, tt))))
                  (fun mr => Ok' (fst mr, st1))
          | _ => Err' "schema"
          end
        | FObject _ | FOneof _ =>
          match props_of e (p_ty p), vals with
          | Some (ps, is_oneof), [v] =>
            let v' := trim_space v in
            if match v' with c :: _ => c =? 123 | [] => false end then     (* strings.HasPrefix(val, "{") *)
              let ts := fst (lex v') in
              let kid := match parse_value (S (length ts)) ts with
                         | Some (j, _) => qtree_of_json (S (length ts)) e ps j
                         | None => QT [] []
                         end in
              let st2 := QT (qt_seen st1) (kid_set (p_json p) kid (qt_kids st1)) in
              match p_path p with
              | [] => cbind (param_body_c is_oneof ps v' m) (fun sr => Ok' (fst sr, st2))
              | path =>
                cbind (with_holder_c path m (fun n h =>
                         let '(sub, h1) := msg_mutable (p_siblings p) n h in
                         cbind (param_body_c is_oneof ps v' sub) (fun sr => Ok' (msg_put n (VMsg (fst sr)) h1, tt))))
                      (fun mr => Ok' (fst mr, st2))
              end
            else Err' "invalid value for container"
          | Some _, [] => Err' "no value"
          | Some _, _ => Err' "multiple values provided for non-repeated field"
          | None, _ => Err' "schema"
          end
        | _ => Err' "field is not supported for query"
        end)
    end.

  (* propertyAtPath: one step per component of the dotted key *)
  Fixpoint query_at_c (props : list property) (parts : list bytes) (vals : list bytes) (m : msg) (st : qtree)
    {struct parts} : cout (msg * qtree) :=
    tick (
    match parts with
    | [] => Err' "empty path"
    | [tail] => query_final_c props (to_lower_camel tail) vals m st
    | part :: rest =>
      let name := to_lower_camel part in
      match find_prop props name with
      | None => Err' "unknown property"
      | Some p =>
        match props_of e (p_ty p) with
        | None => Err' "property is not a container"
        | Some (ps, _) =>
          if mem_bytes (p_json p) (qt_seen st) then
            let kid := match kid_get (p_json p) (qt_kids st) with Some t => t | None => QT [] [] end in
            match p_path p with
            | [] =>
              cbind (query_at_c ps rest vals m kid) (fun r =>
                Ok' (fst r, QT (qt_seen st) (kid_set (p_json p) (snd r) (qt_kids st))))
            | path =>
              cbind (with_holder_c path m (fun n h =>
                       let '(sub, h1) := msg_mutable (p_siblings p) n h in
                       cbind (query_at_c ps rest vals sub kid) (fun r =>
                         Ok' (msg_put n (VMsg (fst r)) h1, snd r))))
                    (fun mr => Ok' (fst mr, QT (qt_seen st) (kid_set (p_json p) (snd mr) (qt_kids st))))
            end
          else
            pbind (create_check p m (qt_seen st)) (fun _ =>
              let seen' := p_json p :: qt_seen st in
              match p_path p with
              | [] =>
                cbind (query_at_c ps rest vals m (QT [] [])) (fun r =>
                  Ok' (fst r, QT seen' (kid_set (p_json p) (snd r) (qt_kids st))))
              | path =>
                cbind (with_holder_c path m (fun n h =>
                         let '(sub, h1) := msg_mutable (p_siblings p) n h in
                         cbind (query_at_c ps rest vals sub (QT [] [])) (fun r =>
                           Ok' (msg_put n (VMsg (fst r)) h1, snd r))))
                      (fun mr => Ok' (fst mr, QT seen' (kid_set (p_json p) (snd mr) (qt_kids st))))
              end)
        end
      end
    end).

  (* the loop of decodeQuery over the keys in visiting order: one step per key *)
  Fixpoint query_loop_c (props : list property) (kvs : list (bytes * list bytes)) (m : msg) (st : qtree)
    : cout msg :=
    match kvs with
    | [] => Ok' m
    | (key, vals) :: r => tick (
      match vals with
      | [] => query_loop_c props r m st
      | _ =>
        cbind (query_at_c props (split_on 46 key []) vals m st) (fun ms =>
          query_loop_c props r (fst ms) (snd ms))
      end)
    end.

  (* Codec.QueryToProto with the counter *)
  Definition decode_query_c (root : bytes) (kvs : list (bytes * list bytes)) : cout msg :=
    match lookup e root with
    | Some (SObject props) | Some (SOneof props) => query_loop_c props kvs [] (QT [] [])
    | _ => Err' "unsupported root schema type"
    end.
End QueryCost.

(* the size of a query: per key 3 + its length (loop iteration, components <= dots + 1, one spare),
   per value 1 + its length *)
Definition values_size (vals : list bytes) : nat := fold_right (fun v n => S (length v) + n)%nat 0%nat vals.
Definition query_size (kvs : list (bytes * list bytes)) : nat :=
  fold_right (fun kv n => length (fst kv) + 3 + values_size (snd kv) + n)%nat 0%nat kvs.

(* ProtoPrintFile.v — model of the file layer of internal/j5s/protoprint (C05), at token level:
     protoprint.go   printFile (syntax, package, sorted imports, file options, extend blocks, elements)
     types.go        printSection / printElements / printMessage / printOneof / printEnum / printService /
                     printMethod / printExtension / printField
     elements.go     sourceElements.Less (order of the elements of a body: by source line, else type / index)
     options.go      parseOption (Simplify, the google.api.http exception), optionsFor (field options sorted by
                     their printed name), printOption / printFieldStyle (option statements, bracketed options,
                     json_name), defaultJSONName
     optionreflect   builder.go optionsByLocation.Less, option.go Simplify
   Two stages:  descriptor (dfile)  --lay_file-->  syntactic file (sfile)  --emit_file-->  tokens.
   The tokens are those of the protocompile lexer (model/ProtoPrint.v [token]); a comment is a pseudo
   token in front of the first token of the element it is attached to. What is not in here: the
   characters between tokens (indentation, blank lines, line breaks of the inline / block option forms)
   and trailing comments. No proofs in this file. *)
From Coq Require Import String List NArith ZArith Bool.
From J5V.lib Require Import Outcome Corr.
From J5V.model Require Import ProtoPrintLit ProtoPrint.
Import ListNotations.
Local Open Scope N_scope.
Local Open Scope bool_scope.

(* ------------------------------------------------------------------ keywords *)
Definition kw_syntax : ident := [115;121;110;116;97;120].   (* syntax *)
Definition kw_package : ident := [112;97;99;107;97;103;101].   (* package *)
Definition kw_import : ident := [105;109;112;111;114;116].   (* import *)
Definition kw_option : ident := [111;112;116;105;111;110].   (* option *)
Definition kw_message : ident := [109;101;115;115;97;103;101].   (* message *)
Definition kw_enum : ident := [101;110;117;109].   (* enum *)
Definition kw_oneof : ident := [111;110;101;111;102].   (* oneof *)
Definition kw_service : ident := [115;101;114;118;105;99;101].   (* service *)
Definition kw_rpc : ident := [114;112;99].   (* rpc *)
Definition kw_returns : ident := [114;101;116;117;114;110;115].   (* returns *)
Definition kw_extend : ident := [101;120;116;101;110;100].   (* extend *)
Definition kw_repeated : ident := [114;101;112;101;97;116;101;100].   (* repeated *)
Definition kw_optional : ident := [111;112;116;105;111;110;97;108].   (* optional *)
Definition kw_map : ident := [109;97;112].   (* map *)
Definition kw_json_name : ident := [106;115;111;110;95;110;97;109;101].   (* json_name *)
Definition lit_proto3 : list N := [34;112;114;111;116;111;51;34].   (* "proto3" *)
Definition nm_google : ident := [103;111;111;103;108;101].
Definition nm_api : ident := [97;112;105].
Definition nm_http : ident := [104;116;116;112].
Definition http_name : qname := [nm_google; nm_api; nm_http].   (* google.api.http *)
Definition sfx_entry : list N := [69;110;116;114;121].   (* Entry *)

(* ------------------------------------------------------------------ the syntactic file *)
(* comments of an element as the source info carries them: detached groups, attached leading comment *)
Record cmt := { c_det : list (list N); c_lead : list N }.
Definition no_cmt : cmt := {| c_det := []; c_lead := [] |}.

(* option name: "(ext.name).sub.path" or a plain identifier (json_name, file options) *)
Inductive oname := OExt (p : printed_name) (sub : list ident) | OPlain (n : ident).
Definition sopt := (oname * rawval)%type.

Inductive label := LNone | LRepeated | LOptional.
(* a scalar keyword is a name like any other for the grammar *)
Inductive stype := SNamed (p : printed_name) | SMap (k v : printed_name).

Record sfield := { sf_cm : cmt; sf_label : label; sf_type : stype; sf_name : ident; sf_num : N; sf_opts : list sopt }.
Record svalue := { sv_cm : cmt; sv_name : ident; sv_num : Z; sv_opts : list sopt }.
Record smethod := { sm_cm : cmt; sm_name : ident; sm_in : printed_name; sm_out : printed_name; sm_opts : list sopt }.

Inductive selem :=
| SField (f : sfield)
| SOneof (c : cmt) (name : ident) (opts : list sopt) (fields : list sfield)
| SMsg (c : cmt) (name : ident) (opts : list sopt) (body : list selem)
| SEnum (c : cmt) (name : ident) (opts : list sopt) (vals : list svalue)
| SService (c : cmt) (name : ident) (opts : list sopt) (methods : list smethod).

Record sext := { sx_extendee : qname; sx_fields : list sfield }.

Record sfile := {
  s_pkg : qname;
  s_imports : list (list N);             (* paths, as printed (sorted) *)
  s_fopts : list (ident * token);        (* option name = true / false / "text" *)
  s_exts : list sext;
  s_body : list selem
}.

(* ------------------------------------------------------------------ syntactic file -> tokens *)
Definition emit_cmt (c : cmt) : list token :=
  map TDetached (c_det c) ++ match c_lead c with [] => [] | l => [TLeading l] end.

Fixpoint emit_dots (q : list ident) : list token :=
  match q with [] => [] | a :: r => TDot :: TIdent a :: emit_dots r end.

Definition emit_qname (q : qname) : list token :=
  match q with [] => [] | a :: r => TIdent a :: emit_dots r end.

Definition emit_pn (p : printed_name) : list token :=
  if pn_abs p then emit_dots (pn_name p) else emit_qname (pn_name p).

Definition emit_oname (n : oname) : list token :=
  match n with
  | OExt p sub => TLParen :: emit_pn p ++ TRParen :: emit_dots sub
  | OPlain k => [TIdent k]
  end.

(* name = value, the value in text-format syntax (every inline / block form has these tokens) *)
Definition emit_opt (o : sopt) : list token := emit_oname (fst o) ++ TEq :: print_raw (snd o).

Definition emit_opt_stmt (o : sopt) : list token := TIdent kw_option :: emit_opt o ++ [TSemi].

Fixpoint emit_more_opts (l : list sopt) : list token :=
  match l with [] => [] | o :: r => TComma :: emit_opt o ++ emit_more_opts r end.

Definition emit_bracket (l : list sopt) : list token :=
  match l with [] => [] | o :: r => TLBrack :: emit_opt o ++ emit_more_opts r ++ [TRBrack] end.

Definition emit_label (l : label) : list token :=
  match l with LNone => [] | LRepeated => [TIdent kw_repeated] | LOptional => [TIdent kw_optional] end.

Definition emit_stype (t : stype) : list token :=
  match t with
  | SNamed p => emit_pn p
  | SMap k v => TIdent kw_map :: TLt :: emit_pn k ++ TComma :: emit_pn v ++ [TGt]
  end.

Definition emit_field (f : sfield) : list token :=
  emit_cmt (sf_cm f) ++ emit_label (sf_label f) ++ emit_stype (sf_type f)
  ++ TIdent (sf_name f) :: TEq :: TLit (print_uint (sf_num f)) :: emit_bracket (sf_opts f) ++ [TSemi].

Definition emit_value (v : svalue) : list token :=
  emit_cmt (sv_cm v) ++ TIdent (sv_name v) :: TEq :: TLit (print_int (sv_num v)) :: emit_bracket (sv_opts v) ++ [TSemi].

Definition emit_method (m : smethod) : list token :=
  emit_cmt (sm_cm m) ++ TIdent kw_rpc :: TIdent (sm_name m) :: TLParen :: emit_pn (sm_in m)
  ++ TRParen :: TIdent kw_returns :: TLParen :: emit_pn (sm_out m)
  ++ TRParen :: TLBrace :: flat_map emit_opt_stmt (sm_opts m) ++ [TRBrace].

Definition emit_block (c : cmt) (kw name : ident) (opts : list sopt) (inner : list token) : list token :=
  emit_cmt c ++ TIdent kw :: TIdent name :: TLBrace :: flat_map emit_opt_stmt opts ++ inner ++ [TRBrace].

Fixpoint emit_elem (e : selem) : list token :=
  match e with
  | SField f => emit_field f
  | SOneof c n opts fs => emit_block c kw_oneof n opts (flat_map emit_field fs)
  | SMsg c n opts body =>
      emit_block c kw_message n opts
        ((fix go (l : list selem) : list token := match l with [] => [] | x :: r => emit_elem x ++ go r end) body)
  | SEnum c n opts vs => emit_block c kw_enum n opts (flat_map emit_value vs)
  | SService c n opts ms => emit_block c kw_service n opts (flat_map emit_method ms)
  end.

Fixpoint emit_elems (l : list selem) : list token :=
  match l with [] => [] | x :: r => emit_elem x ++ emit_elems r end.

Definition quote (s : list N) : list N := 34 :: s ++ [34].

Definition emit_import (p : list N) : list token := [TIdent kw_import; TLit (quote p); TSemi].
Definition emit_fopt (o : ident * token) : list token := [TIdent kw_option; TIdent (fst o); TEq; snd o; TSemi].
Definition emit_ext (x : sext) : list token :=
  TIdent kw_extend :: emit_qname (sx_extendee x) ++ TLBrace :: flat_map emit_field (sx_fields x) ++ [TRBrace].

Definition emit_file (f : sfile) : list token :=
  TIdent kw_syntax :: TEq :: TLit lit_proto3 :: TSemi
  :: TIdent kw_package :: emit_qname (s_pkg f) ++ TSemi
  :: flat_map emit_import (s_imports f) ++ flat_map emit_fopt (s_fopts f)
  ++ flat_map emit_ext (s_exts f) ++ emit_elems (s_body f).

(* ------------------------------------------------------------------ Go's insertion sort *)
(* sort.Sort / slices.SortFunc on at most 12 elements: element i is moved left while it is less than
   its left neighbour. [ins_rev] works on the reversed prefix. *)
Fixpoint ins_rev {A} (less : A -> A -> bool) (x : A) (rl : list A) : list A :=
  match rl with
  | [] => [x]
  | y :: r => if less x y then y :: ins_rev less x r else x :: rl
  end.

Definition isort {A} (less : A -> A -> bool) (l : list A) : list A :=
  rev (fold_left (fun acc x => ins_rev less x acc) l []).

Fixpoint bytes_ltb (a b : list N) : bool :=
  match a, b with
  | _, [] => false
  | [], _ :: _ => true
  | x :: a', y :: b' => if x <? y then true else if y <? x then false else bytes_ltb a' b'
  end.

(* ------------------------------------------------------------------ the descriptor the printer walks *)
(* sort key of an element: start line of its source location (0 = none), typeOrder, index in its list *)
Record key := { k_line : N; k_idx : N }.
Definition key3 := (N * N * N)%type.      (* line, typeOrder, index *)

(* sourceElements.Less *)
Definition key_less (a b : key3) : bool :=
  let '(la, ta, ia) := a in
  let '(lb, tb, ib) := b in
  if (la =? 0) || (lb =? 0) then (if ta =? tb then ia <? ib else ta <? tb) else la <? lb.

(* an option of an element: where it was written, the extension it sets, the extension's name as
   contextRefName prints it from the element, the value tree WalkOptionField builds (before Simplify) *)
Record dopt := { o_key : key; o_full : qname; o_name : printed_name; o_val : rawval }.

(* optionsByLocation.Less *)
Definition opt_less (a b : dopt) : bool :=
  let la := k_line (o_key a) in
  let lb := k_line (o_key b) in
  if negb (Bool.eqb (la =? 0) (lb =? 0)) then negb (la =? 0)
  else if negb (la =? lb) then la <? lb
  else if (la =? 0) && negb (k_idx (o_key a) =? k_idx (o_key b)) then k_idx (o_key a) <? k_idx (o_key b)
  else bytes_ltb (join_dot (o_full a)) (join_dot (o_full b)).

Inductive dvt := DScalar (k : ident) | DRef (pkg path : qname).
(* a map field: key kind, name of the synthetic entry message (the scope of the value type), value type *)
Inductive dtype := DSingle (t : dvt) | DMapT (k : ident) (entry : ident) (v : dvt).

Record dfield := { f_key : key; f_cm : cmt; f_label : label; f_type : dtype; f_name : ident; f_num : N;
                   f_json : list N; f_opts : list dopt }.
Record dvalue := { v_key : key; v_cm : cmt; v_name : ident; v_num : Z; v_opts : list dopt }.
Record dmethod := { m_key : key; m_cm : cmt; m_name : ident; m_in : qname * qname; m_out : qname * qname;
                    m_opts : list dopt }.

(* the body of a message in the order printMessage adds its elements (fields outside real oneofs,
   real oneofs, nested messages that are not map entries, enums) *)
Inductive delem :=
| DField (f : dfield)
| DOneof (k : key) (c : cmt) (name : ident) (opts : list dopt) (fields : list dfield)
| DMsg (k : key) (c : cmt) (name : ident) (opts : list dopt) (body : list delem)
| DEnum (k : key) (c : cmt) (name : ident) (opts : list dopt) (vals : list dvalue)
| DService (k : key) (c : cmt) (name : ident) (opts : list dopt) (methods : list dmethod).

Record dfile := {
  d_pkg : qname;
  d_imports : list (list N);
  d_fopts : list (ident * token);
  d_exts : list (qname * dfield);        (* extension declarations: extendee, field *)
  d_body : list delem                    (* messages, services, enums (the order printFile adds them) *)
}.

(* sourceElements.add: typeOrder *)
Definition ekey (e : delem) : key3 :=
  match e with
  | DField f => (k_line (f_key f), 0, k_idx (f_key f))
  | DOneof k _ _ _ _ => (k_line k, 0, k_idx k)
  | DMsg k _ _ _ _ => (k_line k, 1, k_idx k)
  | DEnum k _ _ _ _ => (k_line k, 2, k_idx k)
  | DService k _ _ _ _ => (k_line k, 0, k_idx k)
  end.
Definition key0 (k : key) : key3 := (k_line k, 0, k_idx k).

Definition sort_project {A} (l : list (key3 * A)) : list A :=
  map snd (isort (fun a b => key_less (fst a) (fst b)) l).

(* ------------------------------------------------------------------ options *)
(* OptionDefinition.Simplify: a message with exactly one field set that is neither a list nor a map
   moves to the sub path *)
Fixpoint simplify (max : nat) (sub : list ident) (v : rawval) {struct v} : list ident * rawval :=
  if (max <? length sub)%nat then (sub, v) else
  match v with
  | RMsg [(k, x)] => match x with RList _ => (sub, v) | _ => simplify max (sub ++ [k]) x end
  | _ => (sub, v)
  end.

Definition max_depth : nat := 5.

(* parseOption *)
Definition lay_opt (o : dopt) : sopt :=
  let sv := if qname_eqb (o_full o) http_name then ([], o_val o) else simplify max_depth [] (o_val o) in
  (OExt (o_name o) (fst sv), snd sv).

(* the text optionFullName builds, by which optionsFor sorts *)
Definition oname_text (n : oname) : list N :=
  match n with
  | OExt p sub => 40 :: printed_text p ++ 41 :: flat_map (fun k => 46 :: k) sub
  | OPlain k => k
  end.
Definition sopt_less (a b : sopt) : bool := bytes_ltb (oname_text (fst a)) (oname_text (fst b)).

(* printSection / printMethod: OptionsFor order *)
Definition lay_sopts (opts : list dopt) : list sopt := map lay_opt (isort opt_less opts).
(* printFieldStyle: optionsFor order *)
Definition lay_fopts (opts : list dopt) : list sopt := isort sopt_less (lay_sopts opts).

(* defaultJSONName *)
Fixpoint default_json_go (was_us : bool) (s : list N) : list N :=
  match s with
  | [] => []
  | c :: r =>
      if c =? 95 then default_json_go true r
      else (if was_us && (97 <=? c) && (c <=? 122) then c - 32 else c) :: default_json_go false r
  end.
Definition default_json (s : list N) : list N := default_json_go false s.

Definition json_opt (is_ext : bool) (name : ident) (json : list N) : list sopt :=
  if is_ext || bytes_eqb json (default_json name) then []
  else [(OPlain kw_json_name, RScalar (TLit (quote json)))].

(* ------------------------------------------------------------------ descriptor -> syntactic file *)
Definition scalar_pn (k : ident) : printed_name := {| pn_abs := false; pn_name := [k] |}.

Definition lay_vt (st : symtab) (pkg ctx : qname) (t : dvt) : printed_name :=
  match t with
  | DScalar k => scalar_pn k
  | DRef rp path => context_ref_name_safe st pkg ctx rp path
  end.

Definition lay_type (st : symtab) (pkg ctx : qname) (t : dtype) : stype :=
  match t with
  | DSingle v => SNamed (lay_vt st pkg ctx v)
  | DMapT k entry v => SMap (scalar_pn k) (lay_vt st pkg (ctx ++ [entry]) v)
  end.

Definition lay_field (st : symtab) (pkg ctx : qname) (is_ext : bool) (f : dfield) : sfield :=
  {| sf_cm := f_cm f; sf_label := f_label f; sf_type := lay_type st pkg ctx (f_type f);
     sf_name := f_name f; sf_num := f_num f;
     sf_opts := lay_fopts (f_opts f) ++ json_opt is_ext (f_name f) (f_json f) |}.

Definition lay_fields (st : symtab) (pkg ctx : qname) (fs : list dfield) : list sfield :=
  sort_project (map (fun f => (key0 (f_key f), lay_field st pkg ctx false f)) fs).

Definition lay_value (v : dvalue) : svalue :=
  {| sv_cm := v_cm v; sv_name := v_name v; sv_num := v_num v; sv_opts := lay_fopts (v_opts v) |}.

Definition lay_method (st : symtab) (pkg : qname) (svc : ident) (m : dmethod) : smethod :=
  {| sm_cm := m_cm m; sm_name := m_name m;
     sm_in := context_ref_name_safe st pkg [svc] (fst (m_in m)) (snd (m_in m));
     sm_out := context_ref_name_safe st pkg [svc] (fst (m_out m)) (snd (m_out m));
     sm_opts := lay_sopts (m_opts m) |}.

Fixpoint lay_elem (st : symtab) (pkg ctx : qname) (e : delem) : selem :=
  match e with
  | DField f => SField (lay_field st pkg ctx false f)
  | DOneof _ c n opts fs => SOneof c n (lay_sopts opts) (lay_fields st pkg ctx fs)
  | DMsg _ c n opts body =>
      SMsg c n (lay_sopts opts)
        (sort_project ((fix go (l : list delem) : list (key3 * selem) :=
                          match l with [] => [] | x :: r => (ekey x, lay_elem st pkg (ctx ++ [n]) x) :: go r end) body))
  | DEnum _ c n opts vs =>
      SEnum c n (lay_sopts opts) (sort_project (map (fun v => (key0 (v_key v), lay_value v)) vs))
  | DService _ c n opts ms =>
      SService c n (lay_sopts opts) (sort_project (map (fun m => (key0 (m_key m), lay_method st pkg n m)) ms))
  end.

Fixpoint lay_keyed (st : symtab) (pkg ctx : qname) (l : list delem) : list (key3 * selem) :=
  match l with [] => [] | x :: r => (ekey x, lay_elem st pkg ctx x) :: lay_keyed st pkg ctx r end.

Definition lay_body (st : symtab) (pkg ctx : qname) (l : list delem) : list selem :=
  sort_project (lay_keyed st pkg ctx l).

(* printFile: extension declarations grouped by extendee, in order of first appearance *)
Fixpoint add_group {F} (x : qname) (f : F) (bs : list (qname * list F)) : list (qname * list F) :=
  match bs with
  | [] => [(x, [f])]
  | b :: r => if qname_eqb (fst b) x then (x, snd b ++ [f]) :: r else b :: add_group x f r
  end.

Definition group_by {F} (l : list (qname * F)) : list (qname * list F) :=
  fold_left (fun bs xf => add_group (fst xf) (snd xf) bs) l [].

Definition group_exts (l : list (qname * sfield)) : list sext :=
  map (fun g => {| sx_extendee := fst g; sx_fields := snd g |}) (group_by l).

Definition lay_file (st : symtab) (d : dfile) : sfile :=
  {| s_pkg := d_pkg d;
     s_imports := isort bytes_ltb (d_imports d);
     s_fopts := d_fopts d;
     s_exts := group_exts (map (fun xf => (fst xf, lay_field st (d_pkg d) [] true (snd xf))) (d_exts d));
     s_body := lay_body st (d_pkg d) [] (d_body d) |}.

Definition print_file_tokens (st : symtab) (d : dfile) : list token := emit_file (lay_file st d).

(* ------------------------------------------------------------------ the symbol table of a file *)
(* types as (package, path) pairs; the flat table of model/ProtoPrint.v is derived *)
Record xsymtab := { x_types : list (qname * qname); x_pkgs : list qname }.
Definition flat_name (e : qname * qname) : qname := fst e ++ snd e.
Definition to_symtab (x : xsymtab) : symtab :=
  {| st_types := map flat_name (x_types x); st_pkgs := x_pkgs x |}.

Fixpoint delem_types (prefix : qname) (e : delem) : list qname :=
  match e with
  | DMsg _ _ n _ body =>
      (prefix ++ [n]) :: (fix go (l : list delem) : list qname :=
                            match l with [] => [] | x :: r => delem_types (prefix ++ [n]) x ++ go r end) body
  | DEnum _ _ n _ _ => [prefix ++ [n]]
  | _ => []
  end.

Fixpoint delems_types (prefix : qname) (l : list delem) : list qname :=
  match l with [] => [] | x :: r => delem_types prefix x ++ delems_types prefix r end.

(* imp: the types and packages of the files imported *)
Definition dfile_symtab (imp : xsymtab) (d : dfile) : xsymtab :=
  {| x_types := map (fun p => (d_pkg d, p)) (delems_types [] (d_body d)) ++ x_types imp;
     x_pkgs := d_pkg d :: x_pkgs imp |}.

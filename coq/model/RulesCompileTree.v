(* RulesCompileTree.v — the compiler on declaration trees with inline types (RulesNested.nschema):
   the front checks of every declared property of the tree (RulesCompile.front_checks, enum
   default filters) and, per schema, pairwise different proto field names; then
   RulesNested.write_schema. Definitions only. *)
From Coq Require Import String List NArith ZArith Bool.
From J5V.lib Require Import Outcome Strcase.
From J5V.model Require Import RulesDecl RulesWrite RulesRead RulesNested RulesOneof RulesCompile.
Import ListNotations.

Definition prop_front (re_ok : str -> bool) (env : enum_env) (d : prop) : bool :=
  match front_checks re_ok (plain d) with Ok _ => true | _ => false end
  && enum_filters_ok env (item_of (p_ty d)).

Fixpoint tree_front (re_ok : str -> bool) (env : enum_env) (s : nschema) : bool :=
  match s with
  | NS _ _ _ fields =>
      distinct_strs (map (fun f => to_snake (p_name (nf_prop f))) fields)
      && (fix go (fs : list nfield) : bool :=
            match fs with
            | [] => true
            | NF d None :: r => prop_front re_ok env d && go r
            | NF d (Some s') :: r => prop_front re_ok env d && tree_front re_ok env s' && go r
            end) fields
  end.

Definition compile_schema (re_ok : str -> bool) (env : enum_env) (path : list str) (name : str) (s : nschema) : outcome mtree :=
  if tree_front re_ok env s then write_schema env path name s
  else Err "a declaration of the tree is refused by the front checks, or two properties of one schema share a proto field name".


(* the options of a oneof through the compiler: front checks and link step, then members *)
Definition compile_members (re_ok : str -> bool) (env : enum_env) (ds : list prop) : outcome (list fout) :=
  obind (compile_object re_ok env (map plain ds)) (fun os => Ok (map as_member os)).


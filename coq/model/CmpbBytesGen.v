(* CmpbBytesGen.v — the loop of `j5 j5s genproto` over one PackageSet, on top of model/CmpbBytes.v.  No proofs here. *)
From Coq Require Import String List NArith ZArith Bool.
From J5V.model Require Import Desc J5sAst J5sWalk J5sConvert CmpbOrder CmpbInstance CmpbBytes.
Import ListNotations.

(* ------------------------------------------------------------------ `j5 j5s genproto` (cmd/j5/internal/cli/j5s.go) *)
(* one PackageSet; `for _, pkg := range localFiles.ListPackages() { out := CompilePackage(pkg); for each file of out whose
   name ends in .j5s.proto: PutFile(name, PrintFile(file)) }`, stopping at the first error.  The run's own earlier calls
   come first, then the packages already handled by the loop *)
Definition with_earlier (r : run) (e : list bytes) : run :=
  mkRun (r_pkgs r) (r_files r) (r_lf r) (r_rd r) (r_rf r) (r_fuel r) (r_lfuel r) (r_earlier r ++ e) (r_range r).
Definition written (o : output) : list (bytes * list PP.token) :=
  map (fun x => (fst (fst x), snd x)) (filter (fun x => has_suffix (b ".j5s.proto") (fst (fst x))) o).
Fixpoint genproto_from (bd : J5sAst.bundle) (exts : list Desc.dfile) (ann : ann_table) (r : run) (done todo : list bytes)
  : option (list (bytes * list (bytes * list PP.token))) :=
  match todo with
  | [] => Some []
  | n :: rest =>
      match compile_and_print bd exts ann (with_earlier r done) n with
      | None => None
      | Some o => match genproto_from bd exts ann r (done ++ [n]) rest with
                  | Some l => Some ((n, written o) :: l)
                  | None => None
                  end
      end
  end.
(* per package, in listing order, the files written for it *)
Definition genproto (bd : J5sAst.bundle) (exts : list Desc.dfile) (ann : ann_table) (r : run) :=
  genproto_from bd exts ann r [] (r_pkgs r).

(* CodecDec.v — model of internal/codec/decoder.go (+ the parts of lib/j5reflect it
   drives: property_set.go CreateField/buildValue, type_array.go, type_map.go,
   type_enum.go, type_scalar.go, type_any.go setAny, protoval.go setValue).

   The decoder is a recursive descent over the token stream of encoding/json's
   Decoder (Json.lex).  Every function returns the three-way [outcome]; Go panic
   sites reachable from the decoder are [Panic] constructors here:
     "foundKeys[0]"            decodeOneofInner indexes foundKeys
     "List.Append(invalid)"    protoreflect List.Append of an invalid Value
     "Map.Set(invalid)"        protoreflect Map.Set of an invalid Value
   Recursion is on explicit fuel; CodecDecProofs shows [S (length tokens)] suffices.

   Options of the codec: the default codec (no WithProtoToAny), as lib/j5codec.NewCodec().
   No proofs in this file. *)
From Coq Require Import String List NArith ZArith Bool.
From J5V.lib Require Import Outcome Json.
From J5V.model Require Import CodecTypes CodecDecScalar.
Import ListNotations.
Local Open Scope N_scope.
Local Open Scope bool_scope.

Definition type_key : bytes := [33; 116; 121; 112; 101].   (* "!type" *)

Fixpoint mem_bytes (x : bytes) (l : list bytes) : bool :=
  match l with
  | [] => false
  | y :: r => bytes_eqb x y || mem_bytes x r
  end.

(* Decoder.Token(): the next token or an error (end of input / syntax error) *)
Definition next_token (ts : list token) : outcome (token * list token) :=
  match ts with
  | [] => Err "token"
  | t :: r => Ok (t, r)
  end.

(* expectDelim *)
Definition expect (d : token) (ts : list token) : outcome (list token) :=
  match ts with
  | [] => Err "token"
  | t :: r => if token_eqb t d then Ok r else Err "unexpected token"
  end.

(* ------------------------------------------------------------ the end of the input
   decodeRoot (fix: trailing data) calls Token() once more after the top-level value and accepts
   io.EOF only.  The tokenizer model [lex] stops at the first failing Token() call; [lex_tail] is the
   input left at that point, and the failure is io.EOF exactly when only white space is left
   (Json.token_call: [skip_ws s = []]); a stray ']' / '}' / ',' or an incomplete literal is a
   syntax error, io.ErrUnexpectedEOF included. *)
Fixpoint lex_tail_go (fuel : nat) (st : tstate) (stack : list tstate) (s : bytes) : bytes :=
  match fuel with
  | O => s
  | S f =>
    match token_call st stack s with
    | TokFail _ => s
    | TokOk _ st' stack' rest => lex_tail_go f st' stack' rest
    end
  end.
Definition lex_tail (bs : bytes) : bytes := lex_tail_go (S (length bs)) StTop [] bs.
Definition lex_at_eof (bs : bytes) : bool :=
  match skip_ws (lex_tail bs) with [] => true | _ :: _ => false end.

(* [rest]: the tokens after the top-level value; [at_eof]: the tokenizer stopped at io.EOF *)
Definition end_of_input (rest : list token) (at_eof : bool) : outcome unit :=
  match rest with
  | [] => if at_eof then Ok tt else Err "invalid character after top-level value"
  | _ :: _ => Err "unexpected data after top-level value"
  end.

(* propSet.buildValue: walk the proto path, Mutable() on every intermediate
   message, then run [k] on the message that holds the final field *)
Fixpoint with_holder {A} (path : list N) (m : msg) (k : N -> msg -> outcome (msg * A)) : outcome (msg * A) :=
  match path with
  | [] => Err "Reflection Bug: no proto field"
  | [n] => k n m
  | n :: rest =>
      let '(sub, m1) := msg_mutable [] n m in
      obind (with_holder rest sub k) (fun r => Ok (msg_put n (VMsg (fst r)) m1, snd r))
  end.

(* leafArrayField.appendProtoValue -> protoreflect List.Append *)
Definition list_append (v : option pval) (l : list pval) : outcome (list pval) :=
  match v with
  | None => Panic "List.Append(invalid)"
  | Some x => Ok (l ++ [x])
  end.

(* leafMapField.setKey -> protoreflect Map.Set *)
Definition map_set_value (k : bytes) (v : option pval) (es : list (bytes * pval)) : outcome (list (bytes * pval)) :=
  match v with
  | None => Panic "Map.Set(invalid)"
  | Some x => Ok (map_set k x es)
  end.

(* arrayOfScalarField.AppendGoValue *)
Definition append_go_value (orc : oracles) (k : scalar_kind) (t : token) (l : list pval) : outcome (list pval) :=
  obind (scalar_from_go orc k (goval_of_token t)) (fun v =>
    match v with
    | None => Err "cannot append nil value"      (* fix: guard before List.Append *)
    | Some _ => list_append v l
    end).

(* mapOfScalarField.SetGoValue *)
Definition map_set_go_value (orc : oracles) (k : scalar_kind) (key : bytes) (t : token) (es : list (bytes * pval))
  : outcome (list (bytes * pval)) :=
  obind (scalar_from_go orc k (goval_of_token t)) (fun v =>
    match v with
    | None => Err "cannot set nil value"         (* fix: guard before Map.Set *)
    | Some _ => map_set_value key v es
    end).

(* effect of propSet.NewValue / buildOrCreate on the message, without a value:
   message-typed fields come into existence, leaf fields are untouched *)
Definition create_effect (p : property) (m : msg) : outcome msg :=
  match p_path p with
  | [] => Ok m
  | path =>
    match p_ty p with
    | FObject _ | FOneof _ | FAny _ =>
        omap fst (with_holder path m (fun n h => Ok (snd (msg_mutable (p_siblings p) n h), tt)))
    | _ => omap fst (with_holder path m (fun n h => Ok (h, tt)))
    end
  end.

(* canonical re-print of a token list (what j5_json is compared as) *)
Definition hex_digit (n : N) : N := if n <? 10 then 48 + n else 87 + n.
Fixpoint escape_bytes (s : bytes) : bytes :=
  match s with
  | [] => []
  | c :: r =>
    if c =? 34 then 92 :: 34 :: escape_bytes r
    else if c =? 92 then 92 :: 92 :: escape_bytes r
    else if c <? 32 then 92 :: 117 :: 48 :: 48 :: hex_digit (c / 16) :: hex_digit (c mod 16) :: escape_bytes r
    else c :: escape_bytes r
  end.

(* [prev_value]: the previous token ended a value (so a separator is due) ; [in_obj] stack *)
Fixpoint print_tokens (ts : list token) (stack : list bool) (key_next : bool) (need_sep : bool) : bytes :=
  match ts with
  | [] => []
  | t :: r =>
    let sep := if need_sep then [44] else [] in
    match t with
    | TOpenObj => sep ++ 123 :: print_tokens r (true :: stack) true false
    | TOpenArr => sep ++ 91 :: print_tokens r (false :: stack) false false
    | TCloseObj =>
        125 :: print_tokens r (tl stack) (match tl stack with true :: _ => true | _ => false end) true
    | TCloseArr =>
        93 :: print_tokens r (tl stack) (match tl stack with true :: _ => true | _ => false end) true
    | _ =>
      let body :=
        match t with
        | TNull => [110; 117; 108; 108]
        | TBool true => [116; 114; 117; 101]
        | TBool false => [102; 97; 108; 115; 101]
        | TNum l => l
        | TStr s => 34 :: escape_bytes s ++ [34]
        | _ => []
        end in
      match stack with
      | true :: _ =>
          if key_next then sep ++ body ++ 58 :: print_tokens r stack false false
          else body ++ print_tokens r stack true true
      | _ => sep ++ body ++ print_tokens r stack false true
      end
    end
  end.
Definition canon_json (ts : list token) : bytes := print_tokens ts [] false false.

Definition max_scan_depth : N := 10000.      (* encoding/json scanner: maxNestingDepth *)
Definition max_nesting_depth : N := 10000.   (* internal/codec/decoder.go: maxNestingDepth *)

Section Decode.
  Variable orc : oracles.
  Variable e : env.
  Variable more_at_end : bool.

  Definition has_more (ts : list token) : bool := more ts more_at_end.

  (* decodeAny's object body: "!type" and at most one other key whose value is
     taken whole (popValueAsBytes).  Returns (value tokens, type name, rest). *)
  Fixpoint any_body (fuel : nat) (ts : list token) (value : option (list token)) (ty : option bytes)
    : outcome (option (list token) * option bytes * list token) :=
    match fuel with
    | O => OutOfFuel
    | S f =>
      if has_more ts then
        obind (next_token ts) (fun kt =>
          match fst kt with
          | TStr key =>
            if bytes_eqb key type_key then
              obind (next_token (snd kt)) (fun vt =>
                match fst vt with
                | TStr s => any_body f (snd vt) value (Some s)
                | _ => Err "unexpected token, expected string"
                end)
            else
              match value with
              | Some _ => Err "multiple keys found in Any"
              | None =>
                match split_value (snd kt) with
                | None => Err "json.Decode(RawMessage)"
                | Some (v, rest, depth) =>
                    if max_scan_depth <? depth then Err "exceeded max depth"
                    else any_body f rest (Some v) ty
                end
              end
          | _ => Err "unexpected token, expected object key"
          end)
      else Ok (value, ty, ts)
    end.

  (* one member value: null leaves the property untouched (and not "set");
     anything else goes through CreateField, which refuses a second value.
     [d] is dec.depth on entry of decodeValue, [dp] is decode_present for this
     property at depth d + 1. *)
  (* propSet.oneofConflict: the message that would hold the property's field, found
     without creating anything, already has another member of the field's proto oneof *)
  Fixpoint holder_lookup (path : list N) (m : msg) : option (msg * N) :=
    match path with
    | [] => None
    | [n] => Some (m, n)
    | n :: rest =>
      match msg_get n m with
      | Some (VMsg sub) => holder_lookup rest sub
      | _ => None
      end
    end.
  Definition oneof_conflict (p : property) (m : msg) : bool :=
    match holder_lookup (p_path p) m with
    | Some (h, _) => existsb (fun s => msg_has s h) (p_siblings p)
    | None => false
    end.

  Definition member_with (d : N) (dp : list token -> msg -> outcome (msg * list token))
             (p : property) (ts : list token) (m : msg) (seen : list bytes)
    : outcome (msg * list token * list bytes) :=
    (* decodeValue: dec.depth++ and the nesting bound come before anything is read *)
    if max_nesting_depth <? d + 1 then Err "exceeded max depth" else
    match ts with
    | [] => Err "token"
    | TNull :: r => Ok (m, r, seen)
    | _ =>
      if mem_bytes (p_json p) seen then Err "field is already set"
      else if oneof_conflict p m then Err "conflicts with another member of the same proto oneof"
      else obind (dp ts m) (fun r => Ok (fst r, snd r, p_json p :: seen))
    end.

  (* foundKeys[0] *)
  Definition index0 (l : list bytes) : outcome bytes :=
    match l with
    | [] => Panic "foundKeys[0]"
    | k :: _ => Ok k
    end.

  (* the checks of decodeOneofInner after the body loop *)
  Definition oneof_post (props : list property) (m : msg) (found : list bytes) (constrain : option bytes)
    : outcome msg :=
    let n := N.of_nat (length found) in
    if n =? 0 then
      match constrain with
      | None => Ok m
      | Some c =>
        match find_prop props c with
        | None => Err "no such key"
        | Some p => create_effect p m          (* fix: returns here instead of falling through *)
        end
      end
    else if 1 <? n then Err "multiple keys found in oneof"
    else
      match constrain with
      | None => Ok m
      | Some c => obind (index0 found) (fun k0 => if bytes_eqb k0 c then Ok m else Err "key does not match type")
      end.

  (* decoder.decodeValue & friends.  [m] is the message holding the property
     set being filled, [seen] the json names whose property hasValue. *)
  Fixpoint decode_present (fuel : nat) (d : N) (p : property) (ts : list token) (m : msg) {struct fuel}
    : outcome (msg * list token) :=
    match fuel with
    | O => OutOfFuel
    | S f =>
      match p_ty p with
      | FScalar k =>
        obind (next_token ts) (fun tr =>
          if is_delim (fst tr) then Err "unexpected token, expected scalar"
          else
            obind (scalar_from_go orc k (goval_of_token (fst tr))) (fun v =>
              obind (with_holder (p_path p) m (fun n h =>
                       match v with
                       | None => Ok (msg_del n h, tt)                      (* protoPair.setValue: Clear *)
                       | Some x => Ok (msg_set (p_explicit p) (p_siblings p) n x h, tt)
                       end))
                    (fun r => Ok (fst r, snd tr))))
      | FEnum ref =>
        obind (next_token ts) (fun tr =>
          match fst tr with
          | TStr s =>
            match lookup e ref with
            | Some (SEnum prefix opts) =>
              match option_by_name prefix opts s with
              | Some z =>
                obind (with_holder (p_path p) m (fun n h =>
                         Ok (msg_set (p_explicit p) (p_siblings p) n (VEnum z) h, tt)))
                      (fun r => Ok (fst r, snd tr))
              | None => Err "enum value not found"
              end
            | _ => Err "schema"
            end
          | _ => Err "unexpected token, expected string"
          end)
      | FObject ref =>
        obind (expect TOpenObj ts) (fun r =>
          match lookup e ref with
          | Some (SObject props) =>
            with_holder (p_path p) m (fun n h =>
              let '(sub, h1) := msg_mutable (p_siblings p) n h in
              obind (object_body f d props r sub []) (fun sr =>
                obind (expect TCloseObj (snd sr)) (fun r2 =>
                  Ok (msg_put n (VMsg (fst sr)) h1, r2))))
          | _ => Err "schema"
          end)
      | FOneof ref =>
        obind (expect TOpenObj ts) (fun r =>
          match lookup e ref with
          | Some (SOneof props) =>
            match p_path p with
            | [] =>
              (* exposed oneof: the inner properties live in the same message *)
              obind (oneof_body f d props r m [] [] None) (fun sr =>
                obind (expect TCloseObj (snd sr)) (fun r2 => Ok (fst sr, r2)))
            | path =>
              with_holder path m (fun n h =>
                let '(sub, h1) := msg_mutable (p_siblings p) n h in
                obind (oneof_body f d props r sub [] [] None) (fun sr =>
                  obind (expect TCloseObj (snd sr)) (fun r2 =>
                    Ok (msg_put n (VMsg (fst sr)) h1, r2))))
            end
          | _ => Err "schema"
          end)
      | FArray item =>
        obind (expect TOpenArr ts) (fun r =>
          match item with
          | FScalar _ | FEnum _ | FObject _ | FOneof _ =>
            with_holder (p_path p) m (fun n h =>
              let existing := match msg_get n h with Some (VList l) => l | _ => [] end in
              obind (array_items f d item r existing) (fun lr =>
                obind (expect TCloseArr (snd lr)) (fun r2 =>
                  Ok (msg_set true (p_siblings p) n (VList (fst lr)) h, r2))))
          | _ => Err "unsupported array item schema"
          end)
      | FMap item =>
        obind (expect TOpenObj ts) (fun r =>
          match item with
          | FScalar _ | FEnum _ | FObject _ | FOneof _ =>
            with_holder (p_path p) m (fun n h =>
              let existing := match msg_get n h with Some (VMap l) => l | _ => [] end in
              obind (map_items f d item r existing) (fun lr =>
                obind (expect TCloseObj (snd lr)) (fun r2 =>
                  Ok (msg_set true (p_siblings p) n (VMap (fst lr)) h, r2))))
          | _ => Err "unsupported map item schema"
          end)
      | FAny pb =>
        obind (expect TOpenObj ts) (fun r =>
          with_holder (p_path p) m (fun n h =>
            let '(sub, h1) := msg_mutable (p_siblings p) n h in
            obind (any_body f r None None) (fun vr =>
              let '(value, ty, rest) := vr in
              match ty, value with
              | None, _ => Err "no type found in Any"
              | _, None => Err "no value found in Any"
              | Some tn, Some v =>
                if pb then Err "proto is required for PB Any"
                else
                  let sub1 := msg_set false [] 1 (VStr tn) sub in
                  let sub2 := msg_set false [] 3 (VBytes (canon_json v)) sub1 in
                  obind (expect TCloseObj rest) (fun r2 => Ok (msg_put n (VMsg sub2) h1, r2))
              end)))
      end
    end

  (* jsonObjectBody + decodeObjectInner callback *)
  with object_body (fuel : nat) (d : N) (props : list property) (ts : list token) (m : msg) (seen : list bytes) {struct fuel}
    : outcome (msg * list token) :=
    match fuel with
    | O => OutOfFuel
    | S f =>
      if has_more ts then
        obind (next_token ts) (fun kt =>
          match fst kt with
          | TStr key =>
            match find_prop props key with
            | None => Err "no such field"
            | Some p =>
              obind (member_with d (decode_present f (d + 1) p) p (snd kt) m seen) (fun r =>
                let '(m', rest, seen') := r in object_body f d props rest m' seen')
            end
          | _ => Err "unexpected token, expected object key"
          end)
      else Ok (m, ts)
    end

  (* decodeOneofInner: the body loop, then the post-checks *)
  with oneof_body (fuel : nat) (d : N) (props : list property) (ts : list token) (m : msg) (seen : list bytes)
                  (found : list bytes) (constrain : option bytes) {struct fuel}
    : outcome (msg * list token) :=
    match fuel with
    | O => OutOfFuel
    | S f =>
      if has_more ts then
        obind (next_token ts) (fun kt =>
          match fst kt with
          | TStr key =>
            if bytes_eqb key type_key then
              obind (next_token (snd kt)) (fun vt =>
                match fst vt with
                | TStr s => oneof_body f d props (snd vt) m seen found (Some s)
                | _ => Err "unexpected token, expected string"
                end)
            else
              match find_prop props key with
              | None => Err "no such key"
              | Some p =>
                obind (member_with d (decode_present f (d + 1) p) p (snd kt) m seen) (fun r =>
                  let '(m', rest, seen') := r in
                  oneof_body f d props rest m' seen' (found ++ [key]) constrain)
              end
          | _ => Err "unexpected token, expected object key"
          end)
      else obind (oneof_post props m found constrain) (fun m' => Ok (m', ts))
    end

  (* the element loop of decodeArrayProperty *)
  with array_items (fuel : nat) (d : N) (item : field_ty) (ts : list token) (acc : list pval) {struct fuel}
    : outcome (list pval * list token) :=
    match fuel with
    | O => OutOfFuel
    | S f =>
      if has_more ts then
        match item with
        | FScalar k =>
          obind (next_token ts) (fun tr =>
            if is_delim (fst tr) then Err "unexpected token, expected scalar"
            else obind (append_go_value orc k (fst tr) acc) (fun acc' => array_items f d item (snd tr) acc'))
        | FEnum ref =>
          obind (next_token ts) (fun tr =>
            if is_delim (fst tr) then Err "unexpected token, expected scalar"
            else
              match fst tr with
              | TStr s =>
                match lookup e ref with
                | Some (SEnum prefix opts) =>
                  match option_by_name prefix opts s with
                  | Some z => obind (list_append (Some (VEnum z)) acc) (fun acc' => array_items f d item (snd tr) acc')
                  | None => Err "enum value not found"
                  end
                | _ => Err "schema"
                end
              | _ => Err "cannot set enum value"
              end)
        | FObject ref =>
          match lookup e ref with
          | Some (SObject props) =>
            obind (expect TOpenObj ts) (fun r =>
              obind (object_body f d props r [] []) (fun sr =>
                obind (expect TCloseObj (snd sr)) (fun r2 =>
                  array_items f d item r2 (acc ++ [VMsg (fst sr)]))))
          | _ => Err "schema"
          end
        | FOneof ref =>
          match lookup e ref with
          | Some (SOneof props) =>
            obind (expect TOpenObj ts) (fun r =>
              obind (oneof_body f d props r [] [] [] None) (fun sr =>
                obind (expect TCloseObj (snd sr)) (fun r2 =>
                  array_items f d item r2 (acc ++ [VMsg (fst sr)]))))
          | _ => Err "schema"
          end
        | _ => Err "unknown array schema type"
        end
      else Ok (acc, ts)
    end

  (* decodeMapField: jsonObjectBody with the per-class callback *)
  with map_items (fuel : nat) (d : N) (item : field_ty) (ts : list token) (acc : list (bytes * pval)) {struct fuel}
    : outcome (list (bytes * pval) * list token) :=
    match fuel with
    | O => OutOfFuel
    | S f =>
      if has_more ts then
        obind (next_token ts) (fun kt =>
          match fst kt with
          | TStr key =>
            match item with
            | FScalar k =>
              match map_get key acc with
              | Some _ => Err "key already exists in map"
              | None =>
              obind (next_token (snd kt)) (fun tr =>
                if is_delim (fst tr) then Err "unexpected token, expected scalar"
                else obind (map_set_go_value orc k key (fst tr) acc) (fun acc' => map_items f d item (snd tr) acc'))
              end
            | FEnum ref =>
              match map_get key acc with
              | Some _ => Err "key already exists in map"
              | None =>
              obind (next_token (snd kt)) (fun tr =>
                match fst tr with
                | TStr s =>
                  match lookup e ref with
                  | Some (SEnum prefix opts) =>
                    match option_by_name prefix opts s with
                    | Some z => obind (map_set_value key (Some (VEnum z)) acc) (fun acc' => map_items f d item (snd tr) acc')
                    | None => Err "enum value not found"
                    end
                  | _ => Err "schema"
                  end
                | _ => Err "unexpected token, expected string"
                end)
              end
            | FObject ref =>
              match map_get key acc with
              | Some _ => Err "key already exists in map"
              | None =>
                match lookup e ref with
                | Some (SObject props) =>
                  obind (expect TOpenObj (snd kt)) (fun r =>
                    obind (object_body f d props r [] []) (fun sr =>
                      obind (expect TCloseObj (snd sr)) (fun r2 =>
                        map_items f d item r2 (map_set key (VMsg (fst sr)) acc))))
                | _ => Err "schema"
                end
              end
            | FOneof ref =>
              match map_get key acc with
              | Some _ => Err "key already exists in map"
              | None =>
                match lookup e ref with
                | Some (SOneof props) =>
                  obind (expect TOpenObj (snd kt)) (fun r =>
                    obind (oneof_body f d props r [] [] [] None) (fun sr =>
                      obind (expect TCloseObj (snd sr)) (fun r2 =>
                        map_items f d item r2 (map_set key (VMsg (fst sr)) acc))))
                | _ => Err "schema"
                end
              end
            | _ => Err "unknown map schema type"
            end
          | _ => Err "unexpected token, expected object key"
          end)
      else Ok (acc, ts)
    end.

  (* Codec.decodeRoot on a fresh message *)
  Definition decode_tokens (fuel : nat) (root : bytes) (ts : list token) : outcome msg :=
    match lookup e root with
    | Some (SObject props) =>
      obind (expect TOpenObj ts) (fun r =>
        obind (object_body fuel 0 props r [] []) (fun sr =>
          obind (expect TCloseObj (snd sr)) (fun _ => Ok (fst sr))))
    | Some (SOneof props) =>
      obind (expect TOpenObj ts) (fun r =>
        obind (oneof_body fuel 0 props r [] [] [] None) (fun sr =>
          obind (expect TCloseObj (snd sr)) (fun _ => Ok (fst sr))))
    | _ => Err "unsupported root schema type"
    end.

  (* the same, with the tokens left after the root's closing brace *)
  Definition decode_tokens_rest (fuel : nat) (root : bytes) (ts : list token) : outcome (msg * list token) :=
    match lookup e root with
    | Some (SObject props) =>
      obind (expect TOpenObj ts) (fun r =>
        obind (object_body fuel 0 props r [] []) (fun sr =>
          obind (expect TCloseObj (snd sr)) (fun r2 => Ok (fst sr, r2))))
    | Some (SOneof props) =>
      obind (expect TOpenObj ts) (fun r =>
        obind (oneof_body fuel 0 props r [] [] [] None) (fun sr =>
          obind (expect TCloseObj (snd sr)) (fun r2 => Ok (fst sr, r2))))
    | _ => Err "unsupported root schema type"
    end.
End Decode.

(* decodeObject / decodeOneof on the root of a fresh message: the descent of decodeRoot, BEFORE its
   end-of-input check (whatever follows the root's closing brace is not looked at) *)
Definition decode_bytes (orc : oracles) (e : env) (root : bytes) (bs : bytes) : outcome msg :=
  let '(ts, more_at_end) := lex bs in
  decode_tokens orc e more_at_end (S (length ts)) root ts.

(* Codec.JSONToProto(bytes, fresh message of the root type) = decodeRoot: the descent, then Token()
   must answer io.EOF *)
Definition decode_document (orc : oracles) (e : env) (root : bytes) (bs : bytes) : outcome msg :=
  let '(ts, more_at_end) := lex bs in
  obind (decode_tokens_rest orc e more_at_end (S (length ts)) root ts) (fun mr =>
    obind (end_of_input (snd mr) (lex_at_eof bs)) (fun _ => Ok (fst mr))).

(* ------------------------------------------------------------ code facts the model relies on
   (compared with gen/SwitchGen.v, which is read from the Go AST on every run) *)
Local Open Scope string_scope.
(* decodeValue's dispatch: the seven property types of [decode_present] *)
Definition model_decode_value_arms : list string :=
  ["MapProperty->decodeMapProperty"; "ArrayProperty->decodeArrayProperty"; "ObjectProperty->decodeObjectProperty";
   "OneofProperty->decodeOneofProperty"; "EnumProperty->decodeEnum"; "ScalarProperty->decodeScalar";
   "AnyProperty->decodeAny"; "default"].
(* null: containers use expectDelimOrNull, scalar/enum compare the token with nil ([member_with] skips a
   null for all seven), array elements / map values / roots use expectDelim ([expect]: null is an error) *)
Definition model_null_handling : list (string * string) :=
  [("decodeAny", "delim-or-null"); ("decodeArrayProperty", "delim-or-null"); ("decodeEnum", "nil-check");
   ("decodeMapProperty", "delim-or-null"); ("decodeObject", "delim"); ("decodeObjectProperty", "delim-or-null");
   ("decodeOneof", "delim"); ("decodeOneofProperty", "delim-or-null"); ("decodeScalar", "nil-check")].
(* [oneof_post] returns from the type-only branch; [append_go_value] / [map_set_go_value] refuse an
   invalid value before List.Append / Map.Set; integer string arms return the strconv error;
   protoPair.setValue clears the field on an invalid value *)
(* Each flag below is a behavioural probe of the model — evaluated, not declared — and is compared with
   the corresponding structural fact that the translator reads from the Go source: if the code loses
   the guard the generated bool flips, if the model loses the behaviour the probe flips. *)
Definition probe_prop (json : bytes) (n : N) (sib : list N) (t : field_ty) : property :=
  mkProp json [n] false true sib t.
Definition probe_orc : oracles :=
  mkOracles (fun _ => (None, None)) (fun _ => None) (fun _ => Some ([49], 1001%Z)).
(* decodeOneofInner's type-only case returns: {"!type":"a"} is accepted, not an index panic *)
Definition model_oneof_type_only_returns : bool :=
  is_ok (oneof_post [probe_prop [97] 1 [] (FScalar KString)] [] [] (Some [97])).
(* a nil element / value is refused before List.Append / Map.Set *)
Definition model_append_go_value_guarded : bool :=
  is_err (append_go_value probe_orc KString TNull []).
Definition model_map_set_go_value_guarded : bool :=
  is_err (map_set_go_value probe_orc KString [107] TNull []).
(* integer string arms return the strconv error *)
Definition model_int_string_err_returned : list (string * bool) :=
  map (fun kn => (snd kn, is_err (int_from_go (fst kn) (GStr [97; 98; 99]))))
      [(KInt32, "Integer/FORMAT_INT32"); (KInt64, "Integer/FORMAT_INT64");
       (KUint32, "Integer/FORMAT_UINT32"); (KUint64, "Integer/FORMAT_UINT64")].
Definition model_set_value_clears_invalid : bool := true.
(* a json.Number for a UINT64 field goes through strconv.ParseUint: 18446744073709551615 is accepted *)
Definition model_uint64_number_parse_uint : bool :=
  is_ok (int_from_go KUint64 (GNum [49;56;52;52;54;55;52;52;48;55;51;55;48;57;53;53;49;54;49;53])).
(* OptionByName tries the exact short name before trimming the prefix: M_X of {M_X = 7} with prefix M_ *)
Definition model_enum_exact_match_first : bool :=
  match option_by_name [77; 95] [([77; 95; 88], 7%Z)] [77; 95; 88] with Some 7%Z => true | _ => false end.
(* DateFromString checks the calendar: 2024-13-45 *)
Definition model_date_validates_calendar : bool :=
  match date_from_string [50;48;50;52;45;49;51;45;52;53] with None => true | Some _ => false end.
(* decodeValue counts the nesting and refuses more than [max_nesting_depth] *)
Definition model_decode_value_depth_guard : bool :=
  is_err (member_with max_nesting_depth (fun ts m => Ok (m, ts)) (probe_prop [97] 1 [] (FScalar KString)) [TBool true] [] []).
(* CreateField refuses a second member of a proto oneof; a repeated key in a leaf map is refused *)
Definition model_create_field_checks_oneof : bool :=
  is_err (member_with 0 (fun ts m => Ok (m, ts)) (probe_prop [98] 2 [1] (FScalar KString)) [TBool true] [(1, VStr [120])] []).
Definition model_leaf_map_dup_key_rejected : bool :=
  is_err (map_items probe_orc [] false 3 0 (FScalar KString) [TStr [107]; TStr [97]] [([107], VStr [98])]).
(* decimalFromString refuses an exponent beyond the bound (the probe oracle answers exponent 1001) *)
Definition model_decimal_exponent_guard : bool :=
  is_err (scalar_from_go probe_orc KDecimal (GStr [49])).

(* scalar SetGoValue / AppendGoValue / map SetGoValue call checkValueKind before storing: a scalar
   backed by a well-known message type whose conversion yields a non-message (google.protobuf.Duration
   reflects as string) is an error.  The environment dump gives such a field an enum type without
   options, which has exactly that behaviour. *)
Definition model_value_kind_checked : bool := true.

(* Every explicit panic(...) in the Go files the decoder runs through, reviewed: (file, function,
   argument prefix, why the decoder cannot reach it).  The three panics the model does keep
   ("foundKeys[0]", List.Append / Map.Set of an invalid Value) are runtime / protoreflect panics,
   not explicit calls.  proofs/CodecDecProofs.v checks that every site the translator finds in the
   source is in this list, so a new panic( has to be reviewed before the check is green again. *)
Definition reviewed_panic_sites : list (string * string * string * string) := [
  ("lib/j5reflect/property_set.go", "buildValue", "fmt.Sprintf(""Reflection Bug: field %s is not valid"", walkFie",
   "Message.Mutable on a singular message-kind field returns a valid value (protoreflect contract); newPropSet has checked that every intermediate path field is of message kind");
  ("lib/j5reflect/property_set.go", "copyReflect", "fmt.Sprintf(""CopyReflect: field %s not found in %s"", fd.Full",
   "called from scalarGoFromReflect only (encoder direction)");
  ("lib/j5reflect/protoval.go", "newProtoPair", """field is nil""",
   "buildValue passes the last descriptor of a proto path that newPropSet resolved (an empty path is handled before)");
  ("lib/j5reflect/protoval.go", "newProtoPair", """msg is nil/invalid""",
   "buildValue returns an error when the property set has no message; walked messages come from Mutable");
  ("lib/j5reflect/type_any.go", "buildField", "fmt.Sprintf(""unsupported Any type %s"", valueType)",
   "the reflector creates an AnyField schema only for google.protobuf.Any and j5.types.any.v1.Any (wktSchema)");
  ("lib/j5reflect/type_array.go", "newLeafArrayField", """list value is nil for leaf""",
   "the list comes from Message.Mutable on a repeated field, which is never nil")
].

(* Every type assertion WITHOUT the comma-ok form in the same files (the translator lists them as
   SwitchGen.unchecked_type_assertions): a failing one is a runtime panic "interface conversion", i.e.
   an implicit panic site that the model's total functions cannot show.  Reviewed: (file, function,
   expression, why it cannot fail on the decode path).  proofs/CodecDecProofs.v requires every site
   the translator finds to be listed here. *)
Definition reviewed_type_assertions : list (string * string * string * string) := [
  ("lib/j5reflect/type_array.go", "newLeafArrayField", "schema.Schema.(*j5schema.ScalarSchema)",
   "inside the arm `case *j5schema.ScalarSchema` of a type switch on the same expression");
  ("lib/j5reflect/type_object.go", "NewContainerElement", "field.NewElement().(ObjectField)",
   "arrayOfObjectField is built by newMessageArrayField only for an item schema of *j5schema.ObjectField, whose factory (objectFieldFactory) builds an ObjectField; not called by the decoder (it uses NewObjectElement)");
  ("lib/j5reflect/type_object.go", "NewObjectElement", "field.NewElement().(ObjectField)",
   "arrayOfObjectField: the element factory chosen with the wrapper type by the same type switch on the item schema builds an ObjectField");
  ("lib/j5reflect/type_object.go", "NewObjectElement", "val.(ObjectField)",
   "mapOfObjectField: same pairing of wrapper type and element factory in newMessageMapField");
  ("lib/j5reflect/type_oneof.go", "NewContainerElement", "field.NewElement().(OneofField)",
   "arrayOfOneofField: item schema *j5schema.OneofField, factory builds a OneofField; not called by the decoder");
  ("lib/j5reflect/type_oneof.go", "NewOneofElement", "field.NewElement().(OneofField)",
   "arrayOfOneofField: wrapper type and element factory chosen by the same type switch");
  ("lib/j5reflect/type_oneof.go", "NewOneofElement", "val.(OneofField)",
   "mapOfOneofField: same pairing in newMessageMapField")
].

(* J5sEdit.v — the append edits of C13 on the abstract syntax, and what "every previously
   generated element is unchanged" means on descriptors: the old descriptor embeds into the
   new one (same names, fields a prefix, nested declarations an order-preserving sub-list).
   Definitions only. *)
From Coq Require Import String List NArith Bool.
From J5V.lib Require Import Outcome.
From J5V.model Require Import J5sAst Desc J5sWalk.
Import ListNotations.
Local Open Scope N_scope.

(* ------------------------------------------------------------------ edits *)
Inductive edit :=
| EAppendField (file elem : nat) (p : property)           (* object / oneof declaration *)
| EAppendOption (file elem : nat) (o : str)                (* enum declaration *)
| EAppendDecl (file : nat) (e : element)
| EAppendRequestField (file elem meth : nat) (p : property)
| EAppendResponseField (file elem meth : nat) (p : property)
| EAppendTopicField (file elem msg : nat) (p : property).

Fixpoint update_nth {A} (n : nat) (f : A -> A) (l : list A) : list A :=
  match l, n with
  | [], _ => []
  | x :: r, O => f x :: r
  | x :: r, S k => x :: update_nth k f r
  end.

Definition snoc_prop (ps : props) (p : property) : props := papp ps (PCons p PNil).

Definition edit_element (e : edit) (el : element) : element :=
  match e, el with
  | EAppendField _ _ p, EObject nm ps subs => EObject nm (snoc_prop ps p) subs
  | EAppendField _ _ p, EOneof nm ps subs => EOneof nm (snoc_prop ps p) subs
  | EAppendOption _ _ o, EEnum en => EEnum (mkEnum (e_name en) (e_prefix en) (e_opts en ++ [o]))
  | EAppendRequestField _ _ m p, EService s =>
      EService (mkService (sv_name s) (sv_base s)
        (update_nth m (fun x => mkMethod (m_name x) (m_verb x) (m_path x) (snoc_prop (m_request x) p) (m_response x))
                    (sv_methods s)))
  | EAppendResponseField _ _ m p, EService s =>
      EService (mkService (sv_name s) (sv_base s)
        (update_nth m (fun x => mkMethod (m_name x) (m_verb x) (m_path x) (m_request x)
                                         (match m_response x with Some r => Some (snoc_prop r p) | None => None end))
                    (sv_methods s)))
  | EAppendTopicField _ _ k p, ETopic t =>
      let upd := update_nth k (fun x => mkTmsg (tm_name x) (snoc_prop (tm_fields x) p)) in
      ETopic (match t with
              | TPublish n msgs => TPublish n (upd msgs)
              | TReqRes n rq rp => TReqRes n (upd rq) rp
              | TUpsert n en m => TUpsert n en (mkTmsg (tm_name m) (snoc_prop (tm_fields m) p))
              | TEvent n en m => TEvent n en (mkTmsg (tm_name m) (snoc_prop (tm_fields m) p))
              end)
  | _, _ => el
  end.

Definition edit_file (e : edit) (f : jfile) : jfile :=
  match e with
  | EAppendDecl _ d => mkJfile (jf_dir f) (jf_base f) (jf_imports f) (jf_elements f ++ [d])
  | EAppendField _ k _ | EAppendOption _ k _ | EAppendRequestField _ k _ _
  | EAppendResponseField _ k _ _ | EAppendTopicField _ k _ _ =>
      mkJfile (jf_dir f) (jf_base f) (jf_imports f) (update_nth k (edit_element e) (jf_elements f))
  end.

Definition edit_target (e : edit) : nat :=
  match e with
  | EAppendField f _ _ | EAppendOption f _ _ | EAppendDecl f _ | EAppendRequestField f _ _ _
  | EAppendResponseField f _ _ _ | EAppendTopicField f _ _ _ => f
  end.

Definition apply_edit (bd : bundle) (e : edit) : bundle :=
  update_nth (edit_target e)
    (fun bf => match bf with BJ j => BJ (edit_file e j) | BP p => BP p end) bd.

Definition apply_edits (bd : bundle) (es : list edit) : bundle := fold_left apply_edit es bd.

(* ------------------------------------------------------------------ descriptors: unchanged = embedded *)
Definition prefix_of {A} (l l' : list A) : Prop := exists t, l' = l ++ t.

(* l embeds into l' in order, related elementwise by R *)
Inductive sub_list {A} (R : A -> A -> Prop) : list A -> list A -> Prop :=
| sl_nil : forall l, sub_list R [] l
| sl_keep : forall a c l l', R a c -> sub_list R l l' -> sub_list R (a :: l) (c :: l')
| sl_skip : forall c l l', sub_list R l l' -> sub_list R l (c :: l').

Definition enum_ext (a c : denum) : Prop :=
  en_name a = en_name c /\ prefix_of (en_vals a) (en_vals c).

(* same name and kind; every old field unchanged (name, JSON name, number, type, label,
   optionality, type name) at its position; every old nested message / enum still there *)
Inductive msg_ext : dmsg -> dmsg -> Prop :=
| msg_ext_intro : forall n k fs fs' ms ms' es es',
    prefix_of fs fs' -> sub_list msg_ext ms ms' -> sub_list enum_ext es es' ->
    msg_ext (DMsg n k fs ms es) (DMsg n k fs' ms' es').

Definition service_ext (a c : dservice) : Prop :=
  ds_name a = ds_name c /\ ds_topic a = ds_topic c /\ prefix_of (ds_methods a) (ds_methods c).

Definition file_ext (a c : dfile) : Prop :=
  fl_path a = fl_path c /\ fl_pkg a = fl_pkg c /\
  sub_list msg_ext (fl_msgs a) (fl_msgs c) /\
  sub_list enum_ext (fl_enums a) (fl_enums c) /\
  sub_list service_ext (fl_svcs a) (fl_svcs c).

Definition files_ext (D D' : list dfile) : Prop := sub_list file_ext D D'.

(* J5sEdit.v — the append edits of C13 on the abstract syntax, and what "every previously
   generated element is unchanged" means on descriptors: the old descriptor embeds into the
   new one (same names, fields a prefix, nested declarations an order-preserving sub-list).
   Definitions only. *)
From Coq Require Import String List NArith Bool.
From J5V.lib Require Import Outcome.
From J5V.model Require Import J5sAst Desc J5sWalk.
Import ListNotations.
Local Open Scope N_scope.

(* ------------------------------------------------------------------ edits *)
Inductive edit :=
| EAppendField (file elem : nat) (p : property)           (* object / oneof declaration *)
| EAppendOption (file elem : nat) (o : str)                (* enum declaration *)
| EAppendDecl (file : nat) (e : element)
| EAppendRequestField (file elem meth : nat) (p : property)
| EAppendResponseField (file elem meth : nat) (p : property)
| EAppendTopicField (file elem msg : nat) (p : property).

Fixpoint update_nth {A} (n : nat) (f : A -> A) (l : list A) : list A :=
  match l, n with
  | [], _ => []
  | x :: r, O => f x :: r
  | x :: r, S k => x :: update_nth k f r
  end.

Definition snoc_prop (ps : props) (p : property) : props := papp ps (PCons p PNil).

Definition edit_element (e : edit) (el : element) : element :=
  match e, el with
  | EAppendField _ _ p, EObject nm ps subs => EObject nm (snoc_prop ps p) subs
  | EAppendField _ _ p, EOneof nm ps subs => EOneof nm (snoc_prop ps p) subs
  | EAppendOption _ _ o, EEnum en => EEnum (mkEnum (e_name en) (e_prefix en) (e_opts en ++ [o]))
  | EAppendRequestField _ _ m p, EService s =>
      EService (mkService (sv_name s) (sv_base s)
        (update_nth m (fun x => mkMethod (m_name x) (m_verb x) (m_path x) (snoc_prop (m_request x) p) (m_response x))
                    (sv_methods s)))
  | EAppendResponseField _ _ m p, EService s =>
      EService (mkService (sv_name s) (sv_base s)
        (update_nth m (fun x => mkMethod (m_name x) (m_verb x) (m_path x) (m_request x)
                                         (match m_response x with Some r => Some (snoc_prop r p) | None => None end))
                    (sv_methods s)))
  | EAppendTopicField _ _ k p, ETopic t =>
      let upd := update_nth k (fun x => mkTmsg (tm_name x) (snoc_prop (tm_fields x) p)) in
      ETopic (match t with
              | TPublish n msgs => TPublish n (upd msgs)
              | TReqRes n rq rp => TReqRes n (upd rq) rp
              | TUpsert n en m => TUpsert n en (mkTmsg (tm_name m) (snoc_prop (tm_fields m) p))
              | TEvent n en m => TEvent n en (mkTmsg (tm_name m) (snoc_prop (tm_fields m) p))
              end)
  | _, _ => el
  end.

Definition edit_file (e : edit) (f : jfile) : jfile :=
  match e with
  | EAppendDecl _ d => mkJfile (jf_dir f) (jf_base f) (jf_imports f) (jf_elements f ++ [d])
  | EAppendField _ k _ | EAppendOption _ k _ | EAppendRequestField _ k _ _
  | EAppendResponseField _ k _ _ | EAppendTopicField _ k _ _ =>
      mkJfile (jf_dir f) (jf_base f) (jf_imports f) (update_nth k (edit_element e) (jf_elements f))
  end.

Definition edit_target (e : edit) : nat :=
  match e with
  | EAppendField f _ _ | EAppendOption f _ _ | EAppendDecl f _ | EAppendRequestField f _ _ _
  | EAppendResponseField f _ _ _ | EAppendTopicField f _ _ _ => f
  end.

Definition apply_edit (bd : bundle) (e : edit) : bundle :=
  update_nth (edit_target e)
    (fun bf => match bf with BJ j => BJ (edit_file e j) | BP p => BP p end) bd.

Definition apply_edits (bd : bundle) (es : list edit) : bundle := fold_left apply_edit es bd.

(* ------------------------------------------------------------------ descriptors: unchanged = embedded *)
Definition prefix_of {A} (l l' : list A) : Prop := exists t, l' = l ++ t.

(* l embeds into l' in order, related elementwise by R *)
Inductive sub_list {A} (R : A -> A -> Prop) : list A -> list A -> Prop :=
| sl_nil : forall l, sub_list R [] l
| sl_keep : forall a c l l', R a c -> sub_list R l l' -> sub_list R (a :: l) (c :: l')
| sl_skip : forall c l l', sub_list R l l' -> sub_list R l (c :: l').

Definition enum_ext (a c : denum) : Prop :=
  en_name a = en_name c /\ prefix_of (en_vals a) (en_vals c).

(* same name and kind; every old field unchanged (name, JSON name, number, type, label,
   optionality, type name) at its position; every old nested message / enum still there *)
Inductive msg_ext : dmsg -> dmsg -> Prop :=
| msg_ext_intro : forall n k fs fs' ms ms' es es',
    prefix_of fs fs' -> sub_list msg_ext ms ms' -> sub_list enum_ext es es' ->
    msg_ext (DMsg n k fs ms es) (DMsg n k fs' ms' es').

Definition service_ext (a c : dservice) : Prop :=
  ds_name a = ds_name c /\ ds_topic a = ds_topic c /\ prefix_of (ds_methods a) (ds_methods c).

Definition file_ext (a c : dfile) : Prop :=
  fl_path a = fl_path c /\ fl_pkg a = fl_pkg c /\
  sub_list msg_ext (fl_msgs a) (fl_msgs c) /\
  sub_list enum_ext (fl_enums a) (fl_enums c) /\
  sub_list service_ext (fl_svcs a) (fl_svcs c).

Definition files_ext (D D' : list dfile) : Prop := sub_list file_ext D D'.

(* ------------------------------------------------------------------ source files: extended by appends *)
(* What any sequence of C13 edits does to a source file, as a relation: properties appended
   to objects / oneofs / requests / responses / topic messages, options appended to (non-empty)
   enums, declarations appended to the file. *)
Definition method_ext (m m' : method) : Prop :=
  m_name m' = m_name m /\ m_verb m' = m_verb m /\ m_path m' = m_path m /\
  (exists extra, m_request m' = papp (m_request m) extra) /\
  match m_response m, m_response m' with
  | None, None => True
  | Some r, Some r' => exists extra, r' = papp r extra
  | _, _ => False
  end.

Definition tmsg_ext (t t' : tmsg) : Prop :=
  tm_name t' = tm_name t /\ exists extra, tm_fields t' = papp (tm_fields t) extra.

Inductive topic_ext : topic -> topic -> Prop :=
| te_publish : forall n ms ms', Forall2 tmsg_ext ms ms' -> topic_ext (TPublish n ms) (TPublish n ms')
| te_reqres : forall n rq rq' rp rp', Forall2 tmsg_ext rq rq' -> Forall2 tmsg_ext rp rp' ->
    topic_ext (TReqRes n rq rp) (TReqRes n rq' rp')
| te_upsert : forall n en m m', tmsg_ext m m' -> topic_ext (TUpsert n en m) (TUpsert n en m')
| te_event : forall n en m m', tmsg_ext m m' -> topic_ext (TEvent n en m) (TEvent n en m').

Inductive element_ext : element -> element -> Prop :=
| ee_object : forall nm ps extra subs, element_ext (EObject nm ps subs) (EObject nm (papp ps extra) subs)
| ee_oneof : forall nm ps extra subs, element_ext (EOneof nm ps subs) (EOneof nm (papp ps extra) subs)
| ee_enum_same : forall en, element_ext (EEnum en) (EEnum en)
| ee_enum : forall nm pfx opts extra, opts <> [] ->
    element_ext (EEnum (mkEnum nm pfx opts)) (EEnum (mkEnum nm pfx (opts ++ extra)))
| ee_service : forall nm base ms ms', Forall2 method_ext ms ms' ->
    element_ext (EService (mkService nm base ms)) (EService (mkService nm base ms'))
| ee_topic : forall t t', topic_ext t t' -> element_ext (ETopic t) (ETopic t').

Definition file_src_ext (f f' : jfile) : Prop :=
  jf_dir f' = jf_dir f /\ jf_base f' = jf_base f /\ jf_imports f' = jf_imports f /\
  exists els1 extra, Forall2 element_ext (jf_elements f) els1 /\ jf_elements f' = els1 ++ extra.

(* J5sEdit.v — the append edits of C13 on the abstract syntax, and what "every previously
   generated element is unchanged" means on descriptors: the old descriptor embeds into the
   new one (same names, fields a prefix, nested declarations an order-preserving sub-list).
   Definitions only. *)
From Coq Require Import String List NArith Bool.
From J5V.lib Require Import Outcome Corr.
From J5V.model Require Import J5sAst Desc J5sWalk.
Import ListNotations.
Local Open Scope N_scope.

(* ------------------------------------------------------------------ edits *)
(* where inside a declaration an append lands: [root] picks the message the address starts from
   (the declared object / oneof itself, a method's request or response, a topic message), the
   steps lead from a message to the inline type of its i-th property (through array and map
   items) or to its k-th nested declaration (`schemas`) *)
Inductive step := SInline (i : nat) | SNested (k : nat).
Inductive root := AtDecl | AtRequest (m : nat) | AtResponse (m : nat) | AtTopicMsg (reply : bool) (k : nat).
Inductive action :=
| AField (p : property)      (* a field at the end of the message reached *)
| AOption (o : str)          (* an option at the end of the enum reached *)
| ASub (n : nested).         (* a nested declaration at the end of the message reached *)

Inductive edit :=
| EAppendField (file elem : nat) (p : property)           (* object / oneof declaration *)
| EAppendOption (file elem : nat) (o : str)                (* enum declaration *)
| EAppendDecl (file : nat) (e : element)
| EAppendRequestField (file elem meth : nat) (p : property)
| EAppendResponseField (file elem meth : nat) (p : property)
| EAppendTopicField (file elem msg : nat) (p : property)
| EAppendIn (file elem : nat) (r : root) (path : list step) (a : action)   (* anywhere inside a declaration *)
| EAppendTopicMsg (file elem : nat) (m : tmsg).   (* a message at the end of a publish topic whose messages all carry names *)

(* acceptTopic names the rpc / message of a topic message after the message's own name; the topic's
   name is used only for a message without a name, and only when it is the single one.  So a
   message can be appended to a publish topic exactly when every message there has a name. *)
Definition tm_named (t : tmsg) : bool := match tm_name t with Some _ => true | None => false end.

Fixpoint update_nth {A} (n : nat) (f : A -> A) (l : list A) : list A :=
  match l, n with
  | [], _ => []
  | x :: r, O => f x :: r
  | x :: r, S k => x :: update_nth k f r
  end.

Definition snoc_prop (ps : props) (p : property) : props := papp ps (PCons p PNil).

(* Options may be appended to any enum, whatever they are called: after fix a65e1f2 only a first
   option that spells the zero value (UNSPECIFIED / <PREFIX>UNSPECIFIED) is value 0, so an option
   appended to an enum without options never replaces the implicit <PREFIX>UNSPECIFIED by a value
   of another name (before the fix `enum Status {}` + `option OLD_UNSPECIFIED` renamed value 0:
   regression theorems C13_fixed_append_to_empty_enum / _nested_enum). *)

(* the edit itself: the option goes to the end, whatever it is called *)
Definition enum_snoc (e : enum) (o : str) : enum := mkEnum (e_name e) (e_prefix e) (e_opts e ++ [o]).

(* the inline type of a field (through array and map items) *)
Fixpoint in_field (onmsg : props -> props) (onenum : enum -> enum) (f : field) {struct f} : field :=
  match f with
  | FObjInline nm ps => FObjInline nm (onmsg ps)
  | FOneofInline nm ps => FOneofInline nm (onmsg ps)
  | FEnumInline e => FEnumInline (onenum e)
  | FArray it => FArray (in_field onmsg onenum it)
  | FMap it => FMap (in_field onmsg onenum it)
  | _ => f
  end.

Definition in_nested (onmsg : props -> nesteds -> props * nesteds) (onenum : enum -> enum) (n : nested) : nested :=
  match n with
  | NObject nm ps subs => let (a, c) := onmsg ps subs in NObject nm a c
  | NOneof nm ps subs => let (a, c) := onmsg ps subs in NOneof nm a c
  | NEnum e => NEnum (onenum e)
  end.

Fixpoint update_prop (i : nat) (g : field -> field) (ps : props) : props :=
  match ps, i with
  | PNil, _ => PNil
  | PCons (Property n rq op f) r, O => PCons (Property n rq op (g f)) r
  | PCons q r, S k => PCons q (update_prop k g r)
  end.

Fixpoint update_nested (k : nat) (g : nested -> nested) (ns : nesteds) : nesteds :=
  match ns, k with
  | NNil, _ => NNil
  | NCons n r, O => NCons (g n) r
  | NCons n r, S j => NCons n (update_nested j g r)
  end.

(* the action applied to the message (ps, subs) or, one step further, to an enum; an address
   that leads nowhere changes nothing *)
Fixpoint apply_at (path : list step) (a : action) (ps : props) (subs : nesteds) {struct path} : props * nesteds :=
  let onenum rest := fun e => match rest, a with [], AOption o => enum_snoc e o | _, _ => e end in
  match path with
  | [] =>
      match a with
      | AField p => (snoc_prop ps p, subs)
      | AOption _ => (ps, subs)
      | ASub n => (ps, napp subs (NCons n NNil))
      end
  | SInline i :: rest =>
      (update_prop i (in_field (fun q => fst (apply_at rest a q NNil)) (onenum rest)) ps, subs)
  | SNested k :: rest =>
      (ps, update_nested k (in_nested (apply_at rest a) (onenum rest)) subs)
  end.

Definition apply_props (path : list step) (a : action) (ps : props) : props := fst (apply_at path a ps NNil).

Definition edit_element (e : edit) (el : element) : element :=
  match e, el with
  | EAppendField _ _ p, EObject nm ps subs => EObject nm (snoc_prop ps p) subs
  | EAppendField _ _ p, EOneof nm ps subs => EOneof nm (snoc_prop ps p) subs
  | EAppendOption _ _ o, EEnum en => EEnum (mkEnum (e_name en) (e_prefix en) (e_opts en ++ [o]))
  | EAppendRequestField _ _ m p, EService s =>
      EService (mkService (sv_name s) (sv_base s)
        (update_nth m (fun x => mkMethod (m_name x) (m_verb x) (m_path x) (snoc_prop (m_request x) p) (m_response x))
                    (sv_methods s)))
  | EAppendResponseField _ _ m p, EService s =>
      EService (mkService (sv_name s) (sv_base s)
        (update_nth m (fun x => mkMethod (m_name x) (m_verb x) (m_path x) (m_request x)
                                         (match m_response x with Some r => Some (snoc_prop r p) | None => None end))
                    (sv_methods s)))
  | EAppendTopicField _ _ k p, ETopic t =>
      let upd := update_nth k (fun x => mkTmsg (tm_name x) (snoc_prop (tm_fields x) p)) in
      ETopic (match t with
              | TPublish n msgs => TPublish n (upd msgs)
              | TReqRes n rq rp => TReqRes n (upd rq) rp
              | TUpsert n en m => TUpsert n en (mkTmsg (tm_name m) (snoc_prop (tm_fields m) p))
              | TEvent n en m => TEvent n en (mkTmsg (tm_name m) (snoc_prop (tm_fields m) p))
              end)
  | EAppendTopicMsg _ _ m, ETopic (TPublish n msgs) =>
      if forallb tm_named msgs then ETopic (TPublish n (msgs ++ [m])) else el
  | EAppendIn _ _ AtDecl path a, EObject nm ps subs => let (x, y) := apply_at path a ps subs in EObject nm x y
  | EAppendIn _ _ AtDecl path a, EOneof nm ps subs => let (x, y) := apply_at path a ps subs in EOneof nm x y
  | EAppendIn _ _ (AtRequest m) path a, EService s =>
      EService (mkService (sv_name s) (sv_base s)
        (update_nth m (fun x => mkMethod (m_name x) (m_verb x) (m_path x) (apply_props path a (m_request x)) (m_response x))
                    (sv_methods s)))
  | EAppendIn _ _ (AtResponse m) path a, EService s =>
      EService (mkService (sv_name s) (sv_base s)
        (update_nth m (fun x => mkMethod (m_name x) (m_verb x) (m_path x) (m_request x)
                                         (match m_response x with Some r => Some (apply_props path a r) | None => None end))
                    (sv_methods s)))
  | EAppendIn _ _ (AtTopicMsg reply k) path a, ETopic t =>
      let one := fun x => mkTmsg (tm_name x) (apply_props path a (tm_fields x)) in
      let upd := update_nth k one in
      ETopic (match t with
              | TPublish n msgs => TPublish n (upd msgs)
              | TReqRes n rq rp => if reply then TReqRes n rq (upd rp) else TReqRes n (upd rq) rp
              | TUpsert n en m => TUpsert n en (one m)
              | TEvent n en m => TEvent n en (one m)
              end)
  | _, _ => el
  end.

Definition edit_file (e : edit) (f : jfile) : jfile :=
  match e with
  | EAppendDecl _ d => mkJfile (jf_dir f) (jf_base f) (jf_imports f) (jf_elements f ++ [d])
  | EAppendField _ k _ | EAppendOption _ k _ | EAppendRequestField _ k _ _
  | EAppendResponseField _ k _ _ | EAppendTopicField _ k _ _ | EAppendIn _ k _ _ _ | EAppendTopicMsg _ k _ =>
      mkJfile (jf_dir f) (jf_base f) (jf_imports f) (update_nth k (edit_element e) (jf_elements f))
  end.

Definition edit_target (e : edit) : nat :=
  match e with
  | EAppendField f _ _ | EAppendOption f _ _ | EAppendDecl f _ | EAppendRequestField f _ _ _
  | EAppendResponseField f _ _ _ | EAppendTopicField f _ _ _ | EAppendIn f _ _ _ _ | EAppendTopicMsg f _ _ => f
  end.

Definition apply_edit (bd : bundle) (e : edit) : bundle :=
  update_nth (edit_target e)
    (fun bf => match bf with BJ j => BJ (edit_file e j) | BP p => BP p end) bd.

Definition apply_edits (bd : bundle) (es : list edit) : bundle := fold_left apply_edit es bd.

(* ------------------------------------------------------------------ descriptors: unchanged = embedded *)
Definition prefix_of {A} (l l' : list A) : Prop := exists t, l' = l ++ t.

(* l embeds into l' in order, related elementwise by R *)
Inductive sub_list {A} (R : A -> A -> Prop) : list A -> list A -> Prop :=
| sl_nil : forall l, sub_list R [] l
| sl_keep : forall a c l l', R a c -> sub_list R l l' -> sub_list R (a :: l) (c :: l')
| sl_skip : forall c l l', sub_list R l l' -> sub_list R l (c :: l').

Definition enum_ext (a c : denum) : Prop :=
  en_name a = en_name c /\ prefix_of (en_vals a) (en_vals c).

(* same name and kind; every old field unchanged (name, JSON name, number, type, label,
   optionality, type name) at its position; every old nested message / enum still there *)
Inductive msg_ext : dmsg -> dmsg -> Prop :=
| msg_ext_intro : forall n k fs fs' ms ms' es es',
    prefix_of fs fs' -> sub_list msg_ext ms ms' -> sub_list enum_ext es es' ->
    msg_ext (DMsg n k fs ms es) (DMsg n k fs' ms' es').

Definition service_ext (a c : dservice) : Prop :=
  ds_name a = ds_name c /\ ds_topic a = ds_topic c /\ prefix_of (ds_methods a) (ds_methods c).

Definition file_ext (a c : dfile) : Prop :=
  fl_path a = fl_path c /\ fl_pkg a = fl_pkg c /\
  sub_list msg_ext (fl_msgs a) (fl_msgs c) /\
  sub_list enum_ext (fl_enums a) (fl_enums c) /\
  sub_list service_ext (fl_svcs a) (fl_svcs c).

Definition files_ext (D D' : list dfile) : Prop := sub_list file_ext D D'.

(* ------------------------------------------------------------------ a checker for the embedding *)
(* Sufficient boolean test for files_ext (sound: J5sExtBoolProofs; greedy left-to-right
   matching, complete when sibling names are distinct); evaluated on the real before / after
   descriptors of every generated pair. *)
Section SubListB.
Context {A : Type}.
Variable R : A -> A -> bool.
Fixpoint prefix_b (l l' : list A) {struct l} : bool :=
  match l, l' with
  | [], _ => true
  | a :: r, c :: r' => R a c && prefix_b r r'
  | _ :: _, [] => false
  end.
Fixpoint sub_list_b (l l' : list A) {struct l} : bool :=
  match l with
  | [] => true
  | a :: r =>
      (fix scan (q : list A) {struct q} : bool :=
         match q with
         | [] => false
         | c :: q' => if R a c then sub_list_b r q' else scan q'
         end) l'
  end.
End SubListB.

Definition enum_ext_b (a c : denum) : bool :=
  str_eqb (en_name a) (en_name c) &&
  prefix_b (fun p q => str_eqb (fst p) (fst q) && (snd p =? snd q)) (en_vals a) (en_vals c).

Fixpoint msg_ext_b (x y : dmsg) {struct x} : bool :=
  match x, y with
  | DMsg n k fs ms es, DMsg n' k' fs' ms' es' =>
      str_eqb n n' && mkind_eqb k k' && prefix_b dfield_eqb fs fs' &&
      sub_list_b msg_ext_b ms ms' && sub_list_b enum_ext_b es es'
  end.

Definition service_ext_b (a c : dservice) : bool :=
  str_eqb (ds_name a) (ds_name c) &&
  option_eqb (fun p q => str_eqb (fst p) (fst q) && role_eqb (snd p) (snd q)) (ds_topic a) (ds_topic c) &&
  prefix_b dmethod_eqb (ds_methods a) (ds_methods c).

Definition file_ext_b (a c : dfile) : bool :=
  str_eqb (fl_path a) (fl_path c) && str_eqb (fl_pkg a) (fl_pkg c) &&
  sub_list_b msg_ext_b (fl_msgs a) (fl_msgs c) &&
  sub_list_b enum_ext_b (fl_enums a) (fl_enums c) &&
  sub_list_b service_ext_b (fl_svcs a) (fl_svcs c).

Definition files_ext_b (D D' : list dfile) : bool := sub_list_b file_ext_b D D'.

(* ------------------------------------------------------------------ source files: extended by appends *)
(* What any sequence of C13 edits does to a source file, as a relation: properties appended
   to objects / oneofs / requests / responses / topic messages and to the inline objects /
   oneofs inside them (to any depth, also through arrays and maps) and to the nested
   declarations of objects / oneofs, options appended to enums - declared, nested or inline; nested declarations appended to objects / oneofs, declarations appended to the
   file. *)
Inductive field_ext : field -> field -> Prop :=
| fe_refl : forall f, field_ext f f
| fe_obj : forall nm ps ps', props_ext ps ps' -> field_ext (FObjInline nm ps) (FObjInline nm ps')
| fe_oneof : forall nm ps ps', props_ext ps ps' -> field_ext (FOneofInline nm ps) (FOneofInline nm ps')
| fe_enum : forall nm pfx opts extra,
    field_ext (FEnumInline (mkEnum nm pfx opts)) (FEnumInline (mkEnum nm pfx (opts ++ extra)))
| fe_array : forall it it', field_ext it it' -> field_ext (FArray it) (FArray it')
| fe_map : forall it it', field_ext it it' -> field_ext (FMap it) (FMap it')
with props_ext : props -> props -> Prop :=
| pe_nil : forall extra, props_ext PNil extra
| pe_cons : forall n rq op f f' r r', field_ext f f' -> props_ext r r' ->
    props_ext (PCons (Property n rq op f) r) (PCons (Property n rq op f') r').

Scheme field_ext_mind := Induction for field_ext Sort Prop
  with props_ext_mind := Induction for props_ext Sort Prop.
Combined Scheme ext_mutind from field_ext_mind, props_ext_mind.
Scheme field_ext_min := Minimality for field_ext Sort Prop
  with props_ext_min := Minimality for props_ext Sort Prop.
Combined Scheme ext_min from field_ext_min, props_ext_min.

(* nested declarations (`schemas`): each extended in the same way, more of them at the end *)
Inductive nested_ext : nested -> nested -> Prop :=
| ne_refl : forall n, nested_ext n n
| ne_obj : forall nm ps ps' subs subs', props_ext ps ps' -> nesteds_ext subs subs' ->
    nested_ext (NObject nm ps subs) (NObject nm ps' subs')
| ne_oneof : forall nm ps ps' subs subs', props_ext ps ps' -> nesteds_ext subs subs' ->
    nested_ext (NOneof nm ps subs) (NOneof nm ps' subs')
| ne_enum : forall nm pfx opts extra,
    nested_ext (NEnum (mkEnum nm pfx opts)) (NEnum (mkEnum nm pfx (opts ++ extra)))
with nesteds_ext : nesteds -> nesteds -> Prop :=
| nn_nil : forall extra, nesteds_ext NNil extra
| nn_cons : forall n n' r r', nested_ext n n' -> nesteds_ext r r' -> nesteds_ext (NCons n r) (NCons n' r').

Scheme nested_ext_min := Minimality for nested_ext Sort Prop
  with nesteds_ext_min := Minimality for nesteds_ext Sort Prop.
Combined Scheme next_min from nested_ext_min, nesteds_ext_min.

Definition method_ext (m m' : method) : Prop :=
  m_name m' = m_name m /\ m_verb m' = m_verb m /\ m_path m' = m_path m /\
  props_ext (m_request m) (m_request m') /\
  match m_response m, m_response m' with
  | None, None => True
  | Some r, Some r' => props_ext r r'
  | _, _ => False
  end.

Definition tmsg_ext (t t' : tmsg) : Prop :=
  tm_name t' = tm_name t /\ props_ext (tm_fields t) (tm_fields t').

Inductive topic_ext : topic -> topic -> Prop :=
| te_publish : forall n ms ms', Forall2 tmsg_ext ms ms' -> topic_ext (TPublish n ms) (TPublish n ms')
| te_reqres : forall n rq rq' rp rp', Forall2 tmsg_ext rq rq' -> Forall2 tmsg_ext rp rp' ->
    topic_ext (TReqRes n rq rp) (TReqRes n rq' rp')
| te_upsert : forall n en m m', tmsg_ext m m' -> topic_ext (TUpsert n en m) (TUpsert n en m')
| te_event : forall n en m m', tmsg_ext m m' -> topic_ext (TEvent n en m) (TEvent n en m')
(* messages appended to a publish topic all of whose messages carry names of their own *)
| te_publish_app : forall n ms ms1 extra, Forall2 tmsg_ext ms ms1 -> forallb tm_named ms = true ->
    topic_ext (TPublish n ms) (TPublish n (ms1 ++ extra)).

Inductive element_ext : element -> element -> Prop :=
| ee_object : forall nm ps ps' subs subs', props_ext ps ps' -> nesteds_ext subs subs' ->
    element_ext (EObject nm ps subs) (EObject nm ps' subs')
| ee_oneof : forall nm ps ps' subs subs', props_ext ps ps' -> nesteds_ext subs subs' ->
    element_ext (EOneof nm ps subs) (EOneof nm ps' subs')
| ee_enum_same : forall en, element_ext (EEnum en) (EEnum en)
| ee_enum : forall nm pfx opts extra,
    element_ext (EEnum (mkEnum nm pfx opts)) (EEnum (mkEnum nm pfx (opts ++ extra)))
| ee_service : forall nm base ms ms', Forall2 method_ext ms ms' ->
    element_ext (EService (mkService nm base ms)) (EService (mkService nm base ms'))
| ee_topic : forall t t', topic_ext t t' -> element_ext (ETopic t) (ETopic t').

Definition file_src_ext (f f' : jfile) : Prop :=
  jf_dir f' = jf_dir f /\ jf_base f' = jf_base f /\ jf_imports f' = jf_imports f /\
  exists els1 extra, Forall2 element_ext (jf_elements f) els1 /\ jf_elements f' = els1 ++ extra.

(* CmpbWalkFile.v — what follows the walk in bcl.Parser.ParseAST / j5parse.ParseFile and sourcewalk:
   validateFile (protovalidate on the filled SourceFile, errors positioned through sourceSet.field), and the
   reading of the filled file as the converter model's located declarations ([ldecl], model/CmpbFront.v):
   which top-level elements there are, in order, each property of an object / oneof with the abstract field the
   converter model decides on.  [j5s_walk] is the instance of CmpbFront's [walk] parameter.  No proofs here. *)
From Coq Require Import Ascii String List NArith ZArith Bool Arith.
From J5V.lib Require Import Text Outcome.
From J5V.gen Require WalkSchemaGen.
From J5V.model Require Import BclLexer BclParser CmpbFields CmpbDecls CmpbFront CmpbWalk.
Import ListNotations.
Local Open Scope string_scope.
Local Open Scope bool_scope.
Local Open Scope list_scope.

(* ------------------------------------------------------------------ reading the state *)
Fixpoint path_eqb (a b : path) : bool :=
  match a, b with
  | [], [] => true
  | x :: r, y :: s => String.eqb x y && path_eqb r s
  | _, _ => false
  end.
(* the value a scalar holds: the last one stored at the path *)
Definition val_at (vals : list (path * sval)) (p : path) : option sval :=
  match find (fun e => path_eqb (fst e) p) (rev vals) with Some e => Some (snd e) | None => None end.
Definition str_at (vals : list (path * sval)) (p : path) : list N :=
  match val_at vals p with Some (_, l) => l | None => [] end.
Definition bool_at (vals : list (path * sval)) (p : path) : bool :=
  match val_at vals p with Some (1%N, l) => list_N_eqb l lit_true | _ => false end.
Definition child_names (t : loc) (p : path) : list string :=
  match loc_get t p with Some n => map fst (loc_children n) | None => [] end.

(* ------------------------------------------------------------------ protovalidate rules of the sourcedef / schema protos *)
(* hand-copied from proto/j5build/j5/sourcedef/v1/file.proto and proto/j5/j5/schema/v1/schema.proto (the
   (buf.validate.field) / (buf.validate.oneof) annotations): (schema, JSON name, proto field name, rule) *)
Inductive vrule := VReqMsg | VReqRepeated | VReqString | VEnumNonZero | VNamePattern | VOneofRequired | VEntityPattern.
Definition vrules : list (string * string * string * vrule) :=
  [ ("j5.sourcedef.v1.Entity", "status", "status", VReqRepeated);
    ("j5.sourcedef.v1.APIMethod", "httpMethod", "http_method", VEnumNonZero);
    ("j5.sourcedef.v1.APIMethod", "request", "request", VReqMsg);
    ("j5.sourcedef.v1.EntityKey", "def", "def", VReqMsg);
    ("j5.sourcedef.v1.TopicType_Upsert", "message", "message", VReqMsg);
    ("j5.sourcedef.v1.TopicType_Event", "message", "message", VReqMsg);
    ("j5.sourcedef.v1.TopicMethod", "name", "name", VNamePattern);
    ("j5.schema.v1.Field", "", "type", VOneofRequired);
    ("j5.schema.v1.EntityObject", "entity", "entity", VEntityPattern);
    ("j5.schema.v1.IntegerField", "format", "format", VEnumNonZero);
    ("j5.schema.v1.KeyFormat_Custom", "pattern", "pattern", VReqString) ].
(* the annotations [vrules] was written from, as the translator reads them from the two .proto files on every run
   (WalkSchemaGen.validate_annotations; agreement lemma validate_sources_agree): `response` required = false is no
   rule *)
Definition vrule_sources : list (string * string * string) :=
  [ ("file.proto", "status", "(buf.validate.field).required = true");
    ("file.proto", "http_method", "(buf.validate.field).enum = { not_in: 0 defined_only: true }");
    ("file.proto", "request", "(buf.validate.field).required = true");
    ("file.proto", "response", "(buf.validate.field).required = false");
    ("file.proto", "def", "(buf.validate.field).required = true, (j5.ext.v1.field).message.flatten = true");
    ("file.proto", "message", "(buf.validate.field).required = true");
    ("file.proto", "message", "(buf.validate.field).required = true");
    ("file.proto", "name", "(buf.validate.field).string.pattern = ""^[A-Z][A-Za-zA-Z0-9]+$""");
    ("schema.proto", "entity", "(buf.validate.field).string.pattern = ""^[A-Z][a-zA-Z0-9_]*$""");
    ("schema.proto", "format", "(buf.validate.field) = { enum: {not_in: 0} required: true }");
    ("schema.proto", "pattern", "(buf.validate.field).required = true");
    ("schema.proto", "oneof", "(buf.validate.oneof).required = true") ].
(* every annotated field has a rule (by proto field name; the oneof rule is named after the oneof) or is one of the two exemptions *)
Definition vrule_covered (row : string * string * string) : bool :=
  let f := snd (fst row) in
  existsb (fun r => String.eqb (snd (fst r)) f || (String.eqb f "oneof" && String.eqb (snd (fst r)) "type")) vrules
  || String.eqb f "response".

(* schemas whose rules are not modelled (string patterns on implicit-presence fields) *)
Definition vunmodelled : list string := [].

Definition is_upper (c : N) : bool := N.leb 65 c && N.leb c 90.
Definition is_lower (c : N) : bool := N.leb 97 c && N.leb c 122.
Definition is_digit (c : N) : bool := N.leb 48 c && N.leb c 57.
(* ^[A-Z][A-Za-zA-Z0-9]+$ *)
Definition name_pattern_ok (l : list N) : bool :=
  match l with
  | c :: (_ :: _) as r => is_upper c && forallb (fun x => is_upper x || is_lower x || is_digit x) r
  | _ => false
  end.
(* ^[A-Z][a-zA-Z0-9_]*$ on a string without presence: the empty string is validated too *)
Definition entity_pattern_ok (l : list N) : bool :=
  match l with
  | c :: r => is_upper c && forallb (fun x => is_upper x || is_lower x || is_digit x || N.eqb x 95) r
  | [] => false
  end.
Definition lit_unspecified : list N := runes_of_string "UNSPECIFIED".
Fixpoint is_suffix_N (s l : list N) : bool :=
  list_N_eqb s l || match l with [] => false | _ :: r => is_suffix_N s r end.

(* a violation: the location path of the message and the PROTO name of the field the violation is reported on *)
Definition violation : Type := (path * string)%type.

Definition check_rule (t : loc) (vals : list (path * sval)) (p : path) (r : string * string * string * vrule) : list violation :=
  match r with
  | (_, jn, pn, rule) =>
      let present := loc_has t (p ++ [jn]) in
      match rule with
      | VReqMsg => if present then [] else [(p, pn)]
      | VReqRepeated => if Nat.ltb 0 (child_count t (p ++ [jn])) then [] else [(p, pn)]
      | VReqString => match str_at vals (p ++ [jn]) with [] => [(p, pn)] | _ => [] end
      | VEnumNonZero =>
          match val_at vals (p ++ [jn]) with
          | Some (_, l) => if is_suffix_N lit_unspecified l then [(p, pn)] else []
          | None => [(p, pn)]
          end
      | VNamePattern =>
          match val_at vals (p ++ [jn]) with
          | Some (_, l) => if name_pattern_ok l then [] else [(p, pn)]
          | None => []
          end
      | VOneofRequired => match child_names t p with [] => [(p, pn)] | _ => [] end
      | VEntityPattern => if entity_pattern_ok (str_at vals (p ++ [jn])) then [] else [(p, pn)]
      end
  end.

Inductive vres := VlOk (vs : list violation) | VlUnmod (why : string).
Definition vapp (a b : vres) : vres :=
  match a, b with
  | VlOk x, VlOk y => VlOk (x ++ y)
  | VlUnmod w, _ | _, VlUnmod w => VlUnmod w
  end.

(* walk the filled message along the schema (fuel: the depth of the location tree bounds the nesting) *)
Fixpoint validate_msg (fuel : nat) (t : loc) (vals : list (path * sval)) (sn : string) (p : path) : vres :=
  match fuel with
  | O => VlOk []
  | S f =>
      if mem_str sn vunmodelled then VlUnmod "validation rule not modelled" else
      match find_schema sn with
      | None => VlOk []
      | Some d =>
          if sd_oneof d && Nat.ltb 1 (length (child_names t p)) then VlUnmod "oneof with two members" else
          let own := flat_map (check_rule t vals p) (filter (fun r => String.eqb (fst (fst (fst r))) sn) vrules) in
          fold_left (fun acc pd =>
            let q := p ++ pd_path pd in
            if negb (loc_has t q) then acc else
            match pd_ty pd with
            | PObject s | POneof s => vapp acc (validate_msg f t vals s q)
            | PArrObject s | PArrOneof s =>
                fold_left (fun acc k => vapp acc (validate_msg f t vals s (q ++ [k]))) (child_names t q) acc
            | _ => acc
            end) (sd_props d) (VlOk own)
      end
  end.

Fixpoint loc_depth (t : loc) : nat :=
  match t with
  | Loc _ cs => S ((fix go (cs : list (string * loc)) : nat :=
                      match cs with [] => 0 | (_, c) :: r => Nat.max (loc_depth c) (go r) end) cs)
  end.
Definition validate (s : wstate) : vres :=
  validate_msg (S (loc_depth (ws_loc s))) (ws_loc s) (ws_vals s) WalkSchemaGen.root_schema [].

(* sourceSet.field along the violation's field path (PROTO field names): an existing child is followed (its
   start is overwritten with the parent's when its start line is 0), a missing one is created with the
   parent's start and no end; location children are keyed by JSON names, so a part whose JSON name differs
   from its proto name (any upper-case letter) is never found *)
Definition has_upper (s : string) : bool := existsb is_upper (runes_of_string s).
Fixpoint violation_walk (t : loc) (p : path) (start : pos) : span :=
  match p with
  | [] => (start, snd (loc_span t))
  | k :: r =>
      match (if has_upper k then None else find_child k (loc_children t)) with
      | Some c =>
          let st := if Z.eqb (fst (fst (loc_span c))) 0 then start else fst (loc_span c) in
          match r with
          | [] => (st, snd (loc_span c))
          | _ => violation_walk c r st
          end
      | None => (start, pos0)
      end
  end.
Definition violation_span (t : loc) (v : violation) : span :=
  violation_walk t (fst v ++ [snd v]) (fst (loc_span t)).

(* ------------------------------------------------------------------ the filled file as located declarations *)
Section Abstraction.
  (* how a type reference resolves in the package the file belongs to (package as written, schema name) *)
  Variable resolve : list N -> list N -> ref_out.

  Variable t : loc.
  Variable vals : list (path * sval).

  (* a reference into an implicitly imported j5 package (`object:j5.state.v1.StateMetadata`) is taken as found in
     another file; an object / oneof field with neither a reference nor an inline body (`field child object {` `}`) is
     an inline type without members (sourcewalk builds it), an enum field without either has no type *)
  Definition j5_prefix : list N := runes_of_string "j5.".
  Fixpoint is_prefix_N (p l : list N) : bool :=
    match p, l with
    | [], _ => true
    | x :: r, y :: s => N.eqb x y && is_prefix_N r s
    | _ :: _, [] => false
    end.
  Definition ref_of (q : path) (inline : string) (want : refkind) (dflt : ref_out) : ref_out :=
    if loc_has t (q ++ ["ref"]) then
      let pkg := str_at vals (q ++ ["ref"; "package"]) in
      if is_prefix_N j5_prefix pkg then RFound want CmpbFields.FOther else resolve pkg (str_at vals (q ++ ["ref"; "schema"]))
    else if loc_has t (q ++ [inline]) then dflt
    else match want with CmpbFields.KMsg => dflt | CmpbFields.KEnum => RNil end.

  Definition int_fmt (l : list N) : intfmt :=
    if is_suffix_N (runes_of_string "UINT32") l then U32 else if is_suffix_N (runes_of_string "UINT64") l then U64
    else if is_suffix_N (runes_of_string "INT32") l then I32 else if is_suffix_N (runes_of_string "INT64") l then I64
    else IUnspec.
  Definition flt_fmt (l : list N) : fltfmt :=
    if is_suffix_N (runes_of_string "FLOAT32") l then F32 else if is_suffix_N (runes_of_string "FLOAT64") l then F64 else FUnspec.
  Definition num_at (q : path) : option N := match val_at vals q with Some (2%N, l) => parse_dec l | _ => None end.
  Definition int_max (f : intfmt) : N :=
    match f with I32 => 2 ^ 31 - 1 | I64 => 2 ^ 63 - 1 | U32 => 2 ^ 32 - 1 | _ => 2 ^ 64 - 1 end%N.
  (* checkIntegerBounds: a bound outside the format's range, or minimum > maximum (literals are unsigned) *)
  Definition int_rules_at (f : intfmt) (q : path) : option int_rules :=
    if negb (loc_has t q) then None else
    let mn := num_at (q ++ ["minimum"]) in
    let mx := num_at (q ++ ["maximum"]) in
    let over o := match o with Some n => N.ltb (int_max f) n | None => false end in
    let crossed := match mn, mx with Some a, Some b => N.ltb b a | _, _ => false end in
    let ob (n : string) := if loc_has t (q ++ [n]) then Some (bool_at vals (q ++ [n])) else None in
    Some (mkIR (match mn with Some _ => true | None => false end) (match mx with Some _ => true | None => false end)
               (ob "exclusiveMinimum") (ob "exclusiveMaximum") (over mn || over mx || crossed)).

  (* the values a `rules.in` / `rules.notIn` lists, against the options of the enum when it is a top-level enum of
     this file (otherwise taken as existing) *)
  Definition array_vals (q : path) : list (list N) :=
    map (fun e => snd (snd e)) (filter (fun e => path_eqb (fst e) q) vals).
  Definition local_enum_options (name : list N) : option (list (list N)) :=
    match find (fun k => loc_has t ["elements"; k; "enum"] && list_N_eqb (str_at vals ["elements"; k; "enum"; "name"]) name)
               (child_names t ["elements"]) with
    | Some k => Some (map (fun o => str_at vals ["elements"; k; "enum"; "options"; o; "name"]) (child_names t ["elements"; k; "enum"; "options"]))
    | None => None
    end.
  Definition enum_values_ok (a : path) : bool :=
    match str_at vals (a ++ ["ref"; "package"]), local_enum_options (str_at vals (a ++ ["ref"; "schema"])) with
    | [], Some opts =>
        forallb (fun v => existsb (fun o => is_suffix_N o v || is_suffix_N v o) opts)
                (array_vals (a ++ ["rules"; "in"]) ++ array_vals (a ++ ["rules"; "notIn"]))
    | _, _ => true
    end.

  (* the abstract field of a j5.schema.v1.Field message at location path [q]; items of arrays / maps are
     fields again: [TOther] as the converter's default arm *)
  Definition abs_fty (q : path) : fty :=
    match child_names t q with
    | [] => TOther
    | arm :: _ =>
        let a := q ++ [arm] in
        let has n := loc_has t (a ++ [n]) in
        if String.eqb arm "object" then TObject (ref_of a "object" CmpbFields.KMsg RInlineObject) (bool_at vals (a ++ ["flatten"])) (has "rules")
        else if String.eqb arm "oneof" then TOneof (ref_of a "oneof" CmpbFields.KMsg RInlineOneof) (has "rules") (has "listRules")
        else if String.eqb arm "enum" then TEnum (ref_of a "enum" CmpbFields.KEnum RInlineEnum) (if has "rules" then Some (enum_values_ok a) else None) (has "listRules")
        else if String.eqb arm "bool" then TBool (has "rules") (has "listRules")
        else if String.eqb arm "bytes" then TBytes (has "rules")
        else if String.eqb arm "date" then TDate (has "rules") (has "listRules")
        else if String.eqb arm "decimal" then TDecimal (has "rules") (has "listRules")
        else if String.eqb arm "float" then TFloat (flt_fmt (str_at vals (a ++ ["format"]))) (has "rules") (has "listRules")
        else if String.eqb arm "integer" then
          let f := int_fmt (str_at vals (a ++ ["format"])) in TInteger f (int_rules_at f (a ++ ["rules"])) (has "listRules")
        else if String.eqb arm "key" then
          let e := if negb (has "entity") then ENone
                   else if loc_has t (a ++ ["entity"; "primaryKey"]) then EPrimary (bool_at vals (a ++ ["entity"; "primaryKey"]))
                   else if loc_has t (a ++ ["entity"; "foreignKey"]) then EForeign else ENilType in
          let f := match child_names t (a ++ ["format"]) with
                   | [] => if has "format" then KNilType else KNone
                   | k :: _ => if String.eqb k "informal" then KInformal else if String.eqb k "custom" then KCustom
                               else if String.eqb k "uuid" then KUuid else KId62
                   end in
          TKey e (loc_has t (a ++ ["entity"; "tenantKey"])) f (has "listRules")
        else if String.eqb arm "string" then TString (has "rules") (has "listRules")
        else if String.eqb arm "timestamp" then TTimestamp (has "rules") (has "listRules")
        else if String.eqb arm "any" then TAny (has "listRules")
        else TOther
    end.

  Definition abs_shape (q : path) : shape :=
    match child_names t q with
    | arm :: _ =>
        let a := q ++ [arm] in
        if String.eqb arm "array" then
          Array (if loc_has t (a ++ ["items"]) then Some (abs_fty (a ++ ["items"])) else None)
                (if loc_has t (a ++ ["ext"]) then Some (loc_has t (a ++ ["ext"; "singleForm"])) else None)
                (loc_has t (a ++ ["rules"]))
        else if String.eqb arm "map" then
          Map (if loc_has t (a ++ ["itemSchema"]) then Some (abs_fty (a ++ ["itemSchema"])) else None) (loc_has t (a ++ ["rules"]))
        else Plain (abs_fty q)
    | [] => Plain TOther
    end.

  (* one j5.schema.v1.ObjectProperty at location path [q]; [src] = the path of the sourcewalk PropertyNode errors go to
     (schema.go mapProperties); the RefNode of its (item) type: property.go buildFieldNode *)
  Definition ref_path (q src : path) : path :=
    let sch := q ++ ["schema"] in
    match child_names t sch with
    | arm :: _ =>
        if String.eqb arm "array" then
          src ++ ["schema"; "array"; "items"] ++ (match child_names t (sch ++ ["array"; "items"]) with k :: _ => [k] | [] => [] end) ++ ["ref"]
        else if String.eqb arm "map" then
          src ++ ["schema"; "map"; "itemSchema"] ++ (match child_names t (sch ++ ["map"; "itemSchema"]) with k :: _ => [k] | [] => [] end) ++ ["ref"]
        else src ++ ["schema"; arm; "ref"]
    | [] => src ++ ["schema"; "ref"]
    end.
  Definition abs_lprop (q src : path) : lprop :=
    let sch := q ++ ["schema"] in
    let nilsch := match child_names t sch with [] => true | _ => false end in
    mkLP (mkProp nilsch (abs_shape sch) (bool_at vals (q ++ ["required"])) (bool_at vals (q ++ ["explicitlyOptional"])))
         src (ref_path q src).

  Definition abs_props (q src : path) : list lprop :=
    map (fun k => abs_lprop (q ++ [k]) (src ++ [k])) (child_names t q).

  Definition http_of (l : list N) : http :=
    if is_suffix_N (runes_of_string "GET") l then HGet else if is_suffix_N (runes_of_string "POST") l then HPost
    else if is_suffix_N (runes_of_string "PUT") l then HPut else if is_suffix_N (runes_of_string "PATCH") l then HPatch
    else if is_suffix_N (runes_of_string "DELETE") l then HDelete else HUnspecified.

  (* path parameters (`:name` parts of httpPath) against the names of the request fields *)
  Definition path_params (l : list N) : list (list N) :=
    flat_map (fun seg => match seg with 58%N :: nm => [nm] | _ => [] end) (split_on 47 l).
  Definition abs_method (q : path) : method :=
    let req := q ++ ["request"; "properties"] in
    let names := map (fun k => str_at vals (req ++ [k; "name"])) (child_names t req) in
    mkMethod (loc_has t (q ++ ["request"])) (http_of (str_at vals (q ++ ["httpMethod"])))
             (negb (loc_has t (q ++ ["response"])))
             (forallb (fun pn => existsb (list_N_eqb pn) names) (path_params (str_at vals (q ++ ["httpPath"]))))
             (loc_has t (q ++ ["options"])) (loc_has t (q ++ ["listRequest"])).

  Definition abs_topic (q : path) : topic :=
    match child_names t (q ++ ["type"]) with
    | k :: _ =>
        let a := q ++ ["type"; k] in
        if String.eqb k "publish" then TPublish (child_count t (a ++ ["messages"]))
        else if String.eqb k "reqres" then TReqRes (child_count t (a ++ ["request"])) (child_count t (a ++ ["reply"]))
        else if String.eqb k "upsert" then TUpsert else TEvent
    | [] => TPublish 0
    end.

  (* one element of SourceFile.elements at index key [k]: sourcewalk (file.go) reports on
     elements.<k>.<kind> (and object / oneof properties below <kind>.<kind>... : the doubled part is not in the
     tree, see notes); the declaration kinds the converter model has.  Entities are expanded by sourcewalk into
     objects and services (model/CmpbEntity.v): not read here *)
  Definition abs_element (k : string) : list ldecl :=
    let e := ["elements"; k] in
    match child_names t e with
    | kind :: _ =>
        let q := e ++ [kind] in
        if String.eqb kind "object" then
          [LObject (q ++ ["object"]) (loc_has t (q ++ ["def"; "entity"])) (abs_props (q ++ ["def"; "properties"]) (q ++ ["object"; "def"; "properties"]))]
        else if String.eqb kind "oneof" then
          [LOneof (q ++ ["oneof"]) (abs_props (q ++ ["def"; "properties"]) (q ++ ["oneof"; "def"; "properties"]))]
        else if String.eqb kind "enum" then
          [LEnum q (mkEnum (Nat.ltb 0 (child_count t (q ++ ["info"])))
                          (map (fun o => loc_has t (q ++ ["options"; o; "info"])) (child_names t (q ++ ["options"]))))]
        else if String.eqb kind "service" then
          [LService q (loc_has t (q ++ ["options"]))
                    (map (fun m => (abs_method (q ++ ["methods"; m]), q ++ ["methods"; m; "request"])) (child_names t (q ++ ["methods"])))]
        else if String.eqb kind "topic" then [LTopic q (abs_topic q)]
        else []
    | [] => []
    end.

  Definition abs_decls : list ldecl := flat_map abs_element (child_names t ["elements"]).
End Abstraction.

(* ------------------------------------------------------------------ the walk step of the front end *)
Definition E_UNMODELLED : string := "walker: outside the model".

(* [mk_resolve]: how a type reference resolves, given the filled file (so that it may look at the file's own
   declarations) *)
Definition j5s_walk_gen (mk_resolve : loc -> list (path * sval) -> list N -> list N -> ref_out) (body : list stmt) : outcome walk_out :=
  match walk_schema body with
  | SOk s =>
      match validate s with
      | VlOk [] => Ok (WalkFile (ws_loc s) (abs_decls (mk_resolve (ws_loc s) (ws_vals s)) (ws_loc s) (ws_vals s)))
      | VlOk vs => Ok (WalkErrs (map (violation_span (ws_loc s)) vs))
      | VlUnmod _ => Err E_UNMODELLED
      end
  | SErr sp _ => Ok (WalkErrs [sp])
  | SPanic x => Panic x
  | SUnmod _ => Err E_UNMODELLED
  end.
Definition j5s_walk (resolve : list N -> list N -> ref_out) : list stmt -> outcome walk_out := j5s_walk_gen (fun _ _ => resolve).

(* a file alone in its package: a reference without package part resolves to a top-level object / oneof / enum of
   the file itself; everything else is not found *)
Definition resolve_in_file (t : loc) (vals : list (path * sval)) (pkg schema : list N) : ref_out :=
  match pkg with
  | _ :: _ => RNotFound
  | [] =>
      match find (fun k => existsb (fun kd => loc_has t ["elements"; k; fst kd] && list_N_eqb (str_at vals (["elements"; k; fst kd] ++ snd kd)) schema)
                                   [("object", ["def"; "name"]); ("oneof", ["def"; "name"]); ("enum", ["name"])])
                 (child_names t ["elements"]) with
      | Some k => if loc_has t ["elements"; k; "enum"] then RFound CmpbFields.KEnum FSame else RFound CmpbFields.KMsg FSame
      | None => RNotFound
      end
  end.
Definition j5s_walk_alone : list stmt -> outcome walk_out := j5s_walk_gen resolve_in_file.

(* every reference resolves nowhere: the file alone, nothing else in its package *)
Definition resolve_none (_ _ : list N) : ref_out := RNotFound.

(* RulesWrite.v — model of the writer: internal/j5s/j5convert/fields.go
   buildField (per field type) and buildProperty (array/map wrapping, required,
   primary keys forced required, explicitly optional), and of
   internal/j5s/j5convert/summary.go mapValues + summary_walk.go enumTypeRef.
   Follows the code as it is at /repo HEAD (after the fix: commits recorded in
   KNOWN_FINDINGS.txt). No proofs here. *)
From Coq Require Import String List NArith ZArith Bool.
From J5V.lib Require Import Outcome Strcase.
From J5V.model Require Import RulesDecl.
From J5V.gen Require Id62Gen.
Import ListNotations.
Local Open Scope Z_scope.

(* ---- Go integer conversions int64 -> int32/uint32/uint64 ------------------ *)
Definition wrap_signed (bits : Z) (z : Z) : Z :=
  let r := z mod 2 ^ bits in if r <? 2 ^ (bits - 1) then r else r - 2 ^ bits.
Definition cast (k : ikind) (z : Z) : Z :=
  match k with
  | I32 => wrap_signed 32 z
  | I64 => z
  | U32 => z mod 2 ^ 32
  | U64 => z mod 2 ^ 64
  end.

Definition is_true (o : option bool) : bool := match o with Some true => true | _ => false end.
Definition is_some {A} (o : option A) : bool := match o with Some _ => true | None => false end.

(* checkIntegerBounds: the bounds a format's rule can hold (declared bounds are int64) *)
Definition bound_ok (k : ikind) (z : Z) : bool :=
  match k with
  | I32 => (- 2 ^ 31 <=? z) && (z <? 2 ^ 31)
  | I64 => (- 2 ^ 63 <=? z) && (z <? 2 ^ 63)
  | U32 => (0 <=? z) && (z <? 2 ^ 32)
  | U64 => (0 <=? z) && (z <? 2 ^ 63)
  end.
Definition opt_bound_ok (k : ikind) (o : option Z) : bool :=
  match o with Some z => bound_ok k z | None => true end.

(* integer rules: the early errors (flag without bound, bound out of range,
   minimum above maximum), then lt/lte and gt/gte selection *)
Definition write_int_rules (k : ikind) (r : int_rules) : outcome tyc :=
  match ir_xmin r, ir_min r with
  | Some false, None => Err "exclusive minimum requires minimum"
  | _, _ =>
    match ir_xmax r, ir_max r with
    | Some false, None => Err "exclusive maximum requires maximum"
    | _, _ =>
      if negb (opt_bound_ok k (ir_min r)) then Err "minimum out of range"
      else if negb (opt_bound_ok k (ir_max r)) then Err "maximum out of range"
      else if match ir_min r, ir_max r with Some a, Some b => b <? a | _, _ => false end
      then Err "minimum is greater than maximum"
      else
      Ok (CInt k
            (match ir_max r with
             | None => NoUb
             | Some m => if is_true (ir_xmax r) then Lt (cast k m) else Lte (cast k m)
             end)
            (match ir_min r with
             | None => NoLb
             | Some m => if is_true (ir_xmin r) then Gt (cast k m) else Gte (cast k m)
             end))
    end
  end.

(* ---- enum value names -> numbers (mapValues over enumTypeRef's ValMap) ---- *)
Fixpoint str_eqb (a b : str) : bool :=
  match a, b with
  | [], [] => true
  | x :: r, y :: s => N.eqb x y && str_eqb r s
  | _, _ => false
  end.
Fixpoint has_prefix (p s : str) : bool :=
  match p, s with
  | [], _ => true
  | x :: r, y :: t => N.eqb x y && has_prefix r t
  | _ :: _, [] => false
  end.
Definition with_prefix (env : enum_env) (name : str) : str :=
  if has_prefix (ee_prefix env) name then name else (ee_prefix env ++ name)%list.

(* ValMap: declared option i (0-based) under its full name -> i+1 *)
Fixpoint lookup_from (env : enum_env) (opts : list str) (i : Z) (full : str) : option Z :=
  match opts with
  | [] => None
  | o :: r => match lookup_from env r (i + 1) full with
              | Some n => Some n               (* Go map: a later duplicate key overwrites *)
              | None => if str_eqb (with_prefix env o) full then Some i else None
              end
  end.
(* ... and the explicit zero option, if any, under its full name -> 0 (entered
   first: a later option of the same name would overwrite it) *)
Definition map_value (env : enum_env) (name : str) : option Z :=
  match lookup_from env (ee_options env) 1 (with_prefix env name) with
  | Some n => Some n
  | None =>
      match ee_zero env with
      | Some z => if str_eqb (with_prefix env z) (with_prefix env name) then Some 0 else None
      | None => None
      end
  end.
Fixpoint map_values (env : enum_env) (names : list str) : outcome (list Z) :=
  match names with
  | [] => Ok []
  | n :: r => match map_value env n with
              | None => Err "enum value not found"
              | Some z => obind (map_values env r) (fun zs => Ok (z :: zs))
              end
  end.

(* a key type marked as the primary key of its entity *)
Definition is_primary_ty (t : fty) : bool :=
  match t with
  | TKey _ (Some e) _ => match ek_type e with Some (EPrimary true) => true | _ => false end
  | _ => false
  end.

(* ---- buildField ----------------------------------------------------------- *)
Record fieldw := FW {
  fw_kind : pkind;
  fw_val : option constraint;
  fw_ext : option j5ext;
  fw_list : option (larm * lpay);
  fw_key : option keyext }.

Definition only_ty (t : tyc) : option constraint := Some (C false (Some t)).
Definition with_arm (a : larm) (l : option lpay) : option (larm * lpay) :=
  match l with Some p => Some (a, p) | None => None end.

Definition int_pkind (k : ikind) : pkind :=
  match k with I32 => KdInt32 | I64 => KdInt64 | U32 => KdUint32 | U64 => KdUint64 end.
Definition int_larm (k : ikind) : larm :=
  match k with I32 => LInt32 | I64 => LInt64 | U32 => LUint32 | U64 => LUint64 end.

Definition key_ext (e : entity_key) : keyext :=
  KX (match ek_type e with Some (EPrimary true) => true | _ => false end)
     (match ek_type e with Some (EForeign p n) => Some (p, n) | _ => None end)
     (ek_tenant e).

Definition write_field (env : enum_env) (t : fty) : outcome fieldw :=
  match t with
  | TInt k r l =>
      obind (match r with
             | None => Ok None
             | Some r => obind (write_int_rules k r) (fun c => Ok (only_ty c))
             end)
        (fun v => Ok (FW (int_pkind k) v (Some XInteger) (with_arm (int_larm k) l) None))
  | TStr _ r l =>              (* StringField.format is not looked at *)
      Ok (FW KdString
            (match r with None => None | Some r => only_ty (CStr (sr_min r) (sr_max r) (sr_pat r) false) end)
            (Some XString) (with_arm LStrOpenText l) None)
  | TBytes r =>
      Ok (FW KdBytes
            (match r with None => None | Some r => only_ty (CBytes (lr_min r) (lr_max r)) end)
            (Some XBytes) None None)
  | TBool r l =>
      Ok (FW KdBool
            (match r with None => None | Some c => only_ty (CBool c) end)
            (Some XBool) (with_arm LBool l) None)
  | TEnum r l =>
      obind (match r with
             | None => Ok ([], [])
             | Some r => obind (map_values env (er_in r)) (fun i =>
                         obind (map_values env (er_notin r)) (fun n => Ok (i, n)))
             end)
        (fun io => Ok (FW KdEnum (only_ty (CEnum true (fst io) (snd io))) (Some XEnum) (with_arm LEnum l) None))
  | TKey f e l =>
      obind (match l, f with
             | None, _ => Ok None
             | Some p, None => Ok (Some (LStrFkUnique, p))
             | Some p, Some KId62 => Ok (Some (LStrFkId62, p))
             | Some p, Some KUuid => Ok (Some (LStrFkUuid, p))
             | Some p, Some (KCustom _) => Ok (Some (LStrFkUnique, p))
             | Some p, Some KInformal => Ok (Some (LStrFkUnique, p))   (* since dc2b724; "unknown key format" before *)
             end)
        (fun lst =>
           Ok (FW KdString
                 (match f with
                  | None => None
                  | Some KUuid => only_ty (CStr None None None true)
                  | Some KId62 => only_ty (CStr None None (Some Id62Gen.pattern_string) false)
                  | Some (KCustom p) => only_ty (CStr None None (Some p) false)
                  | Some KInformal => only_ty (CStr None None None false)
                  end)
                 (Some (XKey f)) lst
                 (match e with Some e => Some (key_ext e) | None => None end)))
  | TFloat f64 rules l =>
      if rules then Err "TODO: float rules not implemented"
      else
      Ok (FW (if f64 then KdDouble else KdFloat) None (Some XFloat)
            (with_arm (if f64 then LDouble else LFloat) l) None)
  | TDate r l =>
      (* no setJ5Ext for dates: (j5.ext.v1.field) only when rules are declared *)
      Ok (FW KdDate None (match r with Some r => Some (XDate (Some r)) | None => None end) (with_arm LDate l) None)
  | TDecimal r l =>
      Ok (FW KdDecimal None (match r with Some r => Some (XDecimal (Some r)) | None => None end) (with_arm LDecimal l) None)
  | TTimestamp r l =>
      (* "None Implemented": whatever the rules say, an empty TimestampRules *)
      Ok (FW KdTimestamp (match r with Some _ => only_ty (CTimestamp NoUb NoLb) | None => None end)
            (Some XTimestamp) (with_arm LTimestamp l) None)
  | TAny od ts l => Ok (FW KdAny None (Some (XAny od ts)) (with_arm LAny l) None)
  (* object / oneof rules: an empty (buf.validate.field), nothing of the rules in it *)
  | TObject n fl r =>
      Ok (FW (KdMsgObject n) (match r with Some _ => Some (C false None) | None => None end) (Some (XObject fl)) None None)
  | TOneof n rules l =>
      Ok (FW (KdMsgOneof n) (if rules then Some (C false None) else None) (Some XOneof) (with_arm LOneof l) None)
  end.

(* ---- buildProperty --------------------------------------------------------- *)
(* repeated.items / map.values: the item's FieldConstraints as it is (also when it has no type) *)
Definition item_tyc (v : option constraint) : option tyc :=
  match v with
  | Some c => Some (match c_ty c with Some t => t | None => CEmpty end)
  | None => None
  end.

Definition wrap_array (r : option arr_rules) (sf : option str) (w : fieldw) : fieldw :=
  FW (fw_kind w)
     (if is_some (fw_val w) || is_some r
      then only_ty (CRep (match r with Some r => ar_min r | None => None end)
                         (match r with Some r => ar_max r | None => None end)
                         (match r with Some r => ar_uniq r | None => None end)
                         (item_tyc (fw_val w)))
      else None)
     (Some (XArray sf))        (* the item's (j5.ext.v1.field) is overwritten *)
     (fw_list w) (fw_key w).

Definition wrap_map (r : option map_rules) (w : fieldw) : fieldw :=
  FW (KdMapEntry (fw_kind w))
     (if is_some (fw_val w) || is_some r
      then only_ty (CMap (match r with Some r => mr_min r | None => None end)
                         (match r with Some r => mr_max r | None => None end)
                         (item_tyc (fw_val w)))
      else None)
     None None (fw_key w).

Definition set_required (v : option constraint) : option constraint :=
  match v with
  | Some c => Some (C true (c_ty c))
  | None => Some (C true None)
  end.

Definition is_msg_kind (k : pkind) : bool :=
  match k with
  | KdMsgObject _ | KdMsgOneof _ | KdTimestamp | KdDate | KdDecimal | KdAny => true
  | _ => false
  end.

(* HasPresence of the linked field: singular message-typed fields, and
   explicitly optional fields (visitObjectNode puts them in a synthetic oneof) *)
Definition field_presence (t : pty) (opt : bool) (k : pkind) : bool :=
  match t with
  | PSingle _ => opt || is_msg_kind k
  | _ => false
  end.

(* [idx]: 0-based position of the property in its object *)
Definition write_prop (env : enum_env) (idx : N) (d : prop) : outcome fout :=
  obind (match p_ty d with
         | PSingle t => write_field env t
         | PArray r sf t => obind (write_field env t) (fun w => Ok (wrap_array r sf w))
         (* the item's annotations sit on the value field of the entry message; of
            those only (j5.ext.v1.key) is kept here (the reader looks at it). The
            value constraint and the map rules go to (buf.validate.field).map *)
         | PMap r t => obind (write_field env t) (fun w => Ok (wrap_map r w))
         end)
    (fun w =>
       let required := p_req d || match p_ty d, fw_key w with
                                  | PMap _ _, _ => false      (* the map field itself has no key annotation *)
                                  | _, Some k => kx_primary k
                                  | _, None => false
                                  end in
       if p_opt d && required then Err "cannot be both required and optional"
       else Ok (FO (p_name d) (to_snake (p_name d)) (idx + 1)%N (fw_kind w)   (* strcase.ToSnake(node.Schema.Name) *)
                   (match p_ty d with PSingle _ => false | _ => true end)
                   (* HasOptionalKeyword of the linked field: never true for a repeated field *)
                   (match p_ty d with PSingle _ => p_opt d | _ => false end)
                   (field_presence (p_ty d) (p_opt d) (fw_kind w))
                   (if required then set_required (fw_val w) else fw_val w)
                   (fw_ext w) (fw_list w) (fw_key w) (p_desc d))).

Fixpoint write_props_from (env : enum_env) (idx : N) (ds : list prop) : outcome (list fout) :=
  match ds with
  | [] => Ok []
  | d :: r => obind (write_prop env idx d) (fun o =>
              obind (write_props_from env (idx + 1)%N r) (fun os => Ok (o :: os)))
  end.
Definition write_object (env : enum_env) (ds : list prop) : outcome (list fout) :=
  write_props_from env 0%N ds.

(* CmpbFields.v — model of the decision core of internal/j5s/j5convert
   buildProperty / buildField / setJ5Ext / resolveType / ensureImport (fields.go,
   conversion.go, builders.go) and of the one-declaration file around a property
   (visitObjectNode + the link step's extension-import requirement, linker.go
   markExtensionImportsUsed).  No proofs here.

   What is modelled: for EVERY abstract field (field type x rule presence x
   list-rule presence x format x qualifiers x array/map wrapper x required /
   optional) which branch runs, which proto.SetExtension call sites execute with
   which Go value type, which files are passed to ensureImport, which errors are
   returned, and which Go panics are reachable (SetExtension with a value of the
   wrong Go type or on the wrong options message, protoreflect Set/Mutable
   misuse inside setJ5Ext, nil dereference of setJ5Ext's result).
   The Go types of the extensions and the field tables setJ5Ext copies between are
   NOT hand-copied: they are looked up in gen/SetExtGen.v (regenerated from /repo).

   Not modelled: the values put inside the extension messages (that is C12/C04),
   names and numbers (C02), comments. *)
From Coq Require Import Ascii String List Bool Arith.
From J5V.lib Require Import Outcome.
From J5V.gen Require SetExtGen.
Import ListNotations.
Local Open Scope string_scope.
Local Open Scope bool_scope.

(* ------------------------------------------------------------------ tables *)
Fixpoint lookup {A} (k : string) (l : list (string * A)) : option A :=
  match l with
  | [] => None
  | (k', v) :: r => if String.eqb k k' then Some v else lookup k r
  end.

Fixpoint has_slash (s : string) : bool :=
  match s with
  | EmptyString => false
  | String c r => if Ascii.eqb c "/"%char then true else has_slash r
  end.

(* files the converter can import; IRefFile = the file of a referenced type *)
Inductive imp := IBufValidate | IJ5Ext | IJ5Date | IJ5Decimal | IJ5List | IPbTimestamp | IJ5Any
  | IGApiAnnotations | IGApiHttpBody | IGEmpty | IMsgAnnotations | IRefFile.

Definition imp_eqb (a b : imp) : bool :=
  match a, b with
  | IBufValidate, IBufValidate | IJ5Ext, IJ5Ext | IJ5Date, IJ5Date | IJ5Decimal, IJ5Decimal
  | IJ5List, IJ5List | IPbTimestamp, IPbTimestamp | IJ5Any, IJ5Any
  | IGApiAnnotations, IGApiAnnotations | IGApiHttpBody, IGApiHttpBody | IGEmpty, IGEmpty
  | IMsgAnnotations, IMsgAnnotations | IRefFile, IRefFile => true
  | _, _ => false
  end.

(* the Go constant (imports.go) naming each file *)
Definition imp_const (i : imp) : string :=
  match i with
  | IBufValidate => "bufValidateImport" | IJ5Ext => "j5ExtImport" | IJ5Date => "j5DateImport"
  | IJ5Decimal => "j5DecimalImport" | IJ5List => "j5ListAnnotationsImport" | IPbTimestamp => "pbTimestamp"
  | IJ5Any => "j5AnyImport" | IGApiAnnotations => "googleApiAnnotationsImport"
  | IGApiHttpBody => "googleApiHttpBodyImport" | IGEmpty => "googleProtoEmptyImport"
  | IMsgAnnotations => "messagingAnnotationsImport" | IRefFile => ""
  end.
(* its value, read from the regenerated table; a referenced type's file is a path by wf_ref *)
Definition imp_path (i : imp) : string :=
  match i with
  | IRefFile => "<pkg>/<file>.proto"
  | _ => match lookup (imp_const i) SetExtGen.import_consts with Some p => p | None => "" end
  end.
Definition const_imps : list imp :=
  [IBufValidate; IJ5Ext; IJ5Date; IJ5Decimal; IJ5List; IPbTimestamp; IJ5Any; IGApiAnnotations; IGApiHttpBody; IGEmpty; IMsgAnnotations].

(* extensions the converter sets *)
Inductive ext := XField | XKey | XValidate | XList | XMessage | XPsm | XEnum | XEnumValue
  | XService | XMethod | XHttp | XListRequest | XMsgService.
Definition ext_eqb (a b : ext) : bool :=
  match a, b with
  | XField, XField | XKey, XKey | XValidate, XValidate | XList, XList | XMessage, XMessage | XPsm, XPsm
  | XEnum, XEnum | XEnumValue, XEnumValue | XService, XService | XMethod, XMethod | XHttp, XHttp
  | XListRequest, XListRequest | XMsgService, XMsgService => true
  | _, _ => false
  end.
Definition ext_var (e : ext) : string :=
  match e with
  | XField => "ext_j5pb.E_Field" | XKey => "ext_j5pb.E_Key" | XValidate => "validate.E_Field"
  | XList => "list_j5pb.E_Field" | XMessage => "ext_j5pb.E_Message" | XPsm => "ext_j5pb.E_Psm"
  | XEnum => "ext_j5pb.E_Enum" | XEnumValue => "ext_j5pb.E_EnumValue" | XService => "ext_j5pb.E_Service"
  | XMethod => "ext_j5pb.E_Method" | XHttp => "annotations.E_Http" | XListRequest => "list_j5pb.E_ListRequest"
  | XMsgService => "messaging_j5pb.E_Service"
  end.
Definition all_exts : list ext :=
  [XField; XKey; XValidate; XList; XMessage; XPsm; XEnum; XEnumValue; XService; XMethod; XHttp; XListRequest; XMsgService].

(* rows of SetExtGen.exts: (var, full name, extendee Go type, value Go type, file, index) *)
Definition ext_row (e : ext) : option (string * string * string * string * string * nat) :=
  find (fun r => match r with (v, _, _, _, _, _) => String.eqb v (ext_var e) end) SetExtGen.exts.
Definition ext_name (e : ext) : string := match ext_row e with Some (_, n, _, _, _, _) => n | None => "?" end.
Definition ext_extendee (e : ext) : string := match ext_row e with Some (_, _, x, _, _, _) => x | None => "?extendee" end.
Definition ext_gotype (e : ext) : string := match ext_row e with Some (_, _, _, t, _, _) => t | None => "?gotype" end.
Definition ext_file (e : ext) : string := match ext_row e with Some (_, _, _, _, f, _) => f | None => "?file" end.
Definition ext_index (e : ext) : nat := match ext_row e with Some (_, _, _, _, _, i) => i | None => 0 end.
(* the import that brings the extension's defining file *)
Definition ext_imp (e : ext) : option imp :=
  find (fun i => String.eqb (imp_path i) (ext_file e)) const_imps.

(* ------------------------------------------------------------------ call sites *)
(* one proto.SetExtension call: enclosing function, outermost type-switch arm, extension,
   static Go type of the value, static Go type of the options message it is set on *)
Record site := mkSite { s_func : string; s_arm : string; s_ext : ext; s_vtype : string; s_dest : string }.

Definition FO := "*descriptorpb.FieldOptions".
Definition bf := "buildField".
Definition bp := "buildProperty".
Definition st_map_val      := mkSite bp "*schema_j5pb.Field_Map" XValidate "*validate.FieldConstraints" FO.
Definition st_array_ext    := mkSite bp "*schema_j5pb.Field_Array" XField "*ext_j5pb.FieldOptions" FO.
Definition st_array_val    := mkSite bp "*schema_j5pb.Field_Array" XValidate "*validate.FieldConstraints" FO.
Definition st_required     := mkSite bp "" XValidate "*validate.FieldConstraints" FO.
Definition st_object_rules := mkSite bf "*schema_j5pb.Field_Object" XValidate "*validate.FieldConstraints" FO.
Definition st_oneof_rules  := mkSite bf "*schema_j5pb.Field_Oneof" XValidate "*validate.FieldConstraints" FO.
Definition st_oneof_list   := mkSite bf "*schema_j5pb.Field_Oneof" XList "*list_j5pb.FieldConstraint" FO.
Definition st_enum_val     := mkSite bf "*schema_j5pb.Field_Enum" XValidate "*validate.FieldConstraints" FO.
Definition st_enum_list    := mkSite bf "*schema_j5pb.Field_Enum" XList "*list_j5pb.FieldConstraint" FO.
Definition st_bool_rules   := mkSite bf "*schema_j5pb.Field_Bool" XValidate "*validate.FieldConstraints" FO.
Definition st_bool_list    := mkSite bf "*schema_j5pb.Field_Bool" XList "*list_j5pb.FieldConstraint" FO.
Definition st_bytes_rules  := mkSite bf "*schema_j5pb.Field_Bytes" XValidate "*validate.FieldConstraints" FO.
Definition st_date_rules   := mkSite bf "*schema_j5pb.Field_Date" XField "*ext_j5pb.FieldOptions" FO.
Definition st_date_list    := mkSite bf "*schema_j5pb.Field_Date" XList "*list_j5pb.FieldConstraint" FO.
Definition st_dec_rules    := mkSite bf "*schema_j5pb.Field_Decimal" XField "*ext_j5pb.FieldOptions" FO.
Definition st_dec_list     := mkSite bf "*schema_j5pb.Field_Decimal" XList "*list_j5pb.FieldConstraint" FO.
Definition st_float_list   := mkSite bf "*schema_j5pb.Field_Float" XList "*list_j5pb.FieldConstraint" FO.
Definition st_int_rules    := mkSite bf "*schema_j5pb.Field_Integer" XValidate "*validate.FieldConstraints" FO.
Definition st_int_list     := mkSite bf "*schema_j5pb.Field_Integer" XList "*list_j5pb.FieldConstraint" FO.
Definition st_key_entity   := mkSite bf "*schema_j5pb.Field_Key" XKey "*ext_j5pb.PSMKeyFieldOptions" FO.
Definition st_key_list     := mkSite bf "*schema_j5pb.Field_Key" XList "*list_j5pb.FieldConstraint" FO.
Definition st_key_val      := mkSite bf "*schema_j5pb.Field_Key" XValidate "*validate.FieldConstraints" FO.
Definition st_string_rules := mkSite bf "*schema_j5pb.Field_String_" XValidate "*validate.FieldConstraints" FO.
Definition st_string_list  := mkSite bf "*schema_j5pb.Field_String_" XList "*list_j5pb.FieldConstraint" FO.
Definition st_ts_rules     := mkSite bf "*schema_j5pb.Field_Timestamp" XValidate "*validate.FieldConstraints" FO.
Definition st_ts_list      := mkSite bf "*schema_j5pb.Field_Timestamp" XList "*list_j5pb.FieldConstraint" FO.
Definition st_any          := mkSite bf "*schema_j5pb.Field_Any" XField "*ext_j5pb.FieldOptions" FO.
Definition st_any_list     := mkSite bf "*schema_j5pb.Field_Any" XList "*list_j5pb.FieldConstraint" FO.
Definition st_setj5ext     := mkSite "conversionVisitor.setJ5Ext" "" XField "*ext_j5pb.FieldOptions" FO.
(* declaration level (conversion.go, enum.go, service.go) *)
Definition MO := "*descriptorpb.MessageOptions".
Definition st_topic_service := mkSite "conversionVisitor.visitTopicNode" "" XMsgService "*messaging_j5pb.ServiceConfig" "*descriptorpb.ServiceOptions".
Definition st_object_psm   := mkSite "conversionVisitor.visitObjectNode" "" XPsm "*ext_j5pb.PSMOptions" MO.
Definition st_object_msg   := mkSite "conversionVisitor.visitObjectNode" "" XMessage "*ext_j5pb.MessageOptions" MO.
Definition st_oneof_msg    := mkSite "conversionVisitor.visitOneofNode" "" XMessage "*ext_j5pb.MessageOptions" MO.
Definition st_enum_info    := mkSite "conversionVisitor.visitEnumNode" "" XEnum "*ext_j5pb.EnumOptions" "*descriptorpb.EnumOptions".
Definition st_enum_value   := mkSite "enumBuilder.addValue" "" XEnumValue "*ext_j5pb.EnumValueOptions" "*descriptorpb.EnumValueOptions".
Definition st_service_opts := mkSite "conversionVisitor.visitServiceNode" "" XService "*ext_j5pb.ServiceOptions" "*descriptorpb.ServiceOptions".
Definition st_method_http  := mkSite "conversionVisitor.visitServiceMethodNode" "" XHttp "*annotations.HttpRule" "*descriptorpb.MethodOptions".
Definition st_method_opts  := mkSite "conversionVisitor.visitServiceMethodNode" "" XMethod "*ext_j5pb.MethodOptions" "*descriptorpb.MethodOptions".

(* the model's call-site table, in source order (compared with SetExtGen.sites) *)
Definition model_sites : list site :=
  [ st_topic_service; st_object_psm; st_object_msg; st_oneof_msg; st_enum_info; st_enum_value;
    st_map_val; st_array_ext; st_array_val; st_required;
    st_object_rules; st_oneof_rules; st_oneof_list; st_enum_val; st_enum_list;
    st_bool_rules; st_bool_list; st_bytes_rules; st_date_rules; st_date_list; st_dec_rules; st_dec_list;
    st_float_list; st_float_list; st_int_rules; st_int_list; st_int_list; st_int_list; st_int_list;
    st_key_entity; st_key_list; st_key_val; st_string_rules; st_string_list; st_ts_rules; st_ts_list; st_any; st_any_list;
    st_setj5ext; st_service_opts; st_method_http; st_method_opts ].

(* proto.SetExtension(dest, xt, v): xt.ValueOf(v) panics on a value of another Go type,
   and Message.Set panics when xt does not extend dest's message *)
Definition site_typed (s : site) : bool :=
  String.eqb (s_vtype s) (ext_gotype (s_ext s)) && String.eqb (s_dest s) (ext_extendee (s_ext s)).

(* ------------------------------------------------------------------ abstract fields *)
Inductive refkind := KMsg | KEnum.
Inductive rfile := FSame | FOther.        (* the referenced type lives in this file / another file *)
Inductive ref_out :=
| RNil                    (* node.Ref == nil *)
| RInlineObject | RInlineOneof | RInlineEnum
| RInlineEmpty            (* Inline set, no inline node *)
| RNotFound               (* package not imported / type not found / package not loaded *)
| RFound (k : refkind) (f : rfile).

Inductive intfmt := I32 | I64 | U32 | U64 | IUnspec | IBad.
Inductive fltfmt := F32 | F64 | FUnspec | FBad.
(* KeyField.Format: nil | informal | custom | uuid | id62 | set with a nil Type *)
Inductive keyfmt := KNone | KInformal | KCustom | KUuid | KId62 | KNilType.
(* KeyField.Entity: nil | primary_key = b | foreign_key | set with a nil Type *)
Inductive entkey := ENone | EPrimary (b : bool) | EForeign | ENilType.
(* ir_bad: a present bound lies outside the range of the format, or minimum > maximum (checkIntegerBounds) *)
Record int_rules := mkIR { ir_min : bool; ir_max : bool; ir_xmin : option bool; ir_xmax : option bool; ir_bad : bool }.

Inductive fty :=
| TObject (r : ref_out) (flatten rules : bool)
| TOneof (r : ref_out) (rules lrules : bool)
| TEnum (r : ref_out) (rules : option bool) (lrules : bool)   (* rules: Some ok = all listed values exist *)
| TBool (rules lrules : bool)
| TBytes (rules : bool)
| TDate (rules lrules : bool)
| TDecimal (rules lrules : bool)
| TFloat (f : fltfmt) (rules lrules : bool)
| TInteger (f : intfmt) (rules : option int_rules) (lrules : bool)
| TKey (e : entkey) (tenant : bool) (f : keyfmt) (lrules : bool)
| TString (rules lrules : bool)
| TTimestamp (rules lrules : bool)
| TAny (lrules : bool)
| TOther.                 (* nil, or array/map as an item: the default arm *)

Inductive shape :=
| Plain (t : fty)
| Array (items : option fty) (ext : option bool) (rules : bool)  (* ext: Some b = Ext present, b = single_form set *)
| Map (items : option fty) (rules : bool).

Record prop := mkProp { p_schema_nil : bool; p_shape : shape; p_required : bool; p_optional : bool }.

(* ------------------------------------------------------------------ state monad *)
Inductive ptype := PMessage | PEnum | PBool | PBytes | PFloat | PDouble | PInt32 | PInt64 | PUint32 | PUint64 | PString | PUnset.
Inductive tname := NRef | NDate | NDecimal | NTimestamp | NAny | NMapEntry | NNone.

Record st := mkSt {
  imps : list imp;        (* files passed to ensureImport so far (set) *)
  opts : list ext;        (* extensions set on the descriptor under construction (set) *)
  vopts : list ext;       (* extensions left on a map entry's value field *)
  has_opts : bool;        (* the descriptor's Options pointer is non-nil *)
  nerr : nat              (* errors recorded with addError *)
}.
Definition st0 := mkSt [] [] [] true 0.

Definition M (A : Type) := st -> outcome (A * st).
Definition ret {A} (a : A) : M A := fun s => Ok (a, s).
Definition bind {A B} (m : M A) (f : A -> M B) : M B :=
  fun s => match m s with
           | Ok (a, s') => f a s'
           | Err c => Err c
           | Panic p => Panic p
           | OutOfFuel => OutOfFuel
           end.
Notation "x <- m ;; f" := (bind m (fun x => f)) (at level 61, m at next level, right associativity).
Notation "m ;;; f" := (bind m (fun _ => f)) (at level 61, right associativity).
Definition fail {A} (c : string) : M A := fun _ => Err c.
Definition crash {A} (c : string) : M A := fun _ => Panic c.

Definition mem_imp (i : imp) (l : list imp) : bool := existsb (imp_eqb i) l.
Definition mem_ext (e : ext) (l : list ext) : bool := existsb (ext_eqb e) l.
Definition add_imp (i : imp) (l : list imp) := if mem_imp i l then l else app l [i].
Definition add_ext (e : ext) (l : list ext) := if mem_ext e l then l else app l [e].

(* fileContext.ensureImport: panics on "" and on a path without "/" *)
Definition ensure (i : imp) : M unit := fun s =>
  let p := imp_path i in
  if String.eqb p "" then Panic "ensureImport: empty alias"
  else if negb (has_slash p) then Panic "ensureImport: invalid import path"
  else Ok (tt, mkSt (add_imp i (imps s)) (opts s) (vopts s) (has_opts s) (nerr s)).

Definition setext (x : site) : M unit := fun s =>
  if negb (has_opts s) then Panic "proto.SetExtension on nil options"
  else if site_typed x
  then Ok (tt, mkSt (imps s) (add_ext (s_ext x) (opts s)) (vopts s) (has_opts s) (nerr s))
  else Panic "proto.SetExtension: invalid type".

Definition add_error : M unit := fun s => Ok (tt, mkSt (imps s) (opts s) (vopts s) (has_opts s) (S (nerr s))).
Definition when (b : bool) (m : M unit) : M unit := if b then m else ret tt.

(* ------------------------------------------------------------------ setJ5Ext *)
Inductive copy_res := CopyOk | CopyErr | CopyPanic.
Definition fields_of (msg : string) : list (string * string * string * string) :=
  match lookup msg SetExtGen.msg_fields with Some l => l | None => [] end.
Definition find_field (n : string) (l : list (string * string * string * string)) :=
  find (fun r => match r with (n', _, _, _) => String.eqb n n' end) l.
(* one populated field of the j5 Ext message copied into the proto ext message (after the
   repair of setJ5Ext: looked up by name in the DESTINATION; same Kind required; then Set) *)
Definition copy_field (src dst f : string) : copy_res :=
  match find_field f (fields_of src), find_field f (fields_of dst) with
  | Some (_, k1, c1, _), Some (_, k2, c2, _) =>
      if negb (String.eqb k1 k2) then CopyErr
      else if negb (String.eqb c1 c2) then CopyPanic           (* Set: list/map vs scalar value *)
      else if String.eqb k1 "message" || String.eqb k1 "group" then CopyPanic  (* Set: message of another type *)
      else CopyOk
  | Some _, None => CopyErr                                     (* "No equivalent for ..." *)
  | None, _ => CopyOk                                           (* not a field of the source: never ranged *)
  end.
Fixpoint copy_fields (src dst : string) (fs : list string) : copy_res :=
  match fs with
  | [] => CopyOk
  | f :: r => match copy_field src dst f with CopyOk => copy_fields src dst r | x => x end
  end.
Definition fo_field (n : string) := find_field n SetExtGen.fieldoptions_fields.
(* source message of the call for each literal type name, from the regenerated call list *)
Definition j5ext_src (name : string) : string :=
  match find (fun r => match r with (_, _, n, _, _) => String.eqb n name end) SetExtGen.setj5ext_calls with
  | Some (_, _, _, _, full) => full
  | None => "?"
  end.
(* returns whether a non-nil *FieldOptions came back *)
Definition set_j5ext (name : string) (setfields : list string) : M bool :=
  match fo_field name with
  | None => add_error ;;; ret false                               (* "does not have a type field" *)
  | Some (_, kind, card, dstmsg) =>
      if negb (String.eqb kind "message") || negb (String.eqb card "single")
      then crash "setJ5Ext: Mutable on a non-message field"
      else match copy_fields (j5ext_src name) dstmsg setfields with
           | CopyPanic => crash "setJ5Ext: protoreflect Set"
           | CopyErr => add_error ;;; ret false
           | CopyOk => ensure IJ5Ext ;;; setext st_setj5ext ;;; ret true
           end
  end.

(* ------------------------------------------------------------------ resolveType *)
Definition resolve (r : ref_out) : M refkind :=
  match r with
  | RNil => fail "missing ref"
  | RInlineObject | RInlineOneof => ret KMsg
  | RInlineEnum => ret KEnum
  | RInlineEmpty => fail "unhandled inline conversion"
  | RNotFound => fail "type not found"
  | RFound k FSame => ret k                          (* ensureImport returns early on the file itself *)
  | RFound k FOther => ensure IRefFile ;;; ret k
  end.

(* ------------------------------------------------------------------ buildField *)
Definition bad_int_rules (r : int_rules) : bool :=
  match ir_xmin r, ir_min r with Some false, false => true | _, _ => false end
  || match ir_xmax r, ir_max r with Some false, false => true | _, _ => false end
  || (ir_bad r && (ir_min r || ir_max r)).

Definition int_ptype (f : intfmt) : option ptype :=
  match f with I32 => Some PInt32 | I64 => Some PInt64 | U32 => Some PUint32 | U64 => Some PUint64 | _ => None end.

Definition build_field (t : fty) : M (ptype * tname) :=
  match t with
  | TObject r flatten rules =>
      k <- resolve r ;;
      match k with
      | KEnum => fail "not a message (for object)"
      | KMsg =>
          ok <- set_j5ext "object" [] ;;
          (if flatten && negb ok then crash "nil dereference of setJ5Ext result (flatten)" else ret tt) ;;;
          when rules (setext st_object_rules ;;; ensure IBufValidate) ;;;
          ret (PMessage, NRef)
      end
  | TOneof r rules lrules =>
      k <- resolve r ;;
      match k with
      | KEnum => fail "not a message (for oneof)"
      | KMsg =>
          set_j5ext "oneof" [] ;;;
          when rules (setext st_oneof_rules ;;; ensure IBufValidate) ;;;
          when lrules (ensure IJ5List ;;; setext st_oneof_list) ;;;
          ret (PMessage, NRef)
      end
  | TEnum r rules lrules =>
      k <- resolve r ;;
      match k with
      | KMsg => fail "not an enum"
      | KEnum =>
          set_j5ext "enum" [] ;;;
          match rules with
          | Some false => fail "enum value not found"
          | _ =>
              ensure IBufValidate ;;; setext st_enum_val ;;;
              when lrules (ensure IJ5List ;;; setext st_enum_list) ;;;
              ret (PEnum, NRef)
          end
      end
  | TBool rules lrules =>
      set_j5ext "bool" [] ;;;
      when rules (ensure IBufValidate ;;; setext st_bool_rules) ;;;
      when lrules (ensure IJ5List ;;; setext st_bool_list) ;;;
      ret (PBool, NNone)
  | TBytes rules =>
      set_j5ext "bytes" [] ;;;
      when rules (ensure IBufValidate ;;; setext st_bytes_rules) ;;;
      ret (PBytes, NNone)
  | TDate rules lrules =>
      ensure IJ5Date ;;;
      when rules (ensure IJ5Ext ;;; setext st_date_rules) ;;;
      when lrules (ensure IJ5List ;;; setext st_date_list) ;;;
      ret (PMessage, NDate)
  | TDecimal rules lrules =>
      ensure IJ5Decimal ;;;
      when rules (ensure IJ5Ext ;;; setext st_dec_rules) ;;;
      when lrules (ensure IJ5List ;;; setext st_dec_list) ;;;
      ret (PMessage, NDecimal)
  | TFloat f rules lrules =>
      if rules then fail "TODO: float rules not implemented"
      else match f with
           | FUnspec => fail "float format unspecified"
           | FBad => fail "unknown float format"
           | _ =>
               set_j5ext "float" [] ;;;
               when lrules (ensure IJ5List ;;; setext st_float_list) ;;;
               ret (match f with F32 => PFloat | _ => PDouble end, NNone)
           end
  | TInteger f rules lrules =>
      match int_ptype f with
      | None => fail "unknown integer format"
      | Some pt =>
          set_j5ext "integer" [] ;;;
          match rules with
          | Some r =>
              if bad_int_rules r then fail "integer rules: exclusive bound requires the bound"
              else ensure IBufValidate ;;; setext st_int_rules
          | None => ret tt
          end ;;;
          when lrules (ensure IJ5List ;;; setext st_int_list) ;;;
          ret (pt, NNone)
      end
  | TKey e tenant f lrules =>
      ensure IJ5Ext ;;;
      when (match e with ENone => false | _ => true end) (setext st_key_entity) ;;;
      set_j5ext "key" [] ;;;
      (if lrules
       then match f with
            | KNilType => fail "unknown key format"
            | _ => ensure IJ5List ;;; setext st_key_list      (* informal: unique_string, since fix dc2b724 *)
            end
       else ret tt) ;;;
      match f with
      | KNone => ret (PString, NNone)
      | KNilType => fail "unknown key format"
      | _ => ensure IBufValidate ;;; setext st_key_val ;;; ret (PString, NNone)
      end
  | TString rules lrules =>
      set_j5ext "string" [] ;;;
      when rules (ensure IBufValidate ;;; setext st_string_rules) ;;;
      when lrules (ensure IJ5List ;;; setext st_string_list) ;;;
      ret (PString, NNone)
  | TTimestamp rules lrules =>
      ensure IPbTimestamp ;;;
      set_j5ext "timestamp" [] ;;;
      when rules (ensure IBufValidate ;;; setext st_ts_rules) ;;;
      when lrules (ensure IJ5List ;;; setext st_ts_list) ;;;
      ret (PMessage, NTimestamp)
  | TAny lrules =>
      ensure IJ5Any ;;; setext st_any ;;;
      when lrules (ensure IJ5List ;;; setext st_any_list) ;;;
      ret (PMessage, NAny)
  | TOther => fail "unknown schema type"
  end.

(* ------------------------------------------------------------------ buildProperty *)
Record fdesc := mkDesc { d_ptype : ptype; d_tname : tname; d_repeated : bool; d_opt3 : bool }.

(* a fresh descriptor: buildField starts from Options: &FieldOptions{} *)
Definition fresh : M unit := fun s => Ok (tt, mkSt (imps s) [] (vopts s) true (nerr s)).
(* the map branch: the item's options stay on the entry's value field; the field itself is new *)
Definition to_map_field : M unit := fun s => Ok (tt, mkSt (imps s) [] (opts s) true (nerr s)).

(* the descriptor handed to the `required` step carries (j5.ext.v1.key).primary_key: a plain key
   field, or an array whose item is one (the array reuses the item's descriptor) *)
Definition primary_key_shape (sh : shape) : bool :=
  match sh with
  | Plain (TKey (EPrimary true) _ _ _) | Array (Some (TKey (EPrimary true) _ _ _)) _ _ => true
  | _ => false
  end.

Definition build_property (p : prop) : M fdesc :=
  if p_schema_nil p then fail "missing schema"
  else
    d <- match p_shape p with
         | Map None _ => fail "missing map item schema"
         | Map (Some it) rules =>
             fresh ;;; build_field it ;;; to_map_field ;;;
             (* the value's validation rules and the map rules go to (buf.validate.field).map on the map field *)
             v <- (fun s => Ok (mem_ext XValidate (vopts s), s)) ;;
             when (v || rules) (setext st_map_val ;;; ensure IBufValidate) ;;;
             ret (PMessage, NMapEntry, true)
         | Array None _ _ => fail "missing array items"
         | Array (Some it) ext rules =>
             fresh ;;;
             x <- build_field it ;;
             when (match ext with Some _ => true | None => false end) (setext st_array_ext) ;;;
             set_j5ext "array" (match ext with Some true => ["single_form"] | _ => [] end) ;;;
             s <- (fun s => Ok (mem_ext XValidate (opts s), s)) ;;
             when (s || rules) (setext st_array_val ;;; ensure IBufValidate) ;;;
             ret (fst x, snd x, true)
         | Plain t =>
             fresh ;;; x <- build_field t ;; ret (fst x, snd x, false)
         end ;;
    let '(pt, tn, rep) := d in
    (* a primary key is required even when not marked *)
    let required := p_required p || primary_key_shape (p_shape p) in
    when required (ensure IBufValidate ;;; setext st_required ;;; ensure IJ5Ext) ;;;
    if p_optional p && required then fail "cannot be both required and optional"
    (* proto3_optional only on a singular field (fix d536c9b): a repeated field (array, map) cannot be the
       member of the synthetic oneof *)
    else ret (mkDesc pt tn rep (p_optional p && negb rep)).

(* ------------------------------------------------------------------ one-property file *)
(* visitObjectNode for `object Foo { field f ... }` in a file with nothing else, then the
   link step.  Inline types of the field are visited before buildProperty (sourcewalk
   buildFieldNode): a nested object/oneof ensures j5ExtImport and sets (j5.ext.v1.message)
   like the outer one; a nested enum adds nothing. *)
Inductive verdict := VOk | VConvErr | VLinkErr | VPanic.

Definition visit_object (p : prop) : M (option fdesc) :=
  ensure IJ5Ext ;;; (* and SetExtension(E_Message): message options, recorded by the caller *)
  fun s => match build_property p s with
           | Ok (d, s') => Ok (Some d, s')
           | Err _ => Ok (None, mkSt (imps s) (opts s) (vopts s) (has_opts s) (S (nerr s)))   (* ww.addError(node.Source, err) *)
           | Panic c => Panic c
           | OutOfFuel => OutOfFuel
           end.

(* protocompile resolves an extension only through the file's imports (markOptionImportsUsed:
   FindExtensionByName); a type name resolves only in an imported file *)
Definition ext_imported (l : list imp) (e : ext) : bool :=
  match ext_imp e with Some i => mem_imp i l | None => false end.
Definition tname_imp (t : tname) : option imp :=
  match t with NDate => Some IJ5Date | NDecimal => Some IJ5Decimal | NTimestamp => Some IPbTimestamp | NAny => Some IJ5Any | _ => None end.
Definition links (s : st) (d : fdesc) : bool :=
  ext_imported (imps s) XMessage
  && forallb (ext_imported (imps s)) (opts s)
  && forallb (ext_imported (imps s)) (vopts s)
  && match tname_imp (d_tname d) with Some i => mem_imp i (imps s) | None => true end.

Record iso_obs := mkObs { o_verdict : verdict; o_imps : list imp; o_exts : list ext; o_desc : option fdesc }.

Definition compile_iso (p : prop) : iso_obs :=
  match visit_object p st0 with
  | Panic _ | OutOfFuel => mkObs VPanic [] [] None
  | Err _ => mkObs VConvErr [] [] None
  | Ok (None, s) => mkObs VConvErr (imps s) [] None
  | Ok (Some d, s) =>
      if Nat.ltb 0 (nerr s) then mkObs VConvErr (imps s) (opts s) (Some d)
      else if links s d then mkObs VOk (imps s) (opts s) (Some d)
      else mkObs VLinkErr (imps s) (opts s) (Some d)
  end.

(* number of errors recorded by the visit (each through conversionVisitor.addError) *)
Definition iso_nerr (p : prop) : nat :=
  match visit_object p st0 with Ok (_, s) => nerr s | _ => 0 end.
(* addError attaches node.GetPos() whenever it is non-nil, and sourcewalk's GetPos returns the address of a
   composite literal: the three syntactic facts are regenerated from the Go source *)
Definition errors_positioned : bool :=
  SetExtGen.adderror_adds_position && SetExtGen.adderror_guard_is_nil_check && SetExtGen.getpos_returns_literal_address.

(* ------------------------------------------------------------------ the documented language *)
(* Written from README.md (field types, `!`/`?`, rules, inline types, array/map with a
   non-array/map item) and schema.proto (rule messages): every field type with a valid format,
   any rule / list-rule presence, references that resolve to the right kind of type, array ext,
   required or optional but not both.  NOT from what happens to compile. *)
Definition ref_ok (want : refkind) (r : ref_out) : bool :=
  match r, want with
  | RInlineObject, KMsg | RInlineOneof, KMsg | RInlineEnum, KEnum => true
  | RFound KMsg _, KMsg | RFound KEnum _, KEnum => true
  | _, _ => false
  end.
(* integer rules (schema.proto IntegerField.Rules: minimum, maximum, exclusive_minimum, exclusive_maximum), read
   independently of buildField: an exclusive flag qualifies a bound, so it is meaningful only next to that bound
   (whatever its value); the bounds must be values of the format and must leave a value (minimum <= maximum).
   (buildField's own test differs: it rejects `exclusiveMinimum = false` without a minimum and silently ignores
   `exclusiveMinimum = true` without one; rules.multipleOf is documented but rejected since /repo c0895b5: the
   abstract rule record has no slot for it, the gap is a known: line and a declaration-matrix case) *)
Definition flag_needs_bound (flag : option bool) (bound : bool) : bool :=
  match flag with Some _ => bound | None => true end.
Definition int_rules_ok (r : int_rules) : bool :=
  flag_needs_bound (ir_xmin r) (ir_min r) && flag_needs_bound (ir_xmax r) (ir_max r) && negb (ir_bad r).
Definition fty_in_language (t : fty) : bool :=
  match t with
  | TObject r _ _ => ref_ok KMsg r
  | TOneof r _ _ => ref_ok KMsg r
  | TEnum r rules _ => ref_ok KEnum r && match rules with Some false => false | _ => true end
  | TFloat f _ _ => match f with F32 | F64 => true | _ => false end
  | TInteger f rules _ => match int_ptype f with Some _ => true | None => false end
                          && match rules with Some r => int_rules_ok r | None => true end
  | TKey e _ f lrules => match e with ENilType => false | _ => true end
                    && match f with KNilType => false | _ => true end
  | TOther => false
  | _ => true
  end.
Definition in_language (p : prop) : bool :=
  negb (p_schema_nil p)
  && negb (p_required p && p_optional p)
  && match p_shape p with
     | Plain t => fty_in_language t && negb (p_optional p && primary_key_shape (p_shape p))
     | Array (Some t) _ _ => fty_in_language t && negb (p_optional p && primary_key_shape (p_shape p))
     | Map (Some t) _ => fty_in_language t
     | _ => false
     end.
(* the parts of the language the converter is known not to accept (recorded findings) *)
Definition uses_float_rules (p : prop) : bool :=
  match p_shape p with
  | Plain (TFloat _ true _) | Array (Some (TFloat _ true _)) _ _ | Map (Some (TFloat _ true _)) _ => true
  | _ => false
  end.

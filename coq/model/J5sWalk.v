(* J5sWalk.v — model of internal/j5s/sourcewalk (numbering, nest paths, inline names,
   service/topic expansion) and of the type-resolution environment
   (j5convert/imports.go: j5Imports, expand, implicitImports; summary_walk.go: exports;
   protobuild/packages.go: Package.ResolveType).  Executable, stdlib only, no proofs. *)
From Coq Require Import String List NArith Bool.
From J5V.lib Require Import Outcome.
From J5V.model Require Import J5sAst.
Import ListNotations.
Local Open Scope N_scope.

Definition dot : str := [46].
Definition slash : str := [47].

(* rootType.NameInPackage: nest path joined by ".", then the name *)
Definition name_in_package (path : list str) (name : str) : str := join dot (path ++ [name]).

(* replaceNested{Object,Oneof,Enum}: an inline schema without a name takes the default *)
Definition inline_name (dflt name : str) : str :=
  match name with [] => dflt | _ => name end.

(* mapProperties: virtual-prepended properties first, then the declared ones, numbered from 1 *)
Fixpoint number_from (n : N) (l : list property) : list (N * property) :=
  match l with
  | [] => []
  | p :: r => (n, p) :: number_from (N.succ n) r
  end.
Definition map_properties (virt decl : list property) : list (N * property) :=
  number_from 1 (virt ++ decl).

(* ------------------------------------------------------------------ path.Join / path.Clean *)
Definition seg_dot : str := [46].
Definition seg_dotdot : str := [46; 46].

Fixpoint clean_segs (rooted : bool) (segs : list str) (stack : list str) : list str :=
  match segs with
  | [] => rev stack
  | s :: r =>
      if str_eqb s [] || str_eqb s seg_dot then clean_segs rooted r stack
      else if str_eqb s seg_dotdot then
        match stack with
        | t :: st => if str_eqb t seg_dotdot then clean_segs rooted r (s :: stack)
                     else clean_segs rooted r st
        | [] => if rooted then clean_segs rooted r [] else clean_segs rooted r [s]
        end
      else clean_segs rooted r (s :: stack)
  end.

Definition path_clean (p : str) : str :=
  match p with
  | [] => seg_dot
  | c :: _ =>
      let rooted := c =? 47 in
      let body := join slash (clean_segs rooted (split 47 p) []) in
      if rooted then slash ++ body
      else match body with [] => seg_dot | _ => body end
  end.

(* path.Join(a, b) *)
Definition path_join (a c : str) : str :=
  match a, c with
  | [], [] => []
  | [], _ => path_clean c
  | _, _ => path_clean (a ++ slash ++ c)
  end.

(* ------------------------------------------------------------------ file names *)
Definition j5s_path (f : jfile) : str := join slash (jf_dir f ++ [jf_base f ++ b ".j5s"]).
Definition j5s_pkg (f : jfile) : str := join dot (jf_dir f).
Definition main_proto_path (f : jfile) : str := j5s_path f ++ b ".proto".
(* subPackageFileName: <dir>/<sub>/<base>.p.j5s.proto (TrimSuffix ".j5s.proto" of "<base>.j5s.proto") *)
Definition sub_proto_path (f : jfile) (sub : str) : str :=
  join slash (jf_dir f ++ [sub; jf_base f ++ b ".p.j5s.proto"]).
Definition pfile_path (f : pfile) : str := join slash (pf_dir f ++ [pf_base f ++ b ".proto"]).
Definition pfile_pkg (f : pfile) : str := join dot (pf_dir f).

Definition bfile_path (f : bfile) : str :=
  match f with BJ j => j5s_path j | BP p => pfile_path p end.
Definition bfile_pkg (f : bfile) : str :=
  match f with BJ j => j5s_pkg j | BP p => pfile_pkg p end.

(* PackageFromFilename: directory part, "/" -> "." *)
Definition package_from_filename (p : str) : str :=
  join dot (removelast (split 47 p)).

(* ------------------------------------------------------------------ exports *)
Record typeref := mkTyperef { tr_pkg : str; tr_name : str; tr_file : str; tr_enum : bool }.

(* summaryWalker.collectFileRefs: every object, oneof and enum (top level, explicitly nested,
   inline — at any depth), keyed by its name in the package. *)
Fixpoint exp_field (camel : str -> str) (pkg file : str) (path : list str) (dflt : str) (f : field)
  {struct f} : list typeref :=
  match f with
  | FObjInline nm ps | FOneofInline nm ps =>
      let n := inline_name dflt nm in
      mkTyperef pkg (name_in_package path n) file false :: exp_props camel pkg file (path ++ [n]) ps
  | FEnumInline e =>
      [mkTyperef pkg (name_in_package path (inline_name dflt (e_name e))) file true]
  | FArray it | FMap it => exp_field camel pkg file path dflt it
  | _ => []
  end
with exp_props (camel : str -> str) (pkg file : str) (path : list str) (ps : props) {struct ps} : list typeref :=
  match ps with
  | PNil => []
  | PCons p r => exp_property camel pkg file path p ++ exp_props camel pkg file path r
  end
with exp_property (camel : str -> str) (pkg file : str) (path : list str) (p : property) {struct p} : list typeref :=
  match p with
  | Property n _ _ f => exp_field camel pkg file path (camel n) f
  end.

Fixpoint exp_nested (camel : str -> str) (pkg file : str) (path : list str) (n : nested) {struct n} : list typeref :=
  match n with
  | NObject nm ps subs | NOneof nm ps subs =>
      mkTyperef pkg (name_in_package path nm) file false ::
      exp_props camel pkg file (path ++ [nm]) ps ++ exp_nesteds camel pkg file (path ++ [nm]) subs
  | NEnum e => [mkTyperef pkg (name_in_package path (e_name e)) file true]
  end
with exp_nesteds (camel : str -> str) (pkg file : str) (path : list str) (ns : nesteds) {struct ns} : list typeref :=
  match ns with
  | NNil => []
  | NCons n r => exp_nested camel pkg file path n ++ exp_nesteds camel pkg file path r
  end.

Definition exp_element (camel : str -> str) (pkg file : str) (e : element) : list typeref :=
  match e with
  | EObject nm ps subs => exp_nested camel pkg file [] (NObject nm ps subs)
  | EOneof nm ps subs => exp_nested camel pkg file [] (NOneof nm ps subs)
  | EEnum en => exp_nested camel pkg file [] (NEnum en)
  | EService _ | ETopic _ => []      (* live in the .service / .topic sub-packages *)
  end.

Definition exp_bfile (camel : str -> str) (f : bfile) : list typeref :=
  match f with
  | BJ j => flat_map (exp_element camel (j5s_pkg j) (main_proto_path j)) (jf_elements j)
  | BP p =>
      map (fun n => mkTyperef (pfile_pkg p) n (pfile_path p) false) (pf_msgs p) ++
      map (fun n => mkTyperef (pfile_pkg p) n (pfile_path p) true) (pf_enums p)
  end.

(* files of a package, in the order loadLocalPackage reads them (sorted by filename) *)
Fixpoint insert_by {A} (lt : A -> A -> bool) (x : A) (l : list A) : list A :=
  match l with
  | [] => [x]
  | y :: r => if lt x y then x :: l else y :: insert_by lt x r
  end.
Definition sort_by {A} (lt : A -> A -> bool) (l : list A) : list A :=
  fold_right (insert_by lt) [] l.

Definition pkg_files (bd : bundle) (pkg : str) : list bfile :=
  sort_by (fun x y => str_ltb (bfile_path x) (bfile_path y))
          (filter (fun f => str_eqb (bfile_pkg f) pkg) bd).

Definition pkg_exports (camel : str -> str) (bd : bundle) (pkg : str) : option (list typeref) :=
  match pkg_files bd pkg with
  | [] => None
  | fs => Some (flat_map (exp_bfile camel) fs)
  end.

(* Go map assignment: a later export with the same name overwrites an earlier one *)
Fixpoint lookup_last (name : str) (l : list typeref) (acc : option typeref) : option typeref :=
  match l with
  | [] => acc
  | t :: r => lookup_last name r (if str_eqb (tr_name t) name then Some t else acc)
  end.

(* ------------------------------------------------------------------ imports *)
(* implicitImports: (package, name, file) *)
Definition implicit_table : list (str * str * str) := [
  (b "j5.list.v1", b "PageRequest", b "j5/list/v1/page.proto");
  (b "j5.list.v1", b "PageResponse", b "j5/list/v1/page.proto");
  (b "j5.list.v1", b "QueryRequest", b "j5/list/v1/query.proto");
  (b "j5.messaging.v1", b "RequestMetadata", b "j5/messaging/v1/reqres.proto");
  (b "j5.messaging.v1", b "UpsertMetadata", b "j5/messaging/v1/upsert.proto");
  (b "j5.state.v1", b "EventMetadata", b "j5/state/v1/metadata.proto");
  (b "j5.state.v1", b "EventPublishMetadata", b "j5/state/v1/metadata.proto");
  (b "j5.state.v1", b "StateMetadata", b "j5/state/v1/metadata.proto")
].

Fixpoint implicit_ref (tbl : list (str * str * str)) (pkg name : str) : option typeref :=
  match tbl with
  | [] => None
  | (p, n, f) :: r =>
      if str_eqb p pkg && str_eqb n name then Some (mkTyperef p n f false)
      else implicit_ref r pkg name
  end.

Definition contains_slash (s : str) : bool := existsb (fun c => c =? 47) s.

(* j5Imports: alias map as an association list; later entries win (Go map assignment) *)
Fixpoint import_map (l : list import) (acc : list (str * str)) : outcome (list (str * str)) :=
  match l with
  | [] => Ok acc
  | i :: r =>
      match i_path i with
      | [] => Err "empty import"
      | p =>
          if contains_slash p then
            let pk := package_from_filename p in import_map r ((pk, pk) :: acc)
          else match i_alias i with
               | _ :: _ => import_map r ((i_alias i, p) :: acc)
               | [] =>
                   let parts := split 46 p in
                   match rev parts with
                   | _ :: wv :: _ => import_map r ((p, p) :: (wv, p) :: acc)
                   | _ => Err "invalid package name in import"
                   end
               end
      end
  end.

Fixpoint assoc (k : str) (l : list (str * str)) : option str :=
  match l with
  | [] => None
  | (a, v) :: r => if str_eqb a k then Some v else assoc k r
  end.

(* the environment one source file converts in *)
Record env := mkEnv {
  ev_this : str;                                (* package of the source file *)
  ev_imports : list (str * str);                (* most recent first *)
  ev_exports : str -> option (list typeref)     (* exports of a loaded package *)
}.

(* importMap.expand + rootContext.resolveTypeNoImport + Package.ResolveType *)
Definition resolve (ev : env) (r : ref) : outcome typeref :=
  let lookup pkg name :=
    match ev_exports ev pkg with
    | None => Err "package not loaded"
    | Some ex => match lookup_last name ex None with
                 | Some t => Ok t
                 | None => Err "type not found"
                 end
    end in
  if match r_pkg r with [] => true | _ => false end || str_eqb (r_pkg r) (ev_this ev)
  then lookup (ev_this ev) (r_name r)
  else match implicit_ref implicit_table (r_pkg r) (r_name r) with
       | Some t => Ok t
       | None =>
           match assoc (r_pkg r) (ev_imports ev) with
           | None => Err "namespace not found"
           | Some full =>
               match implicit_ref implicit_table full (r_name r) with
               | Some t => Ok t
               | None => lookup full (r_name r)
               end
           end
       end.

(* ------------------------------------------------------------------ topics *)
(* ------------------------------------------------------------------ list methods *)
(* service.go checkListMethod (fix cec4e3a): a method whose request holds a field of type
   j5.list.v1.QueryRequest - object reference written with that package, or with an import
   prefix that expands to it (importMap.expand: no lookup of the type) - is a list method; its
   response must exist and have exactly one array, whose items are objects (inline or
   referenced).  Anything else is an error of the source file. *)
Definition list_pkg : str := b "j5.list.v1".
Definition query_request : str := b "QueryRequest".

Definition is_query_ref (this : str) (im : list (str * str)) (r : ref) : bool :=
  str_eqb (r_name r) query_request &&
  (if match r_pkg r with [] => true | _ => false end || str_eqb (r_pkg r) this
   then str_eqb this list_pkg
   else str_eqb (r_pkg r) list_pkg ||
        match assoc (r_pkg r) im with Some full => str_eqb full list_pkg | None => false end).

Fixpoint has_query (this : str) (im : list (str * str)) (ps : props) : bool :=
  match ps with
  | PNil => false
  | PCons p r => match prop_field p with FObjRef rf => is_query_ref this im rf | _ => false end || has_query this im r
  end.

Fixpoint array_items (ps : props) : list field :=
  match ps with
  | PNil => []
  | PCons p r => match prop_field p with FArray it => it :: array_items r | _ => array_items r end
  end.

Definition list_method_ok (this : str) (im : list (str * str)) (m : method) : bool :=
  if has_query this im (m_request m) then
    match m_response m with
    | None => false
    | Some ps => match array_items ps with
                 | [FObjRef _] | [FObjInline _ _] => true
                 | _ => false
                 end
    end
  else true.

Definition lists_ok_elements (this : str) (im : list (str * str)) (els : list element) : bool :=
  forallb (fun e => match e with EService s => forallb (list_method_ok this im) (sv_methods s) | _ => true end) els.

Definition file_lists_ok (f : jfile) : bool :=
  match import_map (jf_imports f) [] with
  | Ok im => lists_ok_elements (j5s_pkg f) im (jf_elements f)
  | _ => true
  end.

Definition virt_prop (name : str) (pkg ty : str) : property :=
  Property name true false (FObjRef (mkRef pkg ty)).
Definition virt_request : props :=
  PCons (virt_prop (b "request") (b "j5.messaging.v1") (b "RequestMetadata")) PNil.
Definition virt_upsert : props :=
  PCons (virt_prop (b "upsert") (b "j5.messaging.v1") (b "UpsertMetadata")) PNil.

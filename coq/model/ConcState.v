(* ConcState.v — "the cache is the only mutable state on the encode/decode path", as a
   set of decidable checks over the census that harness/cmd/gen_conc/state.go makes of
   /repo with go/types on every run (coq/gen/ConcStateGen.v):

   every package-level variable, every named type reachable from one of them or from
   codec.Codec ("shared types"; an interface stands for every analysed type implementing
   it), every field of those types, the functions a codec call can run without entering
   SchemaCache.Schema ("lock-free"), the functions it can run inside Schema ("locked"),
   and EVERY write to a package-level variable, to a field of a shared type (whatever the
   base expression), through a pointer, or to an element of a map/slice that is not a
   fresh local.

   The discipline checked (census_ok): a lock-free function writes nothing of all that and
   does not read what locked functions keep mutating; nothing at all writes a
   package-level variable after initialisation; the long-lived objects Codec / Reflector /
   SchemaCache hold nothing mutable beyond the cache itself; what locked functions write of
   the schema objects that lock-free functions read, they write on objects created inside
   the same critical section (RefSchema.To apart: the publication point).  A memo map added to the
   Reflector (or to any schema type, or at package level) and filled on the encode/decode
   path breaks [lf_writes_nothing]; filled inside Schema, but at package level,
   [vars_only_initialised].

   What the census cannot see (named in pylib/propcfg/C10.py): state inside packages
   outside the analysed set (protobuf runtime and registry, generated *.pb.go code,
   standard library), writes through unsafe / reflection, and aliases of shared maps
   taken through more than one local assignment.   No proofs in this file. *)
From Coq Require Import String List Bool.
From J5V.model Require Import ConcSites.
From J5V.gen Require ConcGen ConcStateGen.
Import ListNotations.
Local Open Scope string_scope.

Definition write := (string * string * string)%type.   (* function, target, kind *)
Definition w_fn (w : write) : string := fst (fst w).
Definition w_target (w : write) : string := snd (fst w).

Definition is_var_target (t : string) : bool := String.prefix "var:" t.
Definition is_field_target (t : string) : bool := String.prefix "field:" t.
(* a buffer of scalars handed in by the caller, a protobuf message under construction *)
Definition is_benign_target (t : string) : bool :=
  String.prefix "elem-of-scalars:" t || String.prefix "extfield:" t.

(* (1) lock-free functions write no package-level variable, no field of a shared type, nothing
   through a pointer, no element of a map or slice that is not a fresh local *)
Definition lf_writes_nothing (lf : list string) (ws : list write) : bool :=
  forallb (fun w => negb (in_strs (w_fn w) lf) || is_benign_target (w_target w)) ws.

(* (2) no function assigns to a package-level variable (initialisers are not assignments) *)
Definition vars_only_initialised (ws : list write) : bool :=
  forallb (fun w => negb (is_var_target (w_target w)) || String.eqb (w_fn w) "<never>") ws.

(* (3) the fields that locked functions keep mutating after they are published: the maps and
   the list of the cache.  Lock-free functions never read them, and their writers among the
   locked functions are the cache's own methods (SchemaSet's are there through the RootSet
   interface only; they belong to private SchemaSets) *)
Definition locked_fields : list string :=
  ["j5schema.SchemaCache.packages"; "j5schema.SchemaCache.registered"; "j5schema.Package.Schemas"; "j5schema.SchemaSet.Packages"].

Definition lf_reads_no_locked_field (reads : list string) : bool :=
  forallb (fun f => negb (in_strs f locked_fields)) reads.

Definition locked_field_writers : list string :=
  ["j5schema.SchemaCache.Schema"; "j5schema.SchemaCache.schemaLocked"; "j5schema.SchemaCache.refTo";
   "j5schema.SchemaCache.referencePackage"; "j5schema.SchemaSet.refTo"; "j5schema.SchemaSet.referencePackage"].

Definition strip_field (t : string) : string := String.substring 6 (String.length t - 6) t.

Definition locked_fields_written_by_cache (lk : list string) (ws : list write) : bool :=
  forallb (fun w =>
    negb (is_field_target (w_target w) && in_strs (strip_field (w_target w)) locked_fields && in_strs (w_fn w) lk)
    || in_strs (w_fn w) locked_field_writers) ws.

(* the cache's own methods are exactly the functions of the token table the model mirrors *)
Definition cache_writers_in_table : bool :=
  forallb (fun n => negb (String.prefix "j5schema.SchemaCache." n) ||
                    match find_fn ConcGen.cache_methods (String.substring 21 (String.length n - 21) n) with
                    | Some _ => true | None => false end) locked_field_writers.

(* (4) what locked functions write and lock-free functions read: fields of schema objects
   (written while the object is built, before it is published through To / the return
   value under the lock) and RefSchema.To (the model's EWr / EObs events) — never a
   field of the cache itself *)
Definition published_ok (fs : list string) : bool :=
  forallb (fun f => String.prefix "j5schema." f && negb (in_strs f locked_fields)) fs &&
  in_strs "j5schema.RefSchema.To" fs.

(* (4') ... and the objects whose fields locked functions write were created in the same
   function, by a function that only returns objects it created, or sit in a container the
   function made and filled: created inside the current critical section, so not yet handed to
   any lock-free reader.  The one exception is RefSchema.To, the publication point itself
   (the model's EWr / write_once), written on a fresh placeholder or on the placeholder that
   newRefPlaceholder returned, by the four functions of the token tables *)
Definition fresh_class (c : string) : bool := in_strs c ["fresh"; "fresh-call"; "fresh-elem"].

Definition to_writers : list string :=
  ["j5schema.SchemaCache.schemaLocked"; "j5schema.Package.messageProperties";
   "j5schema.buildEnumFieldSchema"; "j5schema.buildMessageFieldSchema"].

(* one entry (locked function, field, origin of the object written to) of lk_field_writes *)
Definition lk_entry_ok (w : write) : bool :=
  if String.eqb (w_target w) "j5schema.RefSchema.To"
  then in_strs (w_fn w) to_writers &&
       (fresh_class (snd w) || String.eqb (snd w) "other:result of newRefPlaceholder")
  else fresh_class (snd w).

Definition lk_writes_to_fresh (ws : list write) : bool := forallb lk_entry_ok ws.

(* the To writers are the functions of the regenerated token tables *)
Definition last_component (s : string) : string :=
  (fix go (fuel : nat) (s : string) : string :=
     match fuel with
     | O => s
     | S f => match String.index 0 "." s with
              | Some i => go f (String.substring (S i) (String.length s - S i) s)
              | None => s
              end
     end) 4 s.

Definition to_writers_in_tables : bool :=
  forallb (fun n => match find_fn (List.app ConcGen.cache_methods ConcGen.placeholder_functions) (last_component n) with
                    | Some _ => true | None => false end) to_writers.

(* (4'') the side condition of the projection of ConcSites.v: the agreement lemmas compare the
   access sequences of the token tables after dropping the READS of RefSchema.To.  That is sound
   only for a function that never runs without sc.mu.  Demanded here, over the regenerated census:
   a function of the tables with such a read is none of the functions a codec call can run without
   entering SchemaCache.Schema (a method of the cache by its full name; a function of the builder
   by its last name component, whatever its receiver — the stricter reading); an exported method of
   the cache with such a read is one critical section on its RAW tokens; and To has no writer
   among the lock-free functions *)
Definition cache_fn_name (n : string) : string := "j5schema.SchemaCache." ++ n.

Definition lf_has_builder_fn (lf : list string) (n : string) : bool :=
  existsb (fun q => String.prefix "j5schema." q && String.eqb (last_component q) n) lf.

Definition projected_reads_ok (lf : list string) (ws : list write) : bool :=
  forallb (fun f => match f with (n, ex, toks) =>
     negb (has_projected_read toks) ||
     (negb (in_strs (cache_fn_name n) lf) && (negb ex || entry_locked toks)) end) ConcGen.cache_methods &&
  forallb (fun f => match f with (n, _, toks) =>
     negb (has_projected_read toks) || negb (lf_has_builder_fn lf n) end) ConcGen.placeholder_functions &&
  forallb (fun w => negb (String.eqb (w_target w) "field:j5schema.RefSchema.To") || negb (in_strs (w_fn w) lf)) ws.

(* (4c) THE CODEC WALK UNDER CONCURRENCY, as an obligation over the census (conc3).
   "The walk" = everything a codec call runs outside SchemaCache.Schema (lockfree_fns): the
   encoder / decoder / query decoder of internal/codec and the reflection layer of lib/j5reflect
   over the schema object it was handed.  What it READS of shared objects (lf_read_fields) must be
   frozen while any walk can read it.  Demanded, for EVERY write in the census (any function of
   the analysed packages, any base expression) to a field some lock-free function reads:
     - the writer is not a lock-free function (so no walk writes what a walk reads), and
     - if the writer is a locked function, the write is classified in lk_field_writes — the
       generator may not drop one — and (lk_writes_to_fresh) the object written is one the
       function created, got from a function that only returns objects it created, or took out of
       a container it made and filled: an object of the critical section in progress, which no
       caller has been handed yet; RefSchema.To apart, written by the four functions of the token
       tables on the placeholder they registered (the model's write_once / linked_for_good).
   Writers that are neither (constructors and options such as codec.WithResolver, the builders of
   private SchemaSets) do not run on the path of a codec call.
   [walk_ok] adds what else the result of a walk could depend on: package-level variables (never
   assigned after initialisation), the maps the cache keeps mutating (never read by a walk),
   function values stored in shared objects (never called), goroutines (none started), per-call
   types reachable from a long-lived object (none), packages outside the analysed set (the
   allow-list of ext_pkg_ok: TRUSTED to be free of shared mutable state on these entry points). *)
Definition lk_classified (lkw : list write) (fn f : string) : bool :=
  existsb (fun e => String.eqb (w_fn e) fn && String.eqb (w_target e) f) lkw.

Definition walk_reads_frozen (lf lk reads : list string) (ws lkw : list write) : bool :=
  forallb (fun w =>
    negb (is_field_target (w_target w) && in_strs (strip_field (w_target w)) reads) ||
    (negb (in_strs (w_fn w) lf) &&
     (negb (in_strs (w_fn w) lk) || lk_classified lkw (w_fn w) (strip_field (w_target w))))) ws.

(* (5) the long-lived objects hold nothing mutable but the chain to the cache *)
Definition holder_fields : list string :=
  ["codec.Codec.refl"; "codec.Codec.resolver"; "j5reflect.Reflector.schemaSet";
   "j5schema.SchemaCache.packages"; "j5schema.SchemaCache.registered"].

Definition is_holder (f : string) : bool :=
  String.prefix "codec.Codec." f || String.prefix "j5reflect.Reflector." f || String.prefix "j5schema.SchemaCache." f.

Definition holders_hold_only_the_cache (fields : list (string * string * bool)) : bool :=
  forallb (fun f => match f with (n, _, mut) => negb (is_holder n && mut) || in_strs n holder_fields end) fields.

(* no per-call type of the reflector or the codec is reachable from a long-lived object *)
Definition shared_type_ok (t : string) : bool :=
  String.prefix "j5schema." t || String.prefix "patherr." t ||
  in_strs t ["codec.Codec"; "codec.MessageTypeResolver"; "codec.fieldError"; "j5reflect.Reflector"].

(* (6) the boundary: Schema is entered from the reflector only, is itself not lock-free, the
   codec's exported methods (ConcGen.codec_methods) are roots, the functions that obtain
   the root schema (ConcGen.codec_entry_points) are lock-free functions *)
Definition schema_fn : string := "j5schema.SchemaCache.Schema".

Definition after_colon (s : string) : string :=
  match String.index 0 ":" s with
  | Some i => String.substring (S i) (String.length s - S i) s
  | None => s
  end.

(* nothing but hook points stands before sc.mu.Lock() in Schema — no helper, of whatever kind, that
   could look at the maps first —, the Lock is followed at once by defer Unlock, and no function
   on the path starts a goroutine (which would outlive the critical section) *)
Definition schema_body_ok : bool :=
  match ConcStateGen.schema_prelude with [] => true | _ => false end &&
  ConcStateGen.schema_lock_then_defer_unlock &&
  match ConcStateGen.go_stmts with [] => true | _ => false end.

Definition boundary_ok (roots lf lk callers : list string) : bool :=
  schema_body_ok &&
  in_strs schema_fn lk && negb (in_strs schema_fn lf) &&
  forallb (fun r => in_strs r lf) roots &&
  negb (match callers with [] => true | _ => false end) &&
  forallb (fun c => String.prefix "j5reflect.Reflector." c) callers &&
  forallb (fun m => in_strs ("codec.Codec." ++ fst (fst m)) roots) ConcGen.codec_methods &&
  forallb (fun e => in_strs ("codec.Codec." ++ after_colon e) lf) ConcGen.codec_entry_points.

(* (7) calls through function values made by lock-free functions: only parameters — callbacks
   handed down by analysed code, whose bodies are scanned with the function that creates them —
   never a function value read from a field or a variable; packages
   outside the analysed set that lock-free code calls into *)
Definition dyncall_ok (d : string) : bool := String.prefix "param:" (after_colon d).

Definition ext_pkg_ok (p : string) : bool :=
  String.prefix "google.golang.org/protobuf/" p ||
  in_strs p ["bytes"; "encoding/base64"; "encoding/json"; "errors"; "fmt"; "math"; "math/bits"; "reflect";
             "sort"; "slices"; "maps"; "strconv"; "strings"; "sync"; "time"; "unicode"; "unicode/utf8"; "unicode/utf16";
             "regexp"; "net/url"; "io"; "cmp"; "encoding/hex"; "math/big"; "path"; "html";
             "github.com/iancoleman/strcase"; "github.com/shopspring/decimal"; "github.com/google/uuid";
             "google.golang.org/grpc/status"; "google.golang.org/grpc/codes"].

(* package-level variables of mutable kind (error values apart: immutable): the default codecs,
   a compiled pattern, read-only tables — all covered by (2); listed so that a new one is looked at *)
Definition var_ok (v : string * string * bool) : bool :=
  match v with
  | (n, _, mut) => negb mut ||
      in_strs n ["codec.Global"; "j5codec.Global"; "id62.Pattern";
                 "j5schema.floatKinds"; "j5schema.intKinds"; "j5schema.wellKnownStringPatterns"]
  end.

Definition census_ok : bool :=
  lf_writes_nothing ConcStateGen.lockfree_fns ConcStateGen.state_writes &&
  vars_only_initialised ConcStateGen.state_writes &&
  lf_reads_no_locked_field ConcStateGen.lf_read_fields &&
  locked_fields_written_by_cache ConcStateGen.locked_fns ConcStateGen.state_writes &&
  cache_writers_in_table &&
  published_ok ConcStateGen.lk_written_lf_read &&
  lk_writes_to_fresh ConcStateGen.lk_field_writes &&
  to_writers_in_tables &&
  walk_reads_frozen ConcStateGen.lockfree_fns ConcStateGen.locked_fns ConcStateGen.lf_read_fields
                    ConcStateGen.state_writes ConcStateGen.lk_field_writes &&
  projected_reads_ok ConcStateGen.lockfree_fns ConcStateGen.state_writes &&
  holders_hold_only_the_cache ConcStateGen.shared_fields &&
  forallb shared_type_ok ConcStateGen.shared_types &&
  boundary_ok ConcStateGen.lockfree_roots ConcStateGen.lockfree_fns ConcStateGen.locked_fns ConcStateGen.schema_callers &&
  forallb dyncall_ok ConcStateGen.lf_dyncalls &&
  forallb ext_pkg_ok ConcStateGen.lf_ext_pkgs &&
  forallb var_ok ConcStateGen.state_vars &&
  (* the packages the task names are among the analysed ones *)
  forallb (fun p => in_strs p ConcStateGen.state_pkgs) ["lib/j5schema"; "lib/j5reflect"; "internal/codec"; "lib/j5codec"].

(* the obligation about the codec walk, by itself (every conjunct is also part of census_ok) *)
Definition walk_ok : bool :=
  lf_writes_nothing ConcStateGen.lockfree_fns ConcStateGen.state_writes &&
  walk_reads_frozen ConcStateGen.lockfree_fns ConcStateGen.locked_fns ConcStateGen.lf_read_fields
                    ConcStateGen.state_writes ConcStateGen.lk_field_writes &&
  lk_writes_to_fresh ConcStateGen.lk_field_writes &&
  vars_only_initialised ConcStateGen.state_writes &&
  lf_reads_no_locked_field ConcStateGen.lf_read_fields &&
  forallb dyncall_ok ConcStateGen.lf_dyncalls &&
  match ConcStateGen.go_stmts with [] => true | _ => false end &&
  forallb shared_type_ok ConcStateGen.shared_types &&
  forallb ext_pkg_ok ConcStateGen.lf_ext_pkgs.

(* a locked function writing a field the walk reads, which the classification does not list *)
Definition unclassified_write : write :=
  ("j5schema.Package.buildObjectSchema", "field:j5schema.ObjectProperty.JSONName", "set").
(* a lock-free function writing a field the walk reads (a lazily filled memo field) *)
Definition walk_memo_write : write :=
  ("j5schema.ObjectSchema.ClientProperties", "field:j5schema.ObjectSchema.Properties", "set").

(* ---- the checks do discriminate: the seeded regressions ------------------------------- *)
(* a memo map in the Reflector filled by NewRoot (mutation 6 of notes/conc.md) *)
Definition memo_write : write := ("j5reflect.Reflector.NewRoot", "field:j5reflect.Reflector.rootProps", "elem").
(* the same through a local alias:  m := r.rootProps; m[k] = v *)
Definition memo_alias_write : write := ("j5reflect.Reflector.NewRoot", "elem-of:map[string]*j5reflect.propSet", "elem").
(* a locked function that modifies an object it found in the cache (published earlier) *)
Definition republish_write : write :=
  ("j5schema.Package.messageProperties", "j5schema.ObjectSchema.Properties", "other:result of refTo").
(* a package-level cache filled inside Schema (under sc.mu, but shared by all codecs) *)
Definition pkg_cache_write : write := ("j5schema.SchemaCache.schemaLocked", "var:j5schema.descCache", "elem").

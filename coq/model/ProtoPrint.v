(* ProtoPrint.v — model of the structural layer of internal/j5s/protoprint (C05):
     protoprint.go   contextRefName / pathToPackage (scope shortening of type names)
     options.go      option values rendered in text-format syntax (as a token stream)
   and of the consumer of that text: how protocompile's linker resolves a relative type name
   (linker/resolve.go: resolve, fileScope, messageScope, resolveElementRelative), and a parser for
   exactly the option-value token subset the printer emits.
   The literal layer (strings, numbers, identifiers) is model/ProtoPrintLit.v. No proofs here. *)
From Coq Require Import String List NArith ZArith Bool.
From J5V.lib Require Import Outcome Corr.
From J5V.model Require Import ProtoPrintLit.
Import ListNotations.
Local Open Scope N_scope.
Local Open Scope bool_scope.

Definition ident := list N.                 (* one name component *)
Definition qname := list ident.             (* a dotted name, as components *)
Definition ident_eqb : ident -> ident -> bool := list_eqb N.eqb.
Definition qname_eqb : qname -> qname -> bool := list_eqb ident_eqb.

(* ------------------------------------------------------------------ *)
(* the stripping loop of contextRefName (the last component of the reference is never stripped);
   [context_ref_name] below is the function as it was before the capture check was added *)
Fixpoint strip_common (ref ctx : qname) {struct ctx} : qname :=
  match ctx with
  | [] => ref
  | c :: ctx' =>
      match ref with
      | r :: ((_ :: _) as ref') => if ident_eqb r c then strip_common ref' ctx' else ref
      | _ => ref
      end
  end.

(* the snapshot: every shared component is stripped, down to the empty name *)
Fixpoint strip_common_snapshot (ref ctx : qname) {struct ctx} : qname :=
  match ctx with
  | [] => ref
  | c :: ctx' =>
      match ref with
      | r :: ref' => if ident_eqb r c then strip_common_snapshot ref' ctx' else ref
      | [] => ref
      end
  end.

(* ctx_pkg/ctx_path: package and message path of the element holding the reference;
   ref_pkg/ref_path: package and path of the referenced message or enum *)
Definition context_ref_name (ctx_pkg ctx_path ref_pkg ref_path : qname) : qname :=
  if qname_eqb ctx_pkg ref_pkg then strip_common ref_path ctx_path else ref_pkg ++ ref_path.

Definition context_ref_name_snapshot (ctx_pkg ctx_path ref_pkg ref_path : qname) : qname :=
  if qname_eqb ctx_pkg ref_pkg then strip_common_snapshot ref_path ctx_path else ref_pkg ++ ref_path.

(* ------------------------------------------------------------------ *)
(* the linker's view: which full names are types (messages, enums), which packages are visible *)
Record symtab := {
  st_types : list qname;      (* full names (package ++ path) of the messages and enums of the file and its imports *)
  st_pkgs : list qname        (* the file's package and the packages of its imports *)
}.

Definition is_type (st : symtab) (n : qname) : bool := existsb (qname_eqb n) (st_types st).

Fixpoint is_prefix (p l : qname) : bool :=
  match p, l with
  | [], _ => true
  | a :: p', b :: l' => ident_eqb a b && is_prefix p' l'
  | _ :: _, [] => false
  end.

(* a non-empty name that is a package or a parent package: resolves to the "namespace" sentinel *)
Definition is_namespace (st : symtab) (n : qname) : bool :=
  match n with [] => false | _ => existsb (is_prefix n) (st_pkgs st) end.

Inductive res := Found (n : qname) | NotDefined | Continue.

(* resolveElementRelative in a message scope: only the file's own descriptors are consulted *)
Definition try_msg (st : symtab) (scope name : qname) : res :=
  match name with
  | [] => Continue
  | first :: rest =>
      if is_type st (scope ++ [first]) then
        match rest with
        | [] => Found (scope ++ [first])
        | _ => if is_type st (scope ++ name) then Found (scope ++ name) else NotDefined
        end
      else Continue
  end.

(* ... in the file scope for one package prefix: imports are consulted too, and a package name
   matches as an aggregate. A single-component name that matched a non-type is skipped. *)
Definition try_file (st : symtab) (scope name : qname) : res :=
  match name with
  | [] => Continue
  | first :: rest =>
      match rest with
      | [] => if is_type st (scope ++ [first]) then Found (scope ++ [first]) else Continue
      | _ =>
          if is_type st (scope ++ [first]) || is_namespace st (scope ++ [first]) then
            if is_type st (scope ++ name) then Found (scope ++ name) else NotDefined
          else Continue
      end
  end.

(* message scopes, innermost first: scope ++ rem, ..., scope ++ [hd rem] (not scope itself) *)
Fixpoint resolve_msg (st : symtab) (scope rem name : qname) : res :=
  match rem with
  | [] => Continue
  | c :: rem' =>
      match resolve_msg st (scope ++ [c]) rem' name with
      | Continue => try_msg st (scope ++ [c]) name
      | r => r
      end
  end.

(* file scope: the package, its parents, the root *)
Fixpoint resolve_file (st : symtab) (scope rem name : qname) : res :=
  match rem with
  | [] => try_file st scope name
  | c :: rem' =>
      match resolve_file st (scope ++ [c]) rem' name with
      | Continue => try_file st scope name
      | r => r
      end
  end.

Definition resolve (st : symtab) (pkg ctx_path name : qname) : option qname :=
  match resolve_msg st pkg ctx_path name with
  | Found n => Some n
  | NotDefined => None
  | Continue =>
      match resolve_file st [] pkg name with
      | Found n => Some n
      | _ => None
      end
  end.

(* ------------------------------------------------------------------ *)
(* contextRefName as it is now: before printing the shortened name it checks that no scope the
   parser searches earlier declares the name's first component; otherwise the full name is printed
   with a leading dot (nameShadowed / packageNameCaptured / declaresName) *)
Definition capture_same (st : symtab) (pkg ctx : qname) (j : nat) (first : ident) : bool :=
  existsb (fun k => is_type st (pkg ++ firstn k ctx ++ [first])) (seq (S j) (length ctx - j)).

Definition capture_other (st : symtab) (pkg ctx : qname) (first : ident) : bool :=
  existsb (fun k => is_type st (pkg ++ firstn k ctx ++ [first])) (seq 1 (length ctx))
  || existsb (fun k => is_type st (firstn k pkg ++ [first]) || is_namespace st (firstn k pkg ++ [first]))
             (seq 1 (length pkg)).

Record printed_name := { pn_abs : bool; pn_name : qname }.   (* pn_abs: leading dot *)

(* statementKeywords (fix 5e02f98): words that start another statement, are a label or name a scalar type
   where a field is declared; a relative type name starting with one of them is printed .full.Name *)
Definition statement_keywords : list ident :=
  [ [98;111;111;108] (* bool *);
    [98;121;116;101;115] (* bytes *);
    [100;111;117;98;108;101] (* double *);
    [101;110;117;109] (* enum *);
    [101;120;116;101;110;100] (* extend *);
    [101;120;116;101;110;115;105;111;110;115] (* extensions *);
    [102;105;120;101;100;51;50] (* fixed32 *);
    [102;105;120;101;100;54;52] (* fixed64 *);
    [102;108;111;97;116] (* float *);
    [103;114;111;117;112] (* group *);
    [105;110;116;51;50] (* int32 *);
    [105;110;116;54;52] (* int64 *);
    [109;101;115;115;97;103;101] (* message *);
    [111;110;101;111;102] (* oneof *);
    [111;112;116;105;111;110] (* option *);
    [111;112;116;105;111;110;97;108] (* optional *);
    [114;101;112;101;97;116;101;100] (* repeated *);
    [114;101;113;117;105;114;101;100] (* required *);
    [114;101;115;101;114;118;101;100] (* reserved *);
    [115;102;105;120;101;100;51;50] (* sfixed32 *);
    [115;102;105;120;101;100;54;52] (* sfixed64 *);
    [115;105;110;116;51;50] (* sint32 *);
    [115;105;110;116;54;52] (* sint64 *);
    [115;116;114;101;97;109] (* stream *);
    [115;116;114;105;110;103] (* string *);
    [117;105;110;116;51;50] (* uint32 *);
    [117;105;110;116;54;52] (* uint64 *) ].
Definition is_statement_keyword (c : ident) : bool := existsb (ident_eqb c) statement_keywords.

Definition context_ref_name_safe (st : symtab) (ctx_pkg ctx_path ref_pkg ref_path : qname) : printed_name :=
  if qname_eqb ctx_pkg ref_pkg then
    let short := strip_common ref_path ctx_path in
    let j := (length ref_path - length short)%nat in
    if capture_same st ctx_pkg ctx_path j (hd [] short) || is_statement_keyword (hd [] short)
    then {| pn_abs := true; pn_name := ref_pkg ++ ref_path |}
    else {| pn_abs := false; pn_name := short |}
  else
    if capture_other st ctx_pkg ctx_path (hd [] ref_pkg) || is_statement_keyword (hd [] ref_pkg)
    then {| pn_abs := true; pn_name := ref_pkg ++ ref_path |}
    else {| pn_abs := false; pn_name := ref_pkg ++ ref_path |}.

(* contextRefName before fix 5e02f98: no keyword check *)
Definition context_ref_name_nokw (st : symtab) (ctx_pkg ctx_path ref_pkg ref_path : qname) : printed_name :=
  if qname_eqb ctx_pkg ref_pkg then
    let short := strip_common ref_path ctx_path in
    let j := (length ref_path - length short)%nat in
    if capture_same st ctx_pkg ctx_path j (hd [] short)
    then {| pn_abs := true; pn_name := ref_pkg ++ ref_path |}
    else {| pn_abs := false; pn_name := short |}
  else
    if capture_other st ctx_pkg ctx_path (hd [] ref_pkg)
    then {| pn_abs := true; pn_name := ref_pkg ++ ref_path |}
    else {| pn_abs := false; pn_name := ref_pkg ++ ref_path |}.

(* a name with a leading dot is looked up as it is *)
Definition resolve_printed (st : symtab) (pkg ctx_path : qname) (p : printed_name) : option qname :=
  if pn_abs p then (if is_type st (pn_name p) then Some (pn_name p) else None)
  else resolve st pkg ctx_path (pn_name p).

Definition printed_text (p : printed_name) : list N :=
  if pn_abs p then 46 :: join_dot (pn_name p) else join_dot (pn_name p).

(* ------------------------------------------------------------------ *)
(* option values as the printer walks them (optionreflect.OptionField) and their tokens *)
Inductive scalar :=
| VBool (b : bool)
| VInt (z : Z)
| VUint (n : N)
| VStr (s : list N)          (* string or bytes: printed by prototextString *)
| VEnum (name : ident).      (* enum value name; floats are not modelled *)

Inductive optval :=
| OScalar (v : scalar)
| OMsg (fields : list (ident * optval))
| OList (items : list optval).

Inductive token :=
| TIdent (s : ident) | TLit (s : list N)      (* identifier; string/number literal text *)
| TColon | TLBrace | TRBrace | TLBrack | TRBrack | TComma
(* the rest of the file grammar (model/ProtoPrintFile.v): punctuation, and the comments the lexer
   attaches to the token that follows (detached groups, then the attached leading comment) *)
| TSemi | TEq | TLParen | TRParen | TLt | TGt | TDot
| TDetached (c : list N) | TLeading (c : list N).

Definition print_scalar (v : scalar) : token :=
  match v with
  | VBool b => TIdent (print_bool b)
  | VInt z => TLit (print_int z)
  | VUint n => TLit (print_uint n)
  | VStr s => TLit (print_string_lit s)
  | VEnum n => TIdent n
  end.

(* printOptionMessageFields / printOptionArray: "key: value" lines, nested "{ }", arrays "[ , ]" *)
Fixpoint print_val (v : optval) : list token :=
  match v with
  | OScalar s => [print_scalar s]
  | OMsg fs =>
      TLBrace :: (fix fields (l : list (ident * optval)) : list token :=
                    match l with
                    | [] => []
                    | (k, x) :: r => TIdent k :: TColon :: print_val x ++ fields r
                    end) fs ++ [TRBrace]
  | OList items =>
      TLBrack :: (fix elems (l : list optval) : list token :=
                    match l with
                    | [] => []
                    | [x] => print_val x
                    | x :: r => print_val x ++ TComma :: elems r
                    end) items ++ [TRBrack]
  end.

(* the same, with the two inner loops as named functions (equal to the inner fixes: proofs file) *)
Fixpoint print_fields (l : list (ident * optval)) : list token :=
  match l with
  | [] => []
  | (k, x) :: r => TIdent k :: TColon :: print_val x ++ print_fields r
  end.

Fixpoint print_elems (l : list optval) : list token :=
  match l with
  | [] => []
  | [x] => print_val x
  | x :: r => print_val x ++ TComma :: print_elems r
  end.

(* ------------------------------------------------------------------ *)
(* a parser for exactly that token subset (the text-format value grammar the option printer uses).
   Leaves stay tokens: which scalar a leaf denotes is decided by the field's type (literal layer). *)
Inductive rawval :=
| RScalar (t : token)
| RMsg (fields : list (ident * rawval))
| RList (items : list rawval).

Fixpoint raw_of (v : optval) : rawval :=
  match v with
  | OScalar s => RScalar (print_scalar s)
  | OMsg fs => RMsg ((fix go (l : list (ident * optval)) : list (ident * rawval) :=
                        match l with [] => [] | (k, x) :: r => (k, raw_of x) :: go r end) fs)
  | OList items => RList ((fix go (l : list optval) : list rawval :=
                             match l with [] => [] | x :: r => raw_of x :: go r end) items)
  end.

Fixpoint raw_fields (l : list (ident * optval)) : list (ident * rawval) :=
  match l with [] => [] | (k, x) :: r => (k, raw_of x) :: raw_fields r end.
Fixpoint raw_elems (l : list optval) : list rawval :=
  match l with [] => [] | x :: r => raw_of x :: raw_elems r end.

Definition is_scalar_token (t : token) : bool :=
  match t with TIdent _ | TLit _ => true | _ => false end.

Fixpoint parse_raw (fuel : nat) (ts : list token) {struct fuel} : option (rawval * list token) :=
  match fuel with
  | O => None
  | S f =>
      match ts with
      | TLBrace :: r =>
          match parse_fields f r with Some (fs, rest) => Some (RMsg fs, rest) | None => None end
      | TLBrack :: TRBrack :: r => Some (RList [], r)
      | TLBrack :: r =>
          match parse_raw f r with
          | Some (x, r1) => match parse_more f r1 with Some (xs, rest) => Some (RList (x :: xs), rest) | None => None end
          | None => None
          end
      | t :: r => if is_scalar_token t then Some (RScalar t, r) else None
      | [] => None
      end
  end
with parse_fields (fuel : nat) (ts : list token) {struct fuel} : option (list (ident * rawval) * list token) :=
  match fuel with
  | O => None
  | S f =>
      match ts with
      | TRBrace :: r => Some ([], r)
      | TIdent k :: TColon :: r =>
          match parse_raw f r with
          | Some (x, r1) => match parse_fields f r1 with Some (fs, rest) => Some ((k, x) :: fs, rest) | None => None end
          | None => None
          end
      | _ => None
      end
  end
with parse_more (fuel : nat) (ts : list token) {struct fuel} : option (list rawval * list token) :=
  match fuel with
  | O => None
  | S f =>
      match ts with
      | TRBrack :: r => Some ([], r)
      | TComma :: r =>
          match parse_raw f r with
          | Some (x, r1) => match parse_more f r1 with Some (xs, rest) => Some (x :: xs, rest) | None => None end
          | None => None
          end
      | _ => None
      end
  end.

(* printing a raw tree: the inverse direction, for idempotence *)
Fixpoint print_raw (v : rawval) : list token :=
  match v with
  | RScalar t => [t]
  | RMsg fs =>
      TLBrace :: (fix fields (l : list (ident * rawval)) : list token :=
                    match l with [] => [] | (k, x) :: r => TIdent k :: TColon :: print_raw x ++ fields r end) fs
              ++ [TRBrace]
  | RList items =>
      TLBrack :: (fix elems (l : list rawval) : list token :=
                    match l with [] => [] | [x] => print_raw x | x :: r => print_raw x ++ TComma :: elems r end) items
              ++ [TRBrack]
  end.

Fixpoint size (v : optval) : nat :=
  match v with
  | OScalar _ => 1%nat
  | OMsg fs => S (S ((fix go (l : list (ident * optval)) : nat := match l with [] => 0%nat | (_, x) :: r => S (size x + go r) end) fs))
  | OList items => S (S ((fix go (l : list optval) : nat := match l with [] => 0%nat | x :: r => S (size x + go r) end) items))
  end.
Fixpoint size_fields (l : list (ident * optval)) : nat :=
  match l with [] => 0%nat | (_, x) :: r => S (size x + size_fields r) end.
Fixpoint size_elems (l : list optval) : nat :=
  match l with [] => 0%nat | x :: r => S (size x + size_elems r) end.

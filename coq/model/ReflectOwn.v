(* ReflectOwn.v — the reader WITH the ownership of schema names (fix 0e6056c in lib/j5schema).

   Schema names are the descriptor path joined by "_", so two descriptors (message Col.Inner and
   message Col_Inner; an exposed oneof Col.pick and message Col_pick) can ask for one name.  Since
   the fix every RefSchema created from reflection records the full name of the descriptor it was
   created for (RefSchema.source), and every lookup from reflection (messageSchema,
   SchemaCache.schemaLocked, newRefPlaceholder in buildMessageFieldSchema / buildEnumFieldSchema /
   messageProperties / the enum loop of SchemaSetFromFiles) calls RefSchema.claim, which is an
   error when the name was given to another descriptor before.

   This file is the model of the code as it is: the functions of Reflect.v with the owners threaded
   next to the schema set ([ost] = schema set x owners; a roll-back of the cache restores both, the
   owner lives in the RefSchema that is deleted).  Reflect.v is this model with the owners erased:
   proofs/ReflectOwnProofs.v proves that every function here either returns an error or returns
   exactly what its Reflect.v counterpart returns on the erased state, so the theorems about
   Reflect.v are theorems about this model.  No proofs here. *)
From Coq Require Import String List NArith ZArith Bool.
From J5V.lib Require Import Outcome.
From J5V.model Require Import ReflectDesc ReflectSchema Reflect.
Import ListNotations.
Local Open Scope bool_scope.

(* (package, schema name) -> full name of the descriptor the name was given to *)
Definition owners := list (ref * str).
Definition ost := (sset * owners)%type.

Fixpoint owner (ow : owners) (k : ref) : option str :=
  match ow with
  | [] => None
  | (k', o) :: r => if ref_eqb k' k then Some o else owner r k
  end.

(* RefSchema.claim (after refTo created the ref when there was none): None = the error *)
Definition claim (ow : owners) (k : ref) (full : str) : option owners :=
  match owner ow k with
  | None => Some ((k, full) :: ow)
  | Some o => if str_eqb o full then Some ow else None
  end.

Definition s_dot : str := [46%N].
(* protoreflect full name of a oneof: the message's full name, a dot, the oneof's name *)
Definition oneof_full (m : msgd) (oname : str) : str := m_full m ++ s_dot ++ oname.

Definition e_claim := "schema name is used by two descriptors"%string.

Section WithDesc.
Variable D : desc.

(* buildEnumFieldSchema, first half *)
Definition o_enum_ref (s : ost) (e : enumd) : outcome ost :=
  match claim (snd s) (enum_key e) (e_full e) with
  | None => Err e_claim
  | Some ow1 => obind (enum_ref (fst s) e) (fun st1 => Ok (st1, ow1))
  end.

(* buildEnumFieldSchema *)
Definition o_build_enum_field (s : ost) (f : field) (x : exts) : outcome (ost * fschema) :=
  match f_ty f with
  | TEnum full =>
      match find_enum D full with
      | None => Err "descriptor: enum not in the set"
      | Some e =>
          let k := enum_key e in
          obind (o_enum_ref s e) (fun s1 =>
          obind (match x_vty x with
                 | VEnum ins notins =>
                     match lookup (fst s1) k with
                     | Some (Linked (REnum _ _ _ opts _)) =>
                         lift (rbind (enum_in opts ins) (fun i => rbind (enum_notin opts notins) (fun n => ROk (Some (i, n)))))
                     | Some (Linked _) => Panic "buildEnumFieldSchema: ref.To.(EnumSchema) on a schema of another type"
                     | _ => Panic "buildEnumFieldSchema: ref.To.(EnumSchema) on a nil RootSchema"
                     end
                 | _ => Ok None
                 end) (fun rules =>
          Ok (s1, FEnum k rules (match x_lty x with LEnum t => Some t | _ => None end) None)))
      end
  | _ => Err "descriptor: enum field without an enum type"
  end.

Section Step.
Variable rec : ost -> msgd -> outcome (ost * root).

(* buildMessageFieldSchema *)
Definition o_build_message_field (s : ost) (f : field) (x : exts) : outcome (ost * fschema) :=
  match f_ty f with
  | TMsg full =>
      let flatten := match x_j5 x with Some (JMessage b) => b | Some (JObject b) => b | _ => false end in
      obind (lift (wkt_schema full x)) (fun w =>
      match w with
      | Some sc => Ok (s, sc)
      | None =>
          if has_prefix s_google_protobuf full then Err "unsupported google type"
          else match find_msg D full with
               | None => Err "descriptor: message not in the set"
               | Some m =>
                   let k := msg_key m in
                   let wrapper := is_oneof_wrapper m in
                   match claim (snd s) k (m_full m) with
                   | None => Err e_claim
                   | Some ow1 =>
                       obind (match lookup (fst s) k with
                              | Some e => if is_enum_entry e then Err "schema name is used by an enum and by a message or oneof"
                                          else Ok (fst s, ow1)
                              | None => obind (rec ((k, Placeholder) :: fst s, ow1) m)
                                              (fun '(s1, r) => Ok (update (fst s1) k (Linked r), snd s1))
                              end) (fun s2 =>
                       Ok (s2, if wrapper then FOneof k None (match x_lty x with LOneof t => Some t | _ => None end) None
                               else FObject k flatten None None))
                   end
               end
      end)
  | _ => Err "descriptor: message field without a message type"
  end.

(* buildSchema *)
Definition o_build_schema (s : ost) (f : field) (x : exts) : outcome (ost * fschema) :=
  match f_kind f with
  | KMessage => o_build_message_field s f x
  | KEnum => o_build_enum_field s f x
  | k => obind (lift (build_scalar k x)) (fun p => Ok (s, FScalar (Some (k, [])) p))
  end.

(* one field of messageProperties *)
Definition o_build_field_prop (s : ost) (f : field) : outcome (ost * prop) :=
  let x := field_exts f in
  let required := match x_validate x with Some (FCon (Some true) _ _) => true | _ => false end in
  match f_card f with
  | CRepeated =>
      let '(rules, items) := match x_vty x with
                             | VRepeated mn mx un it => (Some (mn, mx, un), it)
                             | _ => (None, None)
                             end in
      let ext := match x_j5 x with Some (JArray sf) => Some sf | _ => None end in
      obind (o_build_schema s f (child_exts f items true)) (fun '(s1, item) =>
      Ok (s1, Prop_ (f_json f) [f_num f] required false (f_descr f) (FArray item rules ext)))
  | CMap kk =>
      if negb (kind_eqb kk KString) then Err "map keys must be strings for J5"
      else
        let '(rules, values) := match x_vty x with
                                | VMap mn mx vs => (Some (mn, mx), vs)
                                | _ => (None, None)
                                end in
        let ext := match x_j5 x with Some (JMap sf) => Some sf | _ => None end in
        obind (o_build_schema s f (child_exts f values false)) (fun '(s1, item) =>
        Ok (s1, Prop_ (f_json f) [f_num f] required false (f_descr f) (FMap item rules ext)))
  | c =>
      let optional := negb required && (match c with COptional => true | _ => false end) in
      obind (o_build_schema s f x) (fun '(s1, sc) =>
      Ok (s1, Prop_ (f_json f) [f_num f] required optional (f_descr f) sc))
  end.

(* exposed oneofs: newRefPlaceholder claims the name for the oneof descriptor *)
Fixpoint o_register_oneofs (m : msgd) (s : ost) (idx : N) (os : list oneofd) : res (ost * list exposed) :=
  match os with
  | [] => ROk (s, [])
  | Oneof name jname synthetic ext d :: r =>
      match synthetic, ext with
      | false, Some true =>
          let k := oneof_key m name in
          match claim (snd s) k (oneof_full m name) with
          | None => RErr e_claim
          | Some ow1 =>
              match lookup (fst s) k with
              | Some _ => RErr "placeholder already exists for oneof wrapper"
              | None =>
                  let st1 := (k, Linked (ROneof (snd k) d [])) :: fst s in
                  rbind (o_register_oneofs m (st1, ow1) (N.succ idx) r) (fun '(s2, exs) =>
                  ROk (s2, {| ex_idx := idx; ex_key := k;
                              ex_prop := Prop_ jname [] false false (m_descr m) (FOneof k None None None);
                              ex_pending := true; ex_props := [] |} :: exs))
              end
          end
      | _, _ => o_register_oneofs m s (N.succ idx) r
      end
  end.

Fixpoint o_fields_loop (m : msgd) (s : ost) (exs : list exposed) (fs : list field) : outcome (ost * list exposed * list prop) :=
  match fs with
  | [] => Ok (s, exs, [])
  | f :: r =>
      obind (o_build_field_prop s f) (fun '(s1, p) =>
      let direct := obind (o_fields_loop m s1 exs r) (fun '(s2, exs2, ps) => Ok (s2, exs2, p :: ps)) in
      match f_card f, f_oneof f with
      | CRepeated, _ | CMap _, _ => direct
      | _, None => direct
      | _, Some idx =>
          if oneof_is_synthetic m idx then direct
          else match add_to_exposed exs idx p with
               | None => direct
               | Some (exs1, pending) =>
                   obind (o_fields_loop m s1 exs1 r) (fun '(s2, exs2, ps) =>
                   Ok (s2, exs2, match pending with Some pp => pp :: ps | None => ps end))
               end
      end)
  end.

(* messageProperties *)
Definition o_message_properties (s : ost) (m : msgd) : outcome (ost * list prop) :=
  obind (lift (o_register_oneofs m s 0 (m_oneofs m))) (fun '(s1, exs) =>
  obind (o_fields_loop m s1 exs (m_fields m)) (fun '(s2, exs2, ps) =>
  if existsb ex_pending exs2 then Err "oneof has not been added"
  else if negb (exs_names_ok exs2) then Err "property name is used twice (members of an exposed oneof)"
  else Ok ((finish_oneofs (fst s2) exs2, snd s2), ps))).

(* buildOneofSchema / buildObjectSchema *)
Definition o_build_root (s : ost) (m : msgd) : outcome (ost * root) :=
  obind (o_message_properties s m) (fun '(s1, ps) =>
  if negb (props_valid ps) then Err "property has no JSON name, or a JSON name is used twice"
  else if is_oneof_wrapper m then Ok (s1, ROneof (snd (msg_key m)) (m_descr m) ps)
  else match flatten_cycle (fst s1) (msg_key m) ps with
       | None => OutOfFuel
       | Some true => Err "flattened fields lead back to the object"
       | Some false =>
           obind (lift (find_psm D m)) (fun entity =>
           let anym := match m_opt m with Some (MsgOpt _ (MTObject am)) => am | _ => [] end in
           Ok (s1, RObject (snd (msg_key m)) (m_descr m) entity anym ps))
       end).
End Step.

Fixpoint o_build_msg (fuel : nat) (s : ost) (m : msgd) : outcome (ost * root) :=
  match fuel with
  | O => OutOfFuel
  | S f => o_build_root (o_build_msg f) s m
  end.

(* SchemaSet.messageSchema, and SchemaCache.schemaLocked: an existing ref is claimed (error when it
   belongs to another descriptor), a new placeholder carries the descriptor's full name *)
Definition o_message_schema (fuel : nat) (s : ost) (m : msgd) : outcome (ost * root) :=
  let k := msg_key m in
  match claim (snd s) k (m_full m) with
  | None => Err e_claim
  | Some ow1 =>
      match lookup (fst s) k with
      | Some Placeholder => Err "unlinked ref"
      | Some (Linked r) => Ok ((fst s, ow1), r)
      | None => obind (o_build_msg fuel ((k, Placeholder) :: fst s, ow1) m)
                      (fun '(s1, r) => Ok ((update (fst s1) k (Linked r), snd s1), r))
      end
  end.

(* SchemaCache.Schema: a failed build leaves the cache as it was (the refs it registered are deleted,
   and their owners with them) *)
Definition o_cache_schema (fuel : nat) (s : ost) (m : msgd) : ost * outcome root :=
  match o_message_schema fuel s m with
  | Ok (s1, r) => (s1, Ok r)
  | Err c => (s, Err c)
  | Panic p => (s, Panic p)
  | OutOfFuel => (s, OutOfFuel)
  end.

Fixpoint o_messages_loop (fuel : nat) (s : ost) (ms : list str) : outcome ost :=
  match ms with
  | [] => Ok s
  | full :: r =>
      match find_msg D full with
      | None => Err "descriptor: message not in the set"
      | Some m => obind (o_message_schema fuel s m) (fun '(s1, _) => o_messages_loop fuel s1 r)
      end
  end.
Fixpoint o_enums_loop (s : ost) (es : list str) : outcome ost :=
  match es with
  | [] => Ok s
  | full :: r =>
      match find_enum D full with
      | None => Err "descriptor: enum not in the set"
      | Some e =>
          let k := enum_key e in
          match claim (snd s) k (e_full e) with
          | None => Err e_claim
          | Some ow1 =>
              match lookup (fst s) k with
              | Some _ => o_enums_loop (fst s, ow1) r
              | None => obind (build_enum e) (fun root => o_enums_loop ((k, Linked root) :: fst s, ow1) r)
              end
          end
      end
  end.

Definition o_reflect_files (fuel : nat) (fs : list filed) : outcome ost :=
  let '(ms, es) := collect fs in
  obind (o_messages_loop fuel ([], []) ms) (fun s => o_enums_loop s es).

(* SchemaSetFromFiles as the code is: the schema set, and who owns each name *)
Definition o_reflect (fs : list filed) : outcome ost := o_reflect_files (size D) fs.
End WithDesc.

(* BclCorr.v — correspondence cases for C11: what lexer, walker, ParseFile and
   HumanString were observed to do on an input, checked against the model by
   vm_compute.  Only projected observables: token types / literals / ranges,
   node kinds and ranges, diagnostic ranges and messages, which guard of humanString fired. *)
From Coq Require Import String List NArith ZArith Bool.
From J5V.lib Require Import Text Outcome Corr.
From J5V.model Require Import BclLexer BclParser BclErrpos BclErrposText BclErrposGen.
Import ListNotations.
Local Open Scope bool_scope.

Definition pos_eqb (a b : pos) : bool := Z.eqb (fst a) (fst b) && Z.eqb (snd a) (snd b).

(* an observed token: (type code, literal runes, start, end) *)
Definition otok : Type := (N * list N * pos * pos)%type.
Definition tok_obs (t : token) : otok := (tt_code (ty t), lit t, tstart t, tend t).
Definition otok_eqb (a b : otok) : bool :=
  let '(c1, l1, s1, e1) := a in let '(c2, l2, s2, e2) := b in
  N.eqb c1 c2 && list_N_eqb l1 l2 && pos_eqb s1 s2 && pos_eqb e1 e2.

(* an observed diagnostic: range and message bytes (errpos.Err.Err.Error()) *)
Definition odiag : Type := (pos * pos * list N)%type.
Definition diag_obs (d : diag) : odiag := (dstart d, dend d, dmsg d).
Definition odiag_eqb (a b : odiag) : bool :=
  let '(s1, e1, m1) := a in let '(s2, e2, m2) := b in pos_eqb s1 s2 && pos_eqb e1 e2 && list_N_eqb m1 m2.
Definition diag_of_obs (d : odiag) : diag := let '(s, e, m) := d in mkDiag s e m.
Definition pnode_eqb (a b : pnode) : bool :=
  let '(k1, s1, e1) := a in let '(k2, s2, e2) := b in N.eqb k1 k2 && pos_eqb s1 s2 && pos_eqb e1 e2.

Definition hres_eqb (a b : hres) : bool :=
  match a, b with
  | HNoStart, HNoStart => true
  | HLineOutA, HLineOutA => true
  | HLineOutB n, HLineOutB m => N.eqb n m
  | HColOut n, HColOut m => N.eqb n m
  | HCaret n w, HCaret m v => N.eqb n m && N.eqb w v
  | _, _ => false
  end.

(* a diagnostic of any producer: Pos (nil | file name (nil | bytes), start, end), Ctx (nil | path), Err (nil | text) *)
Definition ogdiag : Type := (option (option (list N) * pos * pos) * option (list (list N)) * option (list N))%type.
Definition gdiag_of_obs (o : ogdiag) : gdiag := let '(p, c, m) := o in mkG p c m.

Inductive c11case :=
(* one input, one value of failFast: AllTokens, walkFragments, ParseFile *)
| CFile (input : list N) (ff : bool)
        (lexok : bool) (toks : list otok)                 (* Lexer.AllTokens *)
        (fnodes : list pnode) (wdiags : list odiag)        (* Walker.walkFragments (when lexok) *)
        (treenil : bool) (tnodes : list pnode) (diags : list odiag)   (* ParseFile *)
| CFilePanic (input : list N) (ff : bool)
(* humanString on each diagnostic separately *)
| CHuman (input : list N) (context : Z) (ds : list odiag) (obs : list hres)
| CHumanPanic (input : list N) (context : Z) (ds : list odiag)
(* the whole text ErrorsWithSource.HumanString(context) returns for these diagnostics, byte for byte *)
| CHumanText (input : list N) (context : Z) (ds : list odiag) (text : list N)
(* ParseFile on "a = " + opens x "[" + closes x "]" (+ newline when closes > 0), the input built here: the
   boundary of the array nesting bound, compared on the projected result (tree nil, statements, diagnostics) *)
| CDeep (opens closes : N) (ff : bool) (treenil : bool) (nstmts : N) (diags : list odiag)
(* HumanString(context) for diagnostics of any producer (nil Pos, file name, context path, nil Err), byte for byte
   (model: BclErrposGen.human_text_g_bytes) *)
| CHumanTextG (input : list N) (context : Z) (gs : list ogdiag) (text : list N).

Definition c11_check (c : c11case) : bool :=
  match c with
  | CFile input ff lexok toks fnodes wdiags treenil tnodes diags =>
    let data := utf8_decode input in
    (match all_tokens ff data with
     | LexOk ts =>
       lexok && list_eqb otok_eqb (map tok_obs ts) toks &&
       match walk_fragments ff ts with
       | WalkOk fs ds => list_eqb pnode_eqb (flat_map frag_nodes fs) fnodes
                         && list_eqb odiag_eqb (map diag_obs ds) wdiags
       | _ => false
       end
     | LexErrs ds => negb lexok && list_eqb odiag_eqb (map diag_obs ds) wdiags
     | LexFuel => false
     end) &&
    (match parse_file input ff with
     | Ok p =>
       Bool.eqb (match ptree p with None => true | Some _ => false end) treenil
       && list_eqb pnode_eqb (match ptree p with None => [] | Some b => flat_map stmt_nodes b end) tnodes
       && list_eqb odiag_eqb (map diag_obs (pdiags p)) diags
     | _ => false
     end)
  | CFilePanic input ff => is_panic (parse_file input ff)
  | CHuman input context ds obs =>
    match human_bytes input context (map diag_of_obs ds) with
    | Ok hs => list_eqb hres_eqb hs obs
    | _ => false
    end
  | CHumanPanic input context ds =>
    is_panic (human_bytes input context (map diag_of_obs ds))
  | CHumanText input context ds text =>
    match human_text_bytes input context (map diag_of_obs ds) with
    | Ok t => list_N_eqb t text
    | _ => false
    end
  | CDeep opens closes ff treenil nstmts diags =>
    let input := [97; 32; 61; 32]%N ++ repeat 91%N (N.to_nat opens) ++ repeat 93%N (N.to_nat closes)
                 ++ (if N.eqb closes 0 then [] else [10%N]) in
    match parse_file input ff with
    | Ok p =>
      Bool.eqb (match ptree p with None => true | Some _ => false end) treenil
      && N.eqb (N.of_nat (match ptree p with None => O | Some b => length b end)) nstmts
      && list_eqb odiag_eqb (map diag_obs (pdiags p)) diags
    | _ => false
    end
  | CHumanTextG input context gs text =>
    match human_text_g_bytes input context (map gdiag_of_obs gs) with
    | Ok t => list_N_eqb t text
    | _ => false
    end
  end.

(* PipelineList.v — the list request of a list method (internal/j5client/list.go buildListRequest, the callback
   it passes to WalkSchemaFields): which of the walked fields are filterable, sortable, searchable, and the one
   error it can return (an enum field whose default filters name no option of the enum).
   The constraints of a field (j5.list.v1 *Rules on the field of the source API schema) come as a side table
   keyed by the schema that declares the property. No proofs in this file. *)
From Coq Require Import String Ascii List NArith Bool.
From J5V.lib Require Import Outcome Corr.
From J5V.model Require Import Pipeline PipelineEntity.
Import ListNotations.
Local Open Scope N_scope.
Local Open Scope bool_scope.

(* which constraint messages are present on the field's ListRules; for an enum field the default filters and
   the option names of the enum it refers to *)
Record lrule := { lr_filter : bool; lr_sort : bool; lr_search : bool;
                  lr_defaults : list str; lr_prefix : str; lr_options : list str }.

(* EnumSchema.OptionByName: the name as written, or the name without the enum's prefix *)
Definition trim_prefix (p s : str) : str := if has_prefix p s then skipn (length p) s else s.
Definition option_by_name (r : lrule) (d : str) : bool :=
  mem_str d (lr_options r) || mem_str (trim_prefix (lr_prefix r) d) (lr_options r).

Definition rules_table := list (key * str * lrule).   (* declaring schema, property JSON name *)

Definition find_rule (rt : rules_table) (k : key) (j : str) : option lrule :=
  match find (fun e => key_eqb (fst (fst e)) k && str_eqb (snd (fst e)) j) rt with
  | Some e => Some (snd e)
  | None => None
  end.

Definition find_prop (ps : list prop) (j : str) : option prop := find (fun p => str_eqb (p_json p) j) ps.

(* the schema that declares property j of the client view of k: k itself, or an object k flattens (recursively) *)
Fixpoint declaring (fuel : nat) (g : env) (k : key) (j : str) : option key :=
  match fuel with
  | O => None
  | S f =>
      match lookup g k with
      | Some s =>
          match find_prop (schema_props s) j with
          | Some p => match is_flat (p_ty p) with None => Some k | Some _ => None end
          | None =>
              fold_left (fun acc p =>
                  match acc with
                  | Some _ => acc
                  | None => match is_flat (p_ty p) with Some k' => declaring f g k' j | None => None end
                  end) (schema_props s) None
          end
      | None => None
      end
  end.

(* follow a walked path from the root of the walk through the client view; returns the schema that declares
   the last property *)
Fixpoint path_owner (g : env) (k : key) (path : list str) : option key :=
  match path with
  | [] => None
  | [j] => declaring (S (length g)) g k j
  | j :: rest =>
      match lookup (cenv g) k with
      | Some s =>
          match find_prop (schema_props s) j with
          | Some p => match direct_ref (p_ty p) with Some k' => path_owner g k' rest | None => None end
          | None => None
          end
      | None => None
      end
  end.

Record list_fields := { lf_filter : list str; lf_sort : list str; lf_search : list str }.

Definition dotted_path (p : list str) : str := join_with DOT p.

Definition is_alt (t : fty) (alts : list string) : bool :=
  match t with TScalar a => mem_string a alts | _ => false end.

(* the callback, one walked property *)
Definition list_step (rt : rules_table) (g : env) (root : key) (acc : list_fields) (x : list str * fty)
  : outcome list_fields :=
  let (path, ty) := x in
  let name := dotted_path path in
  let rule := match path_owner g root path with
              | Some k => find_rule rt k (last path [])
              | None => None
              end in
  match rule with
  | None => Ok acc
  | Some r =>
      match ty with
      | TRef alt _ =>
          if String.eqb alt "enum" then
            if lr_filter r then
              if forallb (option_by_name r) (lr_defaults r)
              then Ok {| lf_filter := lf_filter acc ++ [name]; lf_sort := lf_sort acc; lf_search := lf_search acc |}
              else Err "unknown enum value"
            else Ok acc
          else Ok acc
      | TScalar _ =>
          let f := lr_filter r && is_alt ty ["bool"; "float"; "integer"; "key"; "timestamp"]%string in
          let s := lr_sort r && is_alt ty ["float"; "integer"; "timestamp"]%string in
          let q := lr_search r && is_alt ty ["string"]%string in
          Ok {| lf_filter := lf_filter acc ++ (if f then [name] else []);
                lf_sort := lf_sort acc ++ (if s then [name] else []);
                lf_search := lf_search acc ++ (if q then [name] else []) |}
      | _ => Ok acc
      end
  end.

Definition build_list_fields (rt : rules_table) (g : env) (root : key) (walk : list (list str * fty)) : outcome list_fields :=
  fold_left (fun acc x => obind acc (fun a => list_step rt g root a x)) walk
            (Ok {| lf_filter := []; lf_sort := []; lf_search := [] |}).

(* the list request of a client method that has one *)
Definition method_list_fields (rt : rules_table) (g : env) (m : client_method) : outcome (option list_fields) :=
  match cm_list m with
  | None => Ok None
  | Some walk =>
      match list_root (cm_resp m) with
      | Ok root => omap Some (build_list_fields rt g root walk)
      | _ => Err "no list root"
      end
  end.

(* every list method's request can be built *)
Definition lists_ok (rt : rules_table) (g : env) (ms : list client_method) : outcome unit :=
  fold_left (fun acc m => obind acc (fun _ => omap (fun _ => tt) (method_list_fields rt g m))) ms (Ok tt).

(* the chain with the list requests: the client stage fails when a list request cannot be built *)
Definition with_lists (rt : rules_table) (g : env) (r : chain_result) : chain_result :=
  match cr_client r with
  | Ok (ms, _) =>
      match lists_ok rt g ms with
      | Ok _ => r
      | Err e => {| cr_source := cr_source r; cr_client := Err e; cr_swagger := Err e |}
      | Panic e => {| cr_source := cr_source r; cr_client := Panic e; cr_swagger := Panic e |}
      | OutOfFuel => {| cr_source := cr_source r; cr_client := OutOfFuel; cr_swagger := OutOfFuel |}
      end
  | _ => r
  end.

Definition run_chain_list (cc : code_config) (im : image) (anns : list ent_ann) (rt : rules_table) : chain_result :=
  with_lists rt (im_schemas im) (run_chain_ent cc im anns).
